#!/usr/bin/env python3
"""Regenerates /verif/MANIFEST.json from the table below (kept valid at all times)."""
import json, os
HERE = os.path.dirname(os.path.dirname(os.path.abspath(__file__)))
ids = [json.loads(l)["id"] for l in open(os.path.join(HERE, "properties.jsonl"))]

CHECKS = {
 "C08": dict(level="exploration", engine="bex", technique="exhaustive small-scope enumeration (all boundary parameter tuples; every legal chunking via stateless choice-sequence DFS) on the real chunk writer/reader against an independent spec codec",
   text="Every (length, timestamp, csid, chunk size, type, msid) tuple of the boundary domains is serialised by lal's real chunk writer and decoded by an independent RTMP 1.0 chunk decoder and by lal's own composer; every legal chunking (header format per message x interleaving of chunk streams, Set Chunk Size at every position, aggregates) that a reference encoder can produce for short message sequences is enumerated exhaustively (stateless DFS over the encoder's choice points) and decoded by lal's composer. Exhaustive within the listed domains, not a proof for all 2^24 lengths.",
   note="Trusted: lib/ref/rtmpchunk.go (reference codec written from the spec). Chunk size is scaled down instead of message length scaled up on the read side (composer compares only MsgLen/msg.Len()/peerChunkSize). Deltas stay below 0xFFFFFF as the property states.", design="C08"),
 "C18": dict(level="exploration", engine="bex", technique="exhaustive small-scope enumeration of value trees by node count, of all byte strings <= L over the marker alphabet, of every prefix and field mutation, and of nesting families to the 16 MiB limit in worker processes",
   text="All values lal can encode (leaf/key boundary alphabets), all AMF0 trees up to N nodes from a reference encoder, every strict prefix of each, every byte string up to length L over the 12-symbol marker alphabet and every 16/32-bit field mutation of valid encodings are pushed through all 14 exported readers; nesting families are decoded at depths up to what fits in a 16 MiB message, each in a subprocess so that stack exhaustion (uncatchable) is observed. Exhaustive within those bounds.",
   note="Trusted: lib/ref/amf0.go. Equality is modulo null/undefined members (skipped by lal's readers by design). Agreement with the spec reader is only demanded for canonical inputs.", design="C18"),
 "C09": dict(level="exploration", engine="bex", technique="exhaustive small-scope enumeration of frame length x flags x counters through the real Frame.Pack against a strict ISO 13818-1 reference demuxer",
   text="Every payload length in dense windows (1..184*5 quick / 184*12 thorough, +-200 around the 65535 PES-length boundary and around 200 KiB) x key x PTS==DTS/!= x audio/video PID x incoming continuity counter, plus timestamp values around 2^30..2^33, is packed by the real Frame.Pack and parsed by a strict reference demuxer that checks every header bit, stuffing, PCR, PES header, payload identity and counters; PAT/PMT for all codec pairs with CRC; all 4-frame sequences over a 6-letter alphabet for cross-frame continuity.",
   note="Trusted: lib/ref/ts.go. Payload bytes are opaque to Pack. Lengths outside the windows are not enumerated (the code has no length-dependent branch other than the first-packet capacity, the 184-byte remainder and the 65535 PES length).", design="C09"),
 "C11": dict(level="exploration", engine="bex", technique="exhaustive small-scope enumeration of tag parameters, all WebSocket lengths 0..70000, and all short tag sequences through the real file writer/reader and HTTP-FLV / WS-FLV sub sessions against reference FLV and RFC 6455 parsers",
   text="Every (type, boundary length, boundary timestamp) tag through PackHttpflvTag / RtmpMsg2FlvTag / ReadTag / FlvTag2RtmpMsg / ModTagTimestamp; MakeWsFrameHeader for every length 0..70000 plus large values; every sequence of <= 4 tags over a 6-letter alphabet written by the real FlvFileWriter (read back by FlvFileReader) and by real httpflv.SubSession objects (plain and WebSocket) over an in-memory connection, parsed by reference parsers.",
   note="Trusted: lib/ref/flv.go. Sub-session write queue forced to size 0 (synchronous). Live-path FLV output of a whole group is additionally covered by C01.", design="C11"),
 "C12": dict(level="exploration", engine="bex", technique="exhaustive small-scope enumeration of unit sizes/headers/clock/seq through the real RTP packers and unpack container, plus ALL arrival permutations and single duplications of short packet streams filtered by a reference reorder-buffer model",
   text="Every unit size around every multiple of the payload limit (L=4,8,16 dense; L=1200 to 300 KiB), every AVC (type 0..23 x NRI) and HEVC (type 0..47 x layer x tid) header, AVCC/Annex-B frames of 1-3 units, audio sizes, 4 clock rates x media times incl. the 32-bit RTP timestamp wrap x first sequence numbers near 65535, through lal's RtpPacker; packets are parsed by a reference RTP parser (limit, marker, seq, timestamp) and depacketised by RFC 6184/7798/3640 reference depacketisers and by lal's RtpUnpackContainer. Every permutation (first packet fixed) and every single duplication of 11 stream shapes x container capacity {2,3,4,16} x 5 first sequence numbers that the reference reorder-buffer model accepts must give the in-order output.",
   note="Trusted: lib/ref/rtp.go. 'Inside the window' is defined by a reference buffer model of capacity W (see assumptions in the evidence). Depacketised timestamps are C07's subject.", design="C12"),
 "C19": dict(level="exploration", engine="bex", technique="exhaustive small-scope enumeration: parameter-set lengths x content patterns through every representation, unit lists x start-code framings, all 2-byte AudioSpecificConfigs, all codec pairs for SDP, and the product of H.264 SPS syntax alternatives produced by an encoder model (reference writers/readers in lib/ref)",
   text="(a) SPS/PPS(/VPS) of lengths {natural,255,256,65535} x {1,2,3,4,255,256,65535} x 5 content patterns through lal's sequence-header builders and parsers (and reference-built headers incl. enhanced-RTMP), Annex-B conversions and SDP sprop attributes, compared byte for byte and against a reference record parser / RFC SDP reader; (b) every list of <=3 NAL units x every 3/4-byte start-code mix x leading/trailing zeros through Annex-B<->AVCC; (c) all 31x16x16 two-byte ASCs (+extension bytes) through Unpack/Pack, sequence header, SDP config and ADTS; (d) SDP for every codec pair read by lal and by an RFC 4566 reader; (e) ~150k (quick ~70k) H.264 SPS NAL units from an encoder model covering 16 profiles x chroma formats x scaling lists x POC types x interlace x cropping x VUI x sizes (with real emulation-prevention bytes), and 2k H.265 SPS, with the reported dimensions compared to the spec formulas.",
   note="Trusted: lib/ref/h26x.go (bit writer, exp-Golomb, emulation prevention, SPS syntax, dimension formulas), lib/ref/sdp.go. HEVC SPS model is basic (no VUI/extensions). Dimensions are read from the parser contexts that the stat API publishes, not through a live group.", design="C19"),
 "C01": dict(level="model_checking", engine="seqx", technique="explicit-state breadth-first search over publish/join/leave/re-publish event sequences of the real server (replay-from-root on a fresh logic.ServerManager per transition, fingerprint dedup), per-consumer contiguity monitor on bytes decoded by reference codecs; plus an exhaustive payload-length x timestamp shape sweep",
   text="For 8 (quick) / 12 (thorough) configurations of GOP cache size, per-GOP frame cap, merge-write size and FLV recording, every event sequence up to depth 5 (quick) / 8 (thorough, time-capped) over {publish one of 8 message kinds, join RTMP/HTTP-FLV/WS-FLV, leave oldest/newest, publisher leaves/arrives} is executed on a real ServerManager with real RTMP and HTTP-FLV sessions over in-memory connections; after every event each consumer's bytes are decoded by the reference RTMP/FLV/WebSocket readers and checked: known messages only, byte-identical payload (modulo @setDataFrame), identical timestamp, no duplicate, prologue before live data, live run contiguous per publisher incarnation and reaching the newest message up to the merge-write size; the FLV record file likewise. A shape sweep covers payload lengths on both sides of 128/4096 multiples x timestamps around 0xFFFFFF, 2^31, 2^32 and non-monotonic pairs.",
   note="Every explored trace is an implementation trace (no separate model). Subscriber write queues forced to 0 (the statement excludes back-pressure). Relay-push targets are covered by C17. Bounds: <=3 simultaneous consumers, 2 publisher incarnations, depth as stated; data independence argument for payload bytes beyond the classification prefix.", design="C01"),
 "C02": dict(level="model_checking", engine="seqx", technique="explicit-state breadth-first search over publish/join/leave/re-publish event sequences of the real server with a well-formed publisher (replay-from-root, fingerprint dedup); oracle = reference prologue/GOP model (plain lists) evaluated on bytes decoded by reference codecs",
   text="For 6 (quick) / 9 (thorough) GOP-cache configurations (gop_num 0..3, per-GOP cap 0..2, per protocol), every event sequence up to depth 6 / 9 over {publish metadata, two different video sequence headers, key, inter, AAC header, AAC frame; join RTMP / HTTP-FLV / HTTP-TS; leave; publisher leaves / arrives} is run on a real ServerManager; after every event each consumer's decoded stream is checked against the reference model: latest metadata and sequence headers before the first frame, every frame preceded by the header in force when it was published, first video frame is a key frame, replayed frames equal the last min(n, gop_num) reference GOPs (cap rule), replay contiguous with live data, nothing of a previous publisher once another is current, and a joiner of a stream without video gets the next message. TS consumers: PAT then PMT first, first video PES at a random-access point.",
   note="Every explored trace is an implementation trace. Publisher constrained to well-formed streams (frames after their header, inter after key). RTSP consumers' SDP-first rule is not covered here. Bounds: <=2 simultaneous consumers, 2 incarnations, depth as stated.", design="C02"),
}
NOT_YET = "check not built yet in this session (work in progress; see DESIGN.md section for the planned model-checking design)"

man = {
 "version": 1,
 "setup_cmd": "./setup.sh",
 "hooks": {
  "guard": "verif",
  "enable": "./vcheck <ID>: go build -tags verif -overlay <generated> ./harness/<id>; hook files live in /verif/hooks/<pkg>/zz_verif_*.go (//go:build verif) and are ADDED to /repo/pkg/<pkg> by the build overlay (tools/mkoverlay.py refuses to replace a repository file); no hook commit exists in the repository",
  "baseline_off_cmd": "cd /repo && GOFLAGS=-mod=mod go test -vet=off -count=1 -timeout 25m ./...",
  "source_commits": [],
  "add_only": True,
 },
 "engines": [
  {"name": "bex", "path": "lib/vk/choose.go + harness/<id>", "serves_properties": [k for k,v in CHECKS.items() if v["engine"]=="bex"], "kind_free_text": "bounded exhaustive enumeration of inputs / choice sequences (stateless DFS) against reference codecs in lib/ref"},
  {"name": "seqx", "path": "lib/world + harness/<id>", "serves_properties": [k for k,v in CHECKS.items() if v["engine"]=="seqx"], "kind_free_text": "explicit-state search over event sequences of the real server objects (fresh world per execution, replay-from-root, fingerprint dedup)"},
  {"name": "sched", "path": "lib/sched", "serves_properties": [k for k,v in CHECKS.items() if v["engine"]=="sched"], "kind_free_text": "cooperative scheduler, preemption-bounded DFS over thread schedules of the real code"},
 ],
 "checks": [],
 "not_applicable": [],
 "notes": "See DESIGN.md. Fixed defects and known findings: known_findings.jsonl. Demonstrated detections: seeded/ and mutants/.",
}
for i in ids:
    c = CHECKS.get(i)
    if not c:
        man["not_applicable"].append({"property_id": i, "reason": NOT_YET})
        continue
    man["checks"].append({
        "property_id": i,
        "quick_cmd": "./vcheck %s --tier quick" % i,
        "thorough_cmd": "./vcheck %s --tier thorough" % i,
        "evidence_file": "/verif/evidence/%s.json" % i,
        "replay_cmd_template": "./vcheck %s --replay {path}" % i,
        "engine": c["engine"],
        "level_claimed": {"category": c["level"], "text": c["text"], "design_ref": "DESIGN.md §" + c["design"]},
        "level_note": c["note"],
        "technique": c["technique"],
    })
json.dump(man, open(os.path.join(HERE, "MANIFEST.json"), "w"), indent=1)
print("checks:", [c["property_id"] for c in man["checks"]], "n/a:", len(man["not_applicable"]))
