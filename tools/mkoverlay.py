#!/usr/bin/env python3
"""Emit a go build -overlay JSON: every /verif/hooks/<pkg>/*.go is added to /repo/pkg/<pkg>/.
Files are only ever ADDED (never replace a repository file); a name clash is a hard error.
hooks/_naza/<path> entries replace files of the naza module in the module cache (dependency seams).
Generated rewrites (vgen) are appended when harness/<id>/VGEN exists."""
import json, os, subprocess, sys
here, repo, scr, hid = sys.argv[1:5]
replace = {}
hooks = os.path.join(here, "hooks")
for pkg in sorted(os.listdir(hooks)):
    d = os.path.join(hooks, pkg)
    if not os.path.isdir(d) or pkg.startswith("_"):
        continue
    for f in sorted(os.listdir(d)):
        if not f.endswith(".go"):
            continue
        dst = os.path.join(repo, "pkg", pkg, f)
        if os.path.exists(dst):
            sys.stderr.write("hook file would replace repository file: %s\n" % dst)
            sys.exit(2)
        replace[dst] = os.path.join(d, f)
# generated extracts of current repository sources (tools/vgen): added files only
vgen_bin = os.path.join(here, "bin", "vgen")
vgen_src = os.path.join(here, "tools", "vgen", "main.go")
fresh = os.path.exists(vgen_bin) and os.path.getmtime(vgen_bin) >= os.path.getmtime(vgen_src)
cmd = [vgen_bin] if fresh else ["go", "run", "./tools/vgen"]  # a stale binary is never used
out = subprocess.run(cmd + ["-repo", repo, "-out", scr], capture_output=True, text=True, cwd=here)
if out.returncode != 0:
    sys.stderr.write(out.stdout + out.stderr)
    sys.exit(2)
for dst, srcf in json.loads(out.stdout).items():
    if os.path.exists(dst) and not os.path.basename(srcf).startswith("gen_"):
        sys.stderr.write("generated file would replace repository file: %s\n" % dst)
        sys.exit(2)
    replace[dst] = srcf   # gen_* = mechanical selector rewrite of the CURRENT repository file
json.dump({"Replace": replace}, sys.stdout, indent=1)
