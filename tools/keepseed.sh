#!/bin/bash
# keepseed.sh <tag e.g. C08a> <property ID> [extra check IDs...]
# Confirms a sub-agent's seeded change (suite passes with it, demo fails with it and passes without)
# in a scratch worktree, runs our check(s) against it on /repo, and files it under /verif/seeded/<tag>/.
set -u
TAG="$1"; PID="$2"; shift 2; CHECKS="$PID $*"
SRC=/tmp/seedwork/$TAG
DST=/verif/seeded/$TAG
WT=/tmp/wtv/$TAG
export GOFLAGS=-mod=mod GOPROXY=off GOSUMDB=off GOTOOLCHAIN=local
[ -f $SRC/patch.diff ] || { echo "no patch for $TAG"; exit 2; }
rm -rf $WT; git -C /repo worktree prune; git -C /repo worktree add -q --detach $WT HEAD || exit 2
cleanup() { git -C /repo worktree remove --force $WT 2>/dev/null; }
trap cleanup EXIT
cd $WT
git apply $SRC/patch.diff 2>/dev/null || git apply --3way $SRC/patch.diff 2>/dev/null || { echo "$TAG: patch does not apply to current HEAD"; exit 3; }
git reset -q
git diff > /tmp/keepseed.$TAG.diff
[ -s /tmp/keepseed.$TAG.diff ] || { echo "$TAG: empty diff"; exit 3; }
SUITE=pass
(go build ./... && go test -vet=off -count=1 ./... ) > /tmp/keepseed.$TAG.suite 2>&1 || SUITE=FAIL
DEMO=$(ls $SRC/demo/*_test.go 2>/dev/null | head -1)
REL=$(head -5 "$DEMO" | grep -o 'pkg/[a-z0-9_]*/[A-Za-z0-9_]*_test\.go' | head -1)
PKG=$(dirname "$REL")
cp "$DEMO" "$WT/$REL"
DW=pass; go test ${DEMO_FLAGS:-} -vet=off -count=1 -run 'Seed' ./$PKG/ > /tmp/keepseed.$TAG.demo_with 2>&1 || DW=FAIL
git stash -q -- $(git diff --name-only) 2>/dev/null || git checkout -q -- $(git diff --name-only)
DWO=pass; go test ${DEMO_FLAGS:-} -vet=off -count=1 -run 'Seed' ./$PKG/ > /tmp/keepseed.$TAG.demo_without 2>&1 || DWO=FAIL
echo "$TAG: suite_with_change=$SUITE demo_with_change=$DW demo_without_change=$DWO"
if [ "$SUITE" != pass ] || [ "$DW" != FAIL ] || [ "$DWO" != pass ]; then echo "$TAG: NOT a valid seeded change, not kept"; tail -5 /tmp/keepseed.$TAG.suite /tmp/keepseed.$TAG.demo_with /tmp/keepseed.$TAG.demo_without; exit 4; fi
mkdir -p $DST/demo
cp /tmp/keepseed.$TAG.diff $DST/patch.diff
cp $SRC/demo/* $DST/demo/
cp $SRC/notes.md $DST/notes.md 2>/dev/null
cd /verif
RES=""
for C in $CHECKS; do
  OUT=$(tools/tryseed.sh $DST/patch.diff $C quick 2>&1)
  EX=$(echo "$OUT" | grep -o "^exit=[0-9]*" | head -1)
  KEYS=$(echo "$OUT" | grep -o "key=[^ ]*" | head -3 | tr '\n' ' ')
  echo "  check $C: $EX $KEYS"
  RES="$RES{\"check\":\"$C\",\"result\":\"$EX\",\"keys\":\"$KEYS\"},"
done
python3 - "$TAG" "$PID" "$SUITE" "$DW" "$DWO" "$REL" "${RES%,}" <<'PY'
import json,sys,re
tag,pid,suite,dw,dwo,rel,res=sys.argv[1:8]
notes=open(f'/verif/seeded/{tag}/notes.md').read() if __import__('os').path.exists(f'/verif/seeded/{tag}/notes.md') else ''
meta={"tag":tag,"property":pid,"origin":"fresh sub-agent given only the property text and a scratch worktree",
 "needs_to_manifest":"see notes.md (written by the sub-agent)",
 "confirmed_by_us":{"repo_head":__import__('subprocess').check_output(['git','-C','/repo','rev-parse','--short','HEAD']).decode().strip(),
   "suite_with_change":suite,"demo_with_change":dw,"demo_without_change":dwo,"demo_file":rel,
   "commands":["go build ./... && go test -vet=off -count=1 ./...  (scratch worktree, change applied)",
               "go test -vet=off -count=1 -run Seed ./"+rel.rsplit('/',1)[0]+"/  (with and without the change)",
               "tools/tryseed.sh seeded/"+tag+"/patch.diff <check> quick  (git -C /repo apply; ./vcheck; git reset --hard)"]},
 "our_checks":json.loads("["+res+"]")}
json.dump(meta,open(f'/verif/seeded/{tag}/meta.json','w'),indent=1)
PY
