// vgen generates, from /repo's CURRENT sources, the few rewrites the harnesses need. Nothing is
// pre-baked: the generated code is a mechanical extract of the file as it is now. If a pattern is
// not found the tool fails loudly (exit 2: the harness cannot bind) and never guesses.
//
//	tick: the statement list under `case <-t.C:` of (*ServerManager).RunLoop in
//	      pkg/logic/server_manager__.go becomes (*ServerManager).VerifTick(*uint32) in an ADDED file.
package main

import (
	"encoding/json"
	"flag"
	"fmt"
	"go/ast"
	"go/parser"
	"go/token"
	"os"
	"path/filepath"
	"sort"
	"strings"
)

func die(f string, a ...interface{}) {
	fmt.Fprintf(os.Stderr, "vgen: "+f+"\n", a...)
	os.Exit(2)
}

func main() {
	repo := flag.String("repo", "/repo", "")
	out := flag.String("out", "", "output directory for generated files")
	flag.Parse()
	res := map[string]string{}
	genTick(*repo, *out, res)
	genApiMux(*repo, *out, res)
	genNazaConn(*repo, *out, res)
	// selector rewrites (generated copies REPLACE the file in the build overlay; the only change is
	// the named selector): the wall clock of pkg/logic and the dialers of the client sessions
	rewriteSel(*repo, *out, res, "pkg/logic", "time", "Now", "verifNow", true)
	rewriteSel(*repo, *out, res, "pkg/rtmp/client_session.go", "net", "Dial", "verifDial", false)
	rewriteSel(*repo, *out, res, "pkg/rtsp/client_command_session.go", "net", "Dial", "verifDial", false)
	rewriteSel(*repo, *out, res, "pkg/httpflv/client_pull_session.go", "net", "Dial", "verifDial", false)
	// the HLS handler's 1 s session sweep runs in a goroutine nothing can stop; harness worlds are
	// created by the hundred thousand, so its ticker is created through a hook (the sweep itself
	// is invoked explicitly where a check needs it)
	rewriteGo(*repo, *out, res, "pkg/hls/server_handler.go", "sh.runLoop()", "verifGo(sh.runLoop)")
	// lal's mutexes become schedulable (C20): sync.Mutex / sync.RWMutex -> zzverifsync.Mutex / RWMutex
	for _, d := range []string{"pkg/logic", "pkg/rtsp", "pkg/hls", "pkg/base"} {
		rewriteMutex(*repo, *out, res, d)
	}
	// BaseInSession.SetObserver delivers the SDP from a goroutine of its own: counted, so that a step
	// is settled only when it has run
	rewriteGoLit(*repo, *out, res, "pkg/rtsp/base_in_session.go", "session.observer.OnSdp(session.sdpCtx)", "verifGo")
	// the relay goroutines a group starts (pull, push) are not tied to any connection the environment
	// owns: they are counted, so that quiescence can be decided exactly
	instrumentGo(*repo, *out, res, "pkg/logic/group__relay_pull.go", "verifRelaySpawn", "verifRelayDone")
	instrumentGo(*repo, *out, res, "pkg/logic/group__relay_push.go", "verifRelaySpawn", "verifRelayDone")
	// the GB28181 session opened by start_rtp_pub runs in a goroutine of its own too
	instrumentGo(*repo, *out, res, "pkg/logic/group__in.go", "verifRelaySpawn", "verifRelayDone")
	// a push goroutine registers its session after Start() returned; the environment waits for that
	instrumentFunc(*repo, *out, res, "pkg/logic/group__relay_push.go", "AddRtmpPushSession", "defer verifPushAdded(group)")
	// the clock of HLS sub-sessions (last request time, expiry) goes through a hook: an environment with a
	// clock of its own can then let them expire
	rewriteSel(*repo, *out, res, "pkg/hls/server_sub_session.go", "time", "Now", "verifNow", false)
	// the deferred HLS directory cleanup (a goroutine that sleeps, then looks the group up and removes
	// files) goes through a hook, so that an environment can run it as a thread / at an instant of its own
	rewriteText(*repo, *out, res, "pkg/logic/server_manager__.go", "\t\tdefertaskthread.Go(\n", "\t\tsm.verifDeferGo(\n")
	json.NewEncoder(os.Stdout).Encode(res)
}

// rewriteText replaces the one occurrence of old by repl in a file (must occur exactly once).
func rewriteText(repo, out string, res map[string]string, rel, old, repl string) {
	src := filepath.Join(repo, rel)
	b := readCur(res, src)
	if strings.Count(string(b), old) != 1 {
		die("pattern %q occurs %d times in %s (want 1)", old, strings.Count(string(b), old), rel)
	}
	outb := []byte(strings.Replace(string(b), old, repl, 1))
	outb = append(outb, []byte("\n// keeps the import referenced after the generated rewrite\nvar _ = defertaskthread.NewDeferTaskThread\n")...)
	p := filepath.Join(out, "gen_"+strings.ReplaceAll(rel, "/", "_"))
	if err := os.WriteFile(p, outb, 0o644); err != nil {
		die("%v", err)
	}
	res[src] = p
}

// genNazaConn: a copy of naza's pkg/connection/connection.go (the version /repo/go.mod pins) in which
// every enqueue on the asynchronous write channel is followed by verifPend(c.Conn, 1) and every item
// the write loop has handled by verifPend(c.Conn, -1): the in-memory connections of the harness then
// know how many queued writes are outstanding, so that quiescence is exact with write queues enabled.
func genNazaConn(repo, out string, res map[string]string) {
	gm, err := os.ReadFile(filepath.Join(repo, "go.mod"))
	if err != nil {
		die("%v", err)
	}
	ver := ""
	for _, l := range strings.Split(string(gm), "\n") {
		f := strings.Fields(l)
		for i := range f {
			if f[i] == "github.com/q191201771/naza" && i+1 < len(f) {
				ver = f[i+1]
			}
		}
	}
	if ver == "" {
		die("naza version not found in go.mod")
	}
	cache := os.Getenv("GOMODCACHE")
	if cache == "" {
		home, _ := os.UserHomeDir()
		gp := os.Getenv("GOPATH")
		if gp == "" {
			gp = filepath.Join(home, "go")
		}
		cache = filepath.Join(gp, "pkg", "mod")
	}
	dir := filepath.Join(cache, "github.com", "q191201771", "naza@"+ver, "pkg", "connection")
	src := filepath.Join(dir, "connection.go")
	b, err := os.ReadFile(src)
	if err != nil {
		die("%v", err)
	}
	fset := token.NewFileSet()
	af, err := parser.ParseFile(fset, src, b, parser.ParseComments)
	if err != nil {
		die("%v", err)
	}
	type ins struct {
		at   int
		text string
	}
	var inss []ins
	isWChan := func(e ast.Expr) bool {
		se, ok := e.(*ast.SelectorExpr)
		return ok && se.Sel.Name == "wChan"
	}
	inClause := map[ast.Node]bool{}
	nPlus, nMinus := 0, 0
	ast.Inspect(af, func(n ast.Node) bool {
		cc, ok := n.(*ast.CommClause)
		if !ok || cc.Comm == nil {
			return true
		}
		if ss, ok := cc.Comm.(*ast.SendStmt); ok && isWChan(ss.Chan) {
			inClause[ss] = true
			inss = append(inss, ins{fset.Position(cc.Colon).Offset + 1, "\nverifPend(c.Conn, 1)\n"})
			nPlus++
		}
		if as, ok := cc.Comm.(*ast.AssignStmt); ok && len(as.Rhs) == 1 {
			if ue, ok := as.Rhs[0].(*ast.UnaryExpr); ok && ue.Op == token.ARROW && isWChan(ue.X) && len(cc.Body) > 0 {
				inss = append(inss, ins{fset.Position(cc.Body[len(cc.Body)-1].End()).Offset, "\nverifPend(c.Conn, -1)\n"})
				nMinus++
			}
		}
		return true
	})
	ast.Inspect(af, func(n ast.Node) bool {
		if ss, ok := n.(*ast.SendStmt); ok && isWChan(ss.Chan) && !inClause[ss] {
			inss = append(inss, ins{fset.Position(ss.End()).Offset, "\nverifPend(c.Conn, 1)\n"})
			nPlus++
		}
		return true
	})
	if nPlus < 2 || nMinus != 1 {
		die("pattern not found: sends on / receive from wChan in %s (found %d / %d)", src, nPlus, nMinus)
	}
	sort.Slice(inss, func(i, j int) bool { return inss[i].at < inss[j].at })
	var outb []byte
	prev := 0
	for _, in := range inss {
		outb = append(outb, b[prev:in.at]...)
		outb = append(outb, in.text...)
		prev = in.at
	}
	outb = append(outb, b[prev:]...)
	// (a file added to a module-cache package by the overlay is not seen by the go command's module
	// index, so the helper lives in the generated copy itself)
	outb = append(outb, []byte("\n// verifPend tells an instrumented net.Conn how many asynchronous writes are outstanding.\nfunc verifPend(c net.Conn, d int) {\n\tif p, ok := c.(interface{ VerifPending(int) }); ok {\n\t\tp.VerifPending(d)\n\t}\n}\n")...)
	p := filepath.Join(out, "gen_naza_connection.go")
	if err := os.WriteFile(p, outb, 0o644); err != nil {
		die("%v", err)
	}
	res[src] = p
}

// genApiMux: the statements of (*HttpApiServer).RunLoop up to (not including) `var srv http.Server`
// - the route table - become (*HttpApiServer).VerifMux() in an ADDED file.
func genApiMux(repo, out string, res map[string]string) {
	src := filepath.Join(repo, "pkg/logic/http_api.go")
	b, err := os.ReadFile(src)
	if err != nil {
		die("%v", err)
	}
	fset := token.NewFileSet()
	f, err := parser.ParseFile(fset, src, b, 0)
	if err != nil {
		die("%v", err)
	}
	text := ""
	for _, d := range f.Decls {
		fd, ok := d.(*ast.FuncDecl)
		if !ok || fd.Name.Name != "RunLoop" || fd.Recv == nil || fd.Body == nil {
			continue
		}
		var stmts []ast.Stmt
		for _, st := range fd.Body.List {
			if ds, ok := st.(*ast.DeclStmt); ok {
				if strings.Contains(string(b[fset.Position(ds.Pos()).Offset:fset.Position(ds.End()).Offset]), "http.Server") {
					break
				}
			}
			stmts = append(stmts, st)
		}
		if len(stmts) < 2 {
			die("pattern not found: route table in (*HttpApiServer).RunLoop")
		}
		text = string(b[fset.Position(stmts[0].Pos()).Offset:fset.Position(stmts[len(stmts)-1].End()).Offset])
	}
	if !strings.Contains(text, "mux := http.NewServeMux()") || !strings.Contains(text, "HandleFunc") {
		die("pattern not found: `mux := http.NewServeMux()` ... in (*HttpApiServer).RunLoop of %s", src)
	}
	gen := "//go:build verif\n\n// Code generated by /verif/tools/vgen from pkg/logic/http_api.go; DO NOT EDIT.\n\npackage logic\n\nimport \"net/http\"\n\n" +
		"// VerifMux builds the route table of RunLoop without serving.\nfunc (h *HttpApiServer) VerifMux() *http.ServeMux {\n\t" + text + "\n\treturn mux\n}\n"
	p := filepath.Join(out, "zz_verif_gen_apimux.go")
	if err := os.WriteFile(p, []byte(gen), 0o644); err != nil {
		die("%v", err)
	}
	res[filepath.Join(repo, "pkg/logic/zz_verif_gen_apimux.go")] = p
}

func genTick(repo, out string, res map[string]string) {
	src := filepath.Join(repo, "pkg/logic/server_manager__.go")
	b, err := os.ReadFile(src)
	if err != nil {
		die("%v", err)
	}
	fset := token.NewFileSet()
	f, err := parser.ParseFile(fset, src, b, 0)
	if err != nil {
		die("%v", err)
	}
	var body []ast.Stmt
	for _, d := range f.Decls {
		fd, ok := d.(*ast.FuncDecl)
		if !ok || fd.Name.Name != "RunLoop" || fd.Recv == nil {
			continue
		}
		ast.Inspect(fd, func(n ast.Node) bool {
			cc, ok := n.(*ast.CommClause)
			if !ok || cc.Comm == nil {
				return true
			}
			es, ok := cc.Comm.(*ast.ExprStmt)
			if !ok {
				return true
			}
			ue, ok := es.X.(*ast.UnaryExpr)
			if !ok || ue.Op != token.ARROW {
				return true
			}
			se, ok := ue.X.(*ast.SelectorExpr)
			if !ok || se.Sel.Name != "C" {
				return true
			}
			if id, ok := se.X.(*ast.Ident); !ok || id.Name != "t" {
				return true
			}
			body = cc.Body
			return false
		})
	}
	if len(body) == 0 {
		die("pattern not found: `case <-t.C:` in (*ServerManager).RunLoop of %s", src)
	}
	start := fset.Position(body[0].Pos()).Offset
	end := fset.Position(body[len(body)-1].End()).Offset
	text := string(b[start:end])
	// imports actually referenced by the extracted statements
	used := map[string]bool{}
	for _, s := range body {
		ast.Inspect(s, func(n ast.Node) bool {
			if se, ok := n.(*ast.SelectorExpr); ok {
				if id, ok := se.X.(*ast.Ident); ok {
					used[id.Name] = true
				}
			}
			return true
		})
	}
	var imps []string
	for _, im := range f.Imports {
		path := strings.Trim(im.Path.Value, `"`)
		name := filepath.Base(path)
		if im.Name != nil {
			name = im.Name.Name
		}
		if used[name] && name != "_" {
			if im.Name != nil {
				imps = append(imps, im.Name.Name+" "+im.Path.Value)
			} else {
				imps = append(imps, im.Path.Value)
			}
		}
	}
	needBase := true
	for _, i := range imps {
		if strings.Contains(i, "lal/pkg/base\"") {
			needBase = false
		}
	}
	if needBase {
		imps = append(imps, `"github.com/q191201771/lal/pkg/base"`)
	}
	gen := "//go:build verif\n\n// Code generated by /verif/tools/vgen from pkg/logic/server_manager__.go; DO NOT EDIT.\n\npackage logic\n\nimport (\n\t" +
		strings.Join(imps, "\n\t") + "\n)\n\n" +
		"// VerifTick runs the body of RunLoop's `case <-t.C:` once.\nfunc (sm *ServerManager) VerifTick(ptick *uint32) {\n" +
		"\ttickCount := *ptick\n\tuis := uint32(sm.config.HttpNotifyConfig.UpdateIntervalSec)\n\tvar updateInfo base.UpdateInfo\n\t_, _ = uis, updateInfo\n\t" +
		text + "\n\t*ptick = tickCount\n}\n"
	p := filepath.Join(out, "zz_verif_gen_tick.go")
	if err := os.WriteFile(p, []byte(gen), 0o644); err != nil {
		die("%v", err)
	}
	res[filepath.Join(repo, "pkg/logic/zz_verif_gen_tick.go")] = p
}

// rewriteSel replaces every selector expression pkg.name by the identifier repl in a file, or in
// every non-test file of a directory (files without an occurrence are left alone). With
// mustFind=false for a single file it is still an error if nothing was found.
// readCur returns the current content of a repository file: the copy an earlier rewrite generated,
// if any (rewrites compose), else the repository file itself.
func readCur(res map[string]string, src string) []byte {
	p := src
	if g, ok := res[src]; ok {
		p = g
	}
	b, err := os.ReadFile(p)
	if err != nil {
		die("%v", err)
	}
	return b
}

// instrumentGo brackets every `go func(...) {...}(...)` statement of a file inside methods of *Group:
// `spawn(group)` is inserted before the statement and `defer done(group)` as the first statement of
// the function literal. Nothing else changes.
func instrumentGo(repo, out string, res map[string]string, rel, spawn, done string) {
	src := filepath.Join(repo, rel)
	b := readCur(res, src)
	fset := token.NewFileSet()
	af, err := parser.ParseFile(fset, src, b, parser.ParseComments)
	if err != nil {
		die("%v", err)
	}
	type ins struct {
		at   int
		text string
	}
	var inss []ins
	for _, d := range af.Decls {
		fd, ok := d.(*ast.FuncDecl)
		if !ok || fd.Recv == nil || len(fd.Recv.List) != 1 || len(fd.Recv.List[0].Names) != 1 || fd.Recv.List[0].Names[0].Name != "group" || fd.Body == nil {
			continue
		}
		ast.Inspect(fd.Body, func(n ast.Node) bool {
			g, ok := n.(*ast.GoStmt)
			if !ok {
				return true
			}
			fl, ok := g.Call.Fun.(*ast.FuncLit)
			if !ok {
				return true
			}
			inss = append(inss, ins{fset.Position(g.Pos()).Offset, spawn + "(group)\n"})
			inss = append(inss, ins{fset.Position(fl.Body.Lbrace).Offset + 1, "\ndefer " + done + "(group)\n"})
			return true
		})
	}
	if len(inss) == 0 {
		die("pattern not found: go func literal in %s", rel)
	}
	sort.Slice(inss, func(i, j int) bool { return inss[i].at < inss[j].at })
	var outb []byte
	prev := 0
	for _, in := range inss {
		outb = append(outb, b[prev:in.at]...)
		outb = append(outb, in.text...)
		prev = in.at
	}
	outb = append(outb, b[prev:]...)
	p := filepath.Join(out, "gen_"+strings.ReplaceAll(rel, "/", "_"))
	if err := os.WriteFile(p, outb, 0o644); err != nil {
		die("%v", err)
	}
	res[src] = p
}

// instrumentFunc inserts stmt as the first statement of the named method of *Group.
func instrumentFunc(repo, out string, res map[string]string, rel, fn, stmt string) {
	src := filepath.Join(repo, rel)
	b := readCur(res, src)
	fset := token.NewFileSet()
	af, err := parser.ParseFile(fset, src, b, parser.ParseComments)
	if err != nil {
		die("%v", err)
	}
	at := -1
	for _, d := range af.Decls {
		fd, ok := d.(*ast.FuncDecl)
		if ok && fd.Recv != nil && fd.Name.Name == fn && fd.Body != nil && len(fd.Recv.List) == 1 && len(fd.Recv.List[0].Names) == 1 && fd.Recv.List[0].Names[0].Name == "group" {
			at = fset.Position(fd.Body.Lbrace).Offset + 1
		}
	}
	if at < 0 {
		die("pattern not found: method %s in %s", fn, rel)
	}
	outb := append(append(append([]byte{}, b[:at]...), ("\n"+stmt+"\n")...), b[at:]...)
	p := filepath.Join(out, "gen_"+strings.ReplaceAll(rel, "/", "_"))
	if err := os.WriteFile(p, outb, 0o644); err != nil {
		die("%v", err)
	}
	res[src] = p
}

func rewriteSel(repo, out string, res map[string]string, rel, pkg, name, repl string, isDir bool) {
	var files []string
	if isDir {
		ents, err := os.ReadDir(filepath.Join(repo, rel))
		if err != nil {
			die("%v", err)
		}
		for _, e := range ents {
			n := e.Name()
			if strings.HasSuffix(n, ".go") && !strings.HasSuffix(n, "_test.go") && !strings.HasPrefix(n, "zz_verif") {
				files = append(files, filepath.Join(rel, n))
			}
		}
	} else {
		files = []string{rel}
	}
	total := 0
	for _, f := range files {
		src := filepath.Join(repo, f)
		b := readCur(res, src)
		fset := token.NewFileSet()
		af, err := parser.ParseFile(fset, src, b, parser.ParseComments)
		if err != nil {
			die("%v", err)
		}
		type span struct {
			lo, hi int
			repl   string
		}
		var spans []span
		otherUse := false
		// inside a method of *Group (receiver named group) the clock is the group's own
		// (group.verifNow, per ServerManager), so that concurrently explored worlds do not share time
		recvRepl := map[int]string{}
		for _, d := range af.Decls {
			fd, ok := d.(*ast.FuncDecl)
			if !ok || fd.Recv == nil || len(fd.Recv.List) != 1 || len(fd.Recv.List[0].Names) != 1 || fd.Body == nil {
				continue
			}
			st, ok := fd.Recv.List[0].Type.(*ast.StarExpr)
			if !ok {
				continue
			}
			tn, ok := st.X.(*ast.Ident)
			if !ok || tn.Name != "Group" || fd.Recv.List[0].Names[0].Name != "group" || repl != "verifNow" {
				continue
			}
			ast.Inspect(fd.Body, func(n ast.Node) bool {
				if se, ok := n.(*ast.SelectorExpr); ok {
					recvRepl[fset.Position(se.Pos()).Offset] = "group.verifNow"
				}
				return true
			})
		}
		ast.Inspect(af, func(n ast.Node) bool {
			se, ok := n.(*ast.SelectorExpr)
			if !ok {
				return true
			}
			id, ok := se.X.(*ast.Ident)
			if !ok || id.Name != pkg {
				return true
			}
			if se.Sel.Name == name {
				spans = append(spans, span{fset.Position(se.Pos()).Offset, fset.Position(se.End()).Offset, recvRepl[fset.Position(se.Pos()).Offset]})
			} else {
				otherUse = true
			}
			return true
		})
		if len(spans) == 0 {
			continue
		}
		total += len(spans)
		outb := []byte{}
		prev := 0
		for _, sp := range spans {
			outb = append(outb, b[prev:sp.lo]...)
			if sp.repl != "" {
				outb = append(outb, sp.repl...)
			} else {
				outb = append(outb, repl...)
			}
			prev = sp.hi
		}
		outb = append(outb, b[prev:]...)
		if !otherUse {
			// keep the import used
			outb = append(outb, []byte("\n// keeps the import referenced after the generated rewrite\nvar _ = "+pkg+"."+keepSym(pkg)+"\n")...)
		}
		p := filepath.Join(out, "gen_"+strings.ReplaceAll(f, "/", "_"))
		if err := os.WriteFile(p, outb, 0o644); err != nil {
			die("%v", err)
		}
		res[src] = p
	}
	if total == 0 {
		die("pattern not found: %s.%s in %s", pkg, name, rel)
	}
}

func keepSym(pkg string) string {
	switch pkg {
	case "time":
		return "Second"
	case "net":
		return "IPv4len"
	}
	return "X"
}

// rewriteMutex replaces the types sync.Mutex and sync.RWMutex in every non-test file of a package
// directory by zzverifsync.Mutex / RWMutex and adds the import.
func rewriteMutex(repo, out string, res map[string]string, rel string) {
	ents, err := os.ReadDir(filepath.Join(repo, rel))
	if err != nil {
		die("%v", err)
	}
	for _, e := range ents {
		n := e.Name()
		if !strings.HasSuffix(n, ".go") || strings.HasSuffix(n, "_test.go") || strings.HasPrefix(n, "zz_verif") {
			continue
		}
		src := filepath.Join(repo, rel, n)
		b := readCur(res, src)
		fset := token.NewFileSet()
		af, err := parser.ParseFile(fset, src, b, parser.ParseComments)
		if err != nil {
			die("%v", err)
		}
		type span struct{ lo, hi int }
		var spans []span
		other := false
		ast.Inspect(af, func(nd ast.Node) bool {
			se, ok := nd.(*ast.SelectorExpr)
			if !ok {
				return true
			}
			id, ok := se.X.(*ast.Ident)
			if !ok || id.Name != "sync" {
				return true
			}
			if se.Sel.Name == "Mutex" || se.Sel.Name == "RWMutex" {
				spans = append(spans, span{fset.Position(id.Pos()).Offset, fset.Position(id.End()).Offset})
			} else {
				other = true
			}
			return true
		})
		if len(spans) == 0 {
			continue
		}
		var outb []byte
		prev := 0
		for _, sp := range spans {
			outb = append(outb, b[prev:sp.lo]...)
			outb = append(outb, "zzverifsync"...)
			prev = sp.hi
		}
		outb = append(outb, b[prev:]...)
		// import: right after the package clause
		pe := fset.Position(af.Name.End()).Offset
		imp := "\nimport \"github.com/q191201771/lal/pkg/zzverifsync\"\n"
		outb = append(append(append([]byte{}, outb[:pe]...), imp...), outb[pe:]...)
		if !other {
			outb = append(outb, []byte("\n// keeps the import referenced after the generated rewrite\nvar _ sync.Once\n")...)
		}
		p := filepath.Join(out, "gen_"+strings.ReplaceAll(filepath.Join(rel, n), "/", "_"))
		if err := os.WriteFile(p, outb, 0o644); err != nil {
			die("%v", err)
		}
		res[src] = p
	}
}

// rewriteGoLit replaces `go func() {...}()` (a literal without arguments whose text contains marker)
// by wrapper(func() {...}).
func rewriteGoLit(repo, out string, res map[string]string, rel, marker, wrapper string) {
	src := filepath.Join(repo, rel)
	b := readCur(res, src)
	fset := token.NewFileSet()
	af, err := parser.ParseFile(fset, src, b, parser.ParseComments)
	if err != nil {
		die("%v", err)
	}
	lo, hi, flo, fhi := -1, -1, -1, -1
	ast.Inspect(af, func(n ast.Node) bool {
		g, ok := n.(*ast.GoStmt)
		if !ok {
			return true
		}
		fl, ok := g.Call.Fun.(*ast.FuncLit)
		if !ok || len(g.Call.Args) != 0 || len(fl.Type.Params.List) != 0 {
			return true
		}
		a, z := fset.Position(fl.Pos()).Offset, fset.Position(fl.End()).Offset
		if strings.Contains(string(b[a:z]), marker) {
			lo, hi, flo, fhi = fset.Position(g.Pos()).Offset, fset.Position(g.End()).Offset, a, z
		}
		return true
	})
	if lo < 0 {
		die("pattern not found: go func literal containing %q in %s", marker, rel)
	}
	outb := append([]byte{}, b[:lo]...)
	outb = append(outb, (wrapper + "(")...)
	outb = append(outb, b[flo:fhi]...)
	outb = append(outb, ")"...)
	outb = append(outb, b[hi:]...)
	p := filepath.Join(out, "gen_"+strings.ReplaceAll(rel, "/", "_"))
	if err := os.WriteFile(p, outb, 0o644); err != nil {
		die("%v", err)
	}
	res[src] = p
}

// rewriteGo replaces the statement `go <call>` (matched textually on the call) by repl.
func rewriteGo(repo, out string, res map[string]string, rel, call, repl string) {
	src := filepath.Join(repo, rel)
	b := readCur(res, src)
	fset := token.NewFileSet()
	af, err := parser.ParseFile(fset, src, b, parser.ParseComments)
	if err != nil {
		die("%v", err)
	}
	lo, hi := -1, -1
	ast.Inspect(af, func(n ast.Node) bool {
		g, ok := n.(*ast.GoStmt)
		if !ok {
			return true
		}
		cl, ch := fset.Position(g.Call.Pos()).Offset, fset.Position(g.Call.End()).Offset
		if string(b[cl:ch]) == call {
			lo, hi = fset.Position(g.Pos()).Offset, ch
		}
		return true
	})
	if lo < 0 {
		die("pattern not found: `go %s` in %s", call, rel)
	}
	outb := append(append(append([]byte{}, b[:lo]...), repl...), b[hi:]...)
	p := filepath.Join(out, "gen_"+strings.ReplaceAll(rel, "/", "_"))
	if err := os.WriteFile(p, outb, 0o644); err != nil {
		die("%v", err)
	}
	res[src] = p
}
