#!/bin/bash
# tryseed.sh <patch.diff> <ID> [tier]: apply a seeded change to /repo, run the check, always revert.
P="$1"; ID="$2"; TIER="${3:-quick}"
cd /repo || exit 2
if [ -n "$(git status --porcelain)" ]; then echo "repo not clean"; exit 2; fi
git apply "$P" 2>/dev/null || git apply --3way "$P" 2>/dev/null || { echo "patch does not apply"; git reset -q --hard HEAD; exit 2; }
git reset -q   # keep the change in the working tree only
cd /verif && ./vcheck "$ID" --tier "$TIER" > /tmp/tryseed.$$.out 2>&1
echo "exit=$?"
grep -E "^(VIOLATION|KNOWN|INFRA|$ID tier)" /tmp/tryseed.$$.out | cut -c1-400 | head -8
grep -q -E "^(VIOLATION|$ID tier)" /tmp/tryseed.$$.out || tail -5 /tmp/tryseed.$$.out
rm -f /tmp/tryseed.$$.out
git -C /repo reset -q --hard HEAD && git -C /repo status --porcelain | head -3
