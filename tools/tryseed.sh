#!/bin/bash
# tryseed.sh <patch.diff> <ID> [tier]: apply a seeded change to /repo, run the check, always revert.
P="$1"; ID="$2"; TIER="${3:-quick}"
cd /repo || exit 2
if [ -n "$(git status --porcelain)" ]; then echo "repo not clean"; exit 2; fi
git apply "$P" || { echo "patch does not apply"; exit 2; }
cd /verif && ./vcheck "$ID" --tier "$TIER" 2>&1 | grep -E "^(VIOLATION|KNOWN|INFRA|$ID tier)" | cut -c1-400 | head -8
echo "exit=${PIPESTATUS[0]}"
git -C /repo checkout -- . && git -C /repo status --porcelain | head -3
