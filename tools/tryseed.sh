#!/bin/bash
# tryseed.sh <patch.diff> <ID> [tier]: run a check against a scratch checkout of /repo's HEAD with a
# seeded change applied (VERIF_REPO); /repo itself is not touched. Evidence goes to a scratch directory.
P="$(readlink -f "$1")"; ID="$2"; TIER="${3:-quick}"
WT=/tmp/wtv/try.$$
git -C /repo worktree prune
git -C /repo worktree add -q --detach "$WT" HEAD || exit 2
cleanup() { git -C /repo worktree remove --force "$WT" 2>/dev/null; rm -rf "/tmp/tryseed.$$.root"; }
trap cleanup EXIT
( cd "$WT" && (git apply "$P" 2>/dev/null || git apply --3way "$P" 2>/dev/null) ) || { echo "patch does not apply"; exit 2; }
# a private copy of the verif tree's evidence directory so that concurrent runs do not overwrite each other
ROOT=/tmp/tryseed.$$.root
mkdir -p "$ROOT/evidence"
cd /verif && VERIF_REPO="$WT" VERIF_EVIDENCE_ROOT="$ROOT" ./vcheck "$ID" --tier "$TIER" > /tmp/tryseed.$$.out 2>&1
echo "exit=$?"
grep -E "^(VIOLATION|KNOWN|INFRA|$ID tier)" /tmp/tryseed.$$.out | cut -c1-400 | head -8
grep -q -E "^(VIOLATION|$ID tier)" /tmp/tryseed.$$.out || tail -5 /tmp/tryseed.$$.out
rm -f /tmp/tryseed.$$.out
