import json,sys
pid=sys.argv[1]; n=sys.argv[2] if len(sys.argv)>2 else "a"
for l in open('/verif/properties.jsonl'):
    p=json.loads(l)
    if p['id']==pid: break
wt=f"/tmp/wt/{pid}{n}"
out=f"/tmp/seedwork/{pid}{n}"
print(f"""You are helping test a verification framework for the Go live-streaming server q191201771/lal. Your job: craft ONE realistic, subtle code change (a "seeded defect") to lal that BREAKS the semantic property below while the repository still compiles and its existing test suite still passes, plus a small demonstration that fails with your change and passes without it.

Your private scratch checkout of the repository is the git worktree at {wt} (already created; work ONLY there — never touch /repo or /verif, and do not read anything under /verif). Write your deliverables to {out}/ (create it).

Every shell call needs: export GOFLAGS=-mod=mod GOPROXY=off GOSUMDB=off GOTOOLCHAIN=local   (the sandbox is offline; Go 1.23).

PROPERTY {pid}: {p['title']}
Statement: {p['statement']}
Quantified over: {p['quantifier']['text']}
Relevant files: {', '.join(p['anchors']['files'])}

Requirements for the change:
- It must be the kind of mistake a maintainer could plausibly make in a refactor/optimisation/bugfix (off-by-one at a boundary, wrong comparison operator, state not reset, cursor advanced too early, check moved after use, lock scope narrowed, buffer shared, condition dropped for one branch...). Not a blatant sabotage, not something every ordinary use would expose at once: it should need something SPECIFIC to manifest — a particular input size/value at a boundary, a particular interleaving or join instant, a multi-step sequence of operations, a fault at a particular point, or two cooperating sites that each look fine alone.
- Variant hint: you are variant "{n}" — if "a", pick what you consider the most natural subtle change; if "b", deliberately pick a DIFFERENT mechanism/file than the most obvious one (e.g. a less central file from the list, or a stateful/sequence-dependent effect rather than a single-value boundary); if "c" or "d", go for a less-travelled path among the relevant files: a secondary protocol / transport / codec variant, a teardown or error path, a configuration-dependent branch, or an effect that only shows after a history of several operations; if "e" or later, assume the obvious mistakes have already been tried: choose a mechanism that involves an unusual configuration option, an interaction between two features (two protocols, two sessions of different kinds, a feature flag plus a particular instant), or a rarely used API entry point.
- It must touch only non-test .go files under pkg/ (1-15 changed lines is ideal).
- `cd {wt} && go build ./... && go test -vet=off -count=1 ./...` must still pass with the change (run it and confirm; all packages ok).
- Provide a demonstration: a Go test file (e.g. pkg/<x>/zz_seed_demo_test.go, placed in the worktree but NOT part of the patch) or a small main program, that FAILS with the change applied and PASSES on the unmodified tree. Run it both ways (use `git diff > /tmp/your.patch; git checkout .; ...; git apply /tmp/your.patch` - do NOT use `git stash`: the stash is shared by all worktrees of this repository and other agents use it concurrently) and confirm.

Deliverables in {out}/ :
- patch.diff  : `git diff` of ONLY your change to non-test files (must apply with `git apply` at the worktree's HEAD)
- demo/       : the demonstration file(s) with a line at the top saying where to put them and the exact command to run
- notes.md    : which property it breaks and why, what specific circumstances are needed for it to manifest, the commands you ran and their outcomes (suite passes with change; demo fails with change; demo passes without).
Leave the worktree clean of your patch when done (git checkout . ; remove demo files from it). In your final reply, summarise in <=10 lines: the change, what it needs to manifest, and confirmation of the three runs.""")
