#!/bin/bash
# allseeds.sh [tier]: run every filed seed (seeded/<tag>/patch.diff) against the check of its property
# on a scratch checkout (tools/tryseed.sh) and report which are (still) detected.
TIER="${1:-quick}"
cd /verif || exit 2
ok=0; miss=0
for d in seeded/*/; do
  tag=$(basename "$d"); id=${tag:0:3}
  [ -f "$d/patch.diff" ] || continue
  out=$(tools/tryseed.sh "$d/patch.diff" "$id" "$TIER" 2>&1)
  ex=$(echo "$out" | grep -o "^exit=[0-9]*" | head -1)
  key=$(echo "$out" | grep -o "key=[^ ]*" | head -1)
  if [ "$ex" = "exit=1" ]; then ok=$((ok+1)); echo "$tag detected $key"; else miss=$((miss+1)); echo "$tag NOT-DETECTED ($ex) $(echo "$out" | tail -1 | cut -c1-200)"; fi
done
echo "seeds detected=$ok not-detected=$miss"
