//go:build verif

// Package zzverifsync is the seam through which the schedule explorer of /verif (C20) sees lal's
// mutexes: vgen rewrites `sync.Mutex` / `sync.RWMutex` in lal's packages to these types. Without a
// hook installed they are plain mutexes.
package zzverifsync

import "sync"

// Hooks is implemented by the scheduler. BeforeLock returns when the calling goroutine may take m
// (the scheduler guarantees m is free then); AfterUnlock is called after m has been released.
type Hooks interface {
	BeforeLock(m *Mutex)
	AfterUnlock(m *Mutex)
}

// Hook is process-wide; set it before any lal object is created and never concurrently with use.
var Hook Hooks

type Mutex struct {
	mu    sync.Mutex
	owner int // scheduler bookkeeping (thread id + 1), accessed without synchronisation on purpose
}

//go:norace
func (m *Mutex) VerifOwner() int { return m.owner }

//go:norace
func (m *Mutex) VerifSetOwner(o int) { m.owner = o }

//go:norace
func hook() Hooks { return Hook }

func (m *Mutex) Lock() {
	if h := hook(); h != nil {
		h.BeforeLock(m)
	}
	m.mu.Lock()
}

func (m *Mutex) Unlock() {
	m.mu.Unlock()
	if h := hook(); h != nil {
		h.AfterUnlock(m)
	}
}

// RWMutex keeps the happens-before edges of a real sync.RWMutex (readers are not ordered among each
// other, so the race detector can see two readers racing on what they touch). For the scheduler a
// reader is enabled while no writer owns the lock, a writer while nobody does.
type RWMutex struct {
	rw      sync.RWMutex
	w       Mutex // the scheduling identity of the write side (never really locked)
	readers int
}

//go:norace
func (m *RWMutex) VerifReaders() int { return m.readers }

//go:norace
func (m *RWMutex) verifAddReader(d int) { m.readers += d }

// RWHooks is implemented by the scheduler in addition to Hooks.
type RWHooks interface {
	BeforeRLock(m *RWMutex)
	AfterRUnlock(m *RWMutex)
	BeforeWLock(m *RWMutex)
	AfterWUnlock(m *RWMutex)
}

// W exposes the write-side identity to the scheduler.
func (m *RWMutex) W() *Mutex { return &m.w }

func (m *RWMutex) Lock() {
	if h, ok := hook().(RWHooks); ok && h != nil {
		h.BeforeWLock(m)
	}
	m.rw.Lock()
}

func (m *RWMutex) Unlock() {
	m.rw.Unlock()
	if h, ok := hook().(RWHooks); ok && h != nil {
		h.AfterWUnlock(m)
	}
}

func (m *RWMutex) RLock() {
	if h, ok := hook().(RWHooks); ok && h != nil {
		h.BeforeRLock(m)
	}
	m.rw.RLock()
	m.verifAddReader(1)
}

func (m *RWMutex) RUnlock() {
	m.verifAddReader(-1)
	m.rw.RUnlock()
	if h, ok := hook().(RWHooks); ok && h != nil {
		h.AfterRUnlock(m)
	}
}
