//go:build verif

// Package zzverifsync is the seam through which the schedule explorer of /verif (C20) sees lal's
// mutexes: vgen rewrites `sync.Mutex` / `sync.RWMutex` in lal's packages to these types. Without a
// hook installed they are plain mutexes.
package zzverifsync

import "sync"

// Hooks is implemented by the scheduler. BeforeLock returns when the calling goroutine may take m
// (the scheduler guarantees m is free then); AfterUnlock is called after m has been released.
type Hooks interface {
	BeforeLock(m *Mutex)
	AfterUnlock(m *Mutex)
}

// Hook is process-wide; set it before any lal object is created and never concurrently with use.
var Hook Hooks

type Mutex struct {
	mu    sync.Mutex
	owner int // scheduler bookkeeping (thread id + 1), accessed without synchronisation on purpose
}

//go:norace
func (m *Mutex) VerifOwner() int { return m.owner }

//go:norace
func (m *Mutex) VerifSetOwner(o int) { m.owner = o }

//go:norace
func hook() Hooks { return Hook }

func (m *Mutex) Lock() {
	if h := hook(); h != nil {
		h.BeforeLock(m)
	}
	m.mu.Lock()
}

func (m *Mutex) Unlock() {
	m.mu.Unlock()
	if h := hook(); h != nil {
		h.AfterUnlock(m)
	}
}

// RWMutex: readers are scheduled like writers (exclusive), which is conservative for deadlocks and
// leaves the happens-before edges of a real RWMutex in place for the race detector.
type RWMutex struct {
	Mutex
}

func (m *RWMutex) RLock()   { m.Lock() }
func (m *RWMutex) RUnlock() { m.Unlock() }
