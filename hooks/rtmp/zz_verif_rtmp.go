//go:build verif

package rtmp

import (
	"net"

	"github.com/q191201771/lal/pkg/base"
)

// Hooks for /verif (added by build overlay, tag verif). They only expose existing private entry
// points; no repository line is changed.

// VerifMessage2Chunks is message2Chunks.
func VerifMessage2Chunks(message []byte, header *base.RtmpHeader, prevHeader *base.RtmpHeader, chunkSize int) []byte {
	return message2Chunks(message, header, prevHeader, chunkSize)
}

// VerifStreamMsg returns the completed message of a composer callback (header + payload copy).
func VerifStreamMsg(s *Stream) base.RtmpMsg {
	m := s.toAvMsg()
	p := make([]byte, len(m.Payload))
	copy(p, m.Payload)
	m.Payload = p
	return m
}

// VerifHandleConn is Server.handleTcpConnect.
func VerifHandleConn(s *Server, conn net.Conn) { s.handleTcpConnect(conn) }

// VerifSetWChanSize sets the server-session write queue size (0 = synchronous writes).
func VerifSetWChanSize(n int) { wChanSize = n }

// VerifDialFn, when set, replaces net.Dial in ClientSession (vgen rewrites the selector).
var VerifDialFn func(network, addr string) (net.Conn, error)

func verifDial(network, addr string) (net.Conn, error) {
	if VerifDialFn != nil {
		return VerifDialFn(network, addr)
	}
	return net.Dial(network, addr)
}

// VerifAddr returns the address a listening server is bound to (the listener is unexported).
func VerifAddr(s *Server) string {
	if s.ln == nil {
		return ""
	}
	return s.ln.Addr().String()
}
