//go:build verif

package remux

import "fmt"

// VerifState describes what the remuxer still holds back: the probe queue (messages waiting for the
// stream layout to be known) and the audio frames waiting to be packed into one PES.
func (s *Rtmp2MpegtsRemuxer) VerifState() string {
	return fmt.Sprintf("probe=%d/%v acache=%d", len(s.filter.data), s.filter.done, len(s.audioCacheFrames))
}
