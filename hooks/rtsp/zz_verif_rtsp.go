//go:build verif

package rtsp

import "net"

// VerifHandleConn is Server.handleTcpConnect.
func VerifHandleConn(s *Server, conn net.Conn) { s.handleTcpConnect(conn) }

// VerifSetWriteChanSize sets the command-session write queue size (0 = synchronous writes).
func VerifSetWriteChanSize(n int) { serverCommandSessionWriteChanSize = n }

// VerifOnReadRtp / VerifOnReadRtcp are the UDP receive callbacks of an in-session.
func VerifOnReadRtp(s *BaseInSession, b []byte) { s.onReadRtpPacket(b, nil, nil) }
func VerifOnReadRtcp(s *BaseInSession, b []byte) {
	_ = s.handleRtcpPacket(b, nil)
}

// VerifBaseIn exposes the embedded in-session of a publisher.
func VerifBaseIn(p *PubSession) *BaseInSession { return p.baseInSession }

// VerifDialFn, when set, replaces net.Dial in ClientCommandSession (vgen rewrites the selector).
var VerifDialFn func(network, addr string) (net.Conn, error)

func verifDial(network, addr string) (net.Conn, error) {
	if VerifDialFn != nil {
		return VerifDialFn(network, addr)
	}
	return net.Dial(network, addr)
}
