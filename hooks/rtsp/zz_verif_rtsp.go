//go:build verif

package rtsp

import (
	"net"
	"net/http"
	"sync/atomic"
)

// VerifHandleConn is Server.handleTcpConnect.
func VerifHandleConn(s *Server, conn net.Conn) { s.handleTcpConnect(conn) }

// VerifSetWriteChanSize sets the command-session write queue size (0 = synchronous writes).
func VerifSetWriteChanSize(n int) { serverCommandSessionWriteChanSize = n }

// VerifOnReadRtp / VerifOnReadRtcp are the UDP receive callbacks of an in-session.
func VerifOnReadRtp(s *BaseInSession, b []byte) { s.onReadRtpPacket(b, nil, nil) }
func VerifOnReadRtcp(s *BaseInSession, b []byte) {
	_ = s.handleRtcpPacket(b, nil)
}

// VerifOnReadRtcpFrom: a datagram on an RTCP socket (UDP transport), with its source address.
func VerifOnReadRtcpFrom(s *BaseInSession, b []byte, from *net.UDPAddr) {
	_ = s.handleRtcpPacket(b, from)
}

// VerifBaseIn exposes the embedded in-session of a publisher.
func VerifBaseIn(p *PubSession) *BaseInSession { return p.baseInSession }

// VerifDialFn, when set, replaces net.Dial in ClientCommandSession (vgen rewrites the selector).
var VerifDialFn func(network, addr string) (net.Conn, error)

func verifDial(network, addr string) (net.Conn, error) {
	if VerifDialFn != nil {
		return VerifDialFn(network, addr)
	}
	return net.Dial(network, addr)
}

// VerifAsync counts the asynchronous OnSdp deliveries of BaseInSession.SetObserver that have been
// started and not finished (vgen rewrites that `go func() {...}()` to verifGo(func() {...})): the
// environment waits for the count to return to zero before it takes a step as settled.
var VerifAsync int64

// VerifGoFn, when set, starts the asynchronous OnSdp delivery instead of a plain go statement (the
// schedule explorer of C20 registers it as a thread of its own, deterministically).
var VerifGoFn func(f func())

func verifGo(f func()) {
	if g := VerifGoFn; g != nil {
		g(f)
		return
	}
	atomic.AddInt64(&VerifAsync, 1)
	go func() {
		defer atomic.AddInt64(&VerifAsync, -1)
		f()
	}()
}

// VerifHandleWs is WebsocketServer.HandleWebsocket for a server with the given observer (no listening).
func VerifHandleWs(observer IServerObserver, auth ServerAuthConfig, w http.ResponseWriter, r *http.Request) {
	NewWebsocketServer("", observer, auth).HandleWebsocket(w, r)
}
