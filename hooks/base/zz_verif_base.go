//go:build verif

package base

// VerifPending returns the number of buffers and bytes waiting in the merge writer.
func (w *MergeWriter) VerifPending() (n int, size int) { return len(w.bs), w.currSize }
