//go:build verif

package gb28181

// VerifFeed hands one datagram to the session exactly as its UDP read loop does.
func VerifFeed(s *PubSession, b []byte) { s.feedPacket(b) }

// VerifFeedTcp hands one packet to the session exactly as its TCP read loop does: the packet is read into
// a buffer the loop uses for every packet (runLoopTcp: buf.ReserveBytes), so the bytes of a packet are
// overwritten by the next one.
func VerifFeedTcp(s *PubSession, scratch *[]byte, b []byte) {
	if cap(*scratch) < len(b) {
		*scratch = make([]byte, len(b), 2*len(b)+1500)
	}
	x := (*scratch)[:len(b)]
	copy(x, b)
	s.feedPacket(x)
}
