//go:build verif

package gb28181

// VerifFeed hands one datagram to the session exactly as its UDP read loop does.
func VerifFeed(s *PubSession, b []byte) { s.feedPacket(b) }
