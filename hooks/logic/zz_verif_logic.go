//go:build verif

package logic

import (
	"fmt"
	"net/http"
	"sort"
	"strings"
	"sync"
	"time"

	"github.com/q191201771/lal/pkg/gb28181"
	"github.com/q191201771/lal/pkg/hls"
	"github.com/q191201771/lal/pkg/rtmp"
	"github.com/q191201771/lal/pkg/rtsp"
	"github.com/q191201771/naza/pkg/defertaskthread"
	"github.com/q191201771/naza/pkg/taskpool"
)

// Hooks for /verif (added by build overlay, tag verif): accessors to private state and entry points.

func VerifRtmpServer(sm *ServerManager) *rtmp.Server { return sm.rtmpServer }
func VerifRtspServer(sm *ServerManager) *rtsp.Server { return sm.rtspServer }
func VerifConfig(sm *ServerManager) *Config          { return sm.config }

// VerifServeHttpSub is the handler RunLoop registers for HTTP-FLV / HTTP-TS.
func VerifServeHttpSub(sm *ServerManager, w http.ResponseWriter, req *http.Request) {
	sm.httpServerHandler.ServeSubSession(w, req)
}

// VerifServeHls is the handler RunLoop registers for HLS.
func VerifServeHls(sm *ServerManager, w http.ResponseWriter, req *http.Request) { sm.serveHls(w, req) }

// VerifNotifyDrain returns once every notification queued so far has been delivered (the notify
// pool has exactly one worker, so a sentinel task is enough).
func VerifNotifyDrain(sm *ServerManager) {
	done := make(chan struct{})
	sm.notifyHandlerThread.Go(func(param ...interface{}) { close(done) })
	<-done
}

// VerifShutdown ends the goroutines a ServerManager owns without a RunLoop: group run loops and
// the notify worker (harness worlds are created by the hundred thousand).
func VerifShutdown(sm *ServerManager) {
	var ps []*gb28181.PubSession
	sm.mutex.Lock()
	sm.groupManager.Iterate(func(g *Group) bool {
		select {
		case g.exitChan <- struct{}{}:
		default:
		}
		g.mutex.Lock()
		if g.psPubSession != nil {
			ps = append(ps, g.psPubSession) // (owns a real socket: a harness that ends with one alive must not leak it)
		}
		g.mutex.Unlock()
		return true
	})
	sm.mutex.Unlock()
	for _, p := range ps {
		p.Dispose()
	}
	sm.notifyHandlerThread.Dispose(taskpool.DisposeTypeAsap)
}

// VerifGroupNames lists the stream names of the groups the manager holds.
func VerifGroupNames(sm *ServerManager) []string {
	sm.mutex.Lock()
	defer sm.mutex.Unlock()
	var out []string
	sm.groupManager.Iterate(func(g *Group) bool {
		out = append(out, g.appName+"/"+g.streamName)
		return true
	})
	sort.Strings(out)
	return out
}

// VerifDump is a canonical dump of the per-group state the properties talk about.
func VerifDump(sm *ServerManager) string {
	sm.mutex.Lock()
	defer sm.mutex.Unlock()
	var parts []string
	sm.groupManager.Iterate(func(g *Group) bool {
		parts = append(parts, g.verifDump())
		return true
	})
	sort.Strings(parts)
	return strings.Join(parts, "\n")
}

func b2i(b bool) int {
	if b {
		return 1
	}
	return 0
}

func (g *Group) verifDump() string {
	g.mutex.Lock()
	defer g.mutex.Unlock()
	var sb strings.Builder
	fmt.Fprintf(&sb, "group %s in[rtmp=%d rtsp=%d cust=%d ps=%d pullRtmp=%d pullRtsp=%d pulling=%d]", g.streamName,
		b2i(g.rtmpPubSession != nil), b2i(g.rtspPubSession != nil), b2i(g.customizePubSession != nil), b2i(g.psPubSession != nil),
		b2i(g.pullProxy.rtmpSession != nil), b2i(g.pullProxy.rtspSession != nil), b2i(g.pullProxy.isSessionPulling))
	fmt.Fprintf(&sb, " pipe[ts=%d rtsp=%d av2rtmp=%d dummy=%d hls=%d flv=%d mpegts=%d hook=%d sdp=%d patpmt=%d]",
		b2i(g.rtmp2MpegtsRemuxer != nil), b2i(g.rtmp2RtspRemuxer != nil), b2i(g.rtsp2RtmpRemuxer != nil), b2i(g.dummyAudioFilter != nil),
		b2i(g.hlsMuxer != nil), b2i(g.recordFlv != nil), b2i(g.recordMpegts != nil), b2i(g.customizeHookSessionContext != nil), b2i(g.sdpCtx != nil), len(g.patpmt))
	if g.rtmp2MpegtsRemuxer != nil {
		fmt.Fprintf(&sb, " tsremux[%s]", g.rtmp2MpegtsRemuxer.VerifState())
	}
	var subs []string
	for s := range g.rtmpSubSessionSet {
		subs = append(subs, fmt.Sprintf("rtmp(f=%d,w=%d)", b2i(s.IsFresh), b2i(s.ShouldWaitVideoKeyFrame)))
	}
	for s := range g.httpflvSubSessionSet {
		subs = append(subs, fmt.Sprintf("flv(f=%d,w=%d)", b2i(s.IsFresh), b2i(s.ShouldWaitVideoKeyFrame)))
	}
	for s := range g.httptsSubSessionSet {
		subs = append(subs, fmt.Sprintf("ts(f=%d,w=%d)", b2i(s.IsFresh), b2i(s.ShouldWaitBoundary)))
	}
	for s := range g.rtspSubSessionSet {
		subs = append(subs, fmt.Sprintf("rtsp(stage=%d,w=%d)", s.Stage.Load(), b2i(s.ShouldWaitVideoKeyFrame)))
	}
	for range g.hlsSubSessionSet {
		subs = append(subs, "hls")
	}
	sort.Strings(subs)
	fmt.Fprintf(&sb, " subs%v", subs)
	var push []string
	for u, p := range g.url2PushProxy {
		push = append(push, fmt.Sprintf("%s(pushing=%d,sess=%d)", u, b2i(p.isPushing), b2i(p.pushSession != nil)))
	}
	sort.Strings(push)
	fmt.Fprintf(&sb, " push%v", push)
	fmt.Fprintf(&sb, " stat[v=%s a=%s %dx%d]", g.stat.VideoCodec, g.stat.AudioCodec, g.stat.VideoWidth, g.stat.VideoHeight)
	// per-group timer state of the GB28181 input (the tick acts on it)
	fmt.Fprintf(&sb, " pstimer[timeout=%d checked=%v]", g.psPubTimeoutSec, g.psPubPrevInactiveCheckTick != -1)
	gop := func(name string, meta, vsh, ash bool, n int, at func(int) int) {
		fmt.Fprintf(&sb, " gop-%s[m=%d v=%d a=%d", name, b2i(meta), b2i(vsh), b2i(ash))
		for i := 0; i < n; i++ {
			fmt.Fprintf(&sb, " %d", at(i))
		}
		sb.WriteString("]")
	}
	gop("rtmp", g.rtmpGopCache.MetadataEnsureWithoutSetDataFrame != nil, g.rtmpGopCache.VideoSeqHeader != nil, g.rtmpGopCache.AacSeqHeader != nil,
		g.rtmpGopCache.GetGopCount(), func(i int) int { return len(g.rtmpGopCache.GetGopDataAt(i)) })
	gop("flv", g.httpflvGopCache.MetadataEnsureWithoutSetDataFrame != nil, g.httpflvGopCache.VideoSeqHeader != nil, g.httpflvGopCache.AacSeqHeader != nil,
		g.httpflvGopCache.GetGopCount(), func(i int) int { return len(g.httpflvGopCache.GetGopDataAt(i)) })
	gop("ts", false, false, false, g.httptsGopCache.GetGopCount(), func(i int) int { return len(g.httptsGopCache.GetGopDataAt(i)) })
	if g.rtmpMergeWriter != nil {
		n, sz := g.rtmpMergeWriter.VerifPending()
		fmt.Fprintf(&sb, " merge[%d bufs %d bytes]", n, sz)
	}
	fmt.Fprintf(&sb, " pull[static=%d api=%d cnt=%d retry=%d auto=%d]", b2i(g.pullProxy.staticRelayPullEnable), b2i(g.pullProxy.apiEnable), g.pullProxy.startCount,
		g.pullProxy.pullRetryNum, g.pullProxy.autoStopPullAfterNoOutMs)
	if g.pullProxy.autoStopPullAfterNoOutMs > 0 {
		// the age of the last sighting of a consumer matters only against the auto-stop window
		age := g.verifNow().UnixNano()/1e6 - g.pullProxy.lastHasOutTs
		if age > int64(g.pullProxy.autoStopPullAfterNoOutMs) {
			age = int64(g.pullProxy.autoStopPullAfterNoOutMs)
		}
		fmt.Fprintf(&sb, " noOutAge=%d", age)
	}
	return sb.String()
}

// VerifNowFn, when set, replaces time.Now for pkg/logic (vgen rewrites the selector).
var VerifNowFn func() time.Time

func verifNow() time.Time {
	if VerifNowFn != nil {
		return VerifNowFn()
	}
	return time.Now()
}

// Per-server clock: inside Group methods vgen rewrites time.Now to group.verifNow, which asks the
// clock registered for the group's ServerManager (so concurrently explored worlds have their own time).
var verifClocks sync.Map // IGroupObserver -> func() time.Time

func VerifSetClock(sm *ServerManager, f func() time.Time) {
	if f == nil {
		verifClocks.Delete(IGroupObserver(sm))
		return
	}
	verifClocks.Store(IGroupObserver(sm), f)
}

func (group *Group) verifNow() time.Time {
	if f, ok := verifClocks.Load(group.observer); ok {
		return f.(func() time.Time)()
	}
	return verifNow()
}

// Relay goroutine accounting (vgen brackets the `go func` statements of group__relay_pull.go and
// group__relay_push.go with these two calls).
type verifRelayAcct struct {
	mu   sync.Mutex
	live int
	adds int // completed AddRtmpPushSession calls
}

var verifRelay sync.Map // IGroupObserver -> *verifRelayAcct

func verifRelayOf(group *Group) *verifRelayAcct {
	v, _ := verifRelay.LoadOrStore(group.observer, &verifRelayAcct{})
	return v.(*verifRelayAcct)
}

// called with the group lock held, before the go statement
func verifRelaySpawn(group *Group) {
	a := verifRelayOf(group)
	a.mu.Lock()
	a.live++
	a.mu.Unlock()
}

func verifRelayDone(group *Group) {
	a := verifRelayOf(group)
	a.mu.Lock()
	a.live--
	a.mu.Unlock()
}

func verifPushAdded(group *Group) {
	a := verifRelayOf(group)
	a.mu.Lock()
	a.adds++
	a.mu.Unlock()
}

// VerifRelayActive: number of relay goroutines alive and number of AddRtmpPushSession calls completed.
func VerifRelayActive(sm *ServerManager) (goroutines, pushAdds int) {
	v, ok := verifRelay.Load(IGroupObserver(sm))
	if !ok {
		return 0, 0
	}
	a := v.(*verifRelayAcct)
	a.mu.Lock()
	defer a.mu.Unlock()
	return a.live, a.adds
}

// VerifRelayForget drops the accounting of a server (world closed).
func VerifRelayForget(sm *ServerManager) { verifRelay.Delete(IGroupObserver(sm)) }

// VerifSdp: the description the stream's group currently holds for RTSP subscribers (nil if none).
func VerifSdp(sm *ServerManager, stream string) []byte {
	sm.mutex.Lock()
	defer sm.mutex.Unlock()
	if g := sm.getGroup("", stream); g != nil {
		g.mutex.Lock()
		defer g.mutex.Unlock()
		if g.sdpCtx != nil {
			return append([]byte{}, g.sdpCtx.RawSdp...)
		}
	}
	return nil
}

// VerifPsCount: number of groups that hold a GB28181 publisher.
func VerifPsCount(sm *ServerManager) int {
	sm.mutex.Lock()
	defer sm.mutex.Unlock()
	n := 0
	sm.groupManager.Iterate(func(g *Group) bool {
		g.mutex.Lock()
		if g.psPubSession != nil {
			n++
		}
		g.mutex.Unlock()
		return true
	})
	return n
}

// VerifPsPubSession / VerifRtspPubSession: the attached GB28181 / RTSP publisher of a stream.
func VerifPsPubSession(sm *ServerManager, stream string) *gb28181.PubSession {
	sm.mutex.Lock()
	defer sm.mutex.Unlock()
	if g := sm.getGroup("", stream); g != nil {
		g.mutex.Lock()
		defer g.mutex.Unlock()
		return g.psPubSession
	}
	return nil
}

func VerifRtspPubSession(sm *ServerManager, stream string) *rtsp.PubSession {
	sm.mutex.Lock()
	defer sm.mutex.Unlock()
	if g := sm.getGroup("", stream); g != nil {
		g.mutex.Lock()
		defer g.mutex.Unlock()
		return g.rtspPubSession
	}
	return nil
}

// VerifApiHandler is the HTTP-API route table (built by the generated VerifMux) for this server.
func VerifApiHandler(sm *ServerManager) http.Handler { return NewHttpApiServer("", sm).VerifMux() }

// ---- the deferred HLS cleanup ------------------------------------------------------------------------------------

var verifDeferFns sync.Map // *ServerManager -> func(deferMs int, f func())

// VerifSetDefer makes sm hand its deferred tasks (the HLS directory cleanup that CleanupHlsIfNeeded
// schedules) to fn instead of naza's sleeping goroutine: f is the task with its parameters bound.
func VerifSetDefer(sm *ServerManager, fn func(deferMs int, f func())) {
	if fn == nil {
		verifDeferFns.Delete(sm)
		return
	}
	verifDeferFns.Store(sm, fn)
}

func (sm *ServerManager) verifDeferGo(deferMs int, task defertaskthread.TaskFn, param ...interface{}) {
	if v, ok := verifDeferFns.Load(sm); ok {
		v.(func(int, func()))(deferMs, func() { task(param...) })
		return
	}
	defertaskthread.Go(deferMs, task, param...)
}

// VerifHlsSweep runs the HLS handler's one-second sweep of expired sub-sessions once.
func VerifHlsSweep(sm *ServerManager) {
	if sm.hlsServerHandler != nil {
		hls.VerifSweep(sm.hlsServerHandler)
	}
}

// VerifFillFps creates the stream's group and gives it a full history of per-second video frame counts
// (the 32 seconds before nowSec), as a stream that has been live for a while has.
func VerifFillFps(sm *ServerManager, appName, streamName string, nowSec int64) {
	sm.mutex.Lock()
	g := sm.getOrCreateGroup(appName, streamName)
	sm.mutex.Unlock()
	for i := int64(1); i <= 32; i++ {
		g.inVideoFpsRecords.Add(nowSec-i, 25)
	}
}
