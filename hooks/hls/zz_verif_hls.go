//go:build verif

package hls

import (
	"time"

	"github.com/q191201771/naza/pkg/filesystemlayer"
)

// VerifSetFsl installs a file-system layer (an instrumented in-memory one for the checks).
func VerifSetFsl(f filesystemlayer.IFileSystemLayer) { fslCtx = f }

// VerifTickerPeriod, when non-zero, replaces the period of the session-sweep ticker (vgen rewrites
// time.NewTicker in server_handler.go to verifNewTicker).
var VerifTickerPeriod time.Duration

func verifNewTicker(d time.Duration) *time.Ticker {
	if VerifTickerPeriod != 0 {
		d = VerifTickerPeriod
	}
	return time.NewTicker(d)
}

// VerifSweep runs the body of the sweep once.
func VerifSweep(s *ServerHandler) { s.clearExpireSession() }
