//go:build verif

package hls

import "github.com/q191201771/naza/pkg/filesystemlayer"

// VerifSetFsl installs a file-system layer (an instrumented in-memory one for the checks).
func VerifSetFsl(f filesystemlayer.IFileSystemLayer) { fslCtx = f }
