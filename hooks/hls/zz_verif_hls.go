//go:build verif

package hls

import (
	"time"

	"github.com/q191201771/naza/pkg/filesystemlayer"
)

// VerifSetFsl installs a file-system layer (an instrumented in-memory one for the checks).
func VerifSetFsl(f filesystemlayer.IFileSystemLayer) { fslCtx = f }

// VerifNoSweep, when true, keeps NewServerHandler from starting its 1 s session-sweep goroutine
// (nothing can ever stop it; harness worlds are created by the hundred thousand). vgen rewrites
// `go sh.runLoop()` to verifGo(sh.runLoop); checks that need the sweep call VerifSweep.
var VerifNoSweep bool

func verifGo(f func()) {
	if VerifNoSweep {
		return
	}
	go f()
}

// VerifSweep runs the body of the sweep once.
func VerifSweep(s *ServerHandler) { s.clearExpireSession() }

// VerifNowFn, when set, is the clock of HLS sub-sessions (vgen rewrites time.Now in server_sub_session.go
// to verifNow). It is process-wide: an environment sets it around each request / sweep it makes under a
// lock of its own.
var VerifNowFn func() time.Time

func verifNow() time.Time {
	if f := VerifNowFn; f != nil {
		return f()
	}
	return time.Now()
}
