//go:build verif

package httpflv

import "net"

// VerifDialFn, when set, replaces net.Dial in PullSession (vgen rewrites the selector).
var VerifDialFn func(network, addr string) (net.Conn, error)

func verifDial(network, addr string) (net.Conn, error) {
	if VerifDialFn != nil {
		return VerifDialFn(network, addr)
	}
	return net.Dial(network, addr)
}
