// Package world builds a complete lal server (logic.ServerManager, no listening) over netsim and
// offers reference-codec peers (RTMP publisher / player, HTTP-FLV / HTTP-TS / WS-FLV subscribers)
// so that explorers can drive one event at a time and observe every byte a consumer receives.
package world

import (
	"net/http/httptest"
	"bufio"
	"bytes"
	"encoding/json"
	"fmt"
	"net"
	"net/http"
	"os"
	"sort"
	"strings"
	"sync"
	"sync/atomic"
	"time"

	"github.com/q191201771/lal/pkg/base"
	"github.com/q191201771/lal/pkg/hls"
	"github.com/q191201771/lal/pkg/httpflv"
	"github.com/q191201771/lal/pkg/httpts"
	"github.com/q191201771/lal/pkg/logic"
	"github.com/q191201771/lal/pkg/rtmp"
	"github.com/q191201771/lal/pkg/rtsp"

	"verif/lib/fsim"
	"verif/lib/netsim"
	"verif/lib/ref"
)

const baseConf = `{"conf_version":"v0.4.1",
"rtmp":{"enable":true,"addr":":0","rtmps_enable":false,"rtmps_addr":"","gop_num":0,"single_gop_max_frame_num":0,"merge_write_size":0},
"in_session":{"add_dummy_audio_enable":false,"add_dummy_audio_wait_audio_ms":150},
"default_http":{"http_listen_addr":":0","https_listen_addr":":0","https_cert_file":"","https_key_file":""},
"httpflv":{"enable":true,"enable_https":false,"url_pattern":"/","gop_num":0,"single_gop_max_frame_num":0},
"hls":{"enable":false,"enable_https":false,"url_pattern":"/hls/","out_path":"/nonexistent/hls/","fragment_duration_ms":1000,"fragment_num":3,"delete_threshold":1,"cleanup_mode":1,"use_memory_as_disk_flag":false,"sub_session_timeout_ms":30000,"sub_session_hash_key":""},
"httpts":{"enable":true,"enable_https":false,"url_pattern":"/","gop_num":0,"single_gop_max_frame_num":0},
"rtsp":{"enable":false,"addr":":0","rtsps_enable":false,"rtsps_addr":"","out_wait_key_frame_flag":true,"auth_enable":false,"auth_method":1,"username":"u","password":"p","ws_rtsp_enable":false,"ws_rtsp_addr":""},
"record":{"enable_flv":false,"flv_out_path":"/nonexistent/flv/","enable_mpegts":false,"mpegts_out_path":"/nonexistent/ts/"},
"relay_push":{"enable":false,"addr_list":[]},
"static_relay_pull":{"enable":false,"addr":""},
"http_api":{"enable":false,"addr":":0"},
"server_id":"1",
"http_notify":{"enable":false,"update_interval_sec":5,"on_update":"","on_pub_start":"","on_pub_stop":"","on_sub_start":"","on_sub_stop":"","on_relay_pull_start":"","on_relay_pull_stop":"","on_rtmp_connect":"","on_server_start":"","on_hls_make_ts":""},
"simple_auth":{"key":"k","dangerous_lal_secret":"","pub_rtmp_enable":false,"sub_rtmp_enable":false,"sub_httpflv_enable":false,"sub_httpts_enable":false,"pub_rtsp_enable":false,"sub_rtsp_enable":false,"hls_m3u8_enable":false},
"pprof":{"enable":false,"addr":""},
"log":{"level":5,"filename":"","is_to_stdout":false,"is_rotate_daily":false,"short_file_flag":false,"timestamp_flag":false,"timestamp_with_ms_flag":false,"level_flag":false,"assert_behavior":1},
"debug":{"log_group_interval_sec":0,"log_group_max_group_num":0,"log_group_max_sub_num_per_group":0}}`

// Conf is a JSON object patched over baseConf: keys are "section.field".
type Conf map[string]interface{}

func buildConf(c Conf) []byte {
	var m map[string]interface{}
	if err := json.Unmarshal([]byte(baseConf), &m); err != nil {
		panic(err)
	}
	// VERIF_LAL_LOG=trace: the log level is a configuration option like any other, and lal has code that
	// runs only at trace level (dumps of received chunks and packets); lines are formatted and dropped.
	if os.Getenv("VERIF_LAL_LOG") == "trace" {
		m["log"].(map[string]interface{})["level"] = 0
	}
	for k, v := range c {
		parts := strings.SplitN(k, ".", 2)
		sec, ok := m[parts[0]].(map[string]interface{})
		if !ok || len(parts) != 2 {
			panic("bad conf key " + k)
		}
		if _, ok := sec[parts[1]]; !ok {
			panic("unknown conf key " + k)
		}
		sec[parts[1]] = v
	}
	b, _ := json.Marshal(m)
	return b
}

// Notify records the INotifyHandler event sequence.
type Notify struct {
	mu     sync.Mutex
	Events []string
}

func (n *Notify) add(s string) {
	n.mu.Lock()
	n.Events = append(n.Events, s)
	n.mu.Unlock()
}
func (n *Notify) OnServerStart(info base.LalInfo) {}
func (n *Notify) OnUpdate(info base.UpdateInfo)   {}
func (n *Notify) OnPubStart(info base.PubStartInfo) {
	n.add("pub_start " + info.SessionId + " " + info.StreamName)
}
func (n *Notify) OnPubStop(info base.PubStopInfo) {
	n.add("pub_stop " + info.SessionId + " " + info.StreamName)
}
func (n *Notify) OnSubStart(info base.SubStartInfo) {
	n.add("sub_start " + info.SessionId + " " + info.StreamName)
}
func (n *Notify) OnSubStop(info base.SubStopInfo) {
	n.add("sub_stop " + info.SessionId + " " + info.StreamName)
}
func (n *Notify) OnRelayPullStart(info base.PullStartInfo) {
	n.add("pull_start " + info.SessionId + " " + info.StreamName)
}
func (n *Notify) OnRelayPullStop(info base.PullStopInfo) {
	n.add("pull_stop " + info.SessionId + " " + info.StreamName)
}
func (n *Notify) OnRtmpConnect(info base.RtmpConnectInfo) {}
func (n *Notify) OnHlsMakeTs(info base.HlsMakeTsInfo)     { n.add("hls_make_ts " + info.StreamName) }

func (n *Notify) Snapshot() []string {
	n.mu.Lock()
	defer n.mu.Unlock()
	return append([]string{}, n.Events...)
}

type W struct {
	Net    *netsim.World
	SM     *logic.ServerManager
	Notify *Notify
	FS     *fsim.FS // instrumented HLS file system (when hls.enable)
	ID     int
	tick   uint32
	nconn  int
	Hooks  []*Hook // stream hook contexts created so far (when WithHook)
	// Deferred: the delayed tasks the server has scheduled and the harness has not run yet (the HLS
	// directory cleanup of an ended stream); they never run by themselves in a world
	Deferred []DeferredTask
	// OriginEager: what an RTMP origin serving a pull sends in the same segment as NetStream.Play.Start
	OriginEager []ref.Msg
	// HlsClock: HLS sub-sessions live on this world's clock (requests through HlsGet, the expiry sweep at
	// every Tick); otherwise on real time, on which they never expire within a run
	HlsClock bool
	defMu    sync.Mutex
	// relay environment (see relay.go)
	relay    bool
	DialMode map[string]string
	Dials    []*Dial
	dmu      sync.Mutex
	closing  bool
	// PsExpected: GB28181 sessions (start_rtp_pub) the harness knows to be running; each has a
	// goroutine of the server reading a real UDP socket, counted with the relay goroutines
	PsExpected int
	atTick     map[string][2]uint64 // session byte counters when the last tick ended
	// PsAuto: count the GB28181 sessions the server's groups hold instead of PsExpected (for harnesses in
	// which the server may end such a session by itself)
	PsAuto bool
	// ExtraGor: client goroutines the harness itself started (e.g. an httpflv.PullSession driven
	// directly); each is parked on a dial or on a live connection like a relay goroutine (atomic)
	ExtraGor int64
	// RelaxedRelay: accept connection attempts nobody waits for any more (a client session whose
	// Start() timed out leaves its connect goroutine dialing): settled once every counted goroutine
	// can be parked, instead of exactly accounted. Only for crash checks.
	RelaxedRelay bool
	// DialRaw: remote names whose accepted connections get no reference peer (the harness scripts them)
	DialRaw map[string]bool
	// the server's clock (unix milliseconds); pkg/logic Group methods read it through group.verifNow
	clockMs int64
}

// T0 is the instant every world starts at.
const T0 = int64(1_700_000_000_000)

// Now is this world's clock.
func (w *W) Now() time.Time { return time.UnixMilli(atomic.LoadInt64(&w.clockMs)) }

// Advance moves this world's clock.
func (w *W) Advance(d time.Duration) { atomic.AddInt64(&w.clockMs, d.Milliseconds()) }

// Hook records what the customize hook session sees.
type Hook struct {
	mu      sync.Mutex
	Key     string
	Stream  string
	Msgs    int
	Stops   int
	LastTyp uint8
}

func (h *Hook) OnMsg(msg base.RtmpMsg) {
	h.mu.Lock()
	h.Msgs++
	h.LastTyp = msg.Header.MsgTypeId
	h.mu.Unlock()
}
func (h *Hook) OnStop() {
	h.mu.Lock()
	h.Stops++
	h.mu.Unlock()
}
func (h *Hook) Counts() (msgs, stops int) {
	h.mu.Lock()
	defer h.mu.Unlock()
	return h.Msgs, h.Stops
}

var (
	fsRouter   = fsim.NewRouter()
	routerOnce sync.Once
	worldSeq   int
)

// FsRouter is the process-wide file-system layer installed into pkg/hls.
func FsRouter() *fsim.Router { return fsRouter }

var buildMu sync.Mutex

// New builds a fresh server. Write queues of every subscriber kind are forced to 0 (synchronous
// writes) unless QueueSizes was called; that is process-wide state.
func New(c Conf) *W {
	// NewServerManager re-initialises naza's global logger with this world's (always identical)
	// log configuration; concurrent constructions write the same values
	buildMu.Lock()
	worldSeq++
	id := worldSeq
	buildMu.Unlock()
	w := &W{Net: netsim.NewWorld(), Notify: &Notify{}, ID: id, clockMs: T0}
	worlds.Store(id, w)
	for k, v := range c { // "$W" in string values = this world's host prefix (relay addresses)
		if sv, ok := v.(string); ok && strings.Contains(sv, "$W") {
			c[k] = strings.ReplaceAll(sv, "$W", fmt.Sprintf("w%d", id))
		}
		if lv, ok := v.([]interface{}); ok {
			nl := make([]interface{}, len(lv))
			for i, e := range lv {
				nl[i] = e
				if sv, ok := e.(string); ok {
					nl[i] = strings.ReplaceAll(sv, "$W", fmt.Sprintf("w%d", id))
				}
			}
			c[k] = nl
		}
	}
	withHook := false
	if v, ok := c["_hook"]; ok {
		withHook, _ = v.(bool)
		delete(c, "_hook")
	}
	on, _ := c["hls.enable"].(bool)
	if on2, _ := c["hls.enable_https"].(bool); on2 {
		on = true
	}
	if on {
		routerOnce.Do(func() { hls.VerifSetFsl(fsRouter) })
		root := fmt.Sprintf("/vfs/w%d/hls/", w.ID)
		if _, ok := c["hls.out_path"]; !ok {
			c["hls.out_path"] = root
		}
		w.FS = fsim.New(c["hls.out_path"].(string))
		fsRouter.Register(w.FS)
	}
	raw := buildConf(c)
	w.SM = logic.NewServerManager(func(o *logic.Option) {
		o.ConfRawContent = raw
		o.NotifyHandler = w.Notify
	})
	logic.VerifSetClock(w.SM, w.Now)
	logic.VerifSetDefer(w.SM, func(ms int, f func()) {
		w.defMu.Lock()
		w.Deferred = append(w.Deferred, DeferredTask{DelayMs: ms, Run: f})
		w.defMu.Unlock()
	})
	if withHook {
		w.SM.WithOnHookSession(func(uniqueKey string, streamName string) logic.ICustomizeHookSessionContext {
			h := &Hook{Key: uniqueKey, Stream: streamName}
			w.Hooks = append(w.Hooks, h)
			return h
		})
	}
	return w
}

// SyncQueues makes every subscriber write synchronous (queue size 0). Process-wide.
func SyncQueues() {
	hls.VerifNoSweep = true
	rtmp.VerifSetWChanSize(0)
	httpflv.SubSessionWriteChanSize = 0
	httpts.SubSessionWriteChanSize = 0
	rtsp.VerifSetWriteChanSize(0)
}

// Settle waits for quiescence and drains the notify worker.
func (w *W) Settle() error {
	for {
		if w.relay {
			if err := w.settleRelay(); err != nil {
				return err
			}
		} else if err := w.Net.Quiesce(); err != nil {
			return fmt.Errorf("%w: %s", err, w.Net.Describe())
		}
		// asynchronous SDP deliveries of RTSP in-sessions (process-wide count; they are short)
		if atomic.LoadInt64(&rtsp.VerifAsync) == 0 {
			break
		}
		for i := 0; atomic.LoadInt64(&rtsp.VerifAsync) != 0; i++ {
			if i > 200000 {
				return fmt.Errorf("%w: an asynchronous SDP delivery never finished", netsim.ErrHang)
			}
			time.Sleep(10 * time.Microsecond)
		}
	}
	logic.VerifNotifyDrain(w.SM)
	return nil
}

// Tick lets one second pass and runs the body of the server's 1 s timer case once.
func (w *W) Tick() error {
	w.Advance(time.Second)
	if w.HlsClock {
		w.underHlsClock(func() { logic.VerifHlsSweep(w.SM) }) // lal sweeps expired HLS sub-sessions once a second too
	}
	w.SM.VerifTick(&w.tick)
	err := w.Settle()
	w.atTick = w.counters()
	return err
}

// counters: the byte counters of every session the stat API lists.
func (w *W) counters() map[string][2]uint64 {
	m := map[string][2]uint64{}
	for _, g := range w.SM.StatAllGroup() {
		add := func(id string, r, wr uint64) {
			if id != "" {
				m[id] = [2]uint64{r, wr}
			}
		}
		add(g.StatPub.SessionId, g.StatPub.ReadBytesSum, g.StatPub.WroteBytesSum)
		add(g.StatPull.SessionId, g.StatPull.ReadBytesSum, g.StatPull.WroteBytesSum)
		for _, u := range g.StatSubs {
			add(u.SessionId, u.ReadBytesSum, u.WroteBytesSum)
		}
	}
	return m
}

// LivenessSig says, per session, whether its byte counters have moved since the last tick (or that no
// tick has seen it yet). lal's liveness checks act on exactly this hidden state, so explicit-state
// searches whose alphabet has ticks make it part of their fingerprint.
func (w *W) LivenessSig() string {
	var mv []string
	for id, v := range w.counters() {
		kind := strings.TrimRight(id, "0123456789")
		if o, ok := w.atTick[id]; ok {
			mv = append(mv, fmt.Sprintf("%s:r%v,w%v", kind, v[0] != o[0], v[1] != o[1]))
		} else {
			mv = append(mv, kind+":unchecked")
		}
	}
	sort.Strings(mv)
	return strings.Join(mv, " ")
}

// Close ends every goroutine of this world.
func (w *W) Close() {
	if w.relay {
		w.closeRelay()
	}
	w.Net.Shutdown()
	w.Net.Quiesce()
	logic.VerifShutdown(w.SM)
	logic.VerifSetClock(w.SM, nil)
	logic.VerifSetDefer(w.SM, nil)
	logic.VerifRelayForget(w.SM)
	worlds.Delete(w.ID)
	if w.FS != nil {
		fsRouter.Unregister(w.FS)
	}
}

func (w *W) Dump() string { return logic.VerifDump(w.SM) }

var hlsClockMu sync.Mutex

// underHlsClock runs f with the HLS sub-sessions' clock set to this world's (the hook is process-wide).
func (w *W) underHlsClock(f func()) {
	hlsClockMu.Lock()
	defer hlsClockMu.Unlock()
	hls.VerifNowFn = w.Now
	defer func() { hls.VerifNowFn = nil }()
	f()
}

// HlsGet sends one HLS request (playlist or segment) from the given remote address through the real
// handler, under this world's clock when HlsClock is set.
func (w *W) HlsGet(uri, remote string) *httptest.ResponseRecorder {
	req, _ := http.ReadRequest(bufio.NewReader(strings.NewReader("GET " + uri + " HTTP/1.1\r\nHost: h\r\n\r\n")))
	if req == nil {
		return nil
	}
	req.RemoteAddr = remote
	rec := httptest.NewRecorder()
	mux := http.NewServeMux()
	mux.HandleFunc("/hls/", func(rw http.ResponseWriter, r *http.Request) { logic.VerifServeHls(w.SM, rw, r) })
	if w.HlsClock {
		w.underHlsClock(func() { mux.ServeHTTP(rec, req) })
	} else {
		mux.ServeHTTP(rec, req)
	}
	return rec
}

// DeferredTask is a delayed task of the server (see W.Deferred).
type DeferredTask struct {
	DelayMs int
	Run     func()
}

// FireDeferred runs the oldest pending delayed task (false when there is none).
func (w *W) FireDeferred() bool {
	w.defMu.Lock()
	if len(w.Deferred) == 0 {
		w.defMu.Unlock()
		return false
	}
	t := w.Deferred[0]
	w.Deferred = w.Deferred[1:]
	w.defMu.Unlock()
	t.Run()
	return true
}

// PendingDeferred tells how many delayed tasks wait.
func (w *W) PendingDeferred() int {
	w.defMu.Lock()
	defer w.defMu.Unlock()
	return len(w.Deferred)
}

// ---- RTMP peer ----------------------------------------------------------------------------------------

type RtmpPeer struct {
	W       *W
	Conn    *netsim.Conn
	enc     *ref.ChunkEncoder
	dec     *ref.ChunkDecoder
	hsLeft  int       // bytes of S0S1S2 still to skip
	Msgs    []ref.Msg // everything decoded so far
	DecErr  error
	pending []byte
}

func amfCmd(name string, tid float64, rest ...ref.AVal) []byte {
	b := ref.AEncode(ref.AVal{Kind: ref.AString, Str: name})
	b = append(b, ref.AEncode(ref.AVal{Kind: ref.ANumber, Num: tid})...)
	for _, r := range rest {
		b = append(b, ref.AEncode(r)...)
	}
	return b
}

func str(s string) ref.AVal { return ref.AVal{Kind: ref.AString, Str: s} }

// NewRtmpPeer opens a connection handled by the real rtmp.Server and performs the simple handshake.
func (w *W) NewRtmpPeer() *RtmpPeer {
	w.nconn++
	c := w.Net.NewConn(fmt.Sprintf("rtmp%d", w.nconn))
	p := &RtmpPeer{W: w, Conn: c, enc: ref.NewChunkEncoder(128), dec: ref.NewChunkDecoder(128), hsLeft: 1 + 1536 + 1536}
	srv := logic.VerifRtmpServer(w.SM)
	w.Net.Go(c, func() { rtmp.VerifHandleConn(srv, c) })
	c0c1 := make([]byte, 1+1536)
	c0c1[0] = 3
	for i := 9; i < len(c0c1); i++ {
		c0c1[i] = byte(i)
	}
	c2 := make([]byte, 1536)
	c.Feed(append(c0c1, c2...))
	return p
}

// SendMsgs chunk-encodes and feeds messages (does not wait).
func (p *RtmpPeer) SendMsgs(ms ...ref.Msg) {
	b, _ := p.enc.Encode(ms, ref.First)
	p.Conn.Feed(b)
}

// Connect sends connect + createStream.
func (p *RtmpPeer) Connect(app string) {
	obj := ref.AVal{Kind: ref.AObject, Pairs: []ref.APair{{"app", str(app)}, {"type", str("nonprivate")}, {"tcUrl", str("rtmp://h/" + app)}}}
	p.SendMsgs(
		ref.Msg{Csid: 3, Type: 20, Msid: 0, Payload: amfCmd("connect", 1, obj)},
		ref.Msg{Csid: 3, Type: 20, Msid: 0, Payload: amfCmd("createStream", 2, ref.AVal{Kind: ref.ANull})},
	)
}

func (p *RtmpPeer) Publish(streamWithQuery string) {
	p.SendMsgs(ref.Msg{Csid: 4, Type: 20, Msid: 1, Payload: amfCmd("publish", 3, ref.AVal{Kind: ref.ANull}, str(streamWithQuery), str("live"))})
}

func (p *RtmpPeer) Play(streamWithQuery string) {
	p.SendMsgs(ref.Msg{Csid: 4, Type: 20, Msid: 1, Payload: amfCmd("play", 3, ref.AVal{Kind: ref.ANull}, str(streamWithQuery))})
}

// Pump decodes what lal has written to this peer since the last call and returns the new messages.
func (p *RtmpPeer) Pump() []ref.Msg {
	b := p.Conn.Take()
	if p.hsLeft > 0 {
		n := p.hsLeft
		if n > len(b) {
			n = len(b)
		}
		p.hsLeft -= n
		b = b[n:]
	}
	if len(b) == 0 || p.DecErr != nil {
		return nil
	}
	ms, err := p.dec.Feed(b)
	if err != nil {
		p.DecErr = err
	}
	p.Msgs = append(p.Msgs, ms...)
	return ms
}

// PendingBytes reports undecoded trailing bytes (a partial chunk).
func (p *RtmpPeer) PendingBytes() int { return p.dec.Pending() }

func (p *RtmpPeer) Close() { p.Conn.PeerClose() }

// RtmpPublisher = handshake + connect + createStream + publish, settled.
func (w *W) RtmpPublisher(app, stream string) (*RtmpPeer, error) {
	p := w.NewRtmpPeer()
	p.Connect(app)
	p.Publish(stream)
	err := w.Settle()
	p.Pump()
	return p, err
}

// RtmpPlayer = handshake + connect + createStream + play, settled.
func (w *W) RtmpPlayer(app, stream string) (*RtmpPeer, error) {
	p := w.NewRtmpPeer()
	p.Connect(app)
	p.Play(stream)
	err := w.Settle()
	p.Pump()
	return p, err
}

// Accepted reports whether lal kept the connection open.
func (p *RtmpPeer) Accepted() bool { return !p.Conn.Closed() && !p.Conn.Done() }

// NewHijackWriter is an http.ResponseWriter + Hijacker over an in-memory connection.
func NewHijackWriter(c *netsim.Conn) http.ResponseWriter {
	return &hijackWriter{c: c, hdr: http.Header{}}
}

// ---- HTTP subscribers ------------------------------------------------------------------------------------

type hijackWriter struct {
	c    *netsim.Conn
	hdr  http.Header
	code int
	body bytes.Buffer
}

func (h *hijackWriter) Header() http.Header         { return h.hdr }
func (h *hijackWriter) Write(b []byte) (int, error) { return h.body.Write(b) }
func (h *hijackWriter) WriteHeader(code int)        { h.code = code }
func (h *hijackWriter) Hijack() (net.Conn, *bufio.ReadWriter, error) {
	return h.c, bufio.NewReadWriter(bufio.NewReader(h.c), bufio.NewWriter(h.c)), nil
}

type HttpPeer struct {
	W      *W
	Conn   *netsim.Conn
	Ws     bool
	Kind   string // flv | ts
	hdrOK  bool
	Header []byte
	Body   []byte // de-framed body so far (WebSocket payloads concatenated)
	raw    []byte
	Err    error
}

// HttpSub opens an HTTP-FLV / HTTP-TS (optionally WebSocket) subscriber for e.g. "/live/a.flv?x=y".
func (w *W) HttpSub(uri string, ws bool) (*HttpPeer, error) {
	w.nconn++
	c := w.Net.NewConn(fmt.Sprintf("http%d", w.nconn))
	req, err := http.NewRequest("GET", "http://h"+uri, nil)
	if err != nil {
		return nil, err
	}
	req.RequestURI = uri
	req.RemoteAddr = c.Remote
	if ws {
		req.Header.Set("Connection", "Upgrade")
		req.Header.Set("Upgrade", "websocket")
		req.Header.Set("Sec-WebSocket-Key", "dGhlIHNhbXBsZSBub25jZQ==")
	}
	kind := "flv"
	if strings.Contains(strings.SplitN(uri, "?", 2)[0], ".ts") {
		kind = "ts"
	}
	hw := &hijackWriter{c: c, hdr: http.Header{}}
	p := &HttpPeer{W: w, Conn: c, Ws: ws, Kind: kind}
	w.Net.Go(c, func() { logic.VerifServeHttpSub(w.SM, hw, req) })
	err = w.Settle()
	p.Pump()
	return p, err
}

// Pump takes new output and appends the de-framed bytes to Body.
func (p *HttpPeer) Pump() {
	p.raw = append(p.raw, p.Conn.Take()...)
	if !p.hdrOK {
		h, rest, ok := ref.SplitHttpHeader(p.raw)
		if !ok {
			return
		}
		p.hdrOK = true
		p.Header = h
		p.raw = append([]byte{}, rest...)
	}
	if p.Ws {
		frames, rest, err := ref.ParseWsFrames(p.raw)
		if err != nil {
			p.Err = err
			return
		}
		for _, f := range frames {
			if !f.Fin || f.Opcode != 2 || f.Masked {
				p.Err = fmt.Errorf("ws frame flags fin=%v opcode=%d masked=%v", f.Fin, f.Opcode, f.Masked)
			}
			p.Body = append(p.Body, f.Payload...)
		}
		p.raw = append([]byte{}, p.raw[len(p.raw)-rest:]...)
	} else {
		p.Body = append(p.Body, p.raw...)
		p.raw = nil
	}
}

func (p *HttpPeer) Close() { p.Conn.PeerClose() }

func (p *HttpPeer) Accepted() bool { return !p.Conn.Closed() && !p.Conn.Done() }

// ---- helpers for media messages ----------------------------------------------------------------------------

// Scratch returns a scratch directory for record files.
func Scratch() string {
	d := os.Getenv("VERIF_SCRATCH")
	if d == "" {
		d = os.TempDir()
	}
	return d
}

// NewRawRtmpConn opens a connection served by the real rtmp.Server without sending anything.
func (w *W) NewRawRtmpConn() *netsim.Conn {
	w.nconn++
	c := w.Net.NewConn(fmt.Sprintf("rawrtmp%d", w.nconn))
	srv := logic.VerifRtmpServer(w.SM)
	w.Net.Go(c, func() { rtmp.VerifHandleConn(srv, c) })
	return c
}

// BaseRtmpMsg converts a reference message to lal's type.
func BaseRtmpMsg(m ref.Msg) base.RtmpMsg {
	return base.RtmpMsg{Header: base.RtmpHeader{Csid: m.Csid, MsgLen: uint32(len(m.Payload)), MsgTypeId: m.Type, MsgStreamId: int(m.Msid), TimestampAbs: m.Ts}, Payload: m.Payload}
}
