package world

// Relay environment: every outbound connection lal's client sessions open (relay pull, relay push)
// goes through rtmp.VerifDialFn / rtsp.VerifDialFn (vgen rewrites net.Dial in the two client files).
// Host names of the form "w<ID>-<name>" route to the world with that ID; the world decides the answer
// (gate = the dial stays pending until the explorer accepts or refuses it). A server-role reference
// peer answers the RTMP handshake and commands.

import (
	"errors"
	"fmt"
	"net"
	"strconv"
	"strings"
	"sync"
	"sync/atomic"
	"time"

	"github.com/q191201771/lal/pkg/httpflv"
	"github.com/q191201771/lal/pkg/logic"
	"github.com/q191201771/lal/pkg/rtmp"
	"github.com/q191201771/lal/pkg/rtsp"

	"verif/lib/netsim"
	"verif/lib/ref"
)

var (
	worlds   sync.Map // id -> *W
	dialOnce sync.Once
)

var ErrRefused = errors.New("dial tcp: connect: connection refused")

type dialResult struct {
	c   net.Conn
	err error
}

// Dial is one connection attempt made by lal.
type Dial struct {
	W      *W
	Seq    int
	Host   string // "w3-origin:1935"
	Name   string // "origin"
	State  string // pending accepted refused
	gate   chan dialResult
	Conn   *netsim.Conn
	Origin *RtmpOrigin
}

// EnableRelay installs the dial routers (process-wide, idempotent) and makes this world's Settle wait
// for relay goroutines. mode: host name -> "gate" | "accept" | "refuse" (default gate).
func (w *W) EnableRelay(mode map[string]string) {
	dialOnce.Do(func() {
		rtmp.VerifDialFn = routeDial
		rtsp.VerifDialFn = routeDial
		httpflv.VerifDialFn = routeDial
	})
	w.relay = true
	w.DialMode = mode
	if w.DialMode == nil {
		w.DialMode = map[string]string{}
	}
}

// Host returns the address to put into a configuration for the named remote of this world.
func (w *W) Host(name string) string { return fmt.Sprintf("w%d-%s:1935", w.ID, name) }

func routeDial(network, addr string) (net.Conn, error) {
	host := addr
	if i := strings.LastIndex(host, ":"); i >= 0 {
		host = host[:i]
	}
	if !strings.HasPrefix(host, "w") || !strings.Contains(host, "-") {
		return nil, fmt.Errorf("dial tcp: lookup %s: no such host", host)
	}
	id, err := strconv.Atoi(host[1:strings.Index(host, "-")])
	if err != nil {
		return nil, fmt.Errorf("dial tcp: lookup %s: no such host", host)
	}
	v, ok := worlds.Load(id)
	if !ok {
		return nil, ErrRefused
	}
	return v.(*W).dial(addr, host[strings.Index(host, "-")+1:])
}

func (w *W) dial(addr, name string) (net.Conn, error) {
	w.dmu.Lock()
	if w.closing {
		w.dmu.Unlock()
		return nil, ErrRefused
	}
	d := &Dial{W: w, Seq: len(w.Dials), Host: addr, Name: name, State: "pending", gate: make(chan dialResult, 1)}
	// with a fixed answer the attempt never rests in the pending state (a pending dial is a state
	// the environment may settle in)
	switch w.DialMode[name] {
	case "accept":
		d.acceptLocked()
	case "refuse":
		d.refuseLocked()
	}
	w.Dials = append(w.Dials, d)
	w.dmu.Unlock()
	r := <-d.gate
	return r.c, r.err
}

// Accept lets the pending dial succeed; the returned origin answers the handshake and commands when
// pumped (Settle pumps it).
func (d *Dial) Accept() *RtmpOrigin {
	d.W.dmu.Lock()
	defer d.W.dmu.Unlock()
	return d.acceptLocked()
}

func (d *Dial) acceptLocked() *RtmpOrigin {
	w := d.W
	if d.State != "pending" {
		return d.Origin
	}
	d.Conn = w.Net.NewClientConn(fmt.Sprintf("dial%d-%s", d.Seq, d.Name))
	if w.DialRaw[d.Name] {
		d.State = "accepted"
		d.gate <- dialResult{c: d.Conn}
		return nil
	}
	d.Origin = &RtmpOrigin{W: w, Conn: d.Conn, dec: ref.NewChunkDecoder(128), enc: ref.NewChunkEncoder(128), hsIn: 1 + 1536 + 1536, Auto: true}
	d.State = "accepted"
	d.gate <- dialResult{c: d.Conn}
	return d.Origin
}

func (d *Dial) Refuse() {
	d.W.dmu.Lock()
	defer d.W.dmu.Unlock()
	d.refuseLocked()
}

func (d *Dial) refuseLocked() {
	if d.State != "pending" {
		return
	}
	d.State = "refused"
	d.gate <- dialResult{err: ErrRefused}
}

// PendingDials lists the dials still waiting for an answer, oldest first.
func (w *W) PendingDials() []*Dial {
	w.dmu.Lock()
	defer w.dmu.Unlock()
	var out []*Dial
	for _, d := range w.Dials {
		if d.State == "pending" {
			out = append(out, d)
		}
	}
	return out
}

// LiveDials lists accepted dials whose connection lal has not closed.
func (w *W) LiveDials() []*Dial {
	w.dmu.Lock()
	defer w.dmu.Unlock()
	var out []*Dial
	for _, d := range w.Dials {
		if d.State == "accepted" && d.Conn != nil && !d.Conn.Closed() {
			out = append(out, d)
		}
	}
	return out
}

func (w *W) AllDials() []*Dial {
	w.dmu.Lock()
	defer w.dmu.Unlock()
	return append([]*Dial{}, w.Dials...)
}

// settleRelay: fixpoint of (network quiescent; origins pumped; every relay goroutine the groups count
// is parked on a pending dial or on a live idle connection, push sessions registered).
func (w *W) settleRelay() error {
	deadline := time.Now().Add(w.Net.QuiesceTimeout)
	for {
		if err := w.Net.Quiesce(); err != nil {
			return fmt.Errorf("%w: %s", err, w.Net.Describe())
		}
		progressed := false
		for _, d := range w.LiveDials() {
			if d.Origin != nil && d.Origin.Pump() {
				progressed = true
			}
		}
		if progressed {
			continue
		}
		gor, pushAdds := logic.VerifRelayActive(w.SM)
		pend := len(w.PendingDials())
		live := w.LiveDials()
		startedPush := 0
		for _, d := range w.AllDials() {
			if d.Origin != nil && d.Origin.Role == "publish" && d.Origin.Started {
				startedPush++
			}
		}
		// every relay goroutine is parked on a pending dial or on a live idle connection, and every
		// push whose target has answered has gone through AddRtmpPushSession
		ps := w.PsExpected
		if w.PsAuto {
			// a session the server ended by itself: no group holds it any more AND its goroutine is gone
			// (the harness still expects it; it learns from the group's slot afterwards)
			if n := logic.VerifPsCount(w.SM); n < ps && pend+len(live)+n == gor+int(atomic.LoadInt64(&w.ExtraGor)) {
				ps = n
			}
		}
		have, want := pend+len(live)+ps, gor+int(atomic.LoadInt64(&w.ExtraGor))
		if (have == want || (w.RelaxedRelay && have > want)) && (pushAdds == startedPush || w.RelaxedRelay) {
			// the network must still be quiet (a goroutine may have moved between the two looks) and no
			// origin may have unread output (a dial accepted after this round's pump)
			unread := false
			for _, d := range live {
				if d.Origin != nil && d.Conn.HasOutput() { // (a scripted peer without an origin is read by the harness)
					unread = true
				}
			}
			if !unread && w.Net.IsQuiescent() {
				return nil
			}
			if time.Now().Before(deadline) {
				continue
			}
		}
		if time.Now().After(deadline) {
			return fmt.Errorf("%w: relay goroutines never came to rest: %d relay goroutines alive (%d push sessions handed to their group), environment has %d pending dials, %d live client connections (%d push targets answered), %d GB28181 sessions expected: %s",
				netsim.ErrHang, gor, pushAdds, pend, len(live), startedPush, w.PsExpected, w.Net.Describe())
		}
		time.Sleep(20 * time.Microsecond)
	}
}

func (w *W) closeRelay() {
	w.dmu.Lock()
	w.closing = true
	ds := append([]*Dial{}, w.Dials...)
	w.dmu.Unlock()
	for _, d := range ds {
		d.Refuse()
	}
}

// ---- server-role RTMP reference peer ---------------------------------------------------------------------

// RtmpOrigin is the remote end of a connection lal opened: it answers the simple handshake, connect,
// createStream and play / publish, records what lal asked for and what it pushed.
type RtmpOrigin struct {
	W       *W
	Conn    *netsim.Conn
	dec     *ref.ChunkDecoder
	enc     *ref.ChunkEncoder
	hsIn    int // bytes of C0C1C2 still to skip
	hsSent  bool
	Auto    bool   // answer commands
	HoldAt  string // command name not to answer ("connect", "play", "publish")
	Cmds    []string
	App     string
	TcUrl   string
	Stream  string // stream name with query as given in play / publish
	Role    string // play | publish
	Started bool   // Play.Start / Publish.Start sent
	Msgs    []ref.Msg
	DecErr  error
	raw     []byte
	// RTSP server role (chosen when the client's first byte is a letter): answers OPTIONS, DESCRIBE
	// (an AAC-only description), SETUP (interleaved) and PLAY
	Rtsp    bool
	rtspRaw []byte
}

// Pump consumes what lal wrote and answers; reports whether it fed anything to lal.
func (o *RtmpOrigin) Pump() bool {
	b := o.Conn.Take()
	if len(b) == 0 {
		return false
	}
	fed := false
	o.raw = append(o.raw, b...)
	if !o.Rtsp && !o.hsSent && len(o.raw) > 0 && o.raw[0] >= 'A' && o.raw[0] <= 'Z' {
		o.Rtsp = true // the client speaks RTSP (an RTMP client starts with the version byte 3)
		o.rtspRaw = append(o.rtspRaw, o.raw[:len(o.raw)-len(b)]...)
	}
	if o.Rtsp {
		return o.pumpRtsp(b)
	}
	if !o.hsSent && len(o.raw) >= 1+1536 {
		s := make([]byte, 1+1536+1536)
		s[0] = 3
		copy(s[1+1536:], o.raw[1:1+1536]) // S2 echoes C1
		o.Conn.Feed(s)
		o.hsSent = true
		fed = true
	}
	if o.hsIn > 0 {
		n := o.hsIn
		if n > len(b) {
			n = len(b)
		}
		o.hsIn -= n
		b = b[n:]
	}
	if len(b) == 0 || o.DecErr != nil {
		return fed
	}
	ms, err := o.dec.Feed(b)
	if err != nil {
		o.DecErr = err
		return fed
	}
	for _, m := range ms {
		if m.Type != 20 {
			if m.Type == 8 || m.Type == 9 || m.Type == 18 {
				o.Msgs = append(o.Msgs, m)
			}
			continue
		}
		name, n, err := ref.ADecode(m.Payload)
		if err != nil {
			continue
		}
		tidv, n2, _ := ref.ADecode(m.Payload[n:])
		rest := m.Payload[n+n2:]
		o.Cmds = append(o.Cmds, name.Str)
		switch name.Str {
		case "connect":
			if obj, _, err := ref.ADecode(rest); err == nil {
				for _, p := range obj.Pairs {
					if p.Key == "app" {
						o.App = p.Val.Str
					}
					if p.Key == "tcUrl" {
						o.TcUrl = p.Val.Str
					}
				}
			}
			if o.Auto && o.HoldAt != "connect" {
				props := ref.AVal{Kind: ref.AObject, Pairs: []ref.APair{{"fmsVer", str("FMS/3,0,1,123")}, {"capabilities", ref.AVal{Kind: ref.ANumber, Num: 31}}}}
				info := ref.AVal{Kind: ref.AObject, Pairs: []ref.APair{{"level", str("status")}, {"code", str("NetConnection.Connect.Success")}, {"description", str("Connection succeeded.")}}}
				o.send(ref.Msg{Csid: 3, Type: 20, Msid: 0, Payload: amfCmd("_result", tidv.Num, props, info)})
				fed = true
			}
		case "createStream":
			if o.Auto {
				o.send(ref.Msg{Csid: 3, Type: 20, Msid: 0, Payload: amfCmd("_result", tidv.Num, ref.AVal{Kind: ref.ANull}, ref.AVal{Kind: ref.ANumber, Num: 1})})
				fed = true
			}
		case "play", "publish":
			o.Role = name.Str
			if _, k, err := ref.ADecode(rest); err == nil { // null
				if sv, _, err := ref.ADecode(rest[k:]); err == nil {
					o.Stream = sv.Str
				}
			}
			if o.Auto && o.HoldAt != name.Str {
				o.Start()
				fed = true
			}
		}
	}
	return fed
}

const rtspOriginSdp = "v=0\r\no=- 0 0 IN IP4 127.0.0.1\r\ns=x\r\nc=IN IP4 127.0.0.1\r\nt=0 0\r\nm=audio 0 RTP/AVP 97\r\na=rtpmap:97 MPEG4-GENERIC/44100/2\r\na=fmtp:97 profile-level-id=1;mode=AAC-hbr;sizelength=13;indexlength=3;indexdeltalength=3; config=1210\r\na=control:streamid=0\r\n"

func (o *RtmpOrigin) pumpRtsp(b []byte) bool {
	o.rtspRaw = append(o.rtspRaw, b...)
	items, rest, err := ref.ParseRtspStream(o.rtspRaw)
	if err != nil {
		o.DecErr = err
		return false
	}
	o.rtspRaw = append([]byte{}, o.rtspRaw[len(o.rtspRaw)-rest:]...)
	fed := false
	for _, it := range items {
		if !it.IsMsg || it.Status != 0 {
			continue
		}
		f := strings.Fields(it.StartLine)
		if len(f) < 2 {
			continue
		}
		o.Cmds = append(o.Cmds, f[0])
		if !o.Auto || o.HoldAt == f[0] {
			continue
		}
		cseq := it.Headers["cseq"]
		hdr := "RTSP/1.0 200 OK\r\nCSeq: " + cseq + "\r\n"
		body := ""
		switch f[0] {
		case "OPTIONS":
			hdr += "Public: OPTIONS, DESCRIBE, SETUP, PLAY, TEARDOWN\r\n"
		case "DESCRIBE":
			o.Stream = f[1]
			body = rtspOriginSdp
			hdr += "Content-Type: application/sdp\r\nContent-Base: " + f[1] + "/\r\n" + fmt.Sprintf("Content-Length: %d\r\n", len(body))
		case "SETUP":
			hdr += "Transport: RTP/AVP/TCP;unicast;interleaved=0-1\r\nSession: 12345678\r\n"
		case "PLAY":
			hdr += "Session: 12345678\r\n"
			o.Role = "play"
			o.Started = true
		default:
			hdr += "Session: 12345678\r\n"
		}
		o.Conn.Feed([]byte(hdr + "\r\n" + body))
		fed = true
	}
	return fed
}

// RawLen: bytes received from lal so far.
func (o *RtmpOrigin) RawLen() int { return len(o.raw) }

// Start sends the onStatus that completes lal's Start().
func (o *RtmpOrigin) Start() {
	code := "NetStream.Play.Start"
	if o.Role == "publish" {
		code = "NetStream.Publish.Start"
	}
	info := ref.AVal{Kind: ref.AObject, Pairs: []ref.APair{{"level", str("status")}, {"code", str(code)}, {"description", str("ok")}}}
	ms := []ref.Msg{{Csid: 5, Type: 20, Msid: 1, Payload: amfCmd("onStatus", 0, ref.AVal{Kind: ref.ANull}, info)}}
	if o.Role != "publish" {
		// an eager origin: the first media arrives in the same segment as the status (one Feed, so a client that
		// reads through a buffer has it before it has acted on the status)
		ms = append(ms, o.W.OriginEager...)
	}
	o.send(ms...)
	o.Started = true
}

func (o *RtmpOrigin) send(ms ...ref.Msg) {
	b, _ := o.enc.Encode(ms, ref.First)
	o.Conn.Feed(b)
}

// SendMsgs feeds media to lal (an origin serving a pull).
func (o *RtmpOrigin) SendMsgs(ms ...ref.Msg) { o.send(ms...) }

// Close closes the remote end.
func (o *RtmpOrigin) Close() { o.Conn.PeerClose() }
