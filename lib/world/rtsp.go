package world

import (
	"fmt"

	"github.com/q191201771/lal/pkg/logic"
	"github.com/q191201771/lal/pkg/rtsp"

	"verif/lib/netsim"
	"verif/lib/ref"
)

// RtspPeer is a reference RTSP client (publisher or player) over an in-memory connection served by
// the real rtsp.Server.
type RtspPeer struct {
	W      *W
	Conn   *netsim.Conn
	Uri    string
	cseq   int
	raw    []byte
	Items  []ref.RtspItem // everything lal has written, parsed
	Err    error
	Tracks []string // control attributes from the SDP (publisher: as announced; player: as described)
}

func (w *W) NewRtspPeer(uri string) *RtspPeer {
	w.nconn++
	c := w.Net.NewConn(fmt.Sprintf("rtsp%d", w.nconn))
	srv := logic.VerifRtspServer(w.SM)
	w.Net.Go(c, func() { rtsp.VerifHandleConn(srv, c) })
	return &RtspPeer{W: w, Conn: c, Uri: uri}
}

func (p *RtspPeer) Request(method, uri string, headers map[string]string, body []byte) {
	p.cseq++
	p.Conn.Feed(ref.RtspRequest(method, uri, p.cseq, headers, body))
}

// Pump parses what lal has written since the last call.
func (p *RtspPeer) Pump() []ref.RtspItem {
	p.raw = append(p.raw, p.Conn.Take()...)
	if p.Err != nil {
		return nil
	}
	items, rest, err := ref.ParseRtspStream(p.raw)
	if err != nil {
		p.Err = err
		return nil
	}
	p.raw = append([]byte{}, p.raw[len(p.raw)-rest:]...)
	p.Items = append(p.Items, items...)
	return items
}

// Residue: bytes received that do not yet form a whole item.
func (p *RtspPeer) Residue() int { return len(p.raw) }

func (p *RtspPeer) LastStatus() int {
	for i := len(p.Items) - 1; i >= 0; i-- {
		if p.Items[i].IsMsg {
			return p.Items[i].Status
		}
	}
	return 0
}

func (p *RtspPeer) Accepted() bool { return !p.Conn.Closed() && !p.Conn.Done() }
func (p *RtspPeer) Close()         { p.Conn.PeerClose() }

// RtspPublisher ANNOUNCEs sdp, SETUPs every track interleaved (channels 2k / 2k+1) and RECORDs.
func (w *W) RtspPublisher(uri string, sdp []byte, controls []string) (*RtspPeer, error) {
	p := w.NewRtspPeer(uri)
	p.Tracks = controls
	p.Request("ANNOUNCE", uri, map[string]string{"Content-Type": "application/sdp"}, sdp)
	if err := w.Settle(); err != nil {
		return p, err
	}
	p.Pump()
	if !p.Accepted() || p.LastStatus() != 200 {
		return p, nil
	}
	for i, c := range controls {
		p.Request("SETUP", uri+"/"+c, map[string]string{"Transport": fmt.Sprintf("RTP/AVP/TCP;unicast;interleaved=%d-%d;mode=record", 2*i, 2*i+1)}, nil)
	}
	p.Request("RECORD", uri, map[string]string{"Range": "npt=0.000-"}, nil)
	err := w.Settle()
	p.Pump()
	return p, err
}

// RtspPlayer DESCRIBEs, SETUPs every described track interleaved and PLAYs. If lal holds the
// DESCRIBE answer back (no SDP yet) the peer stays in the described stage; call Continue later.
func (w *W) RtspPlayer(uri string, extraHeaders map[string]string) (*RtspPeer, error) {
	p := w.NewRtspPeer(uri)
	h := map[string]string{"Accept": "application/sdp"}
	for k, v := range extraHeaders {
		h[k] = v
	}
	p.Request("DESCRIBE", uri, h, nil)
	if err := w.Settle(); err != nil {
		return p, err
	}
	p.Pump()
	return p, p.Continue()
}

// Continue finishes SETUP/PLAY once the DESCRIBE response has arrived.
func (p *RtspPeer) Continue() error {
	if len(p.Tracks) > 0 || !p.Accepted() {
		return nil
	}
	var sdp []byte
	for _, it := range p.Items {
		if it.IsMsg && it.Status == 200 && len(it.Body) > 0 {
			sdp = it.Body
		}
	}
	if sdp == nil {
		return nil
	}
	s, err := ref.ParseSdp(sdp)
	if err != nil {
		p.Err = fmt.Errorf("DESCRIBE body is not a valid SDP: %w", err)
		return nil
	}
	for i, m := range s.Media {
		p.Tracks = append(p.Tracks, m.Control)
		p.Request("SETUP", p.Uri+"/"+m.Control, map[string]string{"Transport": fmt.Sprintf("RTP/AVP/TCP;unicast;interleaved=%d-%d", 2*i, 2*i+1)}, nil)
	}
	p.Request("PLAY", p.Uri, map[string]string{"Range": "npt=0.000-"}, nil)
	err = p.W.Settle()
	p.Pump()
	return err
}

// SendRtp feeds one interleaved RTP packet on the track's RTP channel.
func (p *RtspPeer) SendRtp(track int, pkt []byte) { p.Conn.Feed(ref.Interleaved(2*track, pkt)) }
