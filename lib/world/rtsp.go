package world

import (
	"fmt"
	"net/http"
	"strings"

	"github.com/q191201771/lal/pkg/logic"
	"github.com/q191201771/lal/pkg/rtsp"

	"verif/lib/netsim"
	"verif/lib/ref"
)

// RtspPeer is a reference RTSP client (publisher or player) over an in-memory connection served by
// the real rtsp.Server.
type RtspPeer struct {
	W      *W
	Conn   *netsim.Conn
	Uri    string
	cseq   int
	raw    []byte
	Items  []ref.RtspItem // everything lal has written, parsed
	Err    error
	Tracks []string // control attributes from the SDP (publisher: as announced; player: as described)
	// Ws: RTSP over WebSocket (requests go out as masked binary frames; what lal writes is an HTTP 101
	// answer followed by unmasked binary frames whose payloads form the RTSP byte stream)
	Ws      bool
	wsRaw   []byte
	wsHdrOk bool
}

func (w *W) NewRtspPeer(uri string) *RtspPeer {
	w.nconn++
	c := w.Net.NewConn(fmt.Sprintf("rtsp%d", w.nconn))
	srv := logic.VerifRtspServer(w.SM)
	w.Net.Go(c, func() { rtsp.VerifHandleConn(srv, c) })
	return &RtspPeer{W: w, Conn: c, Uri: uri}
}

func (p *RtspPeer) Request(method, uri string, headers map[string]string, body []byte) {
	p.cseq++
	b := ref.RtspRequest(method, uri, p.cseq, headers, body)
	if p.Ws {
		b = wsMasked(b)
	}
	p.Conn.Feed(b)
}

func wsMasked(payload []byte) []byte {
	b := []byte{0x82}
	switch {
	case len(payload) < 126:
		b = append(b, 0x80|byte(len(payload)))
	case len(payload) < 65536:
		b = append(b, 0x80|126, byte(len(payload)>>8), byte(len(payload)))
	default:
		b = append(b, 0x80|127, 0, 0, 0, 0, byte(len(payload)>>24), byte(len(payload)>>16), byte(len(payload)>>8), byte(len(payload)))
	}
	key := []byte{9, 8, 7, 6}
	b = append(b, key...)
	for i, x := range payload {
		b = append(b, x^key[i%4])
	}
	return b
}

// NewRtspWsPeer is an RTSP client over WebSocket served by the real rtsp WebSocket handler.
func (w *W) NewRtspWsPeer(uri string) *RtspPeer {
	w.nconn++
	c := w.Net.NewConn(fmt.Sprintf("wsrtsp%d", w.nconn))
	req, _ := http.NewRequest("GET", "http://h/live/s", nil)
	req.RemoteAddr = c.Remote
	req.Header.Set("Connection", "Upgrade")
	req.Header.Set("Upgrade", "websocket")
	req.Header.Set("Sec-WebSocket-Key", "dGhlIHNhbXBsZSBub25jZQ==")
	hw := NewHijackWriter(c)
	w.Net.Go(c, func() { rtsp.VerifHandleWs(w.SM, rtsp.ServerAuthConfig{}, hw, req) })
	return &RtspPeer{W: w, Conn: c, Uri: uri, Ws: true}
}

// unwrapWs turns what arrived on a WebSocket connection into the RTSP byte stream it carries.
func (p *RtspPeer) unwrapWs(b []byte) []byte {
	p.wsRaw = append(p.wsRaw, b...)
	if !p.wsHdrOk {
		i := strings.Index(string(p.wsRaw), "\r\n\r\n")
		if i < 0 {
			return nil
		}
		if !strings.HasPrefix(string(p.wsRaw), "HTTP/1.1 101") {
			p.Err = fmt.Errorf("websocket upgrade answered %q", strings.SplitN(string(p.wsRaw), "\r\n", 2)[0])
			return nil
		}
		p.wsRaw = append([]byte{}, p.wsRaw[i+4:]...)
		p.wsHdrOk = true
	}
	frames, rest, err := ref.ParseWsFrames(p.wsRaw)
	if err != nil {
		p.Err = fmt.Errorf("websocket framing: %w", err)
		return nil
	}
	p.wsRaw = append([]byte{}, p.wsRaw[len(p.wsRaw)-rest:]...)
	var out []byte
	for _, f := range frames {
		if f.Masked || !f.Fin || f.Opcode != 2 {
			p.Err = fmt.Errorf("websocket frame fin=%v opcode=%d masked=%v (want one unmasked binary frame per unit)", f.Fin, f.Opcode, f.Masked)
			return nil
		}
		// one WebSocket frame carries whole RTSP units
		if _, r, err := ref.ParseRtspStream(f.Payload); err != nil || r != 0 {
			p.Err = fmt.Errorf("websocket frame of %d bytes does not hold whole RTSP units (rest %d, %v)", len(f.Payload), r, err)
			return nil
		}
		out = append(out, f.Payload...)
	}
	return out
}

// Pump parses what lal has written since the last call.
func (p *RtspPeer) Pump() []ref.RtspItem {
	got := p.Conn.Take()
	if p.Ws && p.Err == nil {
		got = p.unwrapWs(got)
	}
	p.raw = append(p.raw, got...)
	if p.Err != nil {
		return nil
	}
	items, rest, err := ref.ParseRtspStream(p.raw)
	if err != nil {
		p.Err = err
		return nil
	}
	p.raw = append([]byte{}, p.raw[len(p.raw)-rest:]...)
	p.Items = append(p.Items, items...)
	return items
}

// Residue: bytes received that do not yet form a whole item.
func (p *RtspPeer) Residue() int { return len(p.raw) + len(p.wsRaw) }

func (p *RtspPeer) LastStatus() int {
	for i := len(p.Items) - 1; i >= 0; i-- {
		if p.Items[i].IsMsg {
			return p.Items[i].Status
		}
	}
	return 0
}

func (p *RtspPeer) Accepted() bool { return !p.Conn.Closed() && !p.Conn.Done() }
func (p *RtspPeer) Close()         { p.Conn.PeerClose() }

// RtspPublisher ANNOUNCEs sdp, SETUPs every track interleaved (channels 2k / 2k+1) and RECORDs.
func (w *W) RtspPublisher(uri string, sdp []byte, controls []string) (*RtspPeer, error) {
	p := w.NewRtspPeer(uri)
	p.Tracks = controls
	p.Request("ANNOUNCE", uri, map[string]string{"Content-Type": "application/sdp"}, sdp)
	if err := w.Settle(); err != nil {
		return p, err
	}
	p.Pump()
	if !p.Accepted() || p.LastStatus() != 200 {
		return p, nil
	}
	for i, c := range controls {
		p.Request("SETUP", uri+"/"+c, map[string]string{"Transport": fmt.Sprintf("RTP/AVP/TCP;unicast;interleaved=%d-%d;mode=record", 2*i, 2*i+1)}, nil)
	}
	p.Request("RECORD", uri, map[string]string{"Range": "npt=0.000-"}, nil)
	err := w.Settle()
	p.Pump()
	return p, err
}

// RtspPlayer DESCRIBEs, SETUPs every described track interleaved and PLAYs. If lal holds the
// DESCRIBE answer back (no SDP yet) the peer stays in the described stage; call Continue later.
func (w *W) RtspPlayer(uri string, extraHeaders map[string]string) (*RtspPeer, error) {
	return w.rtspPlayerOn(w.NewRtspPeer(uri), uri, extraHeaders)
}

// RtspPlayerWs: the same player over WebSocket.
func (w *W) RtspPlayerWs(uri string, extraHeaders map[string]string) (*RtspPeer, error) {
	p := w.NewRtspWsPeer(uri)
	if err := w.Settle(); err != nil {
		return p, err
	}
	return w.rtspPlayerOn(p, uri, extraHeaders)
}

func (w *W) rtspPlayerOn(p *RtspPeer, uri string, extraHeaders map[string]string) (*RtspPeer, error) {
	h := map[string]string{"Accept": "application/sdp"}
	for k, v := range extraHeaders {
		h[k] = v
	}
	p.Request("DESCRIBE", uri, h, nil)
	if err := w.Settle(); err != nil {
		return p, err
	}
	p.Pump()
	return p, p.Continue()
}

// Continue finishes SETUP/PLAY once the DESCRIBE response has arrived.
func (p *RtspPeer) Continue() error {
	if len(p.Tracks) > 0 || !p.Accepted() {
		return nil
	}
	var sdp []byte
	for _, it := range p.Items {
		if it.IsMsg && it.Status == 200 && len(it.Body) > 0 {
			sdp = it.Body
		}
	}
	if sdp == nil {
		return nil
	}
	s, err := ref.ParseSdp(sdp)
	if err != nil {
		p.Err = fmt.Errorf("DESCRIBE body is not a valid SDP: %w", err)
		return nil
	}
	for i, m := range s.Media {
		p.Tracks = append(p.Tracks, m.Control)
		p.Request("SETUP", p.Uri+"/"+m.Control, map[string]string{"Transport": fmt.Sprintf("RTP/AVP/TCP;unicast;interleaved=%d-%d", 2*i, 2*i+1)}, nil)
	}
	p.Request("PLAY", p.Uri, map[string]string{"Range": "npt=0.000-"}, nil)
	err = p.W.Settle()
	p.Pump()
	return err
}

// SendRtp feeds one interleaved RTP packet on the track's RTP channel.
func (p *RtspPeer) SendRtp(track int, pkt []byte) { p.Conn.Feed(ref.Interleaved(2*track, pkt)) }
