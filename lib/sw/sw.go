// Package sw ("stream world") drives one stream of a real lal server with a publisher and consumers
// built on reference codecs, one event at a time, and records what was published and what every
// consumer decoded. It is the shared substrate of the event-sequence explorers (C01, C02, C16, ...).
package sw

import (
	"bytes"
	"encoding/binary"
	"fmt"
	"os"
	"path/filepath"
	"strings"

	"verif/lib/ref"
	"verif/lib/world"
)

// ---- published messages -------------------------------------------------------------------------------------

type PubMsg struct {
	Idx     int
	Inc     int    // publisher incarnation
	Kind    string // meta metasdf vsh vsh2 key inter ash aac zero hvsh hkey hinter g711 ...
	Type    uint8
	Ts      uint32
	Payload []byte
}

func (m PubMsg) String() string { return fmt.Sprintf("#%d:%s@%d", m.Idx, m.Kind, m.Ts) }

var avcSps = ref.WriteAvcSps(ref.AvcSps{Profile: 100, Level: 31, ChromaFormat: 1, PocType: 0, Log2MaxPocLsbM4: 2, MaxNumRefFrames: 3, WidthMbsM1: 19, HeightMapUnitsM1: 14, FrameMbsOnly: true, Direct8x8: true})
var avcSps2 = ref.WriteAvcSps(ref.AvcSps{Profile: 100, Level: 31, ChromaFormat: 1, PocType: 0, Log2MaxPocLsbM4: 2, MaxNumRefFrames: 3, WidthMbsM1: 39, HeightMapUnitsM1: 29, FrameMbsOnly: true, Direct8x8: true})

func avcSeqHeader(sps, pps []byte) []byte {
	b := []byte{0x17, 0, 0, 0, 0, 1, sps[1], sps[2], sps[3], 0xff, 0xe1}
	b = append(b, byte(len(sps)>>8), byte(len(sps)))
	b = append(b, sps...)
	b = append(b, 1, byte(len(pps)>>8), byte(len(pps)))
	return append(b, pps...)
}

func nalFrame(first byte, nalHdr byte, idx int, size int) []byte {
	if size < 8 {
		size = 8
	}
	nal := make([]byte, size)
	nal[0] = nalHdr
	nal[1] = 0x88
	nal[2] = byte(idx >> 8)
	nal[3] = byte(idx)
	for i := 4; i < size; i++ {
		nal[i] = byte(i*7+idx) | 1 // never 0: no start-code emulation inside
	}
	b := []byte{first, 1, 0, 0, 0, byte(size >> 24), byte(size >> 16), byte(size >> 8), byte(size)}
	return append(b, nal...)
}

// MakeMsg builds a message of the given kind whose payload carries idx.
func MakeMsg(kind string, idx int, ts uint32, size int) PubMsg {
	m := PubMsg{Idx: idx, Kind: kind, Ts: ts}
	switch kind {
	case "meta", "metasdf":
		m.Type = 18
		obj := ref.AVal{Kind: ref.AObject, Pairs: []ref.APair{{"width", ref.AVal{Kind: ref.ANumber, Num: 320}}, {"vidx", ref.AVal{Kind: ref.ANumber, Num: float64(idx)}}}}
		var b []byte
		if kind == "metasdf" {
			b = ref.AEncode(ref.AVal{Kind: ref.AString, Str: "@setDataFrame"})
		}
		b = append(b, ref.AEncode(ref.AVal{Kind: ref.AString, Str: "onMetaData"})...)
		m.Payload = append(b, ref.AEncode(obj)...)
	case "vsh":
		m.Type = 9
		m.Payload = avcSeqHeader(avcSps, []byte{0x68, 0xce, 0x3c, 0x80, 0x80 | byte(idx>>7)&0x7f, 0x80 | byte(idx)&0x7f})
	case "vsh2": // a different sequence header (other SPS)
		m.Type = 9
		m.Payload = avcSeqHeader(avcSps2, []byte{0x68, 0xce, 0x3c, 0x80, 0x80 | byte(idx>>7)&0x7f, 0x80 | byte(idx)&0x7f})
	case "key":
		m.Type = 9
		m.Payload = nalFrame(0x17, 0x65, idx, size)
	case "inter":
		m.Type = 9
		m.Payload = nalFrame(0x27, 0x41, idx, size)
	case "ash":
		m.Type = 8
		m.Payload = []byte{0xaf, 0, 0x12, 0x10, 0x56, 0xe5, byte(idx >> 8), byte(idx)}
	case "aac":
		m.Type = 8
		if size < 6 {
			size = 6
		}
		p := make([]byte, size)
		p[0], p[1], p[2], p[3] = 0xaf, 1, byte(idx>>8), byte(idx)
		for i := 4; i < size; i++ {
			p[i] = byte(i*5 + idx)
		}
		m.Payload = p
	case "g711":
		m.Type = 8
		if size < 6 {
			size = 6
		}
		p := make([]byte, size)
		p[0], p[1], p[2] = 0x72, byte(idx>>8), byte(idx)
		m.Payload = p
	case "zero":
		m.Type = 8
		m.Payload = nil
	default:
		panic("unknown message kind " + kind)
	}
	return m
}

// IdxOf recovers the index from a received payload (any representation of the same message).
func IdxOf(typ uint8, p []byte) (kind string, idx int, ok bool) {
	switch typ {
	case 18:
		b := p
		sdf := false
		if v, n, err := ref.ADecode(b); err == nil && v.Str == "@setDataFrame" {
			b = b[n:]
			sdf = true
		}
		v, n, err := ref.ADecode(b)
		if err != nil || v.Str != "onMetaData" {
			return "", 0, false
		}
		o, _, err := ref.ADecode(b[n:])
		if err != nil {
			return "", 0, false
		}
		for _, pr := range o.Pairs {
			if pr.Key == "vidx" {
				if sdf {
					return "metasdf", int(pr.Val.Num), true
				}
				return "meta", int(pr.Val.Num), true
			}
		}
	case 9:
		if len(p) >= 5 && p[0] == 0x17 && p[1] == 0 {
			if len(p) < 8 {
				return "", 0, false
			}
			k := "vsh"
			if bytes.Contains(p, avcSps2) {
				k = "vsh2"
			}
			return k, int(p[len(p)-2]&0x7f)<<7 | int(p[len(p)-1]&0x7f), true
		}
		if len(p) >= 13 && p[1] == 1 {
			k := "inter"
			if p[0] == 0x17 {
				k = "key"
			}
			return k, int(p[11])<<8 | int(p[12]), true
		}
	case 8:
		if len(p) >= 8 && p[0] == 0xaf && p[1] == 0 {
			return "ash", int(p[6])<<8 | int(p[7]), true
		}
		if len(p) >= 4 && p[0] == 0xaf && p[1] == 1 {
			return "aac", int(p[2])<<8 | int(p[3]), true
		}
		if len(p) >= 3 && p[0] == 0x72 {
			return "g711", int(p[1])<<8 | int(p[2]), true
		}
	}
	return "", 0, false
}

// ---- consumers ------------------------------------------------------------------------------------------------

type Recv struct {
	Type    uint8
	Ts      uint32
	Payload []byte
	Kind    string
	Idx     int
	Known   bool
	AtInc   int  // publisher incarnation counter when this message was delivered
	AtAlive bool // a publisher was attached when it was delivered
	AtPub   int  // len(Published) when it was delivered
}

type Consumer struct {
	ID      int
	Kind    string // rtmp flv wsflv ts
	Join    int    // len(Published) at the join event
	JoinInc int    // publisher incarnation at join (0 = none yet)
	Left    bool
	Rtmp    *world.RtmpPeer
	Http    *world.HttpPeer
	Rtsp    *world.RtspPeer
	RtpPkts int // rtsp: interleaved RTP packets received so far
	Recv    []Recv
	Err     string // framing / decoding error of the byte stream itself
	flvHdr  bool
	flvBuf  []byte
	TsBytes []byte // raw TS for "ts" consumers
	// number of control messages seen before media (rtmp)
	AtJoinPublished int
	curInc          int
	curAlive        bool
	curPub          int
}

// X is one execution: a fresh server, a publisher slot, consumers, the publish log.
type X struct {
	W         *world.W
	Conf      world.Conf
	App       string
	Stream    string
	Pub       *world.RtmpPeer
	Inc       int // current incarnation number (counts arrivals)
	PubAlive  bool
	Published []PubMsg
	Consumers []*Consumer
	NextTs    uint32
	TsStep    uint32
	FrameSize int
	Log       []string
	recDir    string
}

func New(conf world.Conf) *X {
	x := &X{Conf: conf, App: "live", Stream: "s", TsStep: 40, FrameSize: 24}
	onF, _ := conf["record.enable_flv"].(bool)
	onT, _ := conf["record.enable_mpegts"].(bool)
	if onF || onT {
		d, err := os.MkdirTemp(world.Scratch(), "rec")
		if err != nil {
			panic(err)
		}
		x.recDir = d
		conf["record.flv_out_path"] = d + "/"
		conf["record.mpegts_out_path"] = d + "/"
	}
	x.W = world.New(conf)
	return x
}

// Close removes scratch files.
func (x *X) Close() {
	x.W.Close()
	if x.recDir != "" {
		os.RemoveAll(x.recDir)
	}
}

func (x *X) logf(f string, a ...interface{}) { x.Log = append(x.Log, fmt.Sprintf(f, a...)) }

// PubArrive starts a publisher (a new incarnation if accepted).
func (x *X) PubArrive() (accepted bool, err error) {
	p, err := x.W.RtmpPublisher(x.App, x.Stream)
	if err != nil {
		return false, err
	}
	if !p.Accepted() {
		return false, nil
	}
	x.Pub = p
	x.Inc++
	x.PubAlive = true
	return true, nil
}

func (x *X) PubLeave() error {
	if x.Pub == nil {
		return nil
	}
	x.Pub.Close()
	err := x.W.Settle()
	// what the departure itself delivers (buffered tail of the leaving publisher) belongs to its time
	x.PumpAll()
	x.PubAlive = false
	x.Pub = nil
	return err
}

// Publish sends one message of the kind from the live publisher.
func (x *X) Publish(kind string) (PubMsg, error) {
	m := MakeMsg(kind, len(x.Published), x.NextTs, x.FrameSize)
	return m, x.PublishMsg(m)
}

func (x *X) PublishMsg(m PubMsg) error {
	m.Inc = x.Inc
	m.Idx = len(x.Published)
	x.NextTs = m.Ts + x.TsStep
	x.Published = append(x.Published, m)
	csid := 6
	if m.Type == 8 {
		csid = 4
	}
	x.Pub.SendMsgs(ref.Msg{Csid: csid, Type: m.Type, Msid: 1, Ts: m.Ts, Payload: m.Payload})
	if err := x.W.Settle(); err != nil {
		return err
	}
	x.PumpAll()
	return nil
}

// Join adds a consumer.
func (x *X) Join(kind string) (*Consumer, error) {
	c := &Consumer{ID: len(x.Consumers), Kind: kind, Join: len(x.Published), JoinInc: 0}
	if x.PubAlive {
		c.JoinInc = x.Inc
	}
	var err error
	switch kind {
	case "rtmp":
		c.Rtmp, err = x.W.RtmpPlayer(x.App, x.Stream)
	case "flv":
		c.Http, err = x.W.HttpSub("/"+x.App+"/"+x.Stream+".flv", false)
	case "wsflv":
		c.Http, err = x.W.HttpSub("/"+x.App+"/"+x.Stream+".flv", true)
	case "ts":
		c.Http, err = x.W.HttpSub("/"+x.App+"/"+x.Stream+".ts", false)
	case "rtsp":
		c.Rtsp, err = x.W.RtspPlayer("rtsp://h/"+x.App+"/"+x.Stream, nil)
	case "wsrtsp":
		c.Rtsp, err = x.W.RtspPlayerWs("rtsp://h/"+x.App+"/"+x.Stream, nil)
	default:
		panic("consumer kind " + kind)
	}
	x.Consumers = append(x.Consumers, c)
	x.PumpAll()
	return c, err
}

func (x *X) Leave(c *Consumer) error {
	if c.Left {
		return nil
	}
	c.Left = true
	if c.Rtmp != nil {
		c.Rtmp.Close()
	} else if c.Rtsp != nil {
		c.Rtsp.Close()
	} else {
		c.Http.Close()
	}
	err := x.W.Settle()
	x.pump(c)
	return err
}

func (x *X) Tick() error {
	err := x.W.Tick()
	x.PumpAll()
	return err
}

func (x *X) PumpAll() {
	for _, c := range x.Consumers {
		x.pump(c)
	}
}

func (c *Consumer) add(typ uint8, ts uint32, p []byte) {
	r := Recv{Type: typ, Ts: ts, Payload: p, AtInc: c.curInc, AtAlive: c.curAlive, AtPub: c.curPub}
	r.Kind, r.Idx, r.Known = IdxOf(typ, p)
	c.Recv = append(c.Recv, r)
}

func (x *X) pump(c *Consumer) {
	c.curInc, c.curAlive, c.curPub = x.Inc, x.PubAlive, len(x.Published)
	switch {
	case c.Rtmp != nil:
		for _, m := range c.Rtmp.Pump() {
			if m.Type == 8 || m.Type == 9 || m.Type == 18 {
				c.add(m.Type, m.Ts, m.Payload)
			}
		}
		if c.Rtmp.DecErr != nil && c.Err == "" {
			c.Err = "rtmp chunk stream: " + c.Rtmp.DecErr.Error()
		}
	case c.Rtsp != nil:
		for _, it := range c.Rtsp.Pump() {
			if it.IsMsg {
				continue
			}
			switch {
			case it.Channel < 0 || it.Channel > 3:
				if c.Err == "" {
					c.Err = fmt.Sprintf("interleaved frame on channel %d, which was never set up", it.Channel)
				}
			case it.Channel%2 == 0:
				if len(it.Data) < 12 || it.Data[0]>>6 != 2 {
					if c.Err == "" {
						c.Err = fmt.Sprintf("interleaved frame on RTP channel %d does not hold an RTP packet (% x)", it.Channel, it.Data[:minInt(len(it.Data), 16)])
					}
				} else {
					c.RtpPkts++
				}
			}
		}
		if c.Rtsp.Err != nil && c.Err == "" {
			c.Err = "rtsp interleaved stream: " + c.Rtsp.Err.Error()
		}
	case c.Kind == "ts":
		c.Http.Pump()
		c.TsBytes = c.Http.Body
	default:
		c.Http.Pump()
		if c.Http.Err != nil && c.Err == "" {
			c.Err = "websocket framing: " + c.Http.Err.Error()
		}
		// parse incrementally from the not yet consumed part
		c.flvBuf = append(c.flvBuf, c.Http.Body...)
		c.Http.Body = nil
		if !c.flvHdr {
			if len(c.flvBuf) < 13 {
				return
			}
			rest, err := ref.ParseFlvHeader(c.flvBuf)
			if err != nil {
				if c.Err == "" {
					c.Err = err.Error()
				}
				return
			}
			c.flvHdr = true
			c.flvBuf = append([]byte{}, rest...)
		}
		tags, rest, err := ref.ParseFlvTags(c.flvBuf)
		if err != nil && c.Err == "" {
			c.Err = err.Error()
		}
		for _, t := range tags {
			c.add(t.Type, t.Ts, t.Payload)
		}
		c.flvBuf = append([]byte{}, c.flvBuf[len(c.flvBuf)-rest:]...)
	}
}

// RecordFlv returns the parsed content of every FLV record file, in file-name order.
func (x *X) RecordFlv() (files []string, recs [][]Recv, errs []string) {
	if x.recDir == "" {
		return
	}
	ents, _ := filepath.Glob(filepath.Join(x.recDir, "*.flv"))
	for _, f := range ents {
		b, _ := os.ReadFile(f)
		files = append(files, filepath.Base(f))
		var rs []Recv
		rest, err := ref.ParseFlvHeader(b)
		if err != nil {
			errs = append(errs, f+": "+err.Error())
			recs = append(recs, nil)
			continue
		}
		tags, left, err := ref.ParseFlvTags(rest)
		if err != nil || left != 0 {
			errs = append(errs, fmt.Sprintf("%s: err=%v trailing=%d", f, err, left))
		}
		for _, t := range tags {
			r := Recv{Type: t.Type, Ts: t.Ts, Payload: t.Payload}
			r.Kind, r.Idx, r.Known = IdxOf(t.Type, t.Payload)
			rs = append(rs, r)
		}
		recs = append(recs, rs)
	}
	return
}

// RecordTs returns the raw bytes of every TS record file, in file-name order.
func (x *X) RecordTs() (files []string, data [][]byte) {
	if x.recDir == "" {
		return
	}
	ents, _ := filepath.Glob(filepath.Join(x.recDir, "*.ts"))
	for _, f := range ents {
		b, _ := os.ReadFile(f)
		files = append(files, filepath.Base(f))
		data = append(data, b)
	}
	return
}

// ChunkedSize is the number of bytes lal's chunk writer uses for a message (chunk size 4096).
func ChunkedSize(m PubMsg, payload []byte) int {
	e := ref.NewChunkEncoder(4096)
	b, _ := e.Encode([]ref.Msg{{Csid: 6, Type: m.Type, Msid: 1, Ts: m.Ts, Payload: payload}}, ref.First)
	return len(b)
}

// StripSdf / EnsureSdf are the reference versions of the only permitted metadata difference.
var sdfBytes = ref.AEncode(ref.AVal{Kind: ref.AString, Str: "@setDataFrame"})

func StripSdf(p []byte) []byte {
	if bytes.HasPrefix(p, sdfBytes) {
		return p[len(sdfBytes):]
	}
	return p
}

func EnsureSdf(p []byte) []byte {
	if bytes.HasPrefix(p, sdfBytes) {
		return p
	}
	return append(append([]byte{}, sdfBytes...), p...)
}

var _ = binary.BigEndian
var _ = strings.Join

func minInt(a, b int) int {
	if a < b {
		return a
	}
	return b
}
