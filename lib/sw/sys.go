package sw

import (
	"fmt"
	"strings"

	"verif/lib/seqx"
	"verif/lib/world"
)

// SysOpts configures the event machine shared by the event-sequence checks.
type SysOpts struct {
	Name     string     `json:"name"`
	Conf     world.Conf `json:"conf"`
	StartPub bool       `json:"start_pub"`
	Alphabet []string   `json:"alphabet"` // P:<kind> J:<kind> PubLeave PubArrive T (L:oldest/L:newest are implied by J)
	Frame    int        `json:"frame_size"`
	// Guarded restricts the publisher to well-formed streams: frames only after their sequence
	// header, an inter frame only after a key frame of the same incarnation.
	Guarded      bool `json:"guarded"`
	MaxConsumers int  `json:"max_consumers"`
	MaxInc       int  `json:"max_incarnations"`
	// Prefix is a history replayed before exploration starts (non-initial start states).
	Prefix []string `json:"prefix"`
	// Init runs on the fresh world before the initial publisher and the prefix (not serialised).
	Init func(x *X) `json:"-"`
}

// Sys implements seqx.Sys over one X.
type Sys struct {
	O       SysOpts
	X       *X
	Merge   int
	infra   error
	CheckFn func(s *Sys) []seqx.Viol
	FpExtra func(s *Sys) string
}

func NewSys(o SysOpts, check func(s *Sys) []seqx.Viol) *Sys {
	conf := world.Conf{}
	for k, v := range o.Conf {
		conf[k] = v
	}
	if o.MaxConsumers == 0 {
		o.MaxConsumers = 3
	}
	if o.MaxInc == 0 {
		o.MaxInc = 2
	}
	s := &Sys{O: o, X: New(conf), CheckFn: check}
	if v, ok := conf["rtmp.merge_write_size"]; ok {
		s.Merge = toInt(v)
	}
	if o.Frame > 0 {
		s.X.FrameSize = o.Frame
	}
	if o.Init != nil {
		o.Init(s.X)
	}
	if o.StartPub {
		if ok, err := s.X.PubArrive(); err != nil || !ok {
			s.infra = fmt.Errorf("initial publisher not accepted: %v", err)
		}
	}
	for _, ev := range o.Prefix {
		if s.infra != nil {
			break
		}
		if err := s.Apply(ev); err != nil {
			s.infra = fmt.Errorf("prefix event %s: %v", ev, err)
		}
	}
	return s
}

func toInt(v interface{}) int {
	switch x := v.(type) {
	case int:
		return x
	case float64:
		return int(x)
	}
	return 0
}

func (s *Sys) Close() { s.X.Close() }

func (s *Sys) Check() []seqx.Viol { return s.CheckFn(s) }

func (s *Sys) Live() []*Consumer {
	var l []*Consumer
	for _, c := range s.X.Consumers {
		if !c.Left {
			l = append(l, c)
		}
	}
	return l
}

// publishedInInc reports whether a message of one of the kinds was published in the current incarnation.
func (s *Sys) publishedInInc(kinds ...string) bool {
	for _, m := range s.X.Published {
		if m.Inc != s.X.Inc {
			continue
		}
		for _, k := range kinds {
			if m.Kind == k {
				return true
			}
		}
	}
	return false
}

func (s *Sys) pubAllowed(kind string) bool {
	if !s.O.Guarded {
		return true
	}
	switch kind {
	case "key":
		return s.publishedInInc("vsh", "vsh2")
	case "inter":
		return s.publishedInInc("key")
	case "aac":
		return s.publishedInInc("ash")
	}
	return true
}

func (s *Sys) Enabled() []string {
	var ev []string
	if s.X.PubAlive {
		for _, k := range s.O.Alphabet {
			if strings.HasPrefix(k, "P:") && s.pubAllowed(k[2:]) {
				ev = append(ev, k)
			}
		}
	}
	l := s.Live()
	if len(l) < s.O.MaxConsumers {
		for _, k := range s.O.Alphabet {
			if strings.HasPrefix(k, "J:") {
				ev = append(ev, k)
			}
		}
	}
	if len(l) > 0 {
		ev = append(ev, "L:oldest")
		if len(l) > 1 {
			ev = append(ev, "L:newest")
		}
	}
	for _, k := range s.O.Alphabet {
		if k == "PubLeave" && s.X.PubAlive {
			ev = append(ev, k)
		}
		if k == "PubArrive" && !s.X.PubAlive && s.X.Inc < s.O.MaxInc {
			ev = append(ev, k)
		}
		if k == "T" {
			ev = append(ev, k)
		}
	}
	return ev
}

func (s *Sys) Apply(ev string) error {
	if s.infra != nil {
		return s.infra
	}
	switch {
	case strings.HasPrefix(ev, "P:"):
		_, err := s.X.Publish(ev[2:])
		return err
	case strings.HasPrefix(ev, "J:"):
		_, err := s.X.Join(ev[2:])
		return err
	case ev == "L:oldest":
		return s.X.Leave(s.Live()[0])
	case ev == "L:newest":
		l := s.Live()
		return s.X.Leave(l[len(l)-1])
	case ev == "PubLeave":
		return s.X.PubLeave()
	case ev == "PubArrive":
		ok, err := s.X.PubArrive()
		if err == nil && !ok {
			return fmt.Errorf("publisher refused although the stream has no input")
		}
		return err
	case ev == "T":
		return s.X.Tick()
	}
	return fmt.Errorf("unknown event %s", ev)
}

func Forwardable(m PubMsg) bool { return len(m.Payload) > 0 }

// Fingerprint: group state dump + publisher state + per-consumer monitor phase.
func (s *Sys) Fingerprint() string {
	var sb strings.Builder
	sb.WriteString(strings.ReplaceAll(s.X.W.Dump(), fmt.Sprintf("w%d-", s.X.W.ID), "w-")) // (host names of relay targets carry the world's id)
	fmt.Fprintf(&sb, " |pub=%v inc=%d", s.X.PubAlive, s.X.Inc)
	for _, a := range s.O.Alphabet {
		if a == "T" { // only searches with ticks can tell liveness states apart
			fmt.Fprintf(&sb, " live[%s]", s.X.W.LivenessSig())
			break
		}
	}
	if s.O.Guarded {
		fmt.Fprintf(&sb, " g[%v %v %v]", s.publishedInInc("vsh", "vsh2"), s.publishedInInc("key"), s.publishedInInc("ash"))
	}
	P := s.X.Published
	for _, c := range s.X.Consumers {
		if c.Left {
			continue
		}
		lastIdx := -1
		hasLive := false
		for _, r := range c.Recv {
			if r.Known && r.Idx >= c.Join {
				hasLive = true
				lastIdx = r.Idx
			}
		}
		pend := 0
		if hasLive {
			for i := lastIdx + 1; i < len(P); i++ {
				if Forwardable(P[i]) && P[i].Inc == P[lastIdx].Inc {
					pend++
				}
			}
		}
		got := 0
		if len(c.Recv) > 0 {
			got = 1
		}
		fmt.Fprintf(&sb, " |c:%s live=%v pend=%d n=%d", c.Kind, hasLive, pend, got)
	}
	if s.FpExtra != nil {
		sb.WriteString(s.FpExtra(s))
	}
	return sb.String()
}
