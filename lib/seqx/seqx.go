// Package seqx is the explicit-state explorer over event sequences of real objects: states are
// reached by replaying their event prefix on a FRESH system (live objects cannot be cloned),
// deduplicated by a canonical fingerprint, explored breadth-first so the first counterexample is a
// shortest one. Every explored trace is an implementation trace.
package seqx

import (
	"errors"
	"fmt"
	"os"
	"sync"
	"sync/atomic"
	"time"
)

type Viol struct {
	Key  string
	What string
}

// Sys is one execution of the system under exploration.
type Sys interface {
	// Apply performs one event and waits for quiescence. An error is an infrastructure error (hang).
	Apply(ev string) error
	// Enabled lists the events enabled in the current state, in a canonical order.
	Enabled() []string
	// Check runs every monitor on the current state / observations.
	Check() []Viol
	// Fingerprint is a canonical form of the state: equal fingerprints must have equal futures.
	Fingerprint() string
	Close()
}

type Config struct {
	New       func() Sys
	MaxDepth  int
	Workers   int
	OutOfTime func() bool
	// OnViolation receives the shortest trace found for each violation instance.
	// Known: violations with a key listed as a known finding do not stop the expansion of the state
	Known       func(key string) bool
	OnViolation func(trace []string, v Viol)
	// OnInfra receives infrastructure errors (hang, nondeterminism); exploration of that branch stops.
	OnInfra func(trace []string, err error)
	// OnState is called once per new state (for coverage classes).
	OnState func(depth int, fp string, trace []string)
}

type Stats struct {
	States, Transitions, Executions int64
	MaxDepthCompleted               int
	Exhaustive                      bool // the frontier became empty before MaxDepth (all reachable states seen)
	Capped                          bool // stopped by OutOfTime
	Frontier                        []int
	Retried                         int64 // executions repeated once because of an infrastructure error (see Explore)
}

type node struct {
	trace []string
	fp    string
}

// Run replays a trace on a fresh system, checking monitors after every event.
func Run(cfg Config, trace []string) (Sys, []Viol, error) {
	s := cfg.New()
	var vs []Viol
	for i, ev := range trace {
		if err := apply(s, ev); err != nil {
			return s, vs, fmt.Errorf("event %d (%s): %w", i, ev, err)
		}
		vs = append(vs, s.Check()...)
		if os.Getenv("VERIF_TRACE_DUMP") != "" {
			fmt.Fprintf(os.Stderr, "after %d %s: %s\n", i, ev, s.Fingerprint())
		}
	}
	return s, vs, nil
}

func Explore(cfg Config) Stats {
	if cfg.Workers <= 0 {
		cfg.Workers = 16
	}
	var st Stats
	seen := map[string]bool{}
	var mu sync.Mutex
	root := cfg.New()
	rootFp := root.Fingerprint()
	closeSys(root)
	seen[rootFp] = true
	st.States = 1
	frontier := []node{{nil, rootFp}}
	st.Exhaustive = false
	for depth := 0; depth < cfg.MaxDepth; depth++ {
		st.Frontier = append(st.Frontier, len(frontier))
		if len(frontier) == 0 {
			st.Exhaustive = true
			break
		}
		var next []node
		var capped int32
		jobs := make(chan node, len(frontier))
		for _, n := range frontier {
			jobs <- n
		}
		close(jobs)
		var wg sync.WaitGroup
		for w := 0; w < cfg.Workers; w++ {
			wg.Add(1)
			go func() {
				defer wg.Done()
				for n := range jobs {
					if cfg.OutOfTime != nil && cfg.OutOfTime() {
						atomic.StoreInt32(&capped, 1)
						continue
					}
					// replay the prefix once to learn the enabled events (and self-check determinism)
					var s Sys
					var err error
					for attempt := 0; attempt < 2; attempt++ {
						s = cfg.New()
						err = nil
						for i, e := range n.trace {
							if err = apply(s, e); err != nil {
								err = fmt.Errorf("event %d (%s): %w", i, e, err)
								break
							}
						}
						if err == nil {
							break
						}
						if attempt == 0 {
							closeSys(s)
							atomic.AddInt64(&st.Retried, 1)
						}
					}
					atomic.AddInt64(&st.Executions, 1)
					if err != nil {
						closeSys(s)
						if cfg.OnInfra != nil {
							cfg.OnInfra(n.trace, err)
						}
						continue
					}
					if fp := s.Fingerprint(); fp != n.fp {
						closeSys(s)
						if cfg.OnInfra != nil {
							cfg.OnInfra(n.trace, fmt.Errorf("nondeterminism: replaying the same prefix gave a different state\n first: %s\nsecond: %s", n.fp, fp))
						}
						continue
					}
					evs := s.Enabled()
					closeSys(s)
					for _, ev := range evs {
						tr := append(append([]string{}, n.trace...), ev)
						var c Sys
						var ierr error
						// an execution that fails for an infrastructure reason (a settle deadline under
						// machine load) is repeated once on a fresh system before it is believed; a
						// genuine hang or nondeterminism fails again
						for attempt := 0; attempt < 2; attempt++ {
							c = cfg.New()
							ierr = nil
							for i, e := range tr {
								if ierr = apply(c, e); ierr != nil {
									ierr = fmt.Errorf("event %d (%s): %w", i, e, ierr)
									break
								}
								// monitors of the prefix were evaluated when the prefix was first explored
							}
							if ierr == nil {
								break
							}
							if attempt == 0 {
								closeSys(c)
								atomic.AddInt64(&st.Retried, 1)
							}
						}
						atomic.AddInt64(&st.Executions, 1)
						atomic.AddInt64(&st.Transitions, 1)
						if ierr != nil {
							closeSys(c)
							if cfg.OnInfra != nil {
								cfg.OnInfra(tr, ierr)
							}
							continue
						}
						vs := c.Check()
						fp := c.Fingerprint()
						closeSys(c)
						for _, v := range vs {
							if cfg.OnViolation != nil {
								cfg.OnViolation(tr, v)
							}
						}
						blocking := 0
						for _, v := range vs {
							if cfg.Known == nil || !cfg.Known(v.Key) {
								blocking++
							}
						}
						if blocking > 0 {
							continue // a violating state is reported, not expanded (its successors are consequences)
						}
						mu.Lock()
						if !seen[fp] {
							seen[fp] = true
							st.States++
							next = append(next, node{tr, fp})
							mu.Unlock()
							if cfg.OnState != nil {
								cfg.OnState(depth+1, fp, tr)
							}
						} else {
							mu.Unlock()
						}
					}
				}
			}()
		}
		wg.Wait()
		if capped != 0 {
			st.Capped = true
			break
		}
		st.MaxDepthCompleted = depth + 1
		frontier = next
		if len(frontier) == 0 {
			st.Exhaustive = true
		}
	}
	return st
}

// ErrStuck: an event did not return. The system under test is blocked (a lock taken twice, a wait nobody
// answers); every event normally takes milliseconds, so StuckAfter is no judgement about speed.
var ErrStuck = errors.New("the event did not return: the system under test is blocked")

// StuckAfter is how long an event may run before it is given up.
var StuckAfter = 90 * time.Second

var stuck sync.Map // Sys -> true: its goroutine is still inside Apply; it is never closed

func apply(s Sys, ev string) error {
	if _, ok := stuck.Load(s); ok {
		return ErrStuck
	}
	done := make(chan error, 1)
	go func() { done <- s.Apply(ev) }()
	t := time.NewTimer(StuckAfter)
	defer t.Stop()
	select {
	case err := <-done:
		return err
	case <-t.C:
		stuck.Store(s, true)
		return fmt.Errorf("%w (gave up after %v)", ErrStuck, StuckAfter)
	}
}

// Close closes s unless it is stuck inside an event (closing would block on the same thing).
func Close(s Sys) { closeSys(s) }

func closeSys(s Sys) {
	if _, ok := stuck.Load(s); ok {
		return // closing would block on the same thing
	}
	s.Close()
}
