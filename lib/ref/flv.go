package ref

import (
	"bytes"
	"encoding/binary"
	"errors"
	"fmt"
)

// FLV (Adobe FLV spec v10.1 annex E) and WebSocket framing (RFC 6455 §5.2) reference parsers.

type FlvTag struct {
	Type    uint8
	Ts      uint32
	Payload []byte
}

// ParseFlvHeader checks the 9-byte header + PreviousTagSize0 and returns the rest.
func ParseFlvHeader(b []byte) ([]byte, error) {
	if len(b) < 13 {
		return nil, errors.New("flv: short header")
	}
	if !bytes.Equal(b[:3], []byte("FLV")) || b[3] != 1 {
		return nil, errors.New("flv: bad signature/version")
	}
	if b[4]&^0x05 != 0 {
		return nil, errors.New("flv: reserved flag bits set")
	}
	if binary.BigEndian.Uint32(b[5:]) != 9 {
		return nil, errors.New("flv: DataOffset != 9")
	}
	if binary.BigEndian.Uint32(b[9:]) != 0 {
		return nil, errors.New("flv: PreviousTagSize0 != 0")
	}
	return b[13:], nil
}

// ParseFlvTags parses a sequence of tags (after the header). It returns the tags and the number
// of trailing bytes that do not form a whole tag.
func ParseFlvTags(b []byte) ([]FlvTag, int, error) {
	var out []FlvTag
	for len(b) > 0 {
		if len(b) < 11 {
			return out, len(b), nil
		}
		if b[0]&0xC0 != 0 {
			return out, len(b), fmt.Errorf("flv: reserved bits set in tag type byte %#x", b[0])
		}
		typ := b[0] & 0x1f
		if typ != 8 && typ != 9 && typ != 18 {
			return out, len(b), fmt.Errorf("flv: tag type %d", typ)
		}
		size := int(be24(b[1:]))
		ts := be24(b[4:]) | uint32(b[7])<<24
		if be24(b[8:]) != 0 {
			return out, len(b), errors.New("flv: StreamID != 0")
		}
		if len(b) < 11+size+4 {
			return out, len(b), nil
		}
		if binary.BigEndian.Uint32(b[11+size:]) != uint32(11+size) {
			return out, len(b), fmt.Errorf("flv: PreviousTagSize %d != %d", binary.BigEndian.Uint32(b[11+size:]), 11+size)
		}
		out = append(out, FlvTag{Type: typ, Ts: ts, Payload: append([]byte{}, b[11:11+size]...)})
		b = b[11+size+4:]
	}
	return out, 0, nil
}

// BuildFlvTag is the reference tag encoder.
func BuildFlvTag(t FlvTag) []byte {
	b := make([]byte, 11, 11+len(t.Payload)+4)
	b[0] = t.Type
	put24(b[1:], uint32(len(t.Payload)))
	put24(b[4:], t.Ts&0xFFFFFF)
	b[7] = byte(t.Ts >> 24)
	b = append(b, t.Payload...)
	var p [4]byte
	binary.BigEndian.PutUint32(p[:], uint32(11+len(t.Payload)))
	return append(b, p[:]...)
}

type WsFrame struct {
	Fin     bool
	Rsv     uint8
	Opcode  uint8
	Masked  bool
	LenForm int // 7, 16 or 64
	Payload []byte
}

// ParseWsFrames parses server->client frames; the length form must be minimal (RFC 6455 §5.2:
// "the minimal number of bytes MUST be used to encode the length").
func ParseWsFrames(b []byte) ([]WsFrame, int, error) {
	var out []WsFrame
	for len(b) > 0 {
		if len(b) < 2 {
			return out, len(b), nil
		}
		f := WsFrame{Fin: b[0]&0x80 != 0, Rsv: (b[0] >> 4) & 7, Opcode: b[0] & 0x0f, Masked: b[1]&0x80 != 0}
		l := uint64(b[1] & 0x7f)
		i := 2
		f.LenForm = 7
		switch l {
		case 126:
			if len(b) < 4 {
				return out, len(b), nil
			}
			l = uint64(binary.BigEndian.Uint16(b[2:]))
			i = 4
			f.LenForm = 16
			if l < 126 {
				return out, len(b), fmt.Errorf("ws: non-minimal 16-bit length %d", l)
			}
		case 127:
			if len(b) < 10 {
				return out, len(b), nil
			}
			l = binary.BigEndian.Uint64(b[2:])
			i = 10
			f.LenForm = 64
			if l <= 0xFFFF {
				return out, len(b), fmt.Errorf("ws: non-minimal 64-bit length %d", l)
			}
			if l>>63 != 0 {
				return out, len(b), errors.New("ws: most significant bit of 64-bit length set")
			}
		}
		var mask []byte
		if f.Masked {
			if len(b) < i+4 {
				return out, len(b), nil
			}
			mask = b[i : i+4]
			i += 4
		}
		if uint64(len(b)-i) < l {
			return out, len(b), nil
		}
		f.Payload = append([]byte{}, b[i:i+int(l)]...)
		for k := range f.Payload {
			if mask != nil {
				f.Payload[k] ^= mask[k%4]
			}
		}
		out = append(out, f)
		b = b[i+int(l):]
	}
	return out, 0, nil
}

// SplitHttpHeader returns the header block (through CRLFCRLF) and the body.
func SplitHttpHeader(b []byte) (hdr, body []byte, ok bool) {
	i := bytes.Index(b, []byte("\r\n\r\n"))
	if i < 0 {
		return nil, b, false
	}
	return b[:i+4], b[i+4:], true
}
