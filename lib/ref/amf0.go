package ref

import (
	"encoding/binary"
	"errors"
	"fmt"
	"math"
)

// AMF0 reference model (AMF0 spec, amf0-file-format-specification.pdf §2). Values are plain trees.

type AKind byte

const (
	ANumber      AKind = 0x00
	ABoolean     AKind = 0x01
	AString      AKind = 0x02 // short or long form chosen by length on encode
	AObject      AKind = 0x03
	ANull        AKind = 0x05
	AUndefined   AKind = 0x06
	AEcmaArray   AKind = 0x08
	AStrictArray AKind = 0x0a
	AUnsupported AKind = 0x0d
)

type APair struct {
	Key string
	Val AVal
}

type AVal struct {
	Kind  AKind
	Num   float64
	Bool  bool
	Str   string
	Pairs []APair // object / ecma array (keys) / strict array (keys empty)
}

func (v AVal) String() string {
	switch v.Kind {
	case ANumber:
		return fmt.Sprintf("num(%v)", v.Num)
	case ABoolean:
		return fmt.Sprintf("bool(%v)", v.Bool)
	case AString:
		if len(v.Str) > 8 {
			return fmt.Sprintf("str(len=%d)", len(v.Str))
		}
		return fmt.Sprintf("str(%q)", v.Str)
	case ANull:
		return "null"
	case AUndefined:
		return "undef"
	case AUnsupported:
		return "unsupported"
	}
	s := map[AKind]string{AObject: "obj{", AEcmaArray: "ecma{", AStrictArray: "arr{"}[v.Kind]
	for i, p := range v.Pairs {
		if i > 0 {
			s += ","
		}
		k := p.Key
		if len(k) > 8 {
			k = fmt.Sprintf("<len=%d>", len(k))
		}
		s += k + ":" + p.Val.String()
	}
	return s + "}"
}

// AEncode serialises v.
func AEncode(v AVal) []byte {
	var b []byte
	switch v.Kind {
	case ANumber:
		b = append(b, 0)
		var t [8]byte
		binary.BigEndian.PutUint64(t[:], math.Float64bits(v.Num))
		b = append(b, t[:]...)
	case ABoolean:
		x := byte(0)
		if v.Bool {
			x = 1
		}
		b = append(b, 1, x)
	case AString:
		if len(v.Str) <= 0xFFFF {
			b = append(b, 2, byte(len(v.Str)>>8), byte(len(v.Str)))
		} else {
			b = append(b, 0x0c, byte(len(v.Str)>>24), byte(len(v.Str)>>16), byte(len(v.Str)>>8), byte(len(v.Str)))
		}
		b = append(b, v.Str...)
	case ANull, AUndefined, AUnsupported:
		b = append(b, byte(v.Kind))
	case AObject, AEcmaArray:
		b = append(b, byte(v.Kind))
		if v.Kind == AEcmaArray {
			n := len(v.Pairs)
			b = append(b, byte(n>>24), byte(n>>16), byte(n>>8), byte(n))
		}
		for _, p := range v.Pairs {
			b = append(b, byte(len(p.Key)>>8), byte(len(p.Key)))
			b = append(b, p.Key...)
			b = append(b, AEncode(p.Val)...)
		}
		b = append(b, 0, 0, 9)
	case AStrictArray:
		n := len(v.Pairs)
		b = append(b, 0x0a, byte(n>>24), byte(n>>16), byte(n>>8), byte(n))
		for _, p := range v.Pairs {
			b = append(b, AEncode(p.Val)...)
		}
	}
	return b
}

var ErrAmf = errors.New("amf0: malformed")

// ADecode parses one value, strictly, with a nesting bound.
func ADecode(b []byte) (AVal, int, error) { return adecode(b, 0) }

func adecode(b []byte, depth int) (AVal, int, error) {
	if depth > 64 || len(b) < 1 {
		return AVal{}, 0, ErrAmf
	}
	switch AKind(b[0]) {
	case ANumber:
		if len(b) < 9 {
			return AVal{}, 0, ErrAmf
		}
		return AVal{Kind: ANumber, Num: math.Float64frombits(binary.BigEndian.Uint64(b[1:]))}, 9, nil
	case ABoolean:
		if len(b) < 2 {
			return AVal{}, 0, ErrAmf
		}
		return AVal{Kind: ABoolean, Bool: b[1] != 0}, 2, nil
	case AString:
		if len(b) < 3 {
			return AVal{}, 0, ErrAmf
		}
		l := int(b[1])<<8 | int(b[2])
		if len(b) < 3+l {
			return AVal{}, 0, ErrAmf
		}
		return AVal{Kind: AString, Str: string(b[3 : 3+l])}, 3 + l, nil
	case 0x0c:
		if len(b) < 5 {
			return AVal{}, 0, ErrAmf
		}
		l := int(binary.BigEndian.Uint32(b[1:]))
		if l < 0 || len(b)-5 < l {
			return AVal{}, 0, ErrAmf
		}
		return AVal{Kind: AString, Str: string(b[5 : 5+l])}, 5 + l, nil
	case ANull, AUndefined, AUnsupported:
		return AVal{Kind: AKind(b[0])}, 1, nil
	case AObject, AEcmaArray:
		i := 1
		v := AVal{Kind: AKind(b[0])}
		if v.Kind == AEcmaArray {
			if len(b) < 5 {
				return AVal{}, 0, ErrAmf
			}
			i = 5
		}
		for {
			if len(b)-i >= 3 && b[i] == 0 && b[i+1] == 0 && b[i+2] == 9 {
				return v, i + 3, nil
			}
			if len(b)-i < 2 {
				return AVal{}, 0, ErrAmf
			}
			kl := int(b[i])<<8 | int(b[i+1])
			if len(b)-i-2 < kl {
				return AVal{}, 0, ErrAmf
			}
			k := string(b[i+2 : i+2+kl])
			i += 2 + kl
			sub, n, err := adecode(b[i:], depth+1)
			if err != nil {
				return AVal{}, 0, err
			}
			i += n
			v.Pairs = append(v.Pairs, APair{k, sub})
		}
	case AStrictArray:
		if len(b) < 5 {
			return AVal{}, 0, ErrAmf
		}
		n := int(binary.BigEndian.Uint32(b[1:]))
		i := 5
		v := AVal{Kind: AStrictArray}
		for k := 0; k < n; k++ {
			sub, m, err := adecode(b[i:], depth+1)
			if err != nil {
				return AVal{}, 0, err
			}
			i += m
			v.Pairs = append(v.Pairs, APair{"", sub})
		}
		return v, i, nil
	}
	return AVal{}, 0, ErrAmf
}
