package ref

// MPEG-2 Program Stream writer (ISO/IEC 13818-1 §2.5.3: pack header Table 2-33, system header Table 2-34,
// program stream map Table 2-35, PES packet Table 2-17), as GB28181 cameras send it over RTP.

func ts33(prefix uint8, v uint64) []byte {
	return []byte{
		prefix<<4 | uint8(v>>30)&0x07<<1 | 1,
		uint8(v >> 22),
		uint8(v>>15)&0x7f<<1 | 1,
		uint8(v >> 7),
		uint8(v)&0x7f<<1 | 1,
	}
}

// PsPackHeader: '01' SCR[32..30] 1 SCR[29..15] 1 SCR[14..0] 1 SCR_ext(9) 1 | mux_rate(22) 11 | reserved(5) stuffing(3).
func PsPackHeader(scr uint64, stuffing int) []byte {
	b := []byte{0, 0, 1, 0xBA}
	b = append(b,
		0x40|uint8(scr>>30)&0x07<<3|0x04|uint8(scr>>28)&0x03,
		uint8(scr>>20),
		uint8(scr>>15)&0x1f<<3|0x04|uint8(scr>>13)&0x03,
		uint8(scr>>5),
		uint8(scr)&0x1f<<3|0x04, // SCR_ext high bits 0
		0x01,                    // SCR_ext low 7 bits 0 + marker
		0x00, 0x00, 0x03,        // program_mux_rate 0 + two markers
		0xF8|uint8(stuffing)&7)
	for i := 0; i < stuffing; i++ {
		b = append(b, 0xFF)
	}
	return b
}

// PsSystemHeader with one video (0xE0) and one audio (0xC0) stream entry.
func PsSystemHeader() []byte {
	body := []byte{0x80, 0x00, 0x01, 0x04, 0xE1, 0x7F, 0xE0, 0xE0, 0x80, 0xC0, 0xC0, 0x08}
	return append([]byte{0, 0, 1, 0xBB, byte(len(body) >> 8), byte(len(body))}, body...)
}

// PsStreamType values of the program stream map.
const (
	PsStreamH264 = 0x1B
	PsStreamH265 = 0x24
	PsStreamAac  = 0x0F
	PsStreamG711 = 0x90
)

// PsMap writes a program stream map with the given (stream_type, elementary_stream_id) entries.
func PsMap(entries [][2]uint8) []byte {
	var es []byte
	for _, e := range entries {
		es = append(es, e[0], e[1], 0, 0)
	}
	body := []byte{0xE0, 0xFF, 0, 0, byte(len(es) >> 8), byte(len(es))}
	body = append(body, es...)
	hdr := []byte{0, 0, 1, 0xBC, byte((len(body) + 4) >> 8), byte(len(body) + 4)}
	all := append(hdr, body...)
	crc := Crc32Mpeg2(all)
	return append(all, byte(crc>>24), byte(crc>>16), byte(crc>>8), byte(crc))
}

// PsPes writes one PES packet (length field 0 if the payload does not fit 16 bits).
func PsPes(streamID uint8, pts, dts uint64, hasDts bool, payload []byte) []byte {
	var opt []byte
	flags := uint8(0x80)
	if hasDts {
		flags = 0xC0
		opt = append(ts33(3, pts), ts33(1, dts)...)
	} else {
		opt = ts33(2, pts)
	}
	n := 3 + len(opt) + len(payload)
	if n > 0xFFFF {
		n = 0
	}
	b := []byte{0, 0, 1, streamID, byte(n >> 8), byte(n), 0x80, flags, byte(len(opt))}
	b = append(b, opt...)
	return append(b, payload...)
}

// AnnexB joins NAL units with 4-byte start codes.
func AnnexB(nals [][]byte) []byte {
	var b []byte
	for _, n := range nals {
		b = append(b, 0, 0, 0, 1)
		b = append(b, n...)
	}
	return b
}

// SplitRtp wraps data into RTP packets of at most limit payload bytes (marker on the last one).
func SplitRtp(data []byte, pt uint8, seq *uint16, ts uint32, ssrc uint32, limit int) [][]byte {
	var out [][]byte
	for len(data) > 0 {
		n := len(data)
		if n > limit {
			n = limit
		}
		out = append(out, BuildRtp(Rtp{Marker: n == len(data), PT: pt, Seq: *seq, Ts: ts, Ssrc: ssrc, Payload: data[:n]}))
		*seq++
		data = data[n:]
	}
	return out
}

// PsPesNoPts writes a PES packet without PTS / DTS (a continuation of the frame the previous PES began).
func PsPesNoPts(streamID uint8, payload []byte) []byte {
	n := 3 + len(payload)
	if n > 0xFFFF {
		n = 0
	}
	b := []byte{0, 0, 1, streamID, byte(n >> 8), byte(n), 0x80, 0x00, 0}
	return append(b, payload...)
}
