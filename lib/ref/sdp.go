package ref

import (
	"encoding/base64"
	"encoding/hex"
	"errors"
	"fmt"
	"strconv"
	"strings"
)

// SDP reader (RFC 4566) with the rtpmap / fmtp conventions of RFC 6184, RFC 7798 and RFC 3640.

type SdpMedia struct {
	Media   string // audio | video
	Proto   string
	PT      int
	Enc     string // encoding name from rtpmap
	Clock   int
	EncPar  string
	Control string
	Fmtp    map[string]string
	// decoded parameter sets
	Sps, Pps, Vps, Config []byte
}

type Sdp struct {
	Version string
	Media   []SdpMedia
}

func ParseSdp(b []byte) (Sdp, error) {
	var s Sdp
	text := string(b)
	lines := strings.Split(text, "\n")
	var cur *SdpMedia
	for li, l := range lines {
		if l == "" && li == len(lines)-1 {
			break
		}
		if !strings.HasSuffix(l, "\r") {
			return s, fmt.Errorf("sdp: line %d not terminated by CRLF", li)
		}
		l = strings.TrimSuffix(l, "\r")
		if len(l) < 2 || l[1] != '=' {
			return s, fmt.Errorf("sdp: malformed line %q", l)
		}
		typ, val := l[0], l[2:]
		switch typ {
		case 'v':
			s.Version = val
		case 'm':
			f := strings.Fields(val)
			if len(f) < 4 {
				return s, fmt.Errorf("sdp: m= line %q", l)
			}
			pt, err := strconv.Atoi(f[3])
			if err != nil {
				return s, fmt.Errorf("sdp: m= format %q", f[3])
			}
			s.Media = append(s.Media, SdpMedia{Media: f[0], Proto: f[2], PT: pt, Fmtp: map[string]string{}})
			cur = &s.Media[len(s.Media)-1]
		case 'a':
			if cur == nil {
				continue
			}
			switch {
			case strings.HasPrefix(val, "rtpmap:"):
				f := strings.SplitN(strings.TrimPrefix(val, "rtpmap:"), " ", 2)
				if len(f) != 2 {
					return s, fmt.Errorf("sdp: rtpmap %q", val)
				}
				pt, err := strconv.Atoi(f[0])
				if err != nil || pt != cur.PT {
					return s, fmt.Errorf("sdp: rtpmap payload type %q does not match m= format %d", f[0], cur.PT)
				}
				g := strings.Split(strings.TrimSpace(f[1]), "/")
				if len(g) < 2 {
					return s, fmt.Errorf("sdp: rtpmap encoding %q", f[1])
				}
				cur.Enc = g[0]
				if cur.Clock, err = strconv.Atoi(g[1]); err != nil {
					return s, fmt.Errorf("sdp: rtpmap clock %q", g[1])
				}
				if len(g) > 2 {
					cur.EncPar = g[2]
				}
			case strings.HasPrefix(val, "fmtp:"):
				f := strings.SplitN(strings.TrimPrefix(val, "fmtp:"), " ", 2)
				if len(f) != 2 {
					return s, fmt.Errorf("sdp: fmtp %q", val)
				}
				pt, err := strconv.Atoi(f[0])
				if err != nil || pt != cur.PT {
					return s, fmt.Errorf("sdp: fmtp format %q does not match m= format %d", f[0], cur.PT)
				}
				for _, kv := range strings.Split(f[1], ";") {
					kv = strings.TrimSpace(kv)
					if kv == "" {
						continue
					}
					i := strings.IndexByte(kv, '=')
					if i < 0 {
						cur.Fmtp[strings.ToLower(kv)] = ""
						continue
					}
					cur.Fmtp[strings.ToLower(kv[:i])] = kv[i+1:]
				}
			case strings.HasPrefix(val, "control:"):
				cur.Control = strings.TrimPrefix(val, "control:")
			}
		}
	}
	if s.Version != "0" {
		return s, errors.New("sdp: v=0 missing")
	}
	for i := range s.Media {
		m := &s.Media[i]
		var err error
		switch strings.ToUpper(m.Enc) {
		case "H264":
			if v, ok := m.Fmtp["sprop-parameter-sets"]; ok {
				parts := strings.Split(v, ",")
				if len(parts) < 2 {
					return s, errors.New("sdp: sprop-parameter-sets needs SPS,PPS")
				}
				if m.Sps, err = base64.StdEncoding.DecodeString(parts[0]); err != nil {
					return s, fmt.Errorf("sdp: sprop SPS: %v", err)
				}
				if m.Pps, err = base64.StdEncoding.DecodeString(parts[1]); err != nil {
					return s, fmt.Errorf("sdp: sprop PPS: %v", err)
				}
			}
		case "H265":
			for k, dst := range map[string]*[]byte{"sprop-vps": &m.Vps, "sprop-sps": &m.Sps, "sprop-pps": &m.Pps} {
				if v, ok := m.Fmtp[k]; ok {
					if *dst, err = base64.StdEncoding.DecodeString(v); err != nil {
						return s, fmt.Errorf("sdp: %s: %v", k, err)
					}
				}
			}
		case "MPEG4-GENERIC":
			if v, ok := m.Fmtp["config"]; ok {
				if m.Config, err = hex.DecodeString(v); err != nil {
					return s, fmt.Errorf("sdp: config: %v", err)
				}
			}
		}
	}
	return s, nil
}
