package ref

import (
	"bytes"
	"fmt"
	"strconv"
	"strings"
)

// RTSP 1.0 (RFC 2326) message framing with interleaved binary data (§10.12).

type RtspItem struct {
	// response / request
	IsMsg     bool
	StartLine string
	Status    int
	Headers   map[string]string // lower-cased names
	Body      []byte
	// interleaved frame
	Channel int
	Data    []byte
}

// ParseRtspStream parses as many whole items as b contains; returns the unparsed rest length.
func ParseRtspStream(b []byte) ([]RtspItem, int, error) {
	var out []RtspItem
	for len(b) > 0 {
		if b[0] == '$' {
			if len(b) < 4 {
				return out, len(b), nil
			}
			n := int(b[2])<<8 | int(b[3])
			if len(b) < 4+n {
				return out, len(b), nil
			}
			out = append(out, RtspItem{Channel: int(b[1]), Data: append([]byte{}, b[4:4+n]...)})
			b = b[4+n:]
			continue
		}
		// anything else is a text message: its start line is printable ASCII beginning with a letter
		if b[0] < 'A' || b[0] > 'Z' {
			return out, len(b), fmt.Errorf("rtsp: byte 0x%02x where an interleaved frame ('$') or a message was expected", b[0])
		}
		for k := 0; k < len(b) && b[k] != '\r'; k++ {
			if b[k] < 0x20 || b[k] > 0x7e {
				return out, len(b), fmt.Errorf("rtsp: byte 0x%02x in a start line (%q)", b[k], b[:k])
			}
		}
		i := bytes.Index(b, []byte("\r\n\r\n"))
		if i < 0 {
			if len(b) > 65536 {
				return out, len(b), fmt.Errorf("rtsp: no header terminator in %d bytes", len(b))
			}
			return out, len(b), nil
		}
		head := string(b[:i])
		lines := strings.Split(head, "\r\n")
		it := RtspItem{IsMsg: true, StartLine: lines[0], Headers: map[string]string{}}
		if strings.HasPrefix(lines[0], "RTSP/1.0 ") {
			f := strings.Fields(lines[0])
			if len(f) < 2 {
				return out, len(b), fmt.Errorf("rtsp: status line %q", lines[0])
			}
			it.Status, _ = strconv.Atoi(f[1])
		} else if !strings.HasSuffix(lines[0], " RTSP/1.0") {
			return out, len(b), fmt.Errorf("rtsp: start line %q", lines[0])
		}
		for _, l := range lines[1:] {
			k := strings.IndexByte(l, ':')
			if k < 0 {
				return out, len(b), fmt.Errorf("rtsp: header line %q", l)
			}
			it.Headers[strings.ToLower(strings.TrimSpace(l[:k]))] = strings.TrimSpace(l[k+1:])
		}
		n := 0
		if cl, ok := it.Headers["content-length"]; ok {
			var err error
			if n, err = strconv.Atoi(cl); err != nil || n < 0 {
				return out, len(b), fmt.Errorf("rtsp: content-length %q", cl)
			}
		}
		if len(b) < i+4+n {
			return out, len(b), nil
		}
		it.Body = append([]byte{}, b[i+4:i+4+n]...)
		out = append(out, it)
		b = b[i+4+n:]
	}
	return out, 0, nil
}

func RtspRequest(method, uri string, cseq int, headers map[string]string, body []byte) []byte {
	s := fmt.Sprintf("%s %s RTSP/1.0\r\nCSeq: %d\r\n", method, uri, cseq)
	for k, v := range headers {
		s += k + ": " + v + "\r\n"
	}
	if body != nil {
		s += fmt.Sprintf("Content-Length: %d\r\n", len(body))
	}
	s += "\r\n"
	return append([]byte(s), body...)
}

func Interleaved(channel int, data []byte) []byte {
	return append([]byte{'$', byte(channel), byte(len(data) >> 8), byte(len(data))}, data...)
}
