package ref

import (
	"encoding/binary"
	"errors"
	"fmt"
)

// RTP (RFC 3550 §5.1) and payload formats: H.264 (RFC 6184), H.265 (RFC 7798), AAC-hbr (RFC 3640).

type Rtp struct {
	Marker  bool
	PT      uint8
	Seq     uint16
	Ts      uint32
	Ssrc    uint32
	Payload []byte
}

func ParseRtp(b []byte) (Rtp, error) {
	var r Rtp
	if len(b) < 12 {
		return r, errors.New("rtp: short")
	}
	if b[0]>>6 != 2 {
		return r, fmt.Errorf("rtp: version %d", b[0]>>6)
	}
	pad := b[0]&0x20 != 0
	ext := b[0]&0x10 != 0
	cc := int(b[0] & 0x0f)
	r.Marker = b[1]&0x80 != 0
	r.PT = b[1] & 0x7f
	r.Seq = binary.BigEndian.Uint16(b[2:])
	r.Ts = binary.BigEndian.Uint32(b[4:])
	r.Ssrc = binary.BigEndian.Uint32(b[8:])
	i := 12 + 4*cc
	if len(b) < i {
		return r, errors.New("rtp: csrc past the end")
	}
	if ext {
		if len(b) < i+4 {
			return r, errors.New("rtp: extension past the end")
		}
		i += 4 + 4*int(binary.BigEndian.Uint16(b[i+2:]))
		if len(b) < i {
			return r, errors.New("rtp: extension past the end")
		}
	}
	end := len(b)
	if pad {
		if end <= i || int(b[end-1]) == 0 || int(b[end-1]) > end-i {
			return r, errors.New("rtp: bad padding")
		}
		end -= int(b[end-1])
	}
	r.Payload = b[i:end]
	return r, nil
}

func BuildRtp(r Rtp) []byte {
	b := make([]byte, 12, 12+len(r.Payload))
	b[0] = 0x80
	b[1] = r.PT
	if r.Marker {
		b[1] |= 0x80
	}
	binary.BigEndian.PutUint16(b[2:], r.Seq)
	binary.BigEndian.PutUint32(b[4:], r.Ts)
	binary.BigEndian.PutUint32(b[8:], r.Ssrc)
	return append(b, r.Payload...)
}

// Unit is one depacketised elementary unit with the RTP timestamp of the packet(s) carrying it.
type Unit struct {
	Ts   uint32
	Data []byte
}

// DepackH264 consumes in-order packets (RFC 6184 §5.6-5.8: single NAL, STAP-A, FU-A).
func DepackH264(pkts []Rtp) ([]Unit, error) {
	var out []Unit
	var fu []byte
	inFu := false
	var lastSeq uint16
	for i, p := range pkts {
		if i > 0 && p.Seq != lastSeq+1 {
			return out, fmt.Errorf("h264: sequence gap %d -> %d", lastSeq, p.Seq)
		}
		lastSeq = p.Seq
		b := p.Payload
		if len(b) < 1 {
			return out, errors.New("h264: empty payload")
		}
		t := b[0] & 0x1f
		switch {
		case t >= 1 && t <= 23 || t == 0:
			if inFu {
				return out, errors.New("h264: single NAL inside a fragmented unit")
			}
			out = append(out, Unit{p.Ts, append([]byte{}, b...)})
		case t == 24:
			if inFu {
				return out, errors.New("h264: STAP-A inside a fragmented unit")
			}
			b = b[1:]
			for len(b) > 0 {
				if len(b) < 2 || len(b) < 2+int(binary.BigEndian.Uint16(b)) {
					return out, errors.New("h264: STAP-A size past the end")
				}
				n := int(binary.BigEndian.Uint16(b))
				out = append(out, Unit{p.Ts, append([]byte{}, b[2:2+n]...)})
				b = b[2+n:]
			}
		case t == 28:
			if len(b) < 3 {
				return out, errors.New("h264: FU-A without payload")
			}
			s, e := b[1]&0x80 != 0, b[1]&0x40 != 0
			if b[1]&0x20 != 0 {
				return out, errors.New("h264: FU-A reserved bit set")
			}
			if s && e {
				return out, errors.New("h264: FU-A with both start and end")
			}
			if s {
				if inFu {
					return out, errors.New("h264: FU-A start inside a fragmented unit")
				}
				inFu = true
				fu = []byte{b[0]&0xe0 | b[1]&0x1f}
			} else if !inFu {
				return out, errors.New("h264: FU-A continuation without start")
			}
			fu = append(fu, b[2:]...)
			if e {
				out = append(out, Unit{p.Ts, fu})
				fu = nil
				inFu = false
			}
		default:
			return out, fmt.Errorf("h264: packet type %d not handled", t)
		}
	}
	if inFu {
		return out, errors.New("h264: fragmented unit not finished")
	}
	return out, nil
}

// DepackH265 (RFC 7798 §4.4: single NAL, AP (48), FU (49); no DONL).
func DepackH265(pkts []Rtp) ([]Unit, error) {
	var out []Unit
	var fu []byte
	inFu := false
	var lastSeq uint16
	for i, p := range pkts {
		if i > 0 && p.Seq != lastSeq+1 {
			return out, fmt.Errorf("h265: sequence gap %d -> %d", lastSeq, p.Seq)
		}
		lastSeq = p.Seq
		b := p.Payload
		if len(b) < 2 {
			return out, errors.New("h265: payload shorter than the payload header")
		}
		t := (b[0] >> 1) & 0x3f
		switch {
		case t < 48:
			if inFu {
				return out, errors.New("h265: single NAL inside a fragmented unit")
			}
			out = append(out, Unit{p.Ts, append([]byte{}, b...)})
		case t == 48:
			b = b[2:]
			for len(b) > 0 {
				if len(b) < 2 || len(b) < 2+int(binary.BigEndian.Uint16(b)) {
					return out, errors.New("h265: AP size past the end")
				}
				n := int(binary.BigEndian.Uint16(b))
				out = append(out, Unit{p.Ts, append([]byte{}, b[2:2+n]...)})
				b = b[2+n:]
			}
		case t == 49:
			if len(b) < 4 {
				return out, errors.New("h265: FU without payload")
			}
			s, e := b[2]&0x80 != 0, b[2]&0x40 != 0
			if s && e {
				return out, errors.New("h265: FU with both start and end")
			}
			if s {
				if inFu {
					return out, errors.New("h265: FU start inside a fragmented unit")
				}
				inFu = true
				// the NAL header: F and layer-id high bit from the payload header, type from the
				// FU header, second byte (layer-id low bits + TID) from the payload header
				fu = []byte{b[0]&0x81 | (b[2]&0x3f)<<1, b[1]}
			} else if !inFu {
				return out, errors.New("h265: FU continuation without start")
			}
			fu = append(fu, b[3:]...)
			if e {
				out = append(out, Unit{p.Ts, fu})
				fu = nil
				inFu = false
			}
		default:
			return out, fmt.Errorf("h265: packet type %d not handled", t)
		}
	}
	if inFu {
		return out, errors.New("h265: fragmented unit not finished")
	}
	return out, nil
}

// DepackAacHbr (RFC 3640 §3.3.6: sizeLength 13, indexLength 3, indexDeltaLength 3).
func DepackAacHbr(pkts []Rtp) ([]Unit, error) {
	var out []Unit
	var frag []byte
	fragWant := 0
	for _, p := range pkts {
		b := p.Payload
		if len(b) < 2 {
			return out, errors.New("aac: no AU-headers-length")
		}
		bits := int(binary.BigEndian.Uint16(b))
		if bits%16 != 0 || bits == 0 {
			return out, fmt.Errorf("aac: AU-headers-length %d bits", bits)
		}
		n := bits / 16
		if len(b) < 2+2*n {
			return out, errors.New("aac: AU headers past the end")
		}
		data := b[2+2*n:]
		for k := 0; k < n; k++ {
			h := binary.BigEndian.Uint16(b[2+2*k:])
			size := int(h >> 3)
			if h&7 != 0 {
				return out, fmt.Errorf("aac: AU-Index(-delta) %d != 0", h&7)
			}
			if n == 1 && size > len(data) || fragWant > 0 {
				// fragment of one AU
				if fragWant == 0 {
					fragWant = size
				} else if fragWant != size {
					return out, errors.New("aac: fragment sizes disagree")
				}
				frag = append(frag, data...)
				if len(frag) > fragWant {
					return out, errors.New("aac: fragments exceed AU size")
				}
				if len(frag) == fragWant {
					if !p.Marker {
						return out, errors.New("aac: last fragment without marker")
					}
					out = append(out, Unit{p.Ts, frag})
					frag, fragWant = nil, 0
				}
				data = nil
				continue
			}
			if size > len(data) {
				return out, errors.New("aac: AU size past the end")
			}
			out = append(out, Unit{p.Ts, append([]byte{}, data[:size]...)})
			data = data[size:]
		}
		if len(data) != 0 {
			return out, errors.New("aac: trailing bytes after the access units")
		}
	}
	if fragWant != 0 {
		return out, errors.New("aac: unfinished fragmented AU")
	}
	return out, nil
}

// ---- reference packetisers (inputs for ingest checks) ---------------------------------------------------

// PackMode selects how a NAL that fits is sent and how large fragments are.
type PackOpt struct {
	Limit     int  // max RTP payload size
	Aggregate bool // pack consecutive small NALs of one access unit into STAP-A / AP
}

// PackH264 packetises the NAL units of one access unit.
func PackH264(nals [][]byte, o PackOpt) [][]byte {
	var out [][]byte
	i := 0
	for i < len(nals) {
		n := nals[i]
		if o.Aggregate && i+1 < len(nals) && 1+2+len(n)+2+len(nals[i+1]) <= o.Limit {
			p := []byte{24 | n[0]&0x60}
			for i < len(nals) && len(p)+2+len(nals[i]) <= o.Limit {
				p = append(p, byte(len(nals[i])>>8), byte(len(nals[i])))
				p = append(p, nals[i]...)
				i++
			}
			out = append(out, p)
			continue
		}
		i++
		if len(n) <= o.Limit {
			out = append(out, append([]byte{}, n...))
			continue
		}
		body := n[1:]
		first := true
		for len(body) > 0 {
			k := o.Limit - 2
			if k > len(body) {
				k = len(body)
			}
			h := n[0] & 0x1f
			if first {
				h |= 0x80
			}
			if k == len(body) {
				h |= 0x40
			}
			out = append(out, append([]byte{n[0]&0xe0 | 28, h}, body[:k]...))
			body = body[k:]
			first = false
		}
	}
	return out
}

// PackH265 packetises the NAL units of one access unit.
func PackH265(nals [][]byte, o PackOpt) [][]byte {
	var out [][]byte
	i := 0
	for i < len(nals) {
		n := nals[i]
		if o.Aggregate && i+1 < len(nals) && 2+2+len(n)+2+len(nals[i+1]) <= o.Limit {
			p := []byte{48 << 1, 1}
			for i < len(nals) && len(p)+2+len(nals[i]) <= o.Limit {
				p = append(p, byte(len(nals[i])>>8), byte(len(nals[i])))
				p = append(p, nals[i]...)
				i++
			}
			out = append(out, p)
			continue
		}
		i++
		if len(n) <= o.Limit {
			out = append(out, append([]byte{}, n...))
			continue
		}
		body := n[2:]
		first := true
		for len(body) > 0 {
			k := o.Limit - 3
			if k > len(body) {
				k = len(body)
			}
			h := (n[0] >> 1) & 0x3f
			if first {
				h |= 0x80
			}
			if k == len(body) {
				h |= 0x40
			}
			out = append(out, append([]byte{n[0]&0x81 | 49<<1, n[1], h}, body[:k]...))
			body = body[k:]
			first = false
		}
	}
	return out
}

// PackAacHbr puts one AU in one packet.
func PackAacHbr(au []byte) []byte {
	return append([]byte{0, 16, byte(len(au) >> 5), byte(len(au)<<3) & 0xf8}, au...)
}

// PackAacHbrMulti puts several complete AUs (of constant duration) into one packet (RFC 3640 3.3.6).
func PackAacHbrMulti(aus [][]byte) []byte {
	n := 16 * len(aus)
	b := []byte{byte(n >> 8), byte(n)}
	for _, au := range aus {
		b = append(b, byte(len(au)>>5), byte(len(au)<<3)&0xf8)
	}
	for _, au := range aus {
		b = append(b, au...)
	}
	return b
}

// PackAacHbrFrag splits one AU into fragments of at most limit payload bytes (RFC 3640 3.2.3.1: every
// fragment carries one AU-header with the size of the WHOLE AU; same timestamp; marker on the last).
func PackAacHbrFrag(au []byte, limit int) [][]byte {
	var out [][]byte
	k := limit - 4
	if k < 1 {
		k = 1
	}
	for off := 0; off < len(au); off += k {
		end := off + k
		if end > len(au) {
			end = len(au)
		}
		out = append(out, append([]byte{0, 16, byte(len(au) >> 5), byte(len(au)<<3) & 0xf8}, au[off:end]...))
	}
	return out
}
