package ref

// H.264 / H.265 parameter-set WRITERS (encoder model) following ITU-T H.264 §7.3.2.1.1 and
// H.265 §7.3.2.2, with emulation prevention (§7.4.1), plus Annex-B helpers. Independent of lal.

type BitWriter struct {
	b    []byte
	nbit uint
}

func (w *BitWriter) U(n uint, v uint64) {
	for i := int(n) - 1; i >= 0; i-- {
		if w.nbit%8 == 0 {
			w.b = append(w.b, 0)
		}
		if v>>uint(i)&1 != 0 {
			w.b[len(w.b)-1] |= 1 << (7 - w.nbit%8)
		}
		w.nbit++
	}
}

func (w *BitWriter) UE(v uint64) {
	v++
	n := uint(0)
	for x := v; x > 1; x >>= 1 {
		n++
	}
	w.U(n, 0)
	w.U(n+1, v)
}

func (w *BitWriter) SE(v int64) {
	if v > 0 {
		w.UE(uint64(2*v - 1))
	} else {
		w.UE(uint64(-2 * v))
	}
}

// Trailing writes rbsp_trailing_bits.
func (w *BitWriter) Trailing() {
	w.U(1, 1)
	for w.nbit%8 != 0 {
		w.U(1, 0)
	}
}

func (w *BitWriter) Bytes() []byte { return w.b }

// Escape inserts emulation_prevention_three_byte (H.264 §7.4.1 / H.265 §7.4.2).
func Escape(rbsp []byte) []byte {
	var out []byte
	zeros := 0
	for _, x := range rbsp {
		if zeros >= 2 && x <= 3 {
			out = append(out, 3)
			zeros = 0
		}
		out = append(out, x)
		if x == 0 {
			zeros++
		} else {
			zeros = 0
		}
	}
	return out
}

// ---- H.264 SPS ------------------------------------------------------------------------------------------

type ScalingList struct {
	Present bool
	Deltas  []int64 // delta_scale values to write (reading stops when nextScale becomes 0)
}

type AvcSps struct {
	Profile           uint8
	Constraint        uint8
	Level             uint8
	SpsID             uint64
	ChromaFormat      uint64 // only written for high profiles
	SeparatePlanes    bool
	BitDepthLumaM8    uint64
	BitDepthChromaM8  uint64
	ScalingMatrix     bool
	Lists             []ScalingList // 8 or 12 entries when ScalingMatrix
	Log2MaxFrameNumM4 uint64
	PocType           uint64
	Log2MaxPocLsbM4   uint64
	DeltaAlwaysZero   bool
	OffsetNonRef      int64
	OffsetTopBottom   int64
	OffsetsRefFrame   []int64
	MaxNumRefFrames   uint64
	Gaps              bool
	WidthMbsM1        uint64
	HeightMapUnitsM1  uint64
	FrameMbsOnly      bool
	Mbaff             bool
	Direct8x8         bool
	Crop              bool
	CL, CR, CT, CB    uint64
	Vui               int // 0 absent, 1 minimal, 2 with aspect ratio + timing
	NumUnitsInTick    uint32
	TimeScale         uint32
}

func AvcHighProfile(p uint8) bool {
	switch p {
	case 100, 110, 122, 244, 44, 83, 86, 118, 128, 138, 139, 134, 135:
		return true
	}
	return false
}

// WriteAvcSps returns the complete NAL unit (header byte 0x67 + escaped RBSP).
func WriteAvcSps(s AvcSps) []byte {
	w := &BitWriter{}
	w.U(8, uint64(s.Profile))
	w.U(8, uint64(s.Constraint))
	w.U(8, uint64(s.Level))
	w.UE(s.SpsID)
	if AvcHighProfile(s.Profile) {
		w.UE(s.ChromaFormat)
		if s.ChromaFormat == 3 {
			w.U(1, b2u(s.SeparatePlanes))
		}
		w.UE(s.BitDepthLumaM8)
		w.UE(s.BitDepthChromaM8)
		w.U(1, 0) // qpprime_y_zero_transform_bypass_flag
		w.U(1, b2u(s.ScalingMatrix))
		if s.ScalingMatrix {
			n := 8
			if s.ChromaFormat == 3 {
				n = 12
			}
			for i := 0; i < n; i++ {
				var l ScalingList
				if i < len(s.Lists) {
					l = s.Lists[i]
				}
				w.U(1, b2u(l.Present))
				if !l.Present {
					continue
				}
				size := 16
				if i >= 6 {
					size = 64
				}
				last, next := int64(8), int64(8)
				k := 0
				for j := 0; j < size; j++ {
					if next != 0 {
						d := int64(0)
						if k < len(l.Deltas) {
							d = l.Deltas[k]
						}
						k++
						w.SE(d)
						next = (last + d + 256) % 256
					}
					if next != 0 {
						last = next
					}
				}
			}
		}
	}
	w.UE(s.Log2MaxFrameNumM4)
	w.UE(s.PocType)
	switch s.PocType {
	case 0:
		w.UE(s.Log2MaxPocLsbM4)
	case 1:
		w.U(1, b2u(s.DeltaAlwaysZero))
		w.SE(s.OffsetNonRef)
		w.SE(s.OffsetTopBottom)
		w.UE(uint64(len(s.OffsetsRefFrame)))
		for _, o := range s.OffsetsRefFrame {
			w.SE(o)
		}
	}
	w.UE(s.MaxNumRefFrames)
	w.U(1, b2u(s.Gaps))
	w.UE(s.WidthMbsM1)
	w.UE(s.HeightMapUnitsM1)
	w.U(1, b2u(s.FrameMbsOnly))
	if !s.FrameMbsOnly {
		w.U(1, b2u(s.Mbaff))
	}
	w.U(1, b2u(s.Direct8x8))
	w.U(1, b2u(s.Crop))
	if s.Crop {
		w.UE(s.CL)
		w.UE(s.CR)
		w.UE(s.CT)
		w.UE(s.CB)
	}
	w.U(1, b2u(s.Vui != 0))
	if s.Vui != 0 {
		if s.Vui == 2 {
			w.U(1, 1) // aspect_ratio_info_present_flag
			w.U(8, 1) // aspect_ratio_idc = 1:1
		} else {
			w.U(1, 0)
		}
		w.U(1, 0) // overscan_info_present_flag
		w.U(1, 0) // video_signal_type_present_flag
		w.U(1, 0) // chroma_loc_info_present_flag
		if s.Vui == 2 {
			w.U(1, 1) // timing_info_present_flag
			w.U(32, uint64(s.NumUnitsInTick))
			w.U(32, uint64(s.TimeScale))
			w.U(1, 1) // fixed_frame_rate_flag
		} else {
			w.U(1, 0)
		}
		w.U(1, 0) // nal_hrd_parameters_present_flag
		w.U(1, 0) // vcl_hrd_parameters_present_flag
		w.U(1, 0) // pic_struct_present_flag
		w.U(1, 0) // bitstream_restriction_flag
	}
	w.Trailing()
	return append([]byte{0x67}, Escape(w.Bytes())...)
}

// AvcDims are the spec formulas (7-13 .. 7-21 with the cropping rectangle of §7.4.2.1.1).
func AvcDims(s AvcSps) (w, h uint64) {
	cf := uint64(1)
	if AvcHighProfile(s.Profile) {
		cf = s.ChromaFormat
	}
	cat := cf
	if cf == 3 && s.SeparatePlanes {
		cat = 0
	}
	subW, subH := uint64(1), uint64(1)
	switch cf {
	case 1:
		subW, subH = 2, 2
	case 2:
		subW, subH = 2, 1
	}
	fmo := uint64(0)
	if s.FrameMbsOnly {
		fmo = 1
	}
	cux, cuy := uint64(1), 2-fmo
	if cat != 0 {
		cux, cuy = subW, subH*(2-fmo)
	}
	var cl, cr, ct, cb uint64
	if s.Crop {
		cl, cr, ct, cb = s.CL, s.CR, s.CT, s.CB
	}
	w = 16*(s.WidthMbsM1+1) - cux*(cl+cr)
	h = 16*(2-fmo)*(s.HeightMapUnitsM1+1) - cuy*(ct+cb)
	return
}

func b2u(b bool) uint64 {
	if b {
		return 1
	}
	return 0
}

// ---- H.265 VPS / SPS -----------------------------------------------------------------------------------

type HevcPtl struct {
	ProfileSpace, Tier, ProfileIdc uint8
	Compat                         uint32
	Constraint                     uint64 // 48 bits
	Level                          uint8
	SubLayerProfilePresent         []bool // per sub layer (max_sub_layers_minus1 entries)
	SubLayerLevelPresent           []bool
}

func writePtl(w *BitWriter, p HevcPtl, maxSubLayersM1 int) {
	w.U(2, uint64(p.ProfileSpace))
	w.U(1, uint64(p.Tier))
	w.U(5, uint64(p.ProfileIdc))
	w.U(32, uint64(p.Compat))
	w.U(48, p.Constraint)
	w.U(8, uint64(p.Level))
	for i := 0; i < maxSubLayersM1; i++ {
		w.U(1, b2u(i < len(p.SubLayerProfilePresent) && p.SubLayerProfilePresent[i]))
		w.U(1, b2u(i < len(p.SubLayerLevelPresent) && p.SubLayerLevelPresent[i]))
	}
	if maxSubLayersM1 > 0 {
		for i := maxSubLayersM1; i < 8; i++ {
			w.U(2, 0)
		}
	}
	for i := 0; i < maxSubLayersM1; i++ {
		if i < len(p.SubLayerProfilePresent) && p.SubLayerProfilePresent[i] {
			w.U(8, 1) // space/tier/profile
			w.U(32, 0x60000000)
			w.U(48, 0x900000000000)
		}
		if i < len(p.SubLayerLevelPresent) && p.SubLayerLevelPresent[i] {
			w.U(8, 90)
		}
	}
}

type HevcSps struct {
	MaxSubLayersM1   int
	Ptl              HevcPtl
	ChromaFormat     uint64
	SeparatePlanes   bool
	Width, Height    uint64 // pic_width/height_in_luma_samples
	ConfWin          bool
	CL, CR, CT, CB   uint64
	BitDepthLumaM8   uint64
	BitDepthChromaM8 uint64
	SubLayerOrdering bool
}

func WriteHevcVps(maxSubLayersM1 int, ptl HevcPtl) []byte {
	w := &BitWriter{}
	w.U(4, 0) // vps_video_parameter_set_id
	w.U(1, 1) // vps_base_layer_internal_flag
	w.U(1, 1) // vps_base_layer_available_flag
	w.U(6, 0) // vps_max_layers_minus1
	w.U(3, uint64(maxSubLayersM1))
	w.U(1, 1) // vps_temporal_id_nesting_flag
	w.U(16, 0xffff)
	writePtl(w, ptl, maxSubLayersM1)
	w.U(1, 1) // vps_sub_layer_ordering_info_present_flag
	for i := 0; i <= maxSubLayersM1; i++ {
		w.UE(4)
		w.UE(2)
		w.UE(0)
	}
	w.U(6, 0) // vps_max_layer_id
	w.UE(0)   // vps_num_layer_sets_minus1
	w.U(1, 0) // vps_timing_info_present_flag
	w.U(1, 0) // vps_extension_flag
	w.Trailing()
	return append([]byte{0x40, 0x01}, Escape(w.Bytes())...)
}

func WriteHevcSps(s HevcSps) []byte {
	w := &BitWriter{}
	w.U(4, 0)
	w.U(3, uint64(s.MaxSubLayersM1))
	w.U(1, 1) // sps_temporal_id_nesting_flag
	writePtl(w, s.Ptl, s.MaxSubLayersM1)
	w.UE(0) // sps_seq_parameter_set_id
	w.UE(s.ChromaFormat)
	if s.ChromaFormat == 3 {
		w.U(1, b2u(s.SeparatePlanes))
	}
	w.UE(s.Width)
	w.UE(s.Height)
	w.U(1, b2u(s.ConfWin))
	if s.ConfWin {
		w.UE(s.CL)
		w.UE(s.CR)
		w.UE(s.CT)
		w.UE(s.CB)
	}
	w.UE(s.BitDepthLumaM8)
	w.UE(s.BitDepthChromaM8)
	w.UE(4) // log2_max_pic_order_cnt_lsb_minus4
	w.U(1, b2u(s.SubLayerOrdering))
	first := s.MaxSubLayersM1
	if s.SubLayerOrdering {
		first = 0
	}
	for i := first; i <= s.MaxSubLayersM1; i++ {
		w.UE(4)
		w.UE(2)
		w.UE(0)
	}
	w.UE(0)   // log2_min_luma_coding_block_size_minus3
	w.UE(3)   // log2_diff_max_min_luma_coding_block_size
	w.UE(0)   // log2_min_luma_transform_block_size_minus2
	w.UE(3)   // log2_diff_max_min_luma_transform_block_size
	w.UE(0)   // max_transform_hierarchy_depth_inter
	w.UE(0)   // max_transform_hierarchy_depth_intra
	w.U(1, 0) // scaling_list_enabled_flag
	w.U(1, 1) // amp_enabled_flag
	w.U(1, 1) // sample_adaptive_offset_enabled_flag
	w.U(1, 0) // pcm_enabled_flag
	w.UE(0)   // num_short_term_ref_pic_sets
	w.U(1, 0) // long_term_ref_pics_present_flag
	w.U(1, 1) // sps_temporal_mvp_enabled_flag
	w.U(1, 1) // strong_intra_smoothing_enabled_flag
	w.U(1, 0) // vui_parameters_present_flag
	w.U(1, 0) // sps_extension_present_flag
	w.Trailing()
	return append([]byte{0x42, 0x01}, Escape(w.Bytes())...)
}

// HevcDims applies the conformance window (H.265 §7.4.3.2.1).
func HevcDims(s HevcSps) (w, h uint64) {
	subW, subH := uint64(1), uint64(1)
	if !(s.ChromaFormat == 3 && s.SeparatePlanes) {
		switch s.ChromaFormat {
		case 1:
			subW, subH = 2, 2
		case 2:
			subW, subH = 2, 1
		}
	}
	w, h = s.Width, s.Height
	if s.ConfWin {
		w -= subW * (s.CL + s.CR)
		h -= subH * (s.CT + s.CB)
	}
	return
}

// ---- Annex B (H.264 Annex B.1) --------------------------------------------------------------------------

// SplitAnnexB returns the NAL units of a byte stream: leading_zero_8bits, zero_byte and
// trailing_zero_8bits are not part of any unit.
func SplitAnnexB(b []byte) [][]byte {
	var out [][]byte
	i := 0
	n := len(b)
	// find first start code
	start := -1
	for i+2 < n {
		if b[i] == 0 && b[i+1] == 0 && b[i+2] == 1 {
			start = i + 3
			break
		}
		i++
	}
	for start >= 0 {
		// find next start code prefix
		j := start
		next := -1
		for j+2 < n {
			if b[j] == 0 && b[j+1] == 0 && b[j+2] == 1 {
				next = j
				break
			}
			j++
		}
		end := n
		if next >= 0 {
			end = next
		}
		// strip trailing zero bytes (trailing_zero_8bits / zero_byte of the next start code)
		for end > start && b[end-1] == 0 {
			end--
		}
		if end > start {
			out = append(out, append([]byte{}, b[start:end]...))
		}
		if next < 0 {
			break
		}
		start = next + 3
	}
	return out
}
