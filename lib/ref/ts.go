package ref

import (
	"encoding/binary"
	"errors"
	"fmt"
)

// MPEG-2 transport stream reference demuxer (ISO/IEC 13818-1 §2.4.3, §2.4.4), strict.

type TsPacket struct {
	PUSI    bool
	PID     uint16
	AFC     uint8 // adaptation_field_control
	CC      uint8
	HasAF   bool
	AFLen   int
	RAI     bool // random_access_indicator
	HasPCR  bool
	PCRBase uint64
	PCRExt  uint16
	Payload []byte
}

func ParseTsPacket(p []byte) (TsPacket, error) {
	var t TsPacket
	if len(p) != 188 {
		return t, fmt.Errorf("ts: packet length %d", len(p))
	}
	if p[0] != 0x47 {
		return t, fmt.Errorf("ts: sync byte %#x", p[0])
	}
	if p[1]&0x80 != 0 {
		return t, errors.New("ts: transport_error_indicator set")
	}
	t.PUSI = p[1]&0x40 != 0
	if p[1]&0x20 != 0 {
		return t, errors.New("ts: transport_priority set")
	}
	t.PID = uint16(p[1]&0x1f)<<8 | uint16(p[2])
	if p[3]&0xC0 != 0 {
		return t, errors.New("ts: scrambling control set")
	}
	t.AFC = (p[3] >> 4) & 3
	t.CC = p[3] & 0x0f
	i := 4
	switch t.AFC {
	case 0:
		return t, errors.New("ts: adaptation_field_control 00 (reserved)")
	case 2, 3:
		t.HasAF = true
		t.AFLen = int(p[4])
		max := 183
		if t.AFC == 3 {
			max = 182
		}
		if t.AFLen > max {
			return t, fmt.Errorf("ts: adaptation_field_length %d invalid for afc %d", t.AFLen, t.AFC)
		}
		if t.AFC == 2 && t.AFLen != 183 {
			return t, fmt.Errorf("ts: adaptation_field_length %d with afc 2", t.AFLen)
		}
		af := p[5 : 5+t.AFLen]
		i = 5 + t.AFLen
		if t.AFLen > 0 {
			fl := af[0]
			if fl&0x80 != 0 {
				return t, errors.New("ts: discontinuity_indicator set")
			}
			t.RAI = fl&0x40 != 0
			if fl&0x2f != 0 {
				return t, fmt.Errorf("ts: unexpected adaptation flags %#x", fl)
			}
			k := 1
			if fl&0x10 != 0 {
				if t.AFLen < 7 {
					return t, errors.New("ts: PCR flag with short adaptation field")
				}
				t.HasPCR = true
				v := uint64(af[1])<<40 | uint64(af[2])<<32 | uint64(af[3])<<24 | uint64(af[4])<<16 | uint64(af[5])<<8 | uint64(af[6])
				t.PCRBase = v >> 15
				if (v>>9)&0x3f != 0x3f {
					return t, errors.New("ts: PCR reserved bits not set")
				}
				t.PCRExt = uint16(v & 0x1ff)
				k = 7
			}
			for ; k < len(af); k++ {
				if af[k] != 0xFF {
					return t, fmt.Errorf("ts: stuffing byte %#x at adaptation offset %d", af[k], k)
				}
			}
		}
	}
	if t.AFC&1 != 0 {
		t.Payload = p[i:]
		if len(t.Payload) == 0 {
			return t, errors.New("ts: afc says payload but none left")
		}
	}
	return t, nil
}

// ParseTs splits b into packets.
func ParseTs(b []byte) ([]TsPacket, error) {
	if len(b)%188 != 0 {
		return nil, fmt.Errorf("ts: length %d not a multiple of 188", len(b))
	}
	var out []TsPacket
	for i := 0; i < len(b); i += 188 {
		t, err := ParseTsPacket(b[i : i+188])
		if err != nil {
			return out, fmt.Errorf("packet %d: %w", i/188, err)
		}
		out = append(out, t)
	}
	return out, nil
}

type Pes struct {
	StreamID uint8
	LenField int // PES_packet_length as written
	HasPTS   bool
	HasDTS   bool
	PTS      uint64
	DTS      uint64
	Payload  []byte
	// from the TS layer
	PID     uint16
	RAI     bool
	HasPCR  bool
	PCRBase uint64
	PCRExt  uint16
	NumPkts int
	FirstCC uint8
	LastCC  uint8
}

func readTs33(b []byte, prefix uint8) (uint64, error) {
	if b[0]>>4 != prefix {
		return 0, fmt.Errorf("pes: timestamp prefix %#x want %#x", b[0]>>4, prefix)
	}
	if b[0]&1 != 1 || b[2]&1 != 1 || b[4]&1 != 1 {
		return 0, errors.New("pes: timestamp marker bit missing")
	}
	return uint64(b[0]>>1&7)<<30 | uint64(b[1])<<22 | uint64(b[2]>>1)<<15 | uint64(b[3])<<7 | uint64(b[4]>>1), nil
}

// ParsePes parses one PES packet from the concatenated payload of its TS packets.
func ParsePes(b []byte) (Pes, error) {
	var p Pes
	if len(b) < 9 {
		return p, errors.New("pes: short header")
	}
	if b[0] != 0 || b[1] != 0 || b[2] != 1 {
		return p, fmt.Errorf("pes: start code %x", b[:3])
	}
	p.StreamID = b[3]
	p.LenField = int(binary.BigEndian.Uint16(b[4:]))
	if b[6]&0xC0 != 0x80 {
		return p, fmt.Errorf("pes: marker bits '10' missing (%#x)", b[6])
	}
	if b[6]&0x3f != 0 {
		return p, fmt.Errorf("pes: unexpected flags byte 1 %#x", b[6])
	}
	fl := b[7]
	if fl&0x3f != 0 {
		return p, fmt.Errorf("pes: unexpected flags byte 2 %#x", fl)
	}
	hl := int(b[8])
	if len(b) < 9+hl {
		return p, errors.New("pes: header data past the end")
	}
	h := b[9 : 9+hl]
	var err error
	switch fl >> 6 {
	case 2:
		if hl != 5 {
			return p, fmt.Errorf("pes: header_data_length %d with PTS only", hl)
		}
		p.HasPTS = true
		if p.PTS, err = readTs33(h, 2); err != nil {
			return p, err
		}
		p.DTS = p.PTS
	case 3:
		if hl != 10 {
			return p, fmt.Errorf("pes: header_data_length %d with PTS+DTS", hl)
		}
		p.HasPTS, p.HasDTS = true, true
		if p.PTS, err = readTs33(h, 3); err != nil {
			return p, err
		}
		if p.DTS, err = readTs33(h[5:], 1); err != nil {
			return p, err
		}
	case 1:
		return p, errors.New("pes: PTS_DTS_flags 01 forbidden")
	default:
		if hl != 0 {
			return p, errors.New("pes: header data without timestamps")
		}
	}
	p.Payload = b[9+hl:]
	if p.LenField != 0 && p.LenField != 3+hl+len(p.Payload) {
		return p, fmt.Errorf("pes: PES_packet_length %d but %d bytes follow the field", p.LenField, 3+hl+len(p.Payload))
	}
	if p.LenField == 0 && 3+hl+len(p.Payload) <= 0xFFFF && p.StreamID&0xF0 != 0xE0 {
		return p, errors.New("pes: PES_packet_length 0 on a non-video stream that fits")
	}
	return p, nil
}

// DemuxPes reassembles the PES packets of one PID from a packet list (a PES starts at PUSI and
// extends to the next PUSI of the PID or the end). Continuity counters must advance by one.
func DemuxPes(pkts []TsPacket, pid uint16, startCC int) ([]Pes, error) {
	var out []Pes
	var cur []byte
	var curMeta Pes
	open := false
	cc := startCC // -1: unknown
	flush := func() error {
		if !open {
			return nil
		}
		p, err := ParsePes(cur)
		if err != nil {
			return err
		}
		p.PID, p.RAI, p.HasPCR, p.PCRBase, p.PCRExt = pid, curMeta.RAI, curMeta.HasPCR, curMeta.PCRBase, curMeta.PCRExt
		p.NumPkts, p.FirstCC, p.LastCC = curMeta.NumPkts, curMeta.FirstCC, curMeta.LastCC
		out = append(out, p)
		return nil
	}
	for i, t := range pkts {
		if t.PID != pid {
			continue
		}
		if cc >= 0 && t.CC != uint8((cc+1)&0x0f) {
			return out, fmt.Errorf("pid %#x packet %d: continuity_counter %d after %d", pid, i, t.CC, cc)
		}
		cc = int(t.CC)
		if t.PUSI {
			if err := flush(); err != nil {
				return out, err
			}
			cur = nil
			open = true
			curMeta = Pes{RAI: t.RAI, HasPCR: t.HasPCR, PCRBase: t.PCRBase, PCRExt: t.PCRExt, FirstCC: t.CC}
		} else {
			if !open {
				return out, fmt.Errorf("pid %#x packet %d: payload without a PES start", pid, i)
			}
			if t.RAI || t.HasPCR {
				return out, fmt.Errorf("pid %#x packet %d: random access / PCR on a non-first packet", pid, i)
			}
		}
		curMeta.NumPkts++
		curMeta.LastCC = t.CC
		cur = append(cur, t.Payload...)
	}
	if err := flush(); err != nil {
		return out, err
	}
	return out, nil
}

// ---- PSI ---------------------------------------------------------------------------------------------

// Crc32Mpeg2 is CRC-32/MPEG-2 (poly 0x04C11DB7, init 0xFFFFFFFF, no reflection, no final xor).
func Crc32Mpeg2(b []byte) uint32 {
	crc := uint32(0xFFFFFFFF)
	for _, x := range b {
		crc ^= uint32(x) << 24
		for k := 0; k < 8; k++ {
			if crc&0x80000000 != 0 {
				crc = crc<<1 ^ 0x04C11DB7
			} else {
				crc <<= 1
			}
		}
	}
	return crc
}

type PsiSection struct {
	TableID byte
	IDExt   uint16
	Version uint8
	Data    []byte // between the 8-byte header and the CRC
}

// ParsePsiPacket parses a single-packet PSI section (pointer_field, section, stuffing 0xFF).
func ParsePsiPacket(t TsPacket) (PsiSection, error) {
	var s PsiSection
	if !t.PUSI || t.HasAF {
		return s, errors.New("psi: expected PUSI and no adaptation field")
	}
	p := t.Payload
	if len(p) < 1 || int(p[0]) >= len(p)-1 {
		return s, errors.New("psi: bad pointer_field")
	}
	p = p[1+int(p[0]):]
	if len(p) < 3 {
		return s, errors.New("psi: short")
	}
	s.TableID = p[0]
	if p[1]&0x80 == 0 {
		return s, errors.New("psi: section_syntax_indicator 0")
	}
	if p[1]&0x40 != 0 {
		return s, errors.New("psi: private bit ('0') set")
	}
	if p[1]&0x30 != 0x30 {
		return s, errors.New("psi: reserved bits not set")
	}
	sl := int(p[1]&0x0f)<<8 | int(p[2])
	if sl > 1021 || sl < 9 || len(p) < 3+sl {
		return s, fmt.Errorf("psi: section_length %d", sl)
	}
	sec := p[:3+sl]
	if Crc32Mpeg2(sec) != 0 {
		return s, fmt.Errorf("psi: CRC-32 mismatch (stored %08x computed %08x)", binary.BigEndian.Uint32(sec[len(sec)-4:]), Crc32Mpeg2(sec[:len(sec)-4]))
	}
	s.IDExt = binary.BigEndian.Uint16(sec[3:])
	if sec[5]&0xC0 != 0xC0 {
		return s, errors.New("psi: reserved bits before version not set")
	}
	s.Version = (sec[5] >> 1) & 0x1f
	if sec[5]&1 != 1 {
		return s, errors.New("psi: current_next_indicator 0")
	}
	if sec[6] != 0 || sec[7] != 0 {
		return s, errors.New("psi: section_number / last_section_number not 0")
	}
	s.Data = sec[8 : len(sec)-4]
	for _, x := range p[3+sl:] {
		if x != 0xFF {
			return s, fmt.Errorf("psi: stuffing byte %#x after the section", x)
		}
	}
	return s, nil
}

type PatEntry struct {
	Program uint16
	PID     uint16
}

func ParsePat(t TsPacket) ([]PatEntry, error) {
	if t.PID != 0 {
		return nil, fmt.Errorf("pat: pid %#x", t.PID)
	}
	s, err := ParsePsiPacket(t)
	if err != nil {
		return nil, err
	}
	if s.TableID != 0 {
		return nil, fmt.Errorf("pat: table_id %d", s.TableID)
	}
	if len(s.Data)%4 != 0 {
		return nil, errors.New("pat: data not a multiple of 4")
	}
	var out []PatEntry
	for i := 0; i < len(s.Data); i += 4 {
		if s.Data[i+2]&0xE0 != 0xE0 {
			return nil, errors.New("pat: reserved bits not set")
		}
		out = append(out, PatEntry{binary.BigEndian.Uint16(s.Data[i:]), binary.BigEndian.Uint16(s.Data[i+2:]) & 0x1fff})
	}
	return out, nil
}

type PmtStream struct {
	Type        uint8
	PID         uint16
	Descriptors []byte
}

type Pmt struct {
	Program uint16
	PCRPID  uint16
	Streams []PmtStream
}

func ParsePmt(t TsPacket) (Pmt, error) {
	var m Pmt
	s, err := ParsePsiPacket(t)
	if err != nil {
		return m, err
	}
	if s.TableID != 2 {
		return m, fmt.Errorf("pmt: table_id %d", s.TableID)
	}
	m.Program = s.IDExt
	d := s.Data
	if len(d) < 4 {
		return m, errors.New("pmt: short")
	}
	if d[0]&0xE0 != 0xE0 || d[2]&0xF0 != 0xF0 {
		return m, errors.New("pmt: reserved bits not set")
	}
	m.PCRPID = binary.BigEndian.Uint16(d) & 0x1fff
	pil := int(binary.BigEndian.Uint16(d[2:]) & 0x0fff)
	if len(d) < 4+pil {
		return m, errors.New("pmt: program_info_length past the end")
	}
	d = d[4+pil:]
	for len(d) > 0 {
		if len(d) < 5 {
			return m, errors.New("pmt: truncated stream entry")
		}
		if d[1]&0xE0 != 0xE0 || d[3]&0xF0 != 0xF0 {
			return m, errors.New("pmt: reserved bits in stream entry not set")
		}
		st := PmtStream{Type: d[0], PID: binary.BigEndian.Uint16(d[1:]) & 0x1fff}
		el := int(binary.BigEndian.Uint16(d[3:]) & 0x0fff)
		if len(d) < 5+el {
			return m, errors.New("pmt: ES_info_length past the end")
		}
		st.Descriptors = d[5 : 5+el]
		// descriptor loop must be well-formed
		for x := st.Descriptors; len(x) > 0; {
			if len(x) < 2 || len(x) < 2+int(x[1]) {
				return m, errors.New("pmt: malformed descriptor")
			}
			x = x[2+int(x[1]):]
		}
		m.Streams = append(m.Streams, st)
		d = d[5+el:]
	}
	return m, nil
}

// SplitAdts splits a PES payload into ADTS frames (ISO 13818-7 §6.2): returns the raw_data_blocks.
func SplitAdts(b []byte) (frames [][]byte, hdrs [][]byte, err error) {
	for len(b) > 0 {
		if len(b) < 7 || b[0] != 0xFF || b[1]&0xF6 != 0xF0 {
			return frames, hdrs, fmt.Errorf("adts: bad syncword/layer at %x", b[:minInt(7, len(b))])
		}
		hl := 7
		if b[1]&1 == 0 {
			hl = 9
		}
		fl := int(b[3]&3)<<11 | int(b[4])<<3 | int(b[5])>>5
		if fl < hl || fl > len(b) {
			return frames, hdrs, fmt.Errorf("adts: frame_length %d with %d bytes left", fl, len(b))
		}
		hdrs = append(hdrs, b[:hl])
		frames = append(frames, b[hl:fl])
		b = b[fl:]
	}
	return
}

func minInt(a, b int) int {
	if a < b {
		return a
	}
	return b
}
