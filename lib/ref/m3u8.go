package ref

import (
	"fmt"
	"strconv"
	"strings"
)

// M3U8 media playlist reader (RFC 8216 §4), strict about what lal is supposed to write.

type M3u8Entry struct {
	Duration      float64
	Uri           string
	Discontinuity bool
}

type M3u8 struct {
	Version        int
	TargetDuration int
	MediaSequence  int
	EndList        bool
	Entries        []M3u8Entry
}

func ParseM3u8(b []byte) (M3u8, error) {
	var p M3u8
	s := string(b)
	if !strings.HasSuffix(s, "\n") {
		return p, fmt.Errorf("m3u8: does not end with a newline (truncated?)")
	}
	lines := strings.Split(strings.TrimSuffix(s, "\n"), "\n")
	if len(lines) == 0 || lines[0] != "#EXTM3U" {
		return p, fmt.Errorf("m3u8: first line %q", lines[0])
	}
	hasTD, hasMS := false, false
	var pend *M3u8Entry
	disc := false
	for _, l := range lines[1:] {
		switch {
		case l == "":
		case strings.HasPrefix(l, "#EXT-X-VERSION:"):
			p.Version, _ = strconv.Atoi(strings.TrimPrefix(l, "#EXT-X-VERSION:"))
		case strings.HasPrefix(l, "#EXT-X-TARGETDURATION:"):
			v, err := strconv.Atoi(strings.TrimPrefix(l, "#EXT-X-TARGETDURATION:"))
			if err != nil {
				return p, fmt.Errorf("m3u8: %q", l)
			}
			p.TargetDuration, hasTD = v, true
		case strings.HasPrefix(l, "#EXT-X-MEDIA-SEQUENCE:"):
			v, err := strconv.Atoi(strings.TrimPrefix(l, "#EXT-X-MEDIA-SEQUENCE:"))
			if err != nil {
				return p, fmt.Errorf("m3u8: %q", l)
			}
			p.MediaSequence, hasMS = v, true
		case l == "#EXT-X-DISCONTINUITY":
			disc = true
		case l == "#EXT-X-ENDLIST":
			p.EndList = true
		case strings.HasPrefix(l, "#EXTINF:"):
			if pend != nil {
				return p, fmt.Errorf("m3u8: EXTINF without a URI before %q", l)
			}
			v := strings.TrimSuffix(strings.TrimPrefix(l, "#EXTINF:"), ",")
			if i := strings.IndexByte(v, ','); i >= 0 {
				v = v[:i]
			}
			d, err := strconv.ParseFloat(v, 64)
			if err != nil {
				return p, fmt.Errorf("m3u8: %q", l)
			}
			pend = &M3u8Entry{Duration: d, Discontinuity: disc}
			disc = false
		case strings.HasPrefix(l, "#"):
			// other tags (ALLOW-CACHE ...) are ignored
		default:
			if pend == nil {
				return p, fmt.Errorf("m3u8: URI %q without EXTINF", l)
			}
			if p.EndList {
				return p, fmt.Errorf("m3u8: entry after ENDLIST")
			}
			pend.Uri = l
			p.Entries = append(p.Entries, *pend)
			pend = nil
		}
	}
	if pend != nil {
		return p, fmt.Errorf("m3u8: trailing EXTINF without a URI")
	}
	if !hasTD || !hasMS {
		return p, fmt.Errorf("m3u8: TARGETDURATION / MEDIA-SEQUENCE missing")
	}
	return p, nil
}
