// Package ref holds reference codecs written from the specifications, sharing no code with lal.
package ref

import (
	"encoding/binary"
	"errors"
	"fmt"
	"strings"
)

// Msg is an RTMP message as the chunk stream layer sees it (RTMP 1.0 §5.3 / §6.1).
type Msg struct {
	Csid    int
	Type    uint8
	Msid    uint32
	Ts      uint32 // absolute
	Payload []byte
}

func (m Msg) String() string {
	p := m.Payload
	if len(p) > 8 {
		p = p[:8]
	}
	return fmt.Sprintf("{csid=%d type=%d msid=%d ts=%d len=%d %x}", m.Csid, m.Type, m.Msid, m.Ts, len(m.Payload), p)
}

func SameMsg(a, b Msg) bool {
	if a.Csid != b.Csid || a.Type != b.Type || a.Msid != b.Msid || a.Ts != b.Ts || len(a.Payload) != len(b.Payload) {
		return false
	}
	for i := range a.Payload {
		if a.Payload[i] != b.Payload[i] {
			return false
		}
	}
	return true
}

// ---------------------------------------------------------------------------------------------
// Reference chunk stream decoder (§5.3.1).

type csState struct {
	tsField  uint32 // value of the 24-bit field of the last fmt0-2 header (0xFFFFFF => extended present)
	delta    uint32 // delta to apply to a following fmt3 message (== timestamp after a fmt0)
	abs      uint32
	length   uint32
	typ      uint8
	msid     uint32
	hasExt   bool
	buf      []byte
	inMsg    bool
	seenHead bool
}

type ChunkDecoder struct {
	ChunkSize uint32
	cs        map[int]*csState
	// ApplySetChunkSize makes the decoder honour Set Chunk Size messages (type 1).
	ApplySetChunkSize bool
	// SplitAggregate makes the decoder deliver sub-messages of type-22 messages.
	SplitAggregate bool
	rest           []byte
}

func NewChunkDecoder(chunkSize uint32) *ChunkDecoder {
	return &ChunkDecoder{ChunkSize: chunkSize, cs: map[int]*csState{}, ApplySetChunkSize: true}
}

var ErrShort = errors.New("short")

// Feed appends bytes and returns all messages completed so far. Incomplete trailing data is kept.
func (d *ChunkDecoder) Feed(b []byte) ([]Msg, error) {
	d.rest = append(d.rest, b...)
	var out []Msg
	for {
		n, msgs, err := d.one(d.rest)
		if err == ErrShort {
			return out, nil
		}
		if err != nil {
			return out, err
		}
		out = append(out, msgs...)
		d.rest = d.rest[n:]
	}
}

// Pending returns the number of undecoded trailing bytes.
func (d *ChunkDecoder) Pending() int { return len(d.rest) }

func (d *ChunkDecoder) one(b []byte) (int, []Msg, error) {
	if len(b) < 1 {
		return 0, nil, ErrShort
	}
	f := b[0] >> 6
	csid := int(b[0] & 0x3f)
	i := 1
	switch csid {
	case 0:
		if len(b) < 2 {
			return 0, nil, ErrShort
		}
		csid = 64 + int(b[1])
		i = 2
	case 1:
		if len(b) < 3 {
			return 0, nil, ErrShort
		}
		csid = 64 + int(b[1]) + int(b[2])*256
		i = 3
	}
	st := d.cs[csid]
	if st == nil {
		st = &csState{}
	}
	// work on a copy so that a short read leaves the state untouched
	s := *st
	hl := [4]int{11, 7, 3, 0}[f]
	if len(b) < i+hl {
		return 0, nil, ErrShort
	}
	h := b[i : i+hl]
	i += hl
	if f != 0 && !s.seenHead {
		return 0, nil, fmt.Errorf("fmt%d on csid %d without a previous header", f, csid)
	}
	if s.inMsg && f != 3 {
		return 0, nil, fmt.Errorf("fmt%d inside a message on csid %d", f, csid)
	}
	newMsg := !s.inMsg
	switch f {
	case 0:
		s.tsField = be24(h)
		s.length = be24(h[3:])
		s.typ = h[6]
		s.msid = binary.LittleEndian.Uint32(h[7:])
	case 1:
		s.tsField = be24(h)
		s.length = be24(h[3:])
		s.typ = h[6]
	case 2:
		s.tsField = be24(h)
	}
	if f != 3 {
		s.hasExt = s.tsField == 0xFFFFFF
	}
	var ext uint32
	if s.hasExt {
		if len(b) < i+4 {
			return 0, nil, ErrShort
		}
		ext = binary.BigEndian.Uint32(b[i:])
		i += 4
	}
	if newMsg {
		switch f {
		case 0:
			if s.hasExt {
				s.abs = ext
			} else {
				s.abs = s.tsField
			}
			s.delta = s.abs // §5.3.1.2.4: a type 3 chunk after a type 0 chunk uses its timestamp as delta
		case 1, 2:
			if s.hasExt {
				s.delta = ext
			} else {
				s.delta = s.tsField
			}
			s.abs += s.delta
		case 3:
			s.abs += s.delta
		}
		s.buf = make([]byte, 0, s.length)
		s.inMsg = true
		s.seenHead = true
	}
	need := s.length - uint32(len(s.buf))
	if need > d.ChunkSize {
		need = d.ChunkSize
	}
	if len(b) < i+int(need) {
		return 0, nil, ErrShort
	}
	s.buf = append(s.buf, b[i:i+int(need)]...)
	i += int(need)
	var out []Msg
	if uint32(len(s.buf)) == s.length {
		m := Msg{Csid: csid, Type: s.typ, Msid: s.msid, Ts: s.abs, Payload: s.buf}
		s.buf = nil
		s.inMsg = false
		if m.Type == 1 && d.ApplySetChunkSize && len(m.Payload) >= 4 {
			d.ChunkSize = binary.BigEndian.Uint32(m.Payload) & 0x7fffffff
		}
		if m.Type == 22 && d.SplitAggregate {
			subs, err := SplitAggregate(m)
			if err != nil {
				return 0, nil, err
			}
			out = subs
		} else {
			out = []Msg{m}
		}
	}
	d.cs[csid] = &s
	return i, out, nil
}

// SplitAggregate splits a type-22 message (§7.1.6): sub-messages keep their own header fields, the
// stream id of the aggregate overrides, timestamps are offset so the first equals the aggregate's.
func SplitAggregate(m Msg) ([]Msg, error) {
	var out []Msg
	p := m.Payload
	first := true
	var base uint32
	for len(p) > 0 {
		if len(p) < 11 {
			return nil, errors.New("aggregate: short sub header")
		}
		typ := p[0]
		l := be24(p[1:])
		ts := be24(p[4:]) | uint32(p[7])<<24
		p = p[11:]
		if uint32(len(p)) < l+4 {
			return nil, errors.New("aggregate: short sub body")
		}
		if first {
			base = ts
			first = false
		}
		out = append(out, Msg{Csid: m.Csid, Type: typ, Msid: m.Msid, Ts: m.Ts + ts - base, Payload: append([]byte{}, p[:l]...)})
		p = p[l+4:]
	}
	return out, nil
}

// BuildAggregate packs sub-messages into one type-22 message.
func BuildAggregate(csid int, msid uint32, subs []Msg) Msg {
	var p []byte
	for _, s := range subs {
		h := make([]byte, 11)
		h[0] = s.Type
		put24(h[1:], uint32(len(s.Payload)))
		put24(h[4:], s.Ts&0xFFFFFF)
		h[7] = byte(s.Ts >> 24)
		put24(h[8:], msid)
		p = append(p, h...)
		p = append(p, s.Payload...)
		var back [4]byte
		binary.BigEndian.PutUint32(back[:], uint32(11+len(s.Payload)))
		p = append(p, back[:]...)
	}
	ts := uint32(0)
	if len(subs) > 0 {
		ts = subs[0].Ts
	}
	return Msg{Csid: csid, Type: 22, Msid: msid, Ts: ts, Payload: p}
}

// ---------------------------------------------------------------------------------------------
// Reference chunk stream encoder. Choices (header format per message, interleaving) are taken from
// a chooser so that a caller can enumerate every legal chunking.

type Chooser interface {
	// Choose returns a value in [0,n).
	Choose(n int) int
}

type first struct{}

func (first) Choose(int) int { return 0 }

// First always takes choice 0 (fmt0 for every message, no interleaving): the canonical encoding.
var First Chooser = first{}

type encCs struct {
	seen   bool
	abs    uint32
	delta  uint32
	length uint32
	typ    uint8
	msid   uint32
}

type ChunkEncoder struct {
	ChunkSize uint32
	cs        map[int]*encCs
	// ApplySetChunkSize: a type-1 message changes ChunkSize once it is completely emitted.
	ApplySetChunkSize bool
}

func NewChunkEncoder(chunkSize uint32) *ChunkEncoder {
	return &ChunkEncoder{ChunkSize: chunkSize, cs: map[int]*encCs{}, ApplySetChunkSize: true}
}

func basicHeader(f uint8, csid int) []byte {
	switch {
	case csid >= 2 && csid <= 63:
		return []byte{f<<6 | byte(csid)}
	case csid >= 64 && csid <= 319:
		return []byte{f << 6, byte(csid - 64)}
	default:
		return []byte{f<<6 | 1, byte((csid - 64) & 0xff), byte((csid - 64) >> 8)}
	}
}

// legalFormats lists the header formats the spec allows for the first chunk of m on its chunk
// stream, restricted to timestamp deltas below 0xFFFFFF (extended timestamps only absolute).
func (e *ChunkEncoder) legalFormats(m Msg) []uint8 {
	fs := []uint8{0}
	s := e.cs[m.Csid]
	if s == nil || !s.seen {
		return fs
	}
	if m.Msid != s.msid || m.Ts < s.abs || m.Ts-s.abs >= 0xFFFFFF {
		return fs
	}
	fs = append(fs, 1)
	if uint32(len(m.Payload)) != s.length || m.Type != s.typ {
		return fs
	}
	fs = append(fs, 2)
	if m.Ts-s.abs == s.delta && s.delta < 0xFFFFFF {
		fs = append(fs, 3)
	}
	return fs
}

// header emits the first-chunk header of m with format f and updates the chunk stream state.
func (e *ChunkEncoder) header(m Msg, f uint8) (hdr []byte, ext []byte) {
	s := e.cs[m.Csid]
	if s == nil {
		s = &encCs{}
		e.cs[m.Csid] = s
	}
	hdr = basicHeader(f, m.Csid)
	var field uint32
	switch f {
	case 0:
		field = m.Ts
		if m.Ts >= 0xFFFFFF {
			field = 0xFFFFFF
			ext = make([]byte, 4)
			binary.BigEndian.PutUint32(ext, m.Ts)
		}
		s.delta = m.Ts
	case 1, 2:
		field = m.Ts - s.abs
		s.delta = field
	}
	if f <= 2 {
		var t [3]byte
		put24(t[:], field)
		hdr = append(hdr, t[:]...)
	}
	if f <= 1 {
		var t [4]byte
		put24(t[:], uint32(len(m.Payload)))
		t[3] = m.Type
		hdr = append(hdr, t[:]...)
	}
	if f == 0 {
		var t [4]byte
		binary.LittleEndian.PutUint32(t[:], m.Msid)
		hdr = append(hdr, t[:]...)
	}
	hdr = append(hdr, ext...)
	s.seen = true
	s.abs = m.Ts
	s.length = uint32(len(m.Payload))
	s.typ = m.Type
	s.msid = m.Msid
	return hdr, ext
}

// Encode serialises msgs. Messages sharing a csid are sent in order; chunks of messages on different
// chunk streams may interleave (chooser decides). Returns the bytes and a description of the choices.
func (e *ChunkEncoder) Encode(msgs []Msg, ch Chooser) ([]byte, string) {
	type prog struct {
		m    Msg
		off  int
		ext  []byte
		open bool
	}
	// per-csid FIFO, csids in order of first appearance
	var order []int
	q := map[int][]Msg{}
	for _, m := range msgs {
		if _, ok := q[m.Csid]; !ok {
			order = append(order, m.Csid)
		}
		q[m.Csid] = append(q[m.Csid], m)
	}
	cur := map[int]*prog{}
	var out []byte
	var desc strings.Builder
	for {
		var ready []int
		for _, c := range order {
			if cur[c] != nil || len(q[c]) > 0 {
				ready = append(ready, c)
			}
		}
		if len(ready) == 0 {
			break
		}
		// Interleaving is only a real choice when two streams have data; to keep message order
		// across streams meaningful for the comparison the caller compares per-csid sequences.
		c := ready[0]
		if len(ready) > 1 {
			c = ready[ch.Choose(len(ready))]
		}
		p := cur[c]
		if p == nil {
			m := q[c][0]
			q[c] = q[c][1:]
			fs := e.legalFormats(m)
			f := fs[0]
			if len(fs) > 1 {
				f = fs[ch.Choose(len(fs))]
			}
			h, ext := e.header(m, f)
			out = append(out, h...)
			p = &prog{m: m, ext: ext, open: true}
			cur[c] = p
			fmt.Fprintf(&desc, "c%d:f%d ", c, f)
		} else {
			out = append(out, basicHeader(3, c)...)
			out = append(out, p.ext...)
			if desc.Len() < 400 {
				fmt.Fprintf(&desc, "c%d:+ ", c)
			}
		}
		n := len(p.m.Payload) - p.off
		if uint32(n) > e.ChunkSize {
			n = int(e.ChunkSize)
		}
		out = append(out, p.m.Payload[p.off:p.off+n]...)
		p.off += n
		if p.off == len(p.m.Payload) {
			cur[c] = nil
			if p.m.Type == 1 && e.ApplySetChunkSize && len(p.m.Payload) >= 4 {
				e.ChunkSize = binary.BigEndian.Uint32(p.m.Payload) & 0x7fffffff
			}
		}
	}
	return out, desc.String()
}

func be24(b []byte) uint32     { return uint32(b[0])<<16 | uint32(b[1])<<8 | uint32(b[2]) }
func put24(b []byte, v uint32) { b[0] = byte(v >> 16); b[1] = byte(v >> 8); b[2] = byte(v) }
