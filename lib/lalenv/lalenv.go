// Package lalenv configures process-wide lal/naza state for harnesses.
package lalenv

import (
	"github.com/q191201771/naza/pkg/nazalog"
)

// Quiet silences lal's logger (all lal packages share naza's global logger object). Fatal/Panic
// level calls keep their behaviour (exit / panic) so that they remain observable.
func Quiet() {
	_ = nazalog.Init(func(o *nazalog.Option) {
		o.Level = nazalog.LevelFatal
		o.IsToStdout = false
		o.Filename = ""
		o.AssertBehavior = nazalog.AssertError
	})
}
