// Package lalenv configures process-wide lal/naza state for harnesses.
package lalenv

import (
	"os"

	"github.com/q191201771/naza/pkg/nazalog"
)

// Quiet silences lal's logger (all lal packages share naza's global logger object). Fatal/Panic
// level calls keep their behaviour (exit / panic) so that they remain observable.
//
// With VERIF_LAL_LOG=trace in the environment the level is trace instead (every log line is formatted
// and then dropped): lal has code that runs only at that level (hex dumps of received chunks and
// packets), and the level is a configuration option like any other.
func Quiet() {
	lv := nazalog.LevelFatal
	if os.Getenv("VERIF_LAL_LOG") == "trace" {
		lv = nazalog.LevelTrace
	}
	_ = nazalog.Init(func(o *nazalog.Option) {
		o.Level = lv
		o.IsToStdout = false
		o.Filename = ""
		o.AssertBehavior = nazalog.AssertError
	})
}
