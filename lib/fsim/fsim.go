// Package fsim is an instrumented in-memory implementation of naza's IFileSystemLayer: every
// operation is logged, so a check can evaluate directory invariants after every single operation
// (= at every crash point / every instant a reader could look) and reconstruct deleted files.
package fsim

import (
	"errors"
	"fmt"
	"os"
	"path"
	"sort"
	"strings"
	"sync"

	"github.com/q191201771/naza/pkg/filesystemlayer"
)

type Op struct {
	Kind string // mkdirall create write close writefile rename remove removeall readfile
	Path string
	To   string // rename target
	N    int    // bytes written
	Err  bool
	Data []byte // bytes of write / writefile
}

func (o Op) String() string {
	s := o.Kind + " " + o.Path
	if o.To != "" {
		s += " -> " + o.To
	}
	if o.N > 0 {
		s += fmt.Sprintf(" (%d bytes)", o.N)
	}
	if o.Err {
		s += " ERR"
	}
	return s
}

type FS struct {
	mu    sync.Mutex
	Root  string
	files map[string][]byte
	dirs  map[string]bool
	Ops   []Op
	// OnOp is called (with the lock held) after every operation has been applied.
	OnOp func(fs *FS, op Op)
}

func New(root string) *FS {
	return &FS{Root: path.Clean(root), files: map[string][]byte{}, dirs: map[string]bool{}}
}

func (f *FS) log(op Op) {
	f.Ops = append(f.Ops, op)
	if f.OnOp != nil {
		f.OnOp(f, op)
	}
}

// Snapshot returns a copy of the files (path -> content).
func (f *FS) Snapshot() map[string][]byte {
	f.mu.Lock()
	defer f.mu.Unlock()
	return f.snapshotLocked()
}

func (f *FS) snapshotLocked() map[string][]byte {
	m := make(map[string][]byte, len(f.files))
	for k, v := range f.files {
		m[k] = v
	}
	return m
}

// FilesLocked may be used inside OnOp.
func (f *FS) FilesLocked() map[string][]byte { return f.files }

func (f *FS) List() []string {
	f.mu.Lock()
	defer f.mu.Unlock()
	var l []string
	for k := range f.files {
		l = append(l, k)
	}
	sort.Strings(l)
	return l
}

func (f *FS) OpsCopy() []Op {
	f.mu.Lock()
	defer f.mu.Unlock()
	return append([]Op{}, f.Ops...)
}

type file struct {
	fs     *FS
	name   string
	closed bool
}

func (fl *file) Write(b []byte) (int, error) {
	fl.fs.mu.Lock()
	defer fl.fs.mu.Unlock()
	if fl.closed {
		fl.fs.log(Op{Kind: "write", Path: fl.name, Err: true})
		return 0, os.ErrClosed
	}
	if _, ok := fl.fs.files[fl.name]; !ok {
		// file was removed while open: POSIX keeps writing to the unlinked inode; content is lost
		fl.fs.log(Op{Kind: "write", Path: fl.name, N: len(b), Err: true})
		return len(b), nil
	}
	fl.fs.files[fl.name] = append(append([]byte{}, fl.fs.files[fl.name]...), b...)
	fl.fs.log(Op{Kind: "write", Path: fl.name, N: len(b), Data: append([]byte{}, b...)})
	return len(b), nil
}

func (fl *file) Close() error {
	fl.fs.mu.Lock()
	defer fl.fs.mu.Unlock()
	fl.closed = true
	fl.fs.log(Op{Kind: "close", Path: fl.name})
	return nil
}

func (f *FS) Type() filesystemlayer.FslType { return filesystemlayer.FslTypeMemory }

func (f *FS) Create(name string) (filesystemlayer.IFile, error) {
	f.mu.Lock()
	defer f.mu.Unlock()
	name = path.Clean(name)
	if !f.dirs[path.Dir(name)] {
		f.log(Op{Kind: "create", Path: name, Err: true})
		return nil, os.ErrNotExist
	}
	f.files[name] = []byte{}
	f.log(Op{Kind: "create", Path: name})
	return &file{fs: f, name: name}, nil
}

func (f *FS) Rename(oldpath, newpath string) error {
	f.mu.Lock()
	defer f.mu.Unlock()
	oldpath, newpath = path.Clean(oldpath), path.Clean(newpath)
	b, ok := f.files[oldpath]
	if !ok {
		f.log(Op{Kind: "rename", Path: oldpath, To: newpath, Err: true})
		return os.ErrNotExist
	}
	delete(f.files, oldpath)
	f.files[newpath] = b
	f.log(Op{Kind: "rename", Path: oldpath, To: newpath})
	return nil
}

func (f *FS) MkdirAll(p string, perm uint32) error {
	f.mu.Lock()
	defer f.mu.Unlock()
	p = path.Clean(p)
	for d := p; d != "/" && d != "."; d = path.Dir(d) {
		f.dirs[d] = true
	}
	f.log(Op{Kind: "mkdirall", Path: p})
	return nil
}

func (f *FS) Remove(name string) error {
	f.mu.Lock()
	defer f.mu.Unlock()
	name = path.Clean(name)
	if _, ok := f.files[name]; !ok {
		f.log(Op{Kind: "remove", Path: name, Err: true})
		return os.ErrNotExist
	}
	delete(f.files, name)
	f.log(Op{Kind: "remove", Path: name})
	return nil
}

func (f *FS) RemoveAll(p string) error {
	f.mu.Lock()
	defer f.mu.Unlock()
	p = path.Clean(p)
	for k := range f.files {
		if k == p || strings.HasPrefix(k, p+"/") {
			delete(f.files, k)
		}
	}
	for k := range f.dirs {
		if k == p || strings.HasPrefix(k, p+"/") {
			delete(f.dirs, k)
		}
	}
	f.log(Op{Kind: "removeall", Path: p})
	return nil
}

func (f *FS) ReadFile(filename string) ([]byte, error) {
	f.mu.Lock()
	defer f.mu.Unlock()
	filename = path.Clean(filename)
	b, ok := f.files[filename]
	f.log(Op{Kind: "readfile", Path: filename, Err: !ok})
	if !ok {
		return nil, os.ErrNotExist
	}
	return append([]byte{}, b...), nil
}

func (f *FS) WriteFile(filename string, data []byte, perm uint32) error {
	f.mu.Lock()
	defer f.mu.Unlock()
	filename = path.Clean(filename)
	if !f.dirs[path.Dir(filename)] {
		f.log(Op{Kind: "writefile", Path: filename, Err: true})
		return os.ErrNotExist
	}
	f.files[filename] = append([]byte{}, data...)
	f.log(Op{Kind: "writefile", Path: filename, N: len(data), Data: append([]byte{}, data...)})
	return nil
}

// ---- router: one global layer dispatching to per-world file systems by path prefix --------------------

type Router struct {
	mu  sync.RWMutex
	fss map[string]*FS
	// Stray records operations on paths that belong to no registered root (escapes).
	Stray []Op
}

func NewRouter() *Router { return &Router{fss: map[string]*FS{}} }

func (r *Router) Register(fs *FS) {
	r.mu.Lock()
	r.fss[fs.Root] = fs
	r.mu.Unlock()
}

func (r *Router) Unregister(fs *FS) {
	r.mu.Lock()
	delete(r.fss, fs.Root)
	r.mu.Unlock()
}

// find: roots look like /vfs/w<N>/...; an operation is routed by the /vfs/w<N> component even if the
// rest of the path escaped the configured root, so that escapes are observed by the right world.
func (r *Router) find(p string) *FS {
	p = path.Clean(p)
	r.mu.RLock()
	defer r.mu.RUnlock()
	for root, fs := range r.fss {
		base := root
		if parts := strings.Split(root, "/"); len(parts) >= 3 {
			base = strings.Join(parts[:3], "/")
		}
		if p == base || strings.HasPrefix(p, base+"/") {
			return fs
		}
	}
	return nil
}

var errStray = errors.New("fsim: path outside every registered root")

func (r *Router) stray(op Op) {
	r.mu.Lock()
	r.Stray = append(r.Stray, op)
	r.mu.Unlock()
}

func (r *Router) Type() filesystemlayer.FslType { return filesystemlayer.FslTypeMemory }
func (r *Router) Create(name string) (filesystemlayer.IFile, error) {
	if fs := r.find(name); fs != nil {
		return fs.Create(name)
	}
	r.stray(Op{Kind: "create", Path: name})
	return nil, errStray
}
func (r *Router) Rename(o, n string) error {
	if fs := r.find(o); fs != nil {
		return fs.Rename(o, n)
	}
	r.stray(Op{Kind: "rename", Path: o, To: n})
	return errStray
}
func (r *Router) MkdirAll(p string, perm uint32) error {
	if fs := r.find(p); fs != nil {
		return fs.MkdirAll(p, perm)
	}
	r.stray(Op{Kind: "mkdirall", Path: p})
	return errStray
}
func (r *Router) Remove(n string) error {
	if fs := r.find(n); fs != nil {
		return fs.Remove(n)
	}
	r.stray(Op{Kind: "remove", Path: n})
	return errStray
}
func (r *Router) RemoveAll(p string) error {
	if fs := r.find(p); fs != nil {
		return fs.RemoveAll(p)
	}
	r.stray(Op{Kind: "removeall", Path: p})
	return errStray
}
func (r *Router) ReadFile(n string) ([]byte, error) {
	if fs := r.find(n); fs != nil {
		return fs.ReadFile(n)
	}
	r.stray(Op{Kind: "readfile", Path: n})
	return nil, errStray
}
func (r *Router) WriteFile(n string, d []byte, perm uint32) error {
	if fs := r.find(n); fs != nil {
		return fs.WriteFile(n, d, perm)
	}
	r.stray(Op{Kind: "writefile", Path: n})
	return errStray
}
