package sched

import (
	"io"
	"os"
	"net"
	"time"
)

// Conn is a connection whose whole input is known in advance: Read never blocks (it returns the
// scripted bytes, then io.EOF), Write appends to a sink. It takes no lock and its accesses are hidden
// from the race detector (a real socket is safe to use from several goroutines and creates no
// happens-before edge between them either); the scheduler's baton keeps them from overlapping.
type Conn struct {
	Name   string
	in     []byte
	rpos   int
	out    []byte
	closed bool
	writes int
	// AtEOF is called once, when the scripted input is used up and before the first io.EOF is returned:
	// the moment the peer hangs up is the environment's choice (a scheduling point)
	AtEOF   func()
	eofSeen bool
	// RefuseWrite, when set, is asked before every Write: true means the peer does not take the bytes (it
	// has stopped reading and its buffers are full) and this caller would block; the environment
	// notes who that is, and the write fails instead of blocking so that the execution ends
	RefuseWrite func() bool
}

// NewConn: the output sink has a fixed capacity so that Write never reallocates (the runtime's slice
// growth is visible to the race detector even from a norace function).
func NewConn(name string, in []byte) *Conn {
	return &Conn{Name: name, in: in, out: make([]byte, 0, 1<<20)}
}

//go:norace
func (c *Conn) Read(b []byte) (int, error) {
	if c.closed {
		return 0, net.ErrClosed
	}
	if c.rpos >= len(c.in) {
		if !c.eofSeen && c.AtEOF != nil {
			c.eofSeen = true
			c.AtEOF()
			if c.closed {
				return 0, net.ErrClosed
			}
		}
		return 0, io.EOF
	}
	n := copy(b, c.in[c.rpos:])
	c.rpos += n
	return n, nil
}

//go:norace
func (c *Conn) Write(b []byte) (int, error) {
	if c.closed {
		return 0, net.ErrClosed
	}
	if c.RefuseWrite != nil && c.RefuseWrite() {
		return 0, os.ErrDeadlineExceeded
	}
	if n := len(c.out); n+len(b) <= cap(c.out) {
		c.out = c.out[:n+len(b)]
		copy(c.out[n:], b)
	}
	c.writes++
	return len(b), nil
}

//go:norace
func (c *Conn) Close() error { c.closed = true; return nil }

//go:norace
func (c *Conn) Out() []byte { return c.out }

//go:norace
func (c *Conn) Closed() bool { return c.closed }

type addr string

func (a addr) Network() string { return "tcp" }
func (a addr) String() string  { return string(a) }

func (c *Conn) LocalAddr() net.Addr                { return addr("127.0.0.1:1935") }
func (c *Conn) RemoteAddr() net.Addr               { return addr("10.1.1.1:40000") }
func (c *Conn) SetDeadline(t time.Time) error      { return nil }
func (c *Conn) SetReadDeadline(t time.Time) error  { return nil }
func (c *Conn) SetWriteDeadline(t time.Time) error { return nil }
