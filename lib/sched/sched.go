// Package sched is a controlled scheduler for goroutines that synchronise through lal's mutexes
// (zzverifsync): exactly one registered thread runs at a time, the others are parked in front of a
// Lock; at every Lock the explorer chooses who goes next. Deadlocks are found as "threads parked,
// none enabled". The hand-off uses plain memory and runtime.Gosched inside //go:norace functions, so
// the race detector sees only the happens-before edges lal's own synchronisation creates and can
// report data races on every explored schedule.
package sched

import (
	"bytes"
	"fmt"
	"runtime"
	"strconv"
	"strings"
	"sync"
	"time"

	"github.com/q191201771/lal/pkg/zzverifsync"
)

const (
	stNew     = 0 // created, has not run yet (parked at its start)
	stRunning = 1
	stParked  = 2 // in front of a Lock
	stDone    = 3
	stFree    = 4 // a goroutine lal spawned, between two of its lock sections: it runs unscheduled
)

type Thread struct {
	ID      int
	Name    string
	state   int
	want    *zzverifsync.Mutex
	wantR   *zzverifsync.RWMutex // parked in front of RLock / write Lock of an RWMutex
	wantW   bool
	goid    uint64
	body    func()
	panic   string
	locks   int  // Lock points passed
	depth   int  // locks currently held
	spawned bool // not started by Go: a goroutine lal created itself
}

// Point is one scheduling decision.
type Point struct {
	Enabled        []int // thread ids in canonical order: the previously running thread first if enabled, then ascending
	Chosen         int   // index into Enabled
	RunningEnabled bool
}

type Exec struct {
	threads []*Thread
	byGoid  map[uint64]*Thread
	cur     *Thread
	last    *Thread
	prefix  []int
	Points  []Point
	Dead    string // deadlock description
	Hang    string
	Diverge string
	// UnlockPoints makes the release of a thread's outermost lock a scheduling point as well
	UnlockPoints bool
}

// regMu guards the registration of threads (and nothing else). It is process-wide and never
// re-created: a goroutine left over from an earlier execution may still reach a lock.
var regMu sync.Mutex

func New(prefix []int) *Exec {
	regMu.Lock()
	defer regMu.Unlock()
	return &Exec{byGoid: map[uint64]*Thread{}, prefix: prefix}
}

func goid() uint64 {
	var buf [64]byte
	n := runtime.Stack(buf[:], false)
	// "goroutine 123 [running]:"
	f := bytes.Fields(buf[:n])
	id, _ := strconv.ParseUint(string(f[1]), 10, 64)
	return id
}

//go:norace
func (t *Thread) getGoid() uint64 { return t.goid }

//go:norace
func (t *Thread) setGoid(g uint64) { t.goid = g }

//go:norace
func (t *Thread) getWant() *zzverifsync.Mutex { return t.want }

//go:norace
func (t *Thread) getState() int { return t.state }

//go:norace
func (t *Thread) setState(s int) { t.state = s }

//go:norace
func (e *Exec) getCur() *Thread { return e.cur }

//go:norace
func (e *Exec) setCur(t *Thread) { e.cur = t }

// Go registers a thread; it starts running when the scheduler first picks it.
func (e *Exec) Go(name string, f func()) *Thread {
	regMu.Lock()
	t := &Thread{ID: len(e.threads), Name: name, body: f}
	e.threads = append(e.threads, t)
	regMu.Unlock()
	go func() {
		g := goid()
		regMu.Lock()
		t.setGoid(g)
		e.byGoid[g] = t
		regMu.Unlock()
		e.waitTurn(t)
		defer func() {
			if p := recover(); p != nil {
				buf := make([]byte, 1<<16)
				t.setPanic(fmt.Sprintf("%v\n%s", p, buf[:runtime.Stack(buf, false)]))
			}
			t.setState(stDone)
			e.setCur(nil)
		}()
		f()
	}()
	return t
}

//go:norace
func (e *Exec) waitTurn(t *Thread) {
	for e.cur != t {
		runtime.Gosched()
	}
	t.state = stRunning
}

func (e *Exec) lookup() *Thread {
	g := goid()
	// fast path without any synchronisation (a lock here would order every Lock point of every thread
	// and hide races): exactly one registered thread runs at a time and it holds the baton
	if t := e.getCur(); t != nil && t.getGoid() == g {
		return t
	}
	regMu.Lock()
	defer regMu.Unlock()
	t := e.byGoid[g]
	if t == nil {
		// a goroutine lal started itself reaches a lock for the first time: it becomes a thread
		t = &Thread{ID: len(e.threads), Name: fmt.Sprintf("spawned%d", len(e.threads)), goid: g, state: stFree, spawned: true}
		e.threads = append(e.threads, t)
		e.byGoid[g] = t
	}
	return t
}

// CallerThread returns the registered thread the calling goroutine is, or nil (a goroutine lal started
// itself that has never taken a lock, such as a connection's writer goroutine, is not registered).
//
//go:norace
func (e *Exec) CallerThread() *Thread {
	g := goid()
	if t := e.getCur(); t != nil && t.getGoid() == g {
		return t
	}
	regMu.Lock()
	defer regMu.Unlock()
	return e.byGoid[g]
}

// BeforeLock parks the calling thread until the scheduler lets it take m.
//
//go:norace
func (e *Exec) BeforeLock(m *zzverifsync.Mutex) {
	t := e.lookup()
	t.want = m
	t.locks++
	wasCur := e.cur == t
	t.state = stParked
	if wasCur {
		e.cur = nil
	}
	e.waitTurn(t)
	m.VerifSetOwner(t.ID + 1)
	t.want = nil
	t.depth++
}

//go:norace
func (e *Exec) AfterUnlock(m *zzverifsync.Mutex) {
	o := m.VerifOwner()
	m.VerifSetOwner(0)
	if o > 0 && o <= len(e.threads) {
		t := e.threads[o-1]
		t.depth--
		if t.spawned && t.depth == 0 {
			// nobody can tell when a goroutine lal started itself ends: outside its lock sections it
			// is not scheduled (it gives the baton back here)
			t.state = stFree
			if e.cur == t {
				e.cur = nil
			}
		}
		if e.UnlockPoints && !t.spawned && t.depth == 0 && e.cur == t {
			// releasing the outermost lock is a scheduling point too (always enabled): what the thread does
			// next without taking a lock (changing a connection's properties, say) can then come after
			// other threads' critical sections
			t.want, t.wantR = nil, nil
			e.park(t)
			t.locks--
		}
	}
}

//go:norace
func (e *Exec) snapshot() (parked, running, fresh []*Thread, done int) {
	regMu.Lock()
	ts := append([]*Thread{}, e.threads...)
	regMu.Unlock()
	for _, t := range ts {
		switch t.state {
		case stParked:
			parked = append(parked, t)
		case stRunning:
			running = append(running, t)
		case stNew:
			fresh = append(fresh, t)
		case stDone:
			done++
		}
	}
	return
}

//go:norace
func setHook(e *Exec) {
	if e == nil {
		zzverifsync.Hook = nil
		return
	}
	zzverifsync.Hook = e
}

//go:norace
func (e *Exec) canTake(t *Thread) bool {
	if t.wantR != nil {
		if t.wantW {
			return t.wantR.W().VerifOwner() == 0 && t.wantR.VerifReaders() == 0
		}
		return t.wantR.W().VerifOwner() == 0
	}
	if t.want == nil {
		return true
	}
	return t.want.VerifOwner() == 0
}

// park is the common part of every lock hook: give the baton back and wait to be chosen.
//
//go:norace
func (e *Exec) park(t *Thread) {
	t.locks++
	wasCur := e.cur == t
	t.state = stParked
	if wasCur {
		e.cur = nil
	}
	e.waitTurn(t)
}

// Yield is a scheduling point that is always enabled (an environment event the thread waits for, such
// as the peer closing its connection). Goroutines lal started itself do not yield.
//
//go:norace
func (e *Exec) Yield() {
	t := e.lookup()
	if t.spawned {
		return
	}
	t.want, t.wantR = nil, nil
	e.park(t)
}

//go:norace
func (e *Exec) BeforeRLock(m *zzverifsync.RWMutex) {
	t := e.lookup()
	t.wantR, t.wantW = m, false
	e.park(t)
	t.wantR = nil
	t.depth++
}

//go:norace
func (e *Exec) AfterRUnlock(m *zzverifsync.RWMutex) {
	e.released(e.lookup())
}

//go:norace
func (e *Exec) BeforeWLock(m *zzverifsync.RWMutex) {
	t := e.lookup()
	t.wantR, t.wantW = m, true
	e.park(t)
	m.W().VerifSetOwner(t.ID + 1)
	t.wantR = nil
	t.depth++
}

//go:norace
func (e *Exec) AfterWUnlock(m *zzverifsync.RWMutex) {
	m.W().VerifSetOwner(0)
	e.released(e.lookup())
}

//go:norace
func (e *Exec) released(t *Thread) {
	t.depth--
	if t.spawned && t.depth == 0 {
		t.state = stFree
		if e.cur == t {
			e.cur = nil
		}
	}
}

// Run schedules until every thread is done, a deadlock is found or nothing moves for the hang limit.
//
//go:norace
func (e *Exec) Run(hangAfter time.Duration) {
	setHook(e)
	defer setHook(nil)
	for {
		// wait until nobody runs: the baton is free and no registered thread is in stRunning (a goroutine
		// lal spawned that has not reached a lock yet runs free; it registers at its first lock)
		deadline := time.Now().Add(hangAfter)
		for {
			_, running, _, _ := e.snapshot()
			if e.getCur() == nil && len(running) == 0 {
				break
			}
			if time.Now().After(deadline) {
				var names []string
				for _, t := range running {
					names = append(names, t.Name)
				}
				e.Hang = fmt.Sprintf("thread(s) %v neither reached a lock nor finished within %v (blocked outside lal's mutexes)", names, hangAfter)
				return
			}
			runtime.Gosched()
		}
		parked, _, fresh, _ := e.snapshot()
		cands := append(fresh, parked...)
		if len(cands) == 0 {
			return // all done
		}
		var enabled []*Thread
		for _, t := range cands {
			if t.getState() == stNew || e.canTake(t) {
				enabled = append(enabled, t)
			}
		}
		if len(enabled) == 0 {
			var sb strings.Builder
			for _, t := range parked {
				h := "?"
				if w := t.getWant(); w != nil {
					if o := w.VerifOwner(); o > 0 && o <= len(e.threads) {
						h = e.threads[o-1].Name
					}
				} else if t.wantR != nil {
					h = fmt.Sprintf("owner %d / %d readers of an RWMutex", t.wantR.W().VerifOwner(), t.wantR.VerifReaders())
				}
				fmt.Fprintf(&sb, "%s waits for a mutex held by %s; ", t.Name, h)
			}
			e.Dead = sb.String()
			return
		}
		// canonical order: the thread that ran last first (if enabled), then by id
		for i := 0; i < len(enabled); i++ {
			for j := i + 1; j < len(enabled); j++ {
				if enabled[j].ID < enabled[i].ID {
					enabled[i], enabled[j] = enabled[j], enabled[i]
				}
			}
		}
		runEn := false
		if e.last != nil {
			for i, t := range enabled {
				if t == e.last {
					copy(enabled[1:i+1], enabled[:i])
					enabled[0] = t
					runEn = true
				}
			}
		}
		choice := 0
		if k := len(e.Points); k < len(e.prefix) {
			choice = e.prefix[k]
			if choice >= len(enabled) {
				// the prefix does not replay exactly (a goroutine lal spawned reached its first lock at a
				// different moment): note it and carry on with the default choice; the execution is
				// still a real schedule, only not the intended one
				e.Diverge = fmt.Sprintf("replaying choice %d of point %d but only %d threads are enabled", choice, k, len(enabled))
				choice = 0
			}
		}
		p := Point{Chosen: choice, RunningEnabled: runEn}
		for _, t := range enabled {
			p.Enabled = append(p.Enabled, t.ID)
		}
		e.Points = append(e.Points, p)
		t := enabled[choice]
		e.last = t
		e.setCur(t)
	}
}

func (e *Exec) Threads() []*Thread {
	regMu.Lock()
	defer regMu.Unlock()
	return append([]*Thread{}, e.threads...)
}

//go:norace
func (t *Thread) setPanic(s string) { t.panic = s }

//go:norace
func (t *Thread) Panic() string { return t.panic }

//go:norace
func (t *Thread) Locks() int { return t.locks }

// Choices returns the schedule of this execution.
func (e *Exec) Choices() []int {
	var c []int
	for _, p := range e.Points {
		c = append(c, p.Chosen)
	}
	return c
}

// PreemptionsBefore counts the preemptions among the first i points.
func (e *Exec) PreemptionsBefore(i int) int {
	n := 0
	for _, p := range e.Points[:i] {
		if p.RunningEnabled && p.Chosen != 0 {
			n++
		}
	}
	return n
}
