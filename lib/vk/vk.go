// Package vk is the shared plumbing of every check: flags, evidence file, known findings,
// violation reporting and replay files. It links no lal code.
package vk

import (
	"bufio"
	"encoding/json"
	"flag"
	"fmt"
	"os"
	"path/filepath"
	"runtime/pprof"
	"sort"
	"strconv"
	"strings"
	"sync"
	"time"
)

// Root is /verif (overridable for vp-run snapshots: evidence always goes next to the sources in use).
var Root = func() string {
	if r := os.Getenv("VERIF_ROOT"); r != "" {
		return r
	}
	return "/verif"
}()

// evRoot: where evidence/ is written (VERIF_EVIDENCE_ROOT redirects it for side runs such as
// tools/tryseed.sh, so that they do not overwrite the evidence of the tree's own runs).
var evRoot = func() string {
	if r := os.Getenv("VERIF_EVIDENCE_ROOT"); r != "" {
		return r
	}
	return Root
}()

type finding struct {
	Property string `json:"property"`
	Key      string `json:"key"`
	Status   string `json:"status"` // known | fixed
	Commit   string `json:"commit,omitempty"`
	What     string `json:"what"`
}

type violation struct {
	Key    string
	What   string
	Replay interface{}
}

// Run is one invocation of one check.
type Run struct {
	ID       string
	Tier     string
	Level    string
	Seed     int
	ReplayIn string // --replay path ("" when exploring)

	mu          sync.Mutex
	start       time.Time
	evals       int64
	classes     map[string]struct{}
	samples     []interface{}
	maxSamples  int
	cov         map[string]interface{}
	assumptions []string
	viol        map[string]*violation // by key, first occurrence
	violOrder   []string
	violCount   map[string]int
	known       map[string]finding
	knownHit    map[string]int
	exhaustive  bool
	rule        string
	states      int64
	transitions int64
	traces      int64
	deadline    time.Time
}

// Start parses the common flags.
func Start(id, level string) *Run {
	tier := flag.String("tier", envOr("VERIF_TIER", "quick"), "quick|thorough")
	replay := flag.String("replay", "", "replay file")
	budget := flag.Duration("budget", 0, "internal wall-clock cap (0 = per-tier default chosen by the check)")
	flag.Parse()
	seed, _ := strconv.Atoi(os.Getenv("VERIF_SEED"))
	r := &Run{ID: id, Tier: *tier, Level: level, Seed: seed, ReplayIn: *replay,
		start: time.Now(), classes: map[string]struct{}{}, cov: map[string]interface{}{},
		viol: map[string]*violation{}, violCount: map[string]int{}, known: map[string]finding{}, knownHit: map[string]int{},
		maxSamples: 6, exhaustive: true}
	if *budget > 0 {
		r.deadline = r.start.Add(*budget)
	}
	if r.Tier != "quick" && r.Tier != "thorough" {
		fmt.Fprintf(os.Stderr, "bad tier %q\n", r.Tier)
		os.Exit(2)
	}
	r.loadKnown()
	if pf := os.Getenv("VERIF_CPUPROFILE"); pf != "" {
		f, _ := os.Create(pf)
		pprof.StartCPUProfile(f)
	}
	return r
}

func envOr(k, d string) string {
	if v := os.Getenv(k); v != "" {
		return v
	}
	return d
}

func (r *Run) Quick() bool { return r.Tier == "quick" }

// SetBudget installs a default internal deadline unless --budget was given.
func (r *Run) SetBudget(quick, thorough time.Duration) {
	if !r.deadline.IsZero() {
		return
	}
	if r.Quick() {
		r.deadline = r.start.Add(quick)
	} else {
		r.deadline = r.start.Add(thorough)
	}
}

// OutOfTime reports whether the internal cap was hit; the caller stops exploring and the run is
// reported as exhaustive:false (never as a violation).
func (r *Run) OutOfTime() bool {
	if r.deadline.IsZero() {
		return false
	}
	if time.Now().After(r.deadline) {
		r.mu.Lock()
		r.exhaustive = false
		r.mu.Unlock()
		return true
	}
	return false
}

func (r *Run) NotExhaustive(why string) {
	r.mu.Lock()
	r.exhaustive = false
	r.cov["cap_hit"] = why
	r.mu.Unlock()
}

func (r *Run) loadKnown() {
	f, err := os.Open(filepath.Join(Root, "known_findings.jsonl"))
	if err != nil {
		return
	}
	defer f.Close()
	sc := bufio.NewScanner(f)
	sc.Buffer(make([]byte, 1<<20), 1<<20)
	for sc.Scan() {
		line := sc.Bytes()
		if len(line) == 0 || line[0] == '#' {
			continue
		}
		var k finding
		if err := json.Unmarshal(line, &k); err != nil {
			fmt.Fprintf(os.Stderr, "known_findings.jsonl: bad line: %v\n", err)
			os.Exit(2)
		}
		if k.Property == r.ID && k.Status == "known" {
			r.known[k.Key] = k
		}
	}
}

// Eval counts n evaluated cases.
func (r *Run) Eval(n int) {
	r.mu.Lock()
	r.evals += int64(n)
	r.mu.Unlock()
}

// Class records a distinct non-trivial class (by the rule set with Rule).
func (r *Run) Class(c string) {
	r.mu.Lock()
	r.classes[c] = struct{}{}
	r.mu.Unlock()
}

func (r *Run) Rule(s string)          { r.rule = s }
func (r *Run) Assume(s ...string)     { r.assumptions = append(r.assumptions, s...) }
func (r *Run) MaxSamples(n int)       { r.maxSamples = n }
func (r *Run) AddStates(n int64)      { r.mu.Lock(); r.states += n; r.mu.Unlock() }
func (r *Run) AddTransitions(n int64) { r.mu.Lock(); r.transitions += n; r.mu.Unlock() }
func (r *Run) AddTraces(n int64)      { r.mu.Lock(); r.traces += n; r.mu.Unlock() }

// Cov sets an extra coverage key.
func (r *Run) Cov(k string, v interface{}) {
	r.mu.Lock()
	r.cov[k] = v
	r.mu.Unlock()
}

// CovAdd adds to an integer coverage key.
func (r *Run) CovAdd(k string, n int64) {
	r.mu.Lock()
	old, _ := r.cov[k].(int64)
	r.cov[k] = old + n
	r.mu.Unlock()
}

// Sample stores an explored case (the first few are kept).
func (r *Run) Sample(s interface{}) {
	r.mu.Lock()
	if len(r.samples) < r.maxSamples {
		r.samples = append(r.samples, s)
	}
	r.mu.Unlock()
}

// Violation records a property violation. key identifies the specific failing thing (stable
// across runs); replay is what --replay needs to reproduce it.
func (r *Run) Violation(key, what string, replay interface{}) {
	r.mu.Lock()
	defer r.mu.Unlock()
	if _, ok := r.known[key]; ok {
		r.knownHit[key]++
		return
	}
	r.violCount[key]++
	if _, ok := r.viol[key]; !ok {
		r.viol[key] = &violation{Key: key, What: what, Replay: replay}
		r.violOrder = append(r.violOrder, key)
	}
}

// IsKnown reports whether key is a listed known finding (explorers keep expanding such states).
func (r *Run) IsKnown(key string) bool {
	r.mu.Lock()
	defer r.mu.Unlock()
	_, ok := r.known[key]
	return ok
}

// Violations returns the number of distinct unlisted violation keys so far.
func (r *Run) Violations() int {
	r.mu.Lock()
	defer r.mu.Unlock()
	return len(r.viol)
}

// Infra aborts with exit 2: the check itself is broken (never a verdict).
func (r *Run) Infra(format string, a ...interface{}) {
	fmt.Fprintf(os.Stderr, "INFRASTRUCTURE-ERROR property=%s: %s\n", r.ID, fmt.Sprintf(format, a...))
	os.Exit(2)
}

// Finish writes the evidence file, prints KNOWN-FINDING / VIOLATION lines and exits.
func (r *Run) Finish() {
	pprof.StopCPUProfile()
	r.mu.Lock()
	defer r.mu.Unlock()
	wall := time.Since(r.start).Seconds()
	if f := os.Getenv("VERIF_DUMP_CLASSES"); f != "" { // debugging aid: the distinct-outcome keys, sorted
		var ks []string
		for k := range r.classes {
			ks = append(ks, k)
		}
		sort.Strings(ks)
		os.WriteFile(f, []byte(strings.Join(ks, "\n")+"\n"), 0o644)
	}

	cov := map[string]interface{}{}
	for k, v := range r.cov {
		cov[k] = v
	}
	cov["evaluations"] = r.evals
	cov["distinct_nontrivial"] = len(r.classes)
	cov["rule"] = r.rule
	if len(r.samples) == 0 {
		r.samples = append(r.samples, "none recorded")
	}
	cov["samples"] = r.samples
	cov["exhaustive"] = r.exhaustive
	if r.Level == "model_checking" {
		cov["states"] = r.states
		cov["transitions"] = r.transitions
		cov["traces_validated_against_impl"] = r.traces
	}
	kh := map[string]int{}
	for k, n := range r.knownHit {
		kh[k] = n
	}
	cov["known_findings_hit"] = kh
	vk := map[string]int{}
	for k, n := range r.violCount {
		vk[k] = n
	}
	cov["violation_keys"] = vk

	ev := map[string]interface{}{
		"property_id": r.ID, "tier": r.Tier, "seed": r.Seed, "level": r.Level,
		"coverage": cov, "assumptions": r.assumptions, "wall_s": wall, "violations": len(r.viol),
	}
	if r.ReplayIn == "" {
		os.MkdirAll(filepath.Join(evRoot, "evidence"), 0o755)
		b, _ := json.MarshalIndent(ev, "", " ")
		p := filepath.Join(evRoot, "evidence", r.ID+".json")
		if err := os.WriteFile(p+".tmp", append(b, '\n'), 0o644); err != nil {
			fmt.Fprintf(os.Stderr, "evidence: %v\n", err)
			os.Exit(2)
		}
		os.Rename(p+".tmp", p)
	}

	keys := make([]string, 0, len(r.knownHit))
	for k := range r.knownHit {
		keys = append(keys, k)
	}
	sort.Strings(keys)
	for _, k := range keys {
		fmt.Printf("KNOWN-FINDING: property=%s key=%s hits=%d %s\n", r.ID, k, r.knownHit[k], r.known[k].What)
	}
	fmt.Printf("%s tier=%s evaluations=%d distinct=%d states=%d transitions=%d exhaustive=%v wall=%.1fs violations=%d\n",
		r.ID, r.Tier, r.evals, len(r.classes), r.states, r.transitions, r.exhaustive, wall, len(r.viol))
	if len(r.viol) == 0 {
		os.Exit(0)
	}
	dir := filepath.Join(evRoot, "evidence", "replays", r.ID)
	if r.ReplayIn == "" {
		os.RemoveAll(dir)
		os.MkdirAll(dir, 0o755)
	}
	for i, k := range r.violOrder {
		v := r.viol[k]
		p := filepath.Join(dir, fmt.Sprintf("%03d.json", i))
		if r.ReplayIn != "" {
			fmt.Printf("VIOLATION property=%s replay=%s key=%s count=%d :: %s\n", r.ID, r.ReplayIn, v.Key, r.violCount[k], v.What)
			continue
		}
		b, _ := json.MarshalIndent(map[string]interface{}{"property": r.ID, "key": v.Key, "what": v.What, "replay": v.Replay}, "", " ")
		os.WriteFile(p, append(b, '\n'), 0o644)
		fmt.Printf("VIOLATION property=%s replay=%s key=%s count=%d :: %s\n", r.ID, p, v.Key, r.violCount[k], v.What)
	}
	os.Exit(1)
}

// LoadReplay reads the "replay" member of a replay file into v.
func (r *Run) LoadReplay(v interface{}) {
	b, err := os.ReadFile(r.ReplayIn)
	if err != nil {
		r.Infra("replay: %v", err)
	}
	var w struct {
		Replay json.RawMessage `json:"replay"`
	}
	if err := json.Unmarshal(b, &w); err != nil {
		r.Infra("replay: %v", err)
	}
	if err := json.Unmarshal(w.Replay, v); err != nil {
		r.Infra("replay: %v", err)
	}
}

// Par runs f(i) for i in [0,n) on all cores.
func Par(n int, workers int, f func(i int)) {
	if workers <= 0 {
		workers = 16
	}
	var wg sync.WaitGroup
	ch := make(chan int, workers)
	for w := 0; w < workers; w++ {
		wg.Add(1)
		go func() {
			defer wg.Done()
			for i := range ch {
				f(i)
			}
		}()
	}
	for i := 0; i < n; i++ {
		ch <- i
	}
	close(ch)
	wg.Wait()
}
