package vk

// Chooser drives one execution of a nondeterministic procedure: it replays a recorded prefix of
// choices and then takes choice 0, recording the arity of every choice point, so that ExploreAll
// can enumerate every choice sequence (stateless depth-first search).
type Chooser struct {
	prefix []int
	Trace  []int
	arity  []int
}

func (c *Chooser) Choose(n int) int {
	if n <= 0 {
		panic("Choose(0)")
	}
	i := len(c.Trace)
	v := 0
	if i < len(c.prefix) {
		v = c.prefix[i]
		if v >= n {
			panic("replay divergence: recorded choice out of range")
		}
	}
	c.Trace = append(c.Trace, v)
	c.arity = append(c.arity, n)
	return v
}

// ExploreAll calls f once for every complete choice sequence. f must be deterministic given the
// choices. Returns the number of executions. stop() (optional) aborts the enumeration early.
func ExploreAll(f func(c *Chooser), stop func() bool) int {
	n := 0
	prefix := []int{}
	for {
		c := &Chooser{prefix: prefix}
		f(c)
		n++
		if stop != nil && stop() {
			return n
		}
		// next sequence in DFS order: increment the last incrementable choice
		i := len(c.Trace) - 1
		for i >= 0 && c.Trace[i]+1 >= c.arity[i] {
			i--
		}
		if i < 0 {
			return n
		}
		prefix = append(append([]int{}, c.Trace[:i]...), c.Trace[i]+1)
	}
}

// ReplayChooser replays a fixed trace.
func ReplayChooser(trace []int) *Chooser { return &Chooser{prefix: trace} }
