// Package protox runs hostile-input cases in worker subprocesses: a fatal runtime error (stack
// exhaustion, out of memory, concurrent map write, os.Exit from a Fatal log) kills the worker, not
// the explorer, and is attributed to the case that was in flight.
package protox

import (
	"bufio"
	"encoding/json"
	"fmt"
	"io"
	"os"
	"os/exec"
	"strings"
	"sync"
	"time"
)

type Case struct {
	Key  string          `json:"key"`  // stable identity of the case (stage + mutation class ...)
	Data json.RawMessage `json:"data"` // what the worker needs
}

type Result struct {
	Class  string `json:"class"`           // outcome class for coverage (e.g. "closed", "served")
	Panic  string `json:"panic,omitempty"` // recovered panic in a lal goroutine (value + innermost lal frames)
	Hang   string `json:"hang,omitempty"`
	Probe  string `json:"probe,omitempty"` // a healthy session on the same server failed afterwards
	Other  string `json:"other,omitempty"` // any other violation text
	OtherK string `json:"other_key,omitempty"`
}

type Outcome struct {
	Case   Case
	Res    Result
	Death  string // worker died while running this case: tail of its stderr
	Killed bool   // worker killed by the per-case deadline
}

// WorkerMain is called by the harness when os.Args[1] == "worker": reads cases from stdin.
func WorkerMain(run func(c Case) Result) {
	in := bufio.NewReaderSize(os.Stdin, 1<<20)
	out := bufio.NewWriter(os.Stdout)
	for {
		line, err := in.ReadBytes('\n')
		if len(line) > 0 {
			var c Case
			var idx int
			sp := strings.IndexByte(string(line), ' ')
			fmt.Sscanf(string(line[:sp]), "%d", &idx)
			if e := json.Unmarshal(line[sp+1:], &c); e != nil {
				fmt.Fprintf(os.Stderr, "worker: bad case line: %v\n", e)
				os.Exit(3)
			}
			fmt.Fprintf(out, "B %d\n", idx)
			out.Flush()
			res := run(c)
			b, _ := json.Marshal(res)
			fmt.Fprintf(out, "E %d %s\n", idx, b)
			out.Flush()
		}
		if err != nil {
			break
		}
	}
	os.Exit(0)
}

// Run executes all cases on nworkers subprocesses of the current executable.
func Run(cases []Case, nworkers int, perCase time.Duration, env []string, stop func() bool, onOutcome func(o Outcome)) (executed int) {
	self, _ := os.Executable()
	var mu sync.Mutex
	next := 0
	take := func(n int) (int, int) {
		mu.Lock()
		defer mu.Unlock()
		if stop != nil && stop() {
			return 0, 0
		}
		lo := next
		hi := lo + n
		if hi > len(cases) {
			hi = len(cases)
		}
		next = hi
		return lo, hi
	}
	var wg sync.WaitGroup
	var cnt int
	for w := 0; w < nworkers; w++ {
		wg.Add(1)
		go func() {
			defer wg.Done()
			for {
				lo, hi := take(200)
				if lo >= hi {
					return
				}
				for lo < hi {
					done := runBatch(self, env, cases, lo, hi, perCase, func(o Outcome) {
						mu.Lock()
						cnt++
						mu.Unlock()
						onOutcome(o)
					})
					lo = done
				}
			}
		}()
	}
	wg.Wait()
	return cnt
}

// runBatch feeds cases[lo:hi] to one worker; returns the index after the last case accounted for.
func runBatch(self string, env []string, cases []Case, lo, hi int, perCase time.Duration, on func(o Outcome)) int {
	cmd := exec.Command(self, "worker")
	cmd.Env = append(os.Environ(), env...)
	stdin, _ := cmd.StdinPipe()
	stdout, _ := cmd.StdoutPipe()
	var errBuf tailBuf
	cmd.Stderr = &errBuf
	if err := cmd.Start(); err != nil {
		for i := lo; i < hi; i++ {
			on(Outcome{Case: cases[i], Death: "cannot start worker: " + err.Error()})
		}
		return hi
	}
	go func() {
		w := bufio.NewWriter(stdin)
		for i := lo; i < hi; i++ {
			b, _ := json.Marshal(cases[i])
			fmt.Fprintf(w, "%d %s\n", i, b)
		}
		w.Flush()
		stdin.Close()
	}()
	type ev struct {
		begin bool
		idx   int
		res   Result
	}
	evs := make(chan ev, 16)
	go func() {
		rd := bufio.NewReaderSize(stdout, 1<<20)
		for {
			line, err := rd.ReadString('\n')
			if len(line) > 2 {
				var e ev
				if line[0] == 'B' {
					e.begin = true
					fmt.Sscanf(line[2:], "%d", &e.idx)
					evs <- e
				} else if line[0] == 'E' {
					rest := line[2:]
					sp := strings.IndexByte(rest, ' ')
					fmt.Sscanf(rest[:sp], "%d", &e.idx)
					json.Unmarshal([]byte(rest[sp+1:]), &e.res)
					evs <- e
				}
			}
			if err != nil {
				close(evs)
				return
			}
		}
	}()
	cur := -1
	doneUpTo := lo
	timer := time.NewTimer(perCase + 20*time.Second)
	defer timer.Stop()
	for {
		select {
		case e, ok := <-evs:
			if !ok {
				werr := cmd.Wait()
				if cur >= 0 {
					// (a silent exit - the logger's Fatal with its output off calls os.Exit - is a death too)
					d := errBuf.String()
					if strings.TrimSpace(d) == "" {
						d = fmt.Sprintf("the process exited while the case was running, without a message (%v)", werr)
					}
					on(Outcome{Case: cases[cur], Death: d})
					return cur + 1
				}
				if doneUpTo < hi {
					// died between cases (should not happen): attribute to the next one
					on(Outcome{Case: cases[doneUpTo], Death: "worker exited early: " + errBuf.String()})
					return doneUpTo + 1
				}
				return hi
			}
			if !timer.Stop() {
				select {
				case <-timer.C:
				default:
				}
			}
			timer.Reset(perCase)
			if e.begin {
				cur = e.idx
			} else {
				on(Outcome{Case: cases[e.idx], Res: e.res})
				cur = -1
				doneUpTo = e.idx + 1
			}
		case <-timer.C:
			cmd.Process.Kill()
			cmd.Wait()
			if cur >= 0 {
				on(Outcome{Case: cases[cur], Killed: true, Death: errBuf.String()})
				return cur + 1
			}
			on(Outcome{Case: cases[doneUpTo], Killed: true, Death: "worker made no progress: " + errBuf.String()})
			return doneUpTo + 1
		}
	}
}

type tailBuf struct {
	mu sync.Mutex
	b  []byte
}

func (t *tailBuf) Write(p []byte) (int, error) {
	t.mu.Lock()
	t.b = append(t.b, p...)
	if len(t.b) > 16384 {
		// keep head (the fatal error line is first) and tail
		t.b = append(t.b[:8192], t.b[len(t.b)-4096:]...)
	}
	t.mu.Unlock()
	return len(p), nil
}

func (t *tailBuf) String() string {
	t.mu.Lock()
	defer t.mu.Unlock()
	return string(t.b)
}

var _ = io.EOF

// PanicKey reduces a recovered panic (value + stack) to "panic class @ innermost lal function".
func PanicKey(p string) string {
	lines := strings.Split(p, "\n")
	val := lines[0]
	cls := val
	switch {
	case strings.Contains(val, "index out of range"):
		cls = "index-out-of-range"
	case strings.Contains(val, "slice bounds out of range"):
		cls = "slice-bounds"
	case strings.Contains(val, "nil pointer"):
		cls = "nil-deref"
	case strings.Contains(val, "divide by zero"):
		cls = "divide-by-zero"
	case strings.Contains(val, "makeslice") || strings.Contains(val, "len out of range"):
		cls = "makeslice"
	case strings.Contains(val, "nil map"):
		cls = "nil-map-write"
	case strings.Contains(val, "closed channel"):
		cls = "closed-channel"
	default:
		if len(cls) > 40 {
			cls = cls[:40]
		}
	}
	fn := "?"
	for _, l := range lines[1:] {
		l = strings.TrimSpace(l)
		if (strings.HasPrefix(l, "github.com/q191201771/lal/pkg/") || strings.HasPrefix(l, "github.com/q191201771/naza/pkg/")) && !strings.Contains(l, "zz_verif") {
			fn = strings.TrimPrefix(strings.TrimPrefix(l, "github.com/q191201771/lal/pkg/"), "github.com/q191201771/naza/pkg/")
			if i := strings.Index(fn, "("); i > 0 {
				// keep "(*T).Method" but drop the argument list
				if j := strings.LastIndex(fn, "("); j > 0 && j != strings.Index(fn, "(*") {
					fn = fn[:j]
				}
			}
			break
		}
	}
	return cls + "@" + fn
}

// DeathKey classifies a worker death from its stderr.
func DeathKey(s string) string {
	switch {
	case strings.Contains(s, "stack overflow") || strings.Contains(s, "stack exceeds"):
		return "fatal-stack-overflow"
	case strings.Contains(s, "out of memory") || strings.Contains(s, "cannot allocate"):
		return "fatal-out-of-memory"
	case strings.Contains(s, "concurrent map"):
		return "fatal-concurrent-map"
	case strings.Contains(s, "fatal error"):
		return "fatal-error"
	case strings.Contains(s, "panic:"):
		return "unrecovered-panic"
	}
	return "process-exit"
}

// TraceTwin returns a copy of c whose data carries "log":"trace": RunLevels runs it in workers that have
// VERIF_LAL_LOG=trace in their environment (the server under test then logs at trace level).
func TraceTwin(c Case) Case {
	var m map[string]interface{}
	if json.Unmarshal(c.Data, &m) != nil {
		return c
	}
	m["log"] = "trace"
	d, _ := json.Marshal(m)
	return Case{Key: c.Key, Data: d}
}

// IsTrace tells whether c is a trace-level twin.
func IsTrace(c Case) bool {
	var m struct {
		Log string `json:"log"`
	}
	json.Unmarshal(c.Data, &m)
	return m.Log == "trace"
}

// RunLevels runs the plain cases, then the trace-level twins, each group in workers of its own.
func RunLevels(cases []Case, nworkers int, perCase time.Duration, stop func() bool, onOutcome func(o Outcome)) (executed int) {
	var plain, trace []Case
	for _, c := range cases {
		if IsTrace(c) {
			trace = append(trace, c)
		} else {
			plain = append(plain, c)
		}
	}
	if len(plain) > 0 {
		executed += Run(plain, nworkers, perCase, nil, stop, onOutcome)
	}
	if len(trace) > 0 {
		executed += Run(trace, nworkers, perCase, []string{"VERIF_LAL_LOG=trace"}, stop, onOutcome)
	}
	return
}
