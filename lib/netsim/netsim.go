// Package netsim is the closed network environment: in-memory net.Conn objects whose input is a
// script the explorer appends to and whose output is captured, plus quiescence detection so that
// exactly one event is in flight at a time and outcomes are deterministic.
package netsim

import (
	"errors"
	"fmt"
	"io"
	"net"
	"os"
	"runtime/debug"
	"sync"
	"time"
)

type state int

const (
	stRunning state = iota
	stIdle          // blocked in Read with an empty buffer
	stDone          // owning goroutine returned
)

type World struct {
	mu    sync.Mutex
	cond  *sync.Cond
	conns []*Conn
	busy  int // asynchronous activities outside conns (counted by Busy)
	// Panics recorded by Go wrappers (value + stack).
	Panics []string
	// Now is the fake clock used for deadlines (nil = deadlines ignored).
	QuiesceTimeout time.Duration
}

func NewWorld() *World {
	w := &World{QuiesceTimeout: 30 * time.Second}
	w.cond = sync.NewCond(&w.mu)
	return w
}

type addr string

func (a addr) Network() string { return "tcp" }
func (a addr) String() string  { return string(a) }

// Conn is the lal-side end of an in-memory connection.
type Conn struct {
	w       *World
	Name    string
	in      []byte
	inEOF   bool // peer half-closed: Read returns EOF once drained
	out     []byte
	closed  bool // lal called Close
	st      state
	owned   bool // has an owning goroutine registered through World.Go
	pending int  // asynchronous writes queued inside naza's connection and not yet handed to Write
	client  bool // opened by lal itself (a dial): no World.Go wrapper, finished once lal closed it
	stalled bool // Write blocks while true (consumer not reading, socket buffer full)
	inWrite int  // goroutines currently blocked in Write
	Local   string
	Remote  string
	writes  int // number of Write calls (bounded-work accounting)
	ReadDL  time.Time
	WriteDL time.Time
	wErr    error
	OnWrite func(c *Conn, b []byte) // optional observer, called with the world lock held
	taken   int
}

func (w *World) NewConn(name string) *Conn {
	w.mu.Lock()
	defer w.mu.Unlock()
	c := &Conn{w: w, Name: name, Local: "127.0.0.1:1935", Remote: fmt.Sprintf("10.0.0.%d:%d", 1+len(w.conns)%250, 40000+len(w.conns)), st: stRunning}
	w.conns = append(w.conns, c)
	return c
}

// NewClientConn is a connection lal opened itself (the result of a dial): the goroutines using it
// are lal's own; it counts as busy until it is blocked in Read with nothing to read, and as finished
// once lal has closed it.
func (w *World) NewClientConn(name string) *Conn {
	c := w.NewConn(name)
	w.mu.Lock()
	c.owned, c.client, c.st = true, true, stRunning
	c.Local, c.Remote = c.Remote, "10.9.9.9:1935"
	w.mu.Unlock()
	return c
}

// IsQuiescent is a non-blocking look.
func (w *World) IsQuiescent() bool {
	w.mu.Lock()
	defer w.mu.Unlock()
	return w.quiescentLocked()
}

// Go runs f as the goroutine owning c (the session goroutine lal would give the connection).
// A panic in f is recorded (lal has no recover: a panic there kills the process in production).
func (w *World) Go(c *Conn, f func()) {
	w.mu.Lock()
	c.owned = true
	c.st = stRunning
	w.mu.Unlock()
	go func() {
		defer func() {
			if p := recover(); p != nil {
				w.mu.Lock()
				w.Panics = append(w.Panics, fmt.Sprintf("%v\n%s", p, debug.Stack()))
				w.mu.Unlock()
			}
			w.mu.Lock()
			c.st = stDone
			w.cond.Broadcast()
			w.mu.Unlock()
		}()
		f()
	}()
}

// Async runs f as an extra asynchronous activity that quiescence waits for.
func (w *World) Async(f func()) {
	w.Busy(1)
	go func() {
		defer func() {
			if p := recover(); p != nil {
				w.mu.Lock()
				w.Panics = append(w.Panics, fmt.Sprintf("%v\n%s", p, debug.Stack()))
				w.mu.Unlock()
			}
			w.Busy(-1)
		}()
		f()
	}()
}

func (w *World) Busy(d int) {
	w.mu.Lock()
	w.busy += d
	w.cond.Broadcast()
	w.mu.Unlock()
}

func (w *World) quiescentLocked() bool {
	if w.busy != 0 {
		return false
	}
	for _, c := range w.conns {
		// queued asynchronous writes: settled once they are written, or once the writer is blocked on a
		// stalled peer (then everything behind it stays queued until the explorer lets it go)
		if !c.closed && c.pending > 0 && !(c.stalled && c.inWrite > 0 && c.wErr == nil) {
			return false
		}
		if !c.owned || (c.client && c.closed) {
			continue
		}
		switch c.st {
		case stDone:
		case stIdle:
			if len(c.in) != 0 || c.inEOF || c.closed {
				return false
			}
		default:
			if c.inWrite > 0 && c.stalled && c.wErr == nil {
				continue // blocked on a stalled peer: stable until the explorer unstalls
			}
			return false
		}
	}
	return true
}

var ErrHang = errors.New("netsim: no quiescence within the deadline (hang)")

// Quiesce waits until every owned connection's goroutine is idle in Read with nothing to read, or
// finished, and no asynchronous activity is pending.
func (w *World) Quiesce() error {
	deadline := time.Now().Add(w.QuiesceTimeout)
	w.mu.Lock()
	defer w.mu.Unlock()
	tm := time.AfterFunc(w.QuiesceTimeout+10*time.Millisecond, func() { w.mu.Lock(); w.cond.Broadcast(); w.mu.Unlock() })
	defer tm.Stop()
	for !w.quiescentLocked() {
		if time.Now().After(deadline) {
			return ErrHang
		}
		w.cond.Wait()
	}
	return nil
}

// Shutdown closes every connection so that the goroutines serving them end.
func (w *World) Shutdown() {
	w.mu.Lock()
	for _, c := range w.conns {
		c.closed = true
		c.stalled = false
	}
	w.cond.Broadcast()
	w.mu.Unlock()
}

func (w *World) PanicCount() int {
	w.mu.Lock()
	defer w.mu.Unlock()
	return len(w.Panics)
}

func (w *World) FirstPanic() string {
	w.mu.Lock()
	defer w.mu.Unlock()
	if len(w.Panics) == 0 {
		return ""
	}
	return w.Panics[0]
}

// Describe returns the state of every connection (for hang diagnostics).
func (w *World) Describe() string {
	w.mu.Lock()
	defer w.mu.Unlock()
	s := fmt.Sprintf("busy=%d", w.busy)
	for _, c := range w.conns {
		s += fmt.Sprintf(" [%s st=%d in=%d eof=%v closed=%v stalled=%v inWrite=%d]", c.Name, c.st, len(c.in), c.inEOF, c.closed, c.stalled, c.inWrite)
	}
	return s
}

// ---- explorer side ---------------------------------------------------------------------------------

// Feed appends bytes for lal to read.
func (c *Conn) Feed(b []byte) {
	c.w.mu.Lock()
	c.in = append(c.in, b...)
	if c.st == stIdle {
		c.st = stRunning
	}
	c.w.cond.Broadcast()
	c.w.mu.Unlock()
}

// PeerClose closes the peer's end: lal reads EOF after the buffered bytes.
func (c *Conn) PeerClose() {
	c.w.mu.Lock()
	c.inEOF = true
	if c.st == stIdle {
		c.st = stRunning
	}
	c.w.cond.Broadcast()
	c.w.mu.Unlock()
}

// Take returns and clears what lal wrote since the last Take.
func (c *Conn) Take() []byte {
	c.w.mu.Lock()
	defer c.w.mu.Unlock()
	b := c.out
	c.out = nil
	c.taken += len(b)
	return b
}

// Peek returns a copy of the untaken output.
func (c *Conn) Peek() []byte {
	c.w.mu.Lock()
	defer c.w.mu.Unlock()
	return append([]byte{}, c.out...)
}

// VerifPending is called by the instrumented copy of naza's connection (see tools/vgen) whenever a
// write is queued (+1) or the write loop has dealt with one (-1).
func (c *Conn) VerifPending(d int) {
	c.w.mu.Lock()
	c.pending += d
	c.w.cond.Broadcast()
	c.w.mu.Unlock()
}

// Pending returns the number of queued asynchronous writes.
func (c *Conn) Pending() int {
	c.w.mu.Lock()
	defer c.w.mu.Unlock()
	return c.pending
}

// HasOutput reports whether lal has written bytes that were not taken yet.
func (c *Conn) HasOutput() bool {
	c.w.mu.Lock()
	defer c.w.mu.Unlock()
	return len(c.out) > 0
}

// Closed reports whether lal closed the connection.
func (c *Conn) Closed() bool {
	c.w.mu.Lock()
	defer c.w.mu.Unlock()
	return c.closed
}

// Done reports whether the owning goroutine returned.
func (c *Conn) Done() bool {
	c.w.mu.Lock()
	defer c.w.mu.Unlock()
	return c.st == stDone
}

func (c *Conn) Writes() int {
	c.w.mu.Lock()
	defer c.w.mu.Unlock()
	return c.writes
}

// Stall makes Write block (true) or lets blocked writers continue (false).
func (c *Conn) Stall(v bool) {
	c.w.mu.Lock()
	c.stalled = v
	c.w.cond.Broadcast()
	c.w.mu.Unlock()
}

// BlockedWriters returns the number of goroutines blocked in Write on this conn.
func (c *Conn) BlockedWriters() int {
	c.w.mu.Lock()
	defer c.w.mu.Unlock()
	return c.inWrite
}

// ---- net.Conn (lal side) -----------------------------------------------------------------------------

func (c *Conn) Read(b []byte) (int, error) {
	w := c.w
	w.mu.Lock()
	defer w.mu.Unlock()
	for {
		if c.closed {
			return 0, net.ErrClosed
		}
		if len(c.in) > 0 {
			n := copy(b, c.in)
			c.in = c.in[n:]
			c.st = stRunning
			return n, nil
		}
		if c.inEOF {
			c.st = stRunning
			return 0, io.EOF
		}
		if len(b) == 0 {
			return 0, nil
		}
		if c.st != stIdle { // announce the transition once; waking the others on every loop would
			c.st = stIdle // make two idle readers wake each other for ever
			w.cond.Broadcast()
		}
		w.cond.Wait()
	}
}

func (c *Conn) Write(b []byte) (int, error) {
	w := c.w
	w.mu.Lock()
	defer w.mu.Unlock()
	c.writes++
	if c.stalled {
		c.inWrite++
		w.cond.Broadcast()
		for c.stalled && !c.closed && c.wErr == nil {
			w.cond.Wait()
		}
		c.inWrite--
		w.cond.Broadcast()
	}
	if c.wErr != nil {
		return 0, c.wErr
	}
	if c.closed {
		return 0, net.ErrClosed
	}
	c.out = append(c.out, b...)
	if c.OnWrite != nil {
		c.OnWrite(c, b)
	}
	return len(b), nil
}

// Unread tells how many fed bytes the server has not read yet.
func (c *Conn) Unread() int {
	c.w.mu.Lock()
	defer c.w.mu.Unlock()
	return len(c.in)
}

// FailWrites makes every current and later Write fail with err (e.g. a write timeout).
func (c *Conn) FailWrites(err error) {
	c.w.mu.Lock()
	c.wErr = err
	c.w.cond.Broadcast()
	c.w.mu.Unlock()
}

var ErrTimeout = os.ErrDeadlineExceeded

func (c *Conn) Close() error {
	w := c.w
	w.mu.Lock()
	c.closed = true
	w.cond.Broadcast()
	w.mu.Unlock()
	return nil
}

func (c *Conn) LocalAddr() net.Addr  { return addr(c.Local) }
func (c *Conn) RemoteAddr() net.Addr { return addr(c.Remote) }
func (c *Conn) SetDeadline(t time.Time) error {
	c.w.mu.Lock()
	c.ReadDL, c.WriteDL = t, t
	c.w.mu.Unlock()
	return nil
}
func (c *Conn) SetReadDeadline(t time.Time) error {
	c.w.mu.Lock()
	c.ReadDL = t
	c.w.mu.Unlock()
	return nil
}
func (c *Conn) SetWriteDeadline(t time.Time) error {
	c.w.mu.Lock()
	c.WriteDL = t
	c.w.mu.Unlock()
	return nil
}
