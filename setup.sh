#!/bin/bash
# Run once after a fresh restore, offline. Builds nothing persistent except go's build cache:
# every check rebuilds its harness from /repo's current tree at run time (vcheck).
set -e
cd "$(dirname "$0")"
export GOFLAGS=-mod=mod GOPROXY=off GOSUMDB=off GOTOOLCHAIN=local
cp /repo/go.sum go.sum
mkdir -p evidence bin
go build -o bin/vgen ./tools/vgen
S=$(mktemp -d)
trap 'rm -rf "$S"' EXIT
python3 tools/mkoverlay.py "$PWD" /repo "$S" none > "$S/overlay.json"
# warm the build cache (plain and, when a harness asks for it, -race)
for d in harness/*/; do
  id=$(basename "$d")
  [ "$id" = dbg ] && continue
  RACE=""; [ -f "$d/RACE" ] && RACE="-race"
  go build $RACE -tags verif -overlay "$S/overlay.json" -o "$S/h" "./$d" || echo "setup: warm build of $id failed (the check will report it)"
done
echo setup ok
