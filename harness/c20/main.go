// C20 — concurrent sessions, API calls, ticks and shutdown are race- and deadlock-free.
// Family (C): stateless exploration of thread schedules of the real server under a controlled
// scheduler. Threads = session goroutines (RTMP publisher / player, HTTP-FLV subscriber, RTSP
// publisher / player), API callers, the tick and shutdown. Scheduling points = every Lock of one of
// lal's mutexes (zzverifsync). All schedules with at most `bound` preemptions are executed, each
// under the race detector (the scheduler's hand-off is invisible to it), checking: no data race
// report, no deadlock (parked threads, none enabled), no thread blocked outside lal's mutexes, no panic.
package main

import (
	"bufio"
	"encoding/base64"
	"encoding/json"
	"fmt"
	"net"
	"net/http"
	"os"
	"os/exec"
	"path/filepath"
	"strings"
	"sync"
	"sync/atomic"
	"time"

	"github.com/q191201771/lal/pkg/base"
	"github.com/q191201771/lal/pkg/hls"
	"github.com/q191201771/lal/pkg/logic"
	"github.com/q191201771/lal/pkg/rtmp"
	"github.com/q191201771/lal/pkg/rtsp"

	"verif/lib/lalenv"
	"verif/lib/ref"
	"verif/lib/sched"
	"verif/lib/vk"
	"verif/lib/world"
)

// ---- scripted peers ---------------------------------------------------------------------------------------------

func amfCmd(name string, tid float64, rest ...ref.AVal) []byte {
	b := ref.AEncode(ref.AVal{Kind: ref.AString, Str: name})
	b = append(b, ref.AEncode(ref.AVal{Kind: ref.ANumber, Num: tid})...)
	for _, r := range rest {
		b = append(b, ref.AEncode(r)...)
	}
	return b
}

func aStr(s string) ref.AVal { return ref.AVal{Kind: ref.AString, Str: s} }

func rtmpScript(role, stream string, msgs []ref.Msg) []byte {
	hs := make([]byte, 1+1536+1536)
	hs[0] = 3
	enc := ref.NewChunkEncoder(128)
	obj := ref.AVal{Kind: ref.AObject, Pairs: []ref.APair{{Key: "app", Val: aStr("live")}, {Key: "tcUrl", Val: aStr("rtmp://h/live")}}}
	ms := []ref.Msg{
		{Csid: 3, Type: 20, Msid: 0, Payload: amfCmd("connect", 1, obj)},
		{Csid: 3, Type: 20, Msid: 0, Payload: amfCmd("createStream", 2, ref.AVal{Kind: ref.ANull})},
	}
	if role == "publish" {
		ms = append(ms, ref.Msg{Csid: 4, Type: 20, Msid: 1, Payload: amfCmd("publish", 3, ref.AVal{Kind: ref.ANull}, aStr(stream), aStr("live"))})
	} else {
		ms = append(ms, ref.Msg{Csid: 4, Type: 20, Msid: 1, Payload: amfCmd("play", 3, ref.AVal{Kind: ref.ANull}, aStr(stream))})
	}
	ms = append(ms, msgs...)
	b, _ := enc.Encode(ms, ref.First)
	return append(hs, b...)
}

var avcSps = ref.WriteAvcSps(ref.AvcSps{Profile: 100, Level: 31, ChromaFormat: 1, PocType: 0, Log2MaxPocLsbM4: 2, MaxNumRefFrames: 3, WidthMbsM1: 19, HeightMapUnitsM1: 14, FrameMbsOnly: true, Direct8x8: true})
var avcPps = []byte{0x68, 0xce, 0x3c, 0x80}

func mediaMsgs(n int) []ref.Msg {
	vsh := []byte{0x17, 0, 0, 0, 0, 1, avcSps[1], avcSps[2], avcSps[3], 0xff, 0xe1, byte(len(avcSps) >> 8), byte(len(avcSps))}
	vsh = append(vsh, avcSps...)
	vsh = append(vsh, 1, 0, byte(len(avcPps)))
	vsh = append(vsh, avcPps...)
	ms := []ref.Msg{{Csid: 6, Type: 9, Msid: 1, Payload: vsh}, {Csid: 4, Type: 8, Msid: 1, Payload: []byte{0xaf, 0, 0x12, 0x10}}}
	for i := 0; i < n; i++ {
		key := []byte{0x17, 1, 0, 0, 0, 0, 0, 0, 5, 0x65, 1, 2, 3, byte(i)}
		ms = append(ms, ref.Msg{Csid: 6, Type: 9, Msid: 1, Ts: uint32(40 * i), Payload: key})
		ms = append(ms, ref.Msg{Csid: 4, Type: 8, Msid: 1, Ts: uint32(40*i + 10), Payload: []byte{0xaf, 1, byte(i), 7, 7}})
	}
	return ms
}

func rtspScript(reqs ...[]byte) []byte {
	var b []byte
	for _, r := range reqs {
		b = append(b, r...)
	}
	return b
}

func sdpAV() []byte {
	sp := base64.StdEncoding.EncodeToString(avcSps) + "," + base64.StdEncoding.EncodeToString(avcPps)
	return []byte("v=0\r\no=- 0 0 IN IP4 127.0.0.1\r\ns=x\r\nc=IN IP4 127.0.0.1\r\nt=0 0\r\n" +
		"m=video 0 RTP/AVP 96\r\na=rtpmap:96 H264/90000\r\na=fmtp:96 packetization-mode=1; sprop-parameter-sets=" + sp + "\r\na=control:streamid=0\r\n" +
		"m=audio 0 RTP/AVP 97\r\na=rtpmap:97 MPEG4-GENERIC/44100/2\r\na=fmtp:97 profile-level-id=1;mode=AAC-hbr;sizelength=13;indexlength=3;indexdeltalength=3; config=1210\r\na=control:streamid=1\r\n")
}

type hijackW struct {
	c   *sched.Conn
	hdr http.Header
}

func (h *hijackW) Header() http.Header         { return h.hdr }
func (h *hijackW) Write(b []byte) (int, error) { return h.c.Write(b) }
func (h *hijackW) WriteHeader(int)             {}
func (h *hijackW) Hijack() (net.Conn, *bufio.ReadWriter, error) {
	return h.c, bufio.NewReadWriter(bufio.NewReader(h.c), bufio.NewWriter(h.c)), nil
}

// ---- scenarios ------------------------------------------------------------------------------------------------------

type scenario struct {
	Name  string
	Conf  world.Conf
	Build func(w *world.W, e *sched.Exec)
	// UnlockPoints: the release of a thread's outermost lock is a scheduling point too
	UnlockPoints bool
}

// foreignWrite is set by a stalled consumer's connection when a registered thread other than the
// consumer's own session thread writes to it synchronously: that thread would block for as long as the
// consumer does not read (a connection's writer goroutine may block; it is not a registered thread).
var foreignWrite string

// stalledPlayer is an RTMP subscriber whose peer stops reading as soon as play is acknowledged.
func stalledPlayer(w *world.W, e *sched.Exec, name string, script []byte) {
	c := sched.NewConn(name, script)
	c.AtEOF = e.Yield
	c.RefuseWrite = func() bool {
		t := e.CallerThread()
		if t == nil || t.Name == name {
			return false
		}
		if foreignWrite == "" {
			foreignWrite = fmt.Sprintf("thread %s writes synchronously to the connection of %s, which does not read: it blocks (with whatever it holds) until the consumer's write timeout", t.Name, name)
		}
		return true
	}
	srv := logic.VerifRtmpServer(w.SM)
	e.Go(name, func() { rtmp.VerifHandleConn(srv, c) })
}

func rtmpThread(w *world.W, e *sched.Exec, name string, script []byte) {
	c := sched.NewConn(name, script)
	if strings.HasPrefix(name, "player") {
		c.AtEOF = e.Yield // a subscriber stays until its peer hangs up: when that happens is a scheduling choice
	}
	srv := logic.VerifRtmpServer(w.SM)
	e.Go(name, func() { rtmp.VerifHandleConn(srv, c) })
}

func scenarios() []scenario {
	const rtspUri = "rtsp://h/live/s"
	return []scenario{
		{Name: "pub+play+kick+tick", Build: func(w *world.W, e *sched.Exec) {
			rtmpThread(w, e, "publisher", rtmpScript("publish", "s", mediaMsgs(2)))
			rtmpThread(w, e, "player", rtmpScript("play", "s", nil))
			e.Go("api", func() {
				w.SM.StatAllGroup()
				if g := w.SM.StatGroup("s"); g != nil && g.StatPub.SessionId != "" {
					w.SM.CtrlKickSession(base.ApiCtrlKickSessionReq{StreamName: "s", SessionId: g.StatPub.SessionId})
				}
				w.SM.StatLalInfo()
			})
			var tick uint32
			e.Go("tick", func() { w.SM.VerifTick(&tick); w.SM.VerifTick(&tick) })
		}},
		{Name: "pub+play+two-stat-readers", Build: func(w *world.W, e *sched.Exec) {
			// two API clients that USE what the stat calls return (as the HTTP API does when it serialises
			// the answer) while sessions come and go: a result handed out must not change under its reader
			rtmpThread(w, e, "publisher", rtmpScript("publish", "s", mediaMsgs(1)))
			rtmpThread(w, e, "player", rtmpScript("play", "s", nil))
			use := func(g *base.StatGroup) int {
				if g == nil {
					return 0
				}
				n := len(g.StreamName) + len(g.StatPub.SessionId) + len(g.StatPull.SessionId)
				for _, u := range g.StatSubs {
					n += len(u.SessionId) + len(u.RemoteAddr) + int(u.ReadBytesSum)
				}
				return n
			}
			reader := func(name string) {
				e.Go(name, func() {
					g1 := w.SM.StatGroup("s")
					all := w.SM.StatAllGroup()
					g2 := w.SM.StatGroup("s")
					// (the results are read after later calls have been made, the way a slow client of the API
					// holds its answer)
					n := use(g1) + use(g2)
					for i := range all {
						n += use(&all[i])
					}
					statSink(n)
				})
			}
			reader("api-stat-A")
			reader("api-stat-B")
		}},
		{Name: "two-stat-readers+long-lived-stream", Build: func(w *world.W, e *sched.Exec) {
			// a stream that has been live for more than half a minute (its per-second frame history is full): two
			// API clients hold and read what the stat calls gave them while the other one asks again
			logic.VerifFillFps(w.SM, "live", "s", w.Now().Unix())
			reader := func(name string) {
				e.Go(name, func() {
					n := 0
					g1 := w.SM.StatGroup("s")
					all := w.SM.StatAllGroup()
					g2 := w.SM.StatGroup("s")
					for _, g := range []*base.StatGroup{g1, g2} {
						if g != nil {
							for _, f := range g.Fps {
								n += int(f.V) + int(f.UnixSec)
							}
						}
					}
					for i := range all {
						for _, f := range all[i].Fps {
							n += int(f.V)
						}
					}
					statSink(n)
				})
			}
			reader("api-stat-A")
			reader("api-stat-B")
		}},
		{Name: "two-publishers+player", Build: func(w *world.W, e *sched.Exec) {
			rtmpThread(w, e, "publisherA", rtmpScript("publish", "s", mediaMsgs(1)))
			rtmpThread(w, e, "publisherB", rtmpScript("publish", "s", mediaMsgs(1)))
			rtmpThread(w, e, "player", rtmpScript("play", "s", nil))
		}},
		{Name: "pub+flv+shutdown", Conf: world.Conf{"hls.enable": true, "hls.cleanup_mode": 0}, Build: func(w *world.W, e *sched.Exec) {
			rtmpThread(w, e, "publisher", rtmpScript("publish", "s", mediaMsgs(2)))
			e.Go("flvsub", func() {
				c := sched.NewConn("flv", nil)
				req, _ := http.NewRequest("GET", "http://h/live/s.flv", nil)
				req.RequestURI = "/live/s.flv"
				req.RemoteAddr = "10.1.1.2:1"
				logic.VerifServeHttpSub(w.SM, &hijackW{c: c, hdr: http.Header{}}, req)
			})
			e.Go("shutdown", func() { w.SM.Dispose() })
		}},
		{Name: "rtsp-pub+rtsp-play+tick", Conf: world.Conf{"rtsp.enable": true}, Build: func(w *world.W, e *sched.Exec) {
			rtp := ref.BuildRtp(ref.Rtp{Marker: true, PT: 96, Seq: 1, Ts: 0, Ssrc: 7, Payload: []byte{0x65, 1, 2, 3}})
			rtpA := ref.BuildRtp(ref.Rtp{Marker: true, PT: 97, Seq: 1, Ts: 0, Ssrc: 8, Payload: ref.PackAacHbr([]byte{1, 2, 3})})
			pub := rtspScript(
				ref.RtspRequest("ANNOUNCE", rtspUri, 1, map[string]string{"Content-Type": "application/sdp"}, sdpAV()),
				ref.RtspRequest("SETUP", rtspUri+"/streamid=0", 2, map[string]string{"Transport": "RTP/AVP/TCP;unicast;interleaved=0-1;mode=record"}, nil),
				ref.RtspRequest("SETUP", rtspUri+"/streamid=1", 3, map[string]string{"Transport": "RTP/AVP/TCP;unicast;interleaved=2-3;mode=record"}, nil),
				ref.RtspRequest("RECORD", rtspUri, 4, nil, nil),
				ref.Interleaved(0, rtp), ref.Interleaved(2, rtpA), ref.Interleaved(0, rtp))
			play := rtspScript(
				ref.RtspRequest("DESCRIBE", rtspUri, 1, map[string]string{"Accept": "application/sdp"}, nil),
				ref.RtspRequest("SETUP", rtspUri+"/streamid=0", 2, map[string]string{"Transport": "RTP/AVP/TCP;unicast;interleaved=0-1"}, nil),
				ref.RtspRequest("PLAY", rtspUri, 3, nil, nil))
			srv := logic.VerifRtspServer(w.SM)
			cp := sched.NewConn("rtsppub", pub)
			cq := sched.NewConn("rtspplay", play)
			cq.AtEOF = e.Yield
			e.Go("rtsp-publisher", func() { rtsp.VerifHandleConn(srv, cp) })
			e.Go("rtsp-player", func() { rtsp.VerifHandleConn(srv, cq) })
			var tick uint32
			e.Go("tick", func() { w.SM.VerifTick(&tick) })
		}},
		{Name: "rtsp-pub+stat", Conf: world.Conf{"rtsp.enable": true}, Build: func(w *world.W, e *sched.Exec) {
			// the data path of an RTSP publisher (session lock, then group lock) against the stat API
			// (server lock, group lock, then the session's statistics)
			rtp := func(seq uint16, ts uint32) []byte {
				return ref.BuildRtp(ref.Rtp{Marker: true, PT: 96, Seq: seq, Ts: ts, Ssrc: 7, Payload: []byte{0x65, 1, 2, 3, byte(seq)}})
			}
			rtpA := func(seq uint16, ts uint32) []byte {
				return ref.BuildRtp(ref.Rtp{Marker: true, PT: 97, Seq: seq, Ts: ts, Ssrc: 8, Payload: ref.PackAacHbr([]byte{1, 2, byte(seq)})})
			}
			pub := rtspScript(
				ref.RtspRequest("ANNOUNCE", rtspUri, 1, map[string]string{"Content-Type": "application/sdp"}, sdpAV()),
				ref.RtspRequest("SETUP", rtspUri+"/streamid=0", 2, map[string]string{"Transport": "RTP/AVP/TCP;unicast;interleaved=0-1;mode=record"}, nil),
				ref.RtspRequest("SETUP", rtspUri+"/streamid=1", 3, map[string]string{"Transport": "RTP/AVP/TCP;unicast;interleaved=2-3;mode=record"}, nil),
				ref.RtspRequest("RECORD", rtspUri, 4, nil, nil),
				ref.Interleaved(0, rtp(1, 0)), ref.Interleaved(2, rtpA(1, 0)), ref.Interleaved(0, rtp(2, 3600)), ref.Interleaved(2, rtpA(2, 1024)), ref.Interleaved(0, rtp(3, 7200)))
			srv := logic.VerifRtspServer(w.SM)
			cp := sched.NewConn("rtsppub", pub)
			e.Go("rtsp-publisher", func() { rtsp.VerifHandleConn(srv, cp) })
			e.Go("api-stat", func() {
				w.SM.StatGroup("s")
				w.SM.StatAllGroup()
				w.SM.StatGroup("s")
			})
		}},
		{Name: "rtsp-pub-udp-two-tracks", Conf: world.Conf{"rtsp.enable": true}, Build: func(w *world.W, e *sched.Exec) {
			// an RTSP publisher whose RTP arrives over UDP: lal reads each track's socket in a goroutine
			// of its own, so the audio and the video datagrams are handled concurrently
			pub := rtspScript(
				ref.RtspRequest("ANNOUNCE", rtspUri, 1, map[string]string{"Content-Type": "application/sdp"}, sdpAV()),
				ref.RtspRequest("SETUP", rtspUri+"/streamid=0", 2, map[string]string{"Transport": "RTP/AVP/TCP;unicast;interleaved=0-1;mode=record"}, nil),
				ref.RtspRequest("SETUP", rtspUri+"/streamid=1", 3, map[string]string{"Transport": "RTP/AVP/TCP;unicast;interleaved=2-3;mode=record"}, nil),
				ref.RtspRequest("RECORD", rtspUri, 4, nil, nil))
			srv := logic.VerifRtspServer(w.SM)
			cp := sched.NewConn("rtsppub", pub)
			cp.AtEOF = e.Yield // the publisher stays connected while its datagrams arrive
			e.Go("rtsp-publisher", func() { rtsp.VerifHandleConn(srv, cp) })
			feed := func(name string, pkts ...[]byte) {
				e.Go(name, func() {
					ps := logic.VerifRtspPubSession(w.SM, "s")
					if ps == nil {
						return // datagrams before the session exists go nowhere
					}
					for _, p := range pkts {
						rtsp.VerifOnReadRtp(rtsp.VerifBaseIn(ps), p)
					}
				})
			}
			v := func(seq uint16, ts uint32) []byte {
				return ref.BuildRtp(ref.Rtp{Marker: true, PT: 96, Seq: seq, Ts: ts, Ssrc: 7, Payload: []byte{0x65, 1, 2, 3, byte(seq)}})
			}
			a := func(seq uint16, ts uint32) []byte {
				return ref.BuildRtp(ref.Rtp{Marker: true, PT: 97, Seq: seq, Ts: ts, Ssrc: 8, Payload: ref.PackAacHbr([]byte{1, 2, byte(seq)})})
			}
			feed("udp-video", v(1, 0), v(2, 3600))
			feed("udp-audio", a(1, 0), a(2, 1024))
		}},
		{Name: "pub+api-pull+rtp-pub", Build: func(w *world.W, e *sched.Exec) {
			rtmpThread(w, e, "publisher", rtmpScript("publish", "s", mediaMsgs(1)))
			e.Go("api-start-rtp-pub", func() {
				r := w.SM.CtrlStartRtpPub(base.ApiCtrlStartRtpPubReq{StreamName: "s", Port: 0})
				if r.ErrorCode == base.ErrorCodeSucc {
					w.SM.CtrlKickSession(base.ApiCtrlKickSessionReq{StreamName: "s", SessionId: r.Data.SessionId})
				}
			})
			e.Go("api-stat", func() {
				w.SM.StatAllGroup()
				w.SM.CtrlStopRelayPull("s")
				w.SM.CtrlAddIpBlacklist(base.ApiCtrlAddIpBlacklistReq{Ip: "10.9.9.9", DurationSec: 1})
			})
		}},
		{Name: "hls-gets+blacklist", Conf: world.Conf{"hls.enable": true, "hls.cleanup_mode": 0}, Build: func(w *world.W, e *sched.Exec) {
			get := func(name, remote string) {
				e.Go(name, func() {
					req, _ := http.NewRequest("GET", "http://h/hls/s.m3u8", nil)
					req.RequestURI = "/hls/s.m3u8"
					req.RemoteAddr = remote
					rec := &hijackW{c: sched.NewConn(name, nil), hdr: http.Header{}}
					defer func() { recover() }()
					logic.VerifServeHls(w.SM, rec, req)
				})
			}
			// an entry that is already expired when the requests look it up
			w.SM.CtrlAddIpBlacklist(base.ApiCtrlAddIpBlacklistReq{Ip: "10.7.7.7", DurationSec: -1})
			get("hls-get-A", "10.1.1.3:1")
			get("hls-get-B", "10.1.1.4:1")
			e.Go("api-blacklist", func() {
				w.SM.CtrlAddIpBlacklist(base.ApiCtrlAddIpBlacklistReq{Ip: "10.7.7.8", DurationSec: -1})
				w.SM.CtrlAddIpBlacklist(base.ApiCtrlAddIpBlacklistReq{Ip: "10.1.1.4", DurationSec: 100})
			})
		}},
		{Name: "hls-subsession+blacklist", Conf: world.Conf{"hls.enable": true, "hls.cleanup_mode": 0, "hls.sub_session_hash_key": "k1"}, Build: func(w *world.W, e *sched.Exec) {
			// HLS sub-session mode: a viewer gets a session id through a redirect and keeps polling with it
			// while its address is being black-listed and another viewer arrives
			viewer := func(name, remote string, polls int) {
				e.Go(name, func() {
					defer func() { recover() }()
					uri := "/hls/s.m3u8"
					for i := 0; i < polls; i++ {
						req, _ := http.NewRequest("GET", "http://h"+uri, nil)
						req.RequestURI = uri
						req.RemoteAddr = remote
						rec := &hijackW{c: sched.NewConn(name, nil), hdr: http.Header{}}
						logic.VerifServeHls(w.SM, rec, req)
						if loc := rec.hdr.Get("Location"); loc != "" {
							uri = loc
						}
					}
				})
			}
			viewer("hls-viewer-A", "10.1.1.3:1", 3)
			viewer("hls-viewer-B", "10.1.1.4:1", 2)
			e.Go("api-blacklist", func() {
				w.SM.CtrlAddIpBlacklist(base.ApiCtrlAddIpBlacklistReq{Ip: "10.1.1.3", DurationSec: 100})
			})
		}},
		{Name: "hls-subsession+sweep", Conf: world.Conf{"hls.enable": true, "hls.cleanup_mode": 0, "hls.sub_session_hash_key": "k1"}, Build: func(w *world.W, e *sched.Exec) {
			// a viewer polls with its session id while the handler's one-second sweep looks for expired sessions
			// and a second client presents the same session id
			shared := make(chan string, 1)
			e.Go("hls-viewer", func() {
				defer func() { recover() }()
				uri := "/hls/s.m3u8"
				for i := 0; i < 3; i++ {
					req, _ := http.NewRequest("GET", "http://h"+uri, nil)
					req.RequestURI = uri
					req.RemoteAddr = "10.1.1.3:1"
					rec := &hijackW{c: sched.NewConn("hls-viewer", nil), hdr: http.Header{}}
					logic.VerifServeHls(w.SM, rec, req)
					if loc := rec.hdr.Get("Location"); loc != "" {
						uri = loc
						select {
						case shared <- loc:
						default:
						}
					}
				}
			})
			e.Go("hls-same-session", func() {
				defer func() { recover() }()
				var uri string
				select {
				case uri = <-shared:
				default:
					return // the viewer has no session yet in this schedule
				}
				req, _ := http.NewRequest("GET", "http://h"+uri, nil)
				req.RequestURI = uri
				req.RemoteAddr = "10.1.1.3:2"
				logic.VerifServeHls(w.SM, &hijackW{c: sched.NewConn("hls-same-session", nil), hdr: http.Header{}}, req)
			})
			e.Go("hls-sweep", func() { logic.VerifHlsSweep(w.SM); logic.VerifHlsSweep(w.SM) })
		}},
		// the HLS directory cleanup lal schedules when an input ends runs as a thread of its own (it looks the
		// group up and removes files) while another stream name appears and the tick erases idle groups
		{Name: "hls-cleanup+second-stream+tick", Conf: world.Conf{"hls.enable": true, "hls.cleanup_mode": 1}, Build: func(w *world.W, e *sched.Exec) {
			rtmpThread(w, e, "publisherS", rtmpScript("publish", "s", mediaMsgs(1)))
			rtmpThread(w, e, "publisherT", rtmpScript("publish", "t", mediaMsgs(1)))
			var tick uint32
			e.Go("tick", func() { w.SM.VerifTick(&tick) })
		}},
		// a subscriber that stops reading: only its own writer goroutine may ever block on its connection,
		// at whatever instant of its admission a publisher's frame, a kick or the tick comes
		{Name: "pub+stalled-play+tick", UnlockPoints: true, Conf: world.Conf{"rtmp.gop_num": 1}, Build: func(w *world.W, e *sched.Exec) {
			rtmpThread(w, e, "publisher", rtmpScript("publish", "s", mediaMsgs(2)))
			stalledPlayer(w, e, "player-stalled", rtmpScript("play", "s", nil))
			var tick uint32
			e.Go("tick", func() { w.SM.VerifTick(&tick) })
		}},
		{Name: "hls-pub+hls-sub+tick", Conf: world.Conf{"hls.enable": true, "hls.cleanup_mode": 0}, Build: func(w *world.W, e *sched.Exec) {
			rtmpThread(w, e, "publisher", rtmpScript("publish", "s", mediaMsgs(2)))
			e.Go("hls-get", func() {
				for _, u := range []string{"/hls/s.m3u8", "/hls/s/playlist.m3u8"} {
					req, _ := http.NewRequest("GET", "http://h"+u, nil)
					req.RequestURI = u
					req.RemoteAddr = "10.1.1.3:1"
					rec := &hijackW{c: sched.NewConn("hls", nil), hdr: http.Header{}}
					func() {
						defer func() { recover() }()
						logic.VerifServeHls(w.SM, rec, req)
					}()
				}
			})
			var tick uint32
			e.Go("tick", func() { w.SM.VerifTick(&tick) })
		}},
	}
}

// ---- one execution ------------------------------------------------------------------------------------------------------

type outcome struct {
	Points  []sched.Point
	Dead    string
	Hang    string
	Diverge string
	Panic   string
	Race    string
	Locks   int
	Foreign string // a thread that would block on a stalled consumer's connection
}

var raceLog string

func raceLogSize() int64 {
	var n int64
	ms, _ := filepath.Glob(raceLog + ".*")
	for _, m := range ms {
		if st, err := os.Stat(m); err == nil {
			n += st.Size()
		}
	}
	return n
}

func raceLogTail(from int64) string {
	ms, _ := filepath.Glob(raceLog + ".*")
	var sb strings.Builder
	for _, m := range ms {
		b, _ := os.ReadFile(m)
		sb.Write(b)
	}
	s := sb.String()
	if int64(len(s)) > from {
		s = s[from:]
	}
	return s
}

func runOnce(sc scenario, prefix []int) outcome {
	conf := world.Conf{}
	for k, v := range sc.Conf {
		conf[k] = v
	}
	before := raceLogSize()
	w := world.New(conf)
	e := sched.New(prefix)
	rtsp.VerifGoFn = func(f func()) { e.Go("rtsp-onsdp", f) }
	e.UnlockPoints = sc.UnlockPoints
	foreignWrite = ""
	logic.VerifSetDefer(w.SM, func(ms int, f func()) { e.Go("hls-cleanup", f) })
	defer logic.VerifSetDefer(w.SM, nil)
	sc.Build(w, e)
	e.Run(10 * time.Second)
	var o outcome
	o.Points, o.Dead, o.Hang, o.Diverge = e.Points, e.Dead, e.Hang, e.Diverge
	o.Foreign = foreignWrite
	if os.Getenv("C20_DEBUG") != "" {
		for _, t := range e.Threads() {
			fmt.Fprintf(os.Stderr, "C20_DEBUG thread %s locks=%d panic=%q\n", t.Name, t.Locks(), t.Panic())
		}
	}
	for _, t := range e.Threads() {
		if p := t.Panic(); p != "" && o.Panic == "" {
			o.Panic = t.Name + ": " + p
		}
		o.Locks += t.Locks()
	}
	if o.Dead == "" && o.Hang == "" {
		w.Close()
	}
	if raceLogSize() > before {
		o.Race = raceLogTail(before)
		// every execution builds a new server in this process, and NewServerManager re-initialises naza's
		// global logger: a report with that initialisation on one side is an artefact of the harness
		if strings.Contains(o.Race, "nazalog.(*logger).Init") {
			o.Race = ""
		}
	}
	return o
}

type childResult struct {
	Scenario   string     `json:"scenario"`
	Bound      int        `json:"bound"`
	Executions int        `json:"executions"`
	Points     int        `json:"points"`
	MaxPoints  int        `json:"max_points"`
	Threads    int        `json:"threads"`
	Capped     bool       `json:"capped"`
	Diverged   int        `json:"diverged"`
	Violations []childVio `json:"violations"`
	Shapes     int        `json:"distinct_schedule_shapes"`
	Sample     []int      `json:"sample"`
}

type childVio struct {
	Key      string `json:"key"`
	What     string `json:"what"`
	Schedule []int  `json:"schedule"`
}

func explore(sc scenario, bound int, deadline time.Time) childResult {
	res := childResult{Scenario: sc.Name, Bound: bound}
	shapes := map[string]bool{}
	seenKey := map[string]bool{}
	add := func(key, what string, sched []int) {
		if seenKey[key] {
			return
		}
		seenKey[key] = true
		res.Violations = append(res.Violations, childVio{key, what, append([]int{}, sched...)})
	}
	var rec func(prefix []int)
	rec = func(prefix []int) {
		if time.Now().After(deadline) {
			res.Capped = true
			return
		}
		o := runOnce(sc, prefix)
		res.Executions++
		res.Points += len(o.Points)
		if len(o.Points) > res.MaxPoints {
			res.MaxPoints = len(o.Points)
		}
		var ch []int
		var shape strings.Builder
		for _, p := range o.Points {
			ch = append(ch, p.Chosen)
			fmt.Fprintf(&shape, "%d.", p.Enabled[p.Chosen])
		}
		shapes[shape.String()] = true
		if res.Sample == nil || len(ch) > len(res.Sample) {
			res.Sample = ch
		}
		if o.Diverge != "" {
			res.Diverged++
		}
		switch {
		case o.Dead != "":
			add("deadlock", o.Dead, ch)
			return
		case o.Hang != "":
			add("blocked-outside-mutexes", o.Hang, ch)
			return
		}
		if o.Foreign != "" {
			add("blocked-on-stalled-consumer", o.Foreign, ch)
		}
		if o.Panic != "" {
			add("panic/"+firstLalFrame(o.Panic), strings.SplitN(o.Panic, "\n", 2)[0], ch)
		}
		if o.Race != "" {
			add("data-race/"+raceKey(o.Race), firstLines(o.Race, 30), ch)
		}
		for i := len(prefix); i < len(o.Points); i++ {
			p := o.Points[i]
			cost := 0
			for _, q := range o.Points[:i] {
				if q.RunningEnabled && q.Chosen != 0 {
					cost++
				}
			}
			if p.RunningEnabled {
				cost++
			}
			if cost > bound {
				continue
			}
			for alt := 1; alt < len(p.Enabled); alt++ {
				np := append(append([]int{}, ch[:i]...), alt)
				rec(np)
			}
		}
	}
	rec(nil)
	res.Shapes = len(shapes)
	return res
}

func firstLalFrame(s string) string {
	for _, l := range strings.Split(s, "\n") {
		if strings.Contains(l, "lal/pkg/") && strings.Contains(l, "(") {
			l = strings.TrimSpace(l)
			if i := strings.Index(l, "lal/pkg/"); i >= 0 {
				l = l[i+8:]
			}
			if i := strings.Index(l, "("); i > 0 {
				l = l[:i]
			}
			return l
		}
	}
	return "unknown"
}

// raceKey: the two innermost lal frames of the report (stable across runs).
var statSinkV int64

//go:noinline
func statSink(n int) { atomic.AddInt64(&statSinkV, int64(n)) }

func raceKey(s string) string {
	var fr []string
	for _, l := range strings.Split(s, "\n") {
		l = strings.TrimSpace(l)
		if strings.HasPrefix(l, "github.com/q191201771/") && strings.Contains(l, "(") {
			f := l[:strings.LastIndex(l, "(")]
			f = f[strings.LastIndex(f, "/")+1:]
			dup := false
			for _, x := range fr {
				if x == f {
					dup = true
				}
			}
			if !dup {
				fr = append(fr, f)
			}
			if len(fr) == 2 {
				break
			}
		}
	}
	if len(fr) == 1 {
		fr = append(fr, "caller-of-the-api") // the other access is in the code that uses an API result
	}
	return strings.Join(fr, "~")
}

func firstLines(s string, n int) string {
	l := strings.Split(s, "\n")
	if len(l) > n {
		l = l[:n]
	}
	return strings.Join(l, " | ")
}

type replay struct {
	Scenario string   `json:"scenario"`
	Schedule []int    `json:"schedule"`
	Api      *apiCase `json:"api,omitempty"`
}

func main() {
	if len(os.Args) > 1 && os.Args[1] == "apiseq" {
		lalenv.Quiet()
		world.SyncQueues()
		var only *apiCase
		if len(os.Args) > 2 {
			only = &apiCase{}
			json.Unmarshal([]byte(os.Args[2]), only)
		}
		apiSeqChild(only)
		os.Exit(0)
	}
	if os.Getenv("C20_CHILD") == "" && len(os.Args) > 1 && os.Args[1] == "child" {
		// re-exec with the race detector writing to a file of ours (GORACE is read at start-up)
		dir := os.Getenv("VERIF_SCRATCH")
		if dir == "" {
			dir = os.TempDir()
		}
		lp := filepath.Join(dir, fmt.Sprintf("race-%d", os.Getpid()))
		cmd := exec.Command(os.Args[0], os.Args[1:]...)
		cmd.Env = append(os.Environ(), "C20_CHILD=1", "GORACE=log_path="+lp+" halt_on_error=0 history_size=3", "C20_RACELOG="+lp)
		cmd.Stdout, cmd.Stderr = os.Stdout, os.Stderr
		if err := cmd.Run(); err != nil {
			if ee, ok := err.(*exec.ExitError); ok {
				os.Exit(ee.ExitCode())
			}
			os.Exit(3)
		}
		os.Exit(0)
	}
	if len(os.Args) > 1 && os.Args[1] == "child" {
		lalenv.Quiet()
		hls.VerifNoSweep = true // (write queues keep lal's default sizes: connection properties are part of what races)
		raceLog = os.Getenv("C20_RACELOG")
		var name string
		var bound, seconds int
		name = os.Args[2]
		fmt.Sscanf(os.Args[3], "%d", &bound)
		fmt.Sscanf(os.Args[4], "%d", &seconds)
		for _, sc := range scenarios() {
			if sc.Name != name {
				continue
			}
			if len(os.Args) > 5 { // replay one schedule
				var sch []int
				json.Unmarshal([]byte(os.Args[5]), &sch)
				o := runOnce(sc, sch)
				res := childResult{Scenario: name, Executions: 1, Points: len(o.Points)}
				if o.Dead != "" {
					res.Violations = append(res.Violations, childVio{"deadlock", o.Dead, sch})
				}
				if o.Hang != "" {
					res.Violations = append(res.Violations, childVio{"blocked-outside-mutexes", o.Hang, sch})
				}
				if o.Foreign != "" {
					res.Violations = append(res.Violations, childVio{"blocked-on-stalled-consumer", o.Foreign, sch})
				}
				if o.Panic != "" {
					res.Violations = append(res.Violations, childVio{"panic/" + firstLalFrame(o.Panic), strings.SplitN(o.Panic, "\n", 2)[0], sch})
				}
				if o.Race != "" {
					res.Violations = append(res.Violations, childVio{"data-race/" + raceKey(o.Race), firstLines(o.Race, 40), sch})
				}
				if o.Diverge != "" {
					res.Violations = append(res.Violations, childVio{"infra/divergence", o.Diverge, sch})
				}
				b, _ := json.Marshal(res)
				fmt.Println("RESULT " + string(b))
				os.Exit(0)
			}
			res := explore(sc, bound, time.Now().Add(time.Duration(seconds)*time.Second))
			b, _ := json.Marshal(res)
			fmt.Println("RESULT " + string(b))
		}
		os.Exit(0)
	}
	r := vk.Start("C20", "model_checking")
	r.Rule("one execution = one complete schedule of a scenario's threads (session goroutines, API callers, tick, shutdown) chosen at every Lock of one of lal's mutexes; all schedules with at most `bound` preemptions are executed (iterative context bounding), each under the race detector. distinct_nontrivial = distinct thread orders at the scheduling points")
	r.Assume("scheduling points are the Lock / RLock operations of lal's sync.Mutex / sync.RWMutex (rewritten to a schedulable type by vgen; readers share) and the moment a subscriber's peer hangs up; channel operations and atomics are not scheduling points",
		"the scheduler hands over through plain memory inside //go:norace functions, so the race detector sees only lal's own synchronisation; connections are scripted (input known in advance, never blocking) and lock-free",
		"asynchronous write queues have lal's default sizes: their writer goroutines take no lock and run unscheduled; relay goroutines are not part of the scenarios",
		"a goroutine lal starts itself becomes a scheduled thread at its first Lock; before that it runs freely")
	self, _ := os.Executable()
	runChild := func(args ...string) (childResult, string, error) {
		cmd := exec.Command(self, append([]string{"child"}, args...)...)
		cmd.Env = os.Environ()
		out, err := cmd.CombinedOutput()
		var cr childResult
		ok := false
		for _, l := range strings.Split(string(out), "\n") {
			if strings.HasPrefix(l, "RESULT ") {
				if json.Unmarshal([]byte(l[7:]), &cr) == nil {
					ok = true
				}
			}
		}
		if !ok {
			return cr, string(out), fmt.Errorf("child failed: %v", err)
		}
		return cr, string(out), nil
	}
	if r.ReplayIn != "" {
		var rp replay
		r.LoadReplay(&rp)
		if rp.Api != nil {
			apiSeqPhase(r, rp.Api)
			r.Finish()
		}
		sb, _ := json.Marshal(rp.Schedule)
		cr, out, err := runChild(rp.Scenario, "0", "60", string(sb))
		if os.Getenv("C20_DEBUG") != "" {
			fmt.Fprintln(os.Stderr, out)
		}
		if err != nil {
			r.Violation("process-crash", tail(out, 1500), rp)
		}
		for _, v := range cr.Violations {
			r.Violation(v.Key, v.What, rp)
		}
		r.Finish()
	}
	bound, seconds := 2, 120
	if !r.Quick() {
		bound, seconds = 3, 2400
	}
	r.SetBudget(time.Duration(seconds+60)*time.Second, time.Duration(seconds+60)*time.Second)
	var mu sync.Mutex
	var wg sync.WaitGroup
	per := map[string]interface{}{}
	var execs, points int64
	for _, sc := range scenarios() {
		sc := sc
		wg.Add(1)
		go func() {
			defer wg.Done()
			cr, out, err := runChild(sc.Name, fmt.Sprint(bound), fmt.Sprint(seconds))
			mu.Lock()
			defer mu.Unlock()
			if err != nil {
				r.Violation("process-crash/"+sc.Name, fmt.Sprintf("[%s] the process died while exploring: %s", sc.Name, tail(out, 2500)), replay{Scenario: sc.Name})
				return
			}
			for _, v := range cr.Violations {
				r.Violation(v.Key, fmt.Sprintf("[%s] schedule %v: %s", sc.Name, v.Schedule, v.What), replay{Scenario: sc.Name, Schedule: v.Schedule})
			}
			per[sc.Name] = map[string]interface{}{"executions": cr.Executions, "scheduling_points": cr.Points, "longest_schedule": cr.MaxPoints, "distinct_thread_orders": cr.Shapes, "capped": cr.Capped, "prefixes_not_replayed_exactly": cr.Diverged}
			execs += int64(cr.Executions)
			points += int64(cr.Points)
			for i := 0; i < cr.Shapes; i++ {
				r.Class(fmt.Sprintf("%s/%d", sc.Name, i))
			}
			if cr.Diverged > 0 {
				r.NotExhaustive(fmt.Sprintf("[%s] %d schedule prefixes did not replay exactly (a goroutine lal starts itself reached its first lock at a different moment)", sc.Name, cr.Diverged))
			}
			if cr.Capped {
				r.NotExhaustive(fmt.Sprintf("[%s] time budget hit before every schedule with <= %d preemptions was executed", sc.Name, bound))
			}
			r.Sample(map[string]interface{}{"scenario": sc.Name, "schedule": cr.Sample})
		}()
	}
	wg.Wait()
	r.Eval(int(execs))
	r.AddStates(points)
	r.AddTransitions(points)
	r.AddTraces(execs)
	r.Cov("per_scenario", per)
	r.Cov("preemption_bound", bound)
	apiSeqPhase(r, nil)
	r.Finish()
}

func tail(s string, n int) string {
	if len(s) > n {
		return s[len(s)-n:]
	}
	return s
}
