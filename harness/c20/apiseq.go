package main

// "Every API call, admission callback and session teardown completes in bounded time" also has a
// schedule-free part: a call that takes a lock its caller already holds never returns, whatever the
// other threads do. For every kind of attached session (publishers of every protocol, relay pulls,
// subscribers of every protocol) every management entry point (kick of that session, stop_relay_pull,
// the stat calls, the tick, shutdown) is called on a real server in a world of its own and must return.

import (
	"encoding/json"
	"fmt"
	"os"
	"os/exec"
	"strings"
	"time"

	"github.com/q191201771/lal/pkg/base"

	"verif/lib/ref"
	"verif/lib/sw"
	"verif/lib/vk"
	"verif/lib/world"
)

type apiCase struct {
	Kind string `json:"kind"`
	Call string `json:"call"`
}

var apiSdpAac = []byte("v=0\r\no=- 0 0 IN IP4 127.0.0.1\r\ns=x\r\nc=IN IP4 127.0.0.1\r\nt=0 0\r\nm=audio 0 RTP/AVP 97\r\na=rtpmap:97 MPEG4-GENERIC/44100/2\r\na=fmtp:97 profile-level-id=1;mode=AAC-hbr;sizelength=13;indexlength=3;indexdeltalength=3; config=1210\r\na=control:streamid=0\r\n")

// returns stops the wait for f after d: true when f returned.
func returns(d time.Duration, f func()) bool {
	done := make(chan struct{})
	go func() { f(); close(done) }()
	t := time.NewTimer(d)
	defer t.Stop()
	select {
	case <-done:
		return true
	case <-t.C:
		return false
	}
}

func runApiCase(c apiCase) (viol string, infra error) {
	conf := world.Conf{"rtsp.enable": true, "hls.enable": true, "hls.cleanup_mode": 0}
	if c.Kind == "stalled-push-target" {
		conf["relay_push.enable"] = true
		conf["relay_push.addr_list"] = []interface{}{"$W-pushA:1935"}
	}
	w := world.New(conf)
	stuck := false
	defer func() {
		if !stuck {
			w.Close()
		}
	}()
	w.EnableRelay(map[string]string{"origin": "accept", "pushA": "accept"})
	const stream = "s"
	needPub := false
	switch c.Kind {
	case "rtmp-sub", "flv-sub", "ts-sub", "rtsp-sub":
		needPub = true
	}
	if c.Kind == "rtmp-pub" || needPub {
		p, err := w.RtmpPublisher("live", stream)
		if err != nil || !p.Accepted() {
			return "", fmt.Errorf("rtmp publisher: %v", err)
		}
	}
	var err error
	custID := ""
	if c.Kind == "stalled-push-target" {
		// a relay-push target that stops reading while the publisher sends more than any queue holds; then
		// the write deadline of the blocked write expires: from then on nobody may be blocked by it
		p, e := w.RtmpPublisher("live", stream)
		if e != nil || !p.Accepted() {
			return "", fmt.Errorf("rtmp publisher: %v", e)
		}
		for i, k := range []string{"vsh", "ash", "key"} {
			m := sw.MakeMsg(k, i, 0, 64)
			p.SendMsgs(ref.Msg{Csid: 6, Type: m.Type, Msid: 1, Ts: 0, Payload: m.Payload})
		}
		if e := w.Settle(); e != nil {
			return "", e
		}
		var target *world.Dial
		for _, d := range w.LiveDials() {
			if d.Name == "pushA" {
				target = d
			}
		}
		if target == nil {
			return "", fmt.Errorf("the relay push did not attach")
		}
		target.Conn.Stall(true)
		for i := 0; i < 1100; i++ {
			m := sw.MakeMsg("aac", 10+i, uint32(40+i*23), 32)
			p.SendMsgs(ref.Msg{Csid: 4, Type: 8, Msid: 1, Ts: m.Ts, Payload: m.Payload})
		}
		// wait until somebody is blocked on the target and the publisher's input no longer shrinks (how far the
		// server gets before it blocks is its own business; waiting too short only makes the case weaker)
		if !returns(90*time.Second, func() {
			for target.Conn.BlockedWriters() == 0 {
				time.Sleep(time.Millisecond)
			}
			last, since := p.Conn.Unread(), time.Now()
			for time.Since(since) < 3*time.Second {
				time.Sleep(5 * time.Millisecond)
				if n := p.Conn.Unread(); n != last {
					last, since = n, time.Now()
				}
			}
		}) {
			return "", fmt.Errorf("nobody ever wrote to the stalled relay-push target")
		}
		target.Conn.FailWrites(os.ErrDeadlineExceeded)
		target.Conn.Stall(false)
		if !returns(90*time.Second, func() { err = w.Settle() }) || err != nil {
			stuck = true
			return fmt.Sprintf("the write deadline of the stalled relay-push target expired, but the server did not come to rest: somebody is still blocked by it (%v)", err), nil
		}
	}
	switch c.Kind {
	case "rtsp-pub":
		_, err = w.RtspPublisher("rtsp://h/live/"+stream, apiSdpAac, []string{"streamid=0"})
	case "ps-pub":
		r := w.SM.CtrlStartRtpPub(base.ApiCtrlStartRtpPubReq{StreamName: stream, Port: 0, TimeoutMs: 60000})
		if r.ErrorCode != base.ErrorCodeSucc {
			return "", fmt.Errorf("start_rtp_pub: %s", r.Desp)
		}
		w.PsExpected, w.PsAuto = 1, true
		err = w.Settle()
	case "cust-pub":
		var ctx interface{ UniqueKey() string }
		ctx, err = w.SM.AddCustomizePubSession(stream)
		if err == nil {
			custID = ctx.UniqueKey()
		}
	case "rtmp-pull", "rtsp-pull":
		scheme := "rtmp://"
		if c.Kind == "rtsp-pull" {
			scheme = "rtsp://"
		}
		r := w.SM.CtrlStartRelayPull(base.ApiCtrlStartRelayPullReq{Url: scheme + w.Host("origin") + "/live/" + stream, PullRetryNum: 0, AutoStopPullAfterNoOutMs: -1})
		if r.ErrorCode != base.ErrorCodeSucc {
			return "", fmt.Errorf("start_relay_pull: %s", r.Desp)
		}
		err = w.Settle()
	case "rtmp-sub":
		_, err = w.RtmpPlayer("live", stream)
	case "flv-sub":
		_, err = w.HttpSub("/live/"+stream+".flv", false)
	case "ts-sub":
		_, err = w.HttpSub("/live/"+stream+".ts", false)
	case "rtsp-sub":
		_, err = w.RtspPlayer("rtsp://h/live/"+stream, nil)
	}
	if err != nil {
		return "", fmt.Errorf("%s: %v", c.Kind, err)
	}
	g := w.SM.StatGroup(stream)
	if g == nil {
		return "", fmt.Errorf("%s: the stat API does not know the stream", c.Kind)
	}
	id := ""
	switch c.Kind {
	case "stalled-push-target":
		id = g.StatPub.SessionId
	case "cust-pub":
		id = custID // (the stat API does not list a customize publisher)
	case "rtmp-pub", "rtsp-pub", "ps-pub":
		id = g.StatPub.SessionId
	case "rtmp-pull", "rtsp-pull":
		id = g.StatPull.SessionId
	default:
		for _, s := range g.StatSubs {
			id = s.SessionId
		}
	}
	if id == "" {
		return "", fmt.Errorf("%s: the session is not attached (stat: %+v)", c.Kind, g)
	}
	var call func()
	switch c.Call {
	case "kick":
		call = func() { w.SM.CtrlKickSession(base.ApiCtrlKickSessionReq{StreamName: stream, SessionId: id}) }
	case "stop-relay-pull":
		call = func() { w.SM.CtrlStopRelayPull(stream) }
	case "stat":
		call = func() { w.SM.StatAllGroup(); w.SM.StatGroup(stream); w.SM.StatLalInfo() }
	case "tick":
		call = func() { w.Tick() }
	case "start-relay-pull-again":
		call = func() {
			w.SM.CtrlStartRelayPull(base.ApiCtrlStartRelayPullReq{Url: "rtmp://" + w.Host("origin") + "/live/" + stream, PullRetryNum: 0, AutoStopPullAfterNoOutMs: -1})
		}
	case "shutdown":
		call = func() { w.SM.Dispose() }
	}
	if !returns(90*time.Second, call) {
		stuck = true
		return fmt.Sprintf("with a %s session attached, the call %s did not return (a lock taken twice or a wait nobody answers; given up after 90 s)", c.Kind, c.Call), nil
	}
	if !returns(90*time.Second, func() { w.Settle(); w.SM.StatAllGroup() }) {
		stuck = true
		return fmt.Sprintf("with a %s session attached, after the call %s the server no longer answers the stat API (given up after 90 s)", c.Kind, c.Call), nil
	}
	return "", nil
}

func apiCases() []apiCase {
	var cases []apiCase
	for _, k := range []string{"rtmp-pub", "rtsp-pub", "ps-pub", "cust-pub", "rtmp-pull", "rtsp-pull", "rtmp-sub", "flv-sub", "ts-sub", "rtsp-sub", "stalled-push-target"} {
		for _, c := range []string{"kick", "stop-relay-pull", "stat", "tick", "start-relay-pull-again", "shutdown"} {
			cases = append(cases, apiCase{k, c})
		}
	}
	return cases
}

type apiOut struct {
	Case  apiCase `json:"case"`
	Viol  string  `json:"viol,omitempty"`
	Infra string  `json:"infra,omitempty"`
}

// apiSeqChild runs the cases (all, or the one given) and prints one APISEQ line per case; it runs in a
// process of its own whose race-detector output is discarded (the worlds of this phase use the
// sequential test environment, whose own bookkeeping is not written for the detector).
func apiSeqChild(only *apiCase) {
	cases := apiCases()
	if only != nil {
		cases = []apiCase{*only}
	}
	res := make([]apiOut, len(cases))
	vk.Par(len(cases), 8, func(i int) {
		v, err := runApiCase(cases[i])
		res[i] = apiOut{Case: cases[i], Viol: v}
		if err != nil {
			res[i].Infra = err.Error()
		}
	})
	for _, o := range res {
		b, _ := json.Marshal(o)
		fmt.Println("APISEQ " + string(b))
	}
}

func apiSeqPhase(r *vk.Run, only *apiCase) {
	self, _ := os.Executable()
	args := []string{"apiseq"}
	if only != nil {
		b, _ := json.Marshal(only)
		args = append(args, string(b))
	}
	cmd := exec.Command(self, args...)
	cmd.Env = append(os.Environ(), "GORACE=log_path=/dev/null halt_on_error=0 exitcode=0")
	out, err := cmd.Output()
	n := 0
	for _, l := range strings.Split(string(out), "\n") {
		if !strings.HasPrefix(l, "APISEQ ") {
			continue
		}
		var o apiOut
		if json.Unmarshal([]byte(l[7:]), &o) != nil {
			continue
		}
		n++
		c := o.Case
		rp := replay{Api: &c}
		r.Eval(1)
		if o.Infra != "" {
			r.Violation("infra/api-call", fmt.Sprintf("%+v: %s", c, o.Infra), rp)
			continue
		}
		r.Class(fmt.Sprintf("api-call/%s/%s/returned=%v", c.Kind, c.Call, o.Viol == ""))
		if o.Viol != "" {
			r.Violation("api-call-never-returns/"+c.Call+"/"+c.Kind, o.Viol, rp)
		}
	}
	if n == 0 {
		r.Violation("infra/api-call", fmt.Sprintf("the api-call phase produced no result: %v", err), "apiseq")
	}
	r.Cov("api_call_cases", n)
}
