package main

import (
	"fmt"
	"strings"

	"verif/lib/protox"
	"verif/lib/ref"
)

type mut struct {
	cls, desc string
	b         []byte
}

func cp(b []byte) []byte { return append([]byte{}, b...) }

// truncs: b cut at every step-th offset (always including 0..8 and the last 4).
func truncs(b []byte, step int) []mut {
	var out []mut
	for i := 0; i < len(b); i++ {
		if i%step == 0 || i < 8 || i >= len(b)-4 {
			out = append(out, mut{"truncated", fmt.Sprint(i), cp(b[:i])})
		}
	}
	return out
}

// flips: every byte position below upto (every step-th beyond 16) set to each extreme value.
func flips(b []byte, upto, step int) []mut {
	var out []mut
	for i := 0; i < len(b) && i < upto; i++ {
		if i >= 16 && i%step != 0 {
			continue
		}
		for _, v := range []byte{0x00, 0xff, 0x80, 0x7f, 0x01} {
			if b[i] == v {
				continue
			}
			m := cp(b)
			m[i] = v
			out = append(out, mut{"byte", fmt.Sprintf("[%d]=%#x", i, v), m})
		}
	}
	return out
}

// ---- RTSP text ----------------------------------------------------------------------------------------------------

func rtspMsg(method, uri string, cseq string, hdrs [][2]string, body []byte) []byte {
	var sb strings.Builder
	fmt.Fprintf(&sb, "%s %s RTSP/1.0\r\n", method, uri)
	if cseq != "" {
		fmt.Fprintf(&sb, "CSeq: %s\r\n", cseq)
	}
	for _, h := range hdrs {
		fmt.Fprintf(&sb, "%s: %s\r\n", h[0], h[1])
	}
	if body != nil {
		fmt.Fprintf(&sb, "Content-Length: %d\r\n", len(body))
	}
	sb.WriteString("\r\n")
	return append([]byte(sb.String()), body...)
}

func validRtsp() map[string][]byte {
	return map[string][]byte{
		"OPTIONS":       rtspMsg("OPTIONS", rtspUri, "7", nil, nil),
		"DESCRIBE":      rtspMsg("DESCRIBE", rtspUri, "7", [][2]string{{"Accept", "application/sdp"}}, nil),
		"ANNOUNCE":      rtspMsg("ANNOUNCE", rtspUri, "7", [][2]string{{"Content-Type", "application/sdp"}}, sdpAV()),
		"ANNOUNCE-hevc": rtspMsg("ANNOUNCE", rtspUri, "7", [][2]string{{"Content-Type", "application/sdp"}}, sdpHevc()),
		"SETUP-pub":     rtspMsg("SETUP", rtspUri+"/streamid=0", "7", [][2]string{{"Transport", "RTP/AVP/TCP;unicast;interleaved=0-1;mode=record"}}, nil),
		"SETUP-sub":     rtspMsg("SETUP", rtspUri+"/streamid=0", "7", [][2]string{{"Transport", "RTP/AVP/TCP;unicast;interleaved=0-1"}}, nil),
		"SETUP-udp":     rtspMsg("SETUP", rtspUri+"/streamid=1", "7", [][2]string{{"Transport", "RTP/AVP;unicast;client_port=35000-35001"}}, nil),
		"RECORD":        rtspMsg("RECORD", rtspUri, "7", [][2]string{{"Range", "npt=0.000-"}, {"Session", "191201771"}}, nil),
		"PLAY":          rtspMsg("PLAY", rtspUri, "7", [][2]string{{"Range", "npt=0.000-"}, {"Session", "191201771"}}, nil),
		"PAUSE":         rtspMsg("PAUSE", rtspUri, "7", nil, nil),
		"TEARDOWN":      rtspMsg("TEARDOWN", rtspUri, "7", nil, nil),
		"GET_PARAMETER": rtspMsg("GET_PARAMETER", rtspUri, "7", nil, nil),
		"SET_PARAMETER": rtspMsg("SET_PARAMETER", rtspUri, "7", [][2]string{{"Content-Type", "text/parameters"}}, []byte("a: b\r\n")),
	}
}

var rtspStages = []string{"fresh", "pub-announced", "pub-setup", "pub-record", "pub-record-hevc", "sub-described", "sub-setup", "sub-play"}

var hostileUris = []string{"", "*", "/", "rtsp://", "rtsp://h", "rtsp://h/", "rtsp://h/live", "rtsp://h/live/", "rtsp://h//", "rtsp://h/live/s/streamid=", "rtsp://h/live/s/streamid=99", "rtsp://h/live/s/trackID=-1",
	"rtsp://u:p@h/live/s", "rtsp://[::1/live/s", "rtsp://h:99999/live/s", "rtsp://h/live/s?%zz=%", "http://h/live/s", "rtsp://h/live/../..", "rtsp://h/" + strings.Repeat("a/", 300), strings.Repeat("x", 70000), "rtsp://h/live/s\x00x", "rtsp://h/live/é"}

var hostileTransports = []string{"", ";", "RTP/AVP/TCP", "RTP/AVP/TCP;interleaved=", "RTP/AVP/TCP;interleaved=0", "RTP/AVP/TCP;interleaved=a-b", "RTP/AVP/TCP;interleaved=-1--2", "RTP/AVP/TCP;interleaved=255-256", "RTP/AVP/TCP;interleaved=99999999999999999999-1",
	"RTP/AVP/TCP;unicast;interleaved=1-0;mode=play", "RTP/AVP;unicast;client_port=", "RTP/AVP;unicast;client_port=1", "RTP/AVP;unicast;client_port=a-b", "RTP/AVP;unicast;client_port=70000-70001", "RTP/AVP;unicast;client_port=0-0", "RTP/AVP;multicast;destination=224.0.0.1;port=1-2",
	"RTP/AVP/UDP;unicast;client_port=35002-35003;mode=record", "RAW/RAW/UDP;unicast", strings.Repeat("RTP/AVP/TCP;", 3000)}

func rtspCases(quick bool) []protox.Case {
	var cs []protox.Case
	v := validRtsp()
	step := 1
	if quick {
		step = 5
	}
	for _, st := range rtspStages {
		// every valid request in every state (state-machine confusion), whole and split in two
		for name, b := range v {
			cs = append(cs, mk("rtsp", st, "valid/"+name, "", b, -1))
			cs = append(cs, mk("rtsp", st, "valid-split/"+name, "", b, len(b)/2))
			cs = append(cs, mk("rtsp", st, "valid-twice/"+name, "", append(cp(b), b...), -1))
		}
		// interleaved frames: channel x length field x actual bytes
		for _, ch := range []int{0, 1, 2, 3, 4, 200, 255} {
			if quick && ch > 4 && ch != 255 {
				continue
			}
			for _, pk := range rtpAlphabet(strings.HasSuffix(st, "hevc"), quick) {
				if quick && ch > 1 && len(pk.b) > 16 {
					continue
				}
				cs = append(cs, mk("rtsp", st, fmt.Sprintf("interleaved/ch%d/%s", ch, pk.cls), pk.desc, ref.Interleaved(ch, pk.b), -1))
			}
			for _, l := range []int{0, 1, 4, 11, 12, 0xffff} {
				hdr := []byte{'$', byte(ch), byte(l >> 8), byte(l)}
				cs = append(cs, mk("rtsp", st, fmt.Sprintf("interleaved/ch%d/lenfield", ch), fmt.Sprint(l), append(hdr, make([]byte, 6)...), -1))
			}
		}
		cs = append(cs, mk("rtsp", st, "interleaved/cut", "1", []byte{'$'}, -1), mk("rtsp", st, "interleaved/cut", "2", []byte{'$', 0}, -1), mk("rtsp", st, "interleaved/cut", "3", []byte{'$', 0, 0}, -1))
	}
	// text mutations of the requests, at the stages where they are the expected next input
	pairs := [][2]string{{"fresh", "OPTIONS"}, {"fresh", "DESCRIBE"}, {"fresh", "ANNOUNCE"}, {"pub-announced", "SETUP-pub"}, {"pub-announced", "SETUP-udp"}, {"pub-setup", "RECORD"}, {"sub-described", "SETUP-sub"}, {"sub-setup", "PLAY"}, {"sub-play", "GET_PARAMETER"}, {"pub-record", "TEARDOWN"}}
	for _, p := range pairs {
		b := v[p[1]]
		hdrEnd := strings.Index(string(b), "\r\n\r\n") + 4
		for _, m := range truncs(b[:hdrEnd], step) {
			cs = append(cs, mk("rtsp", p[0], "text-"+m.cls+"/"+p[1], m.desc, m.b, -1))
		}
		for _, m := range flips(b, 48, 4) {
			cs = append(cs, mk("rtsp", p[0], "text-"+m.cls+"/"+p[1], m.desc, m.b, -1))
		}
		method := strings.Fields(p[1])[0]
		method = strings.SplitN(method, "-", 2)[0]
		for _, u := range hostileUris {
			cs = append(cs, mk("rtsp", p[0], "uri/"+method, clip(u), rtspMsg(method, u, "7", [][2]string{{"Transport", "RTP/AVP/TCP;unicast;interleaved=0-1"}}, nil), -1))
		}
		for _, c := range []string{"", "-1", "0", "abc", "99999999999999999999", "7\r\nCSeq: 8", " 7 ", "7;x"} {
			cs = append(cs, mk("rtsp", p[0], "cseq/"+method, c, rtspMsg(method, rtspUri, c, [][2]string{{"Transport", "RTP/AVP/TCP;unicast;interleaved=0-1"}}, nil), -1))
		}
		for _, ver := range []string{"RTSP/1.0", "RTSP/9.9", "HTTP/1.1", "", "RTSP", "RTSP/1.0 x"} {
			cs = append(cs, mk("rtsp", p[0], "version/"+method, ver, []byte(fmt.Sprintf("%s %s %s\r\nCSeq: 7\r\n\r\n", method, rtspUri, ver)), -1))
		}
		for _, cl := range []string{"-1", "0", "1", "99999999999", "abc", "18446744073709551616", "5, 5"} {
			cs = append(cs, mk("rtsp", p[0], "content-length/"+method, cl, []byte(fmt.Sprintf("%s %s RTSP/1.0\r\nCSeq: 7\r\nContent-Type: application/sdp\r\nContent-Length: %s\r\n\r\nv=0\r\n", method, rtspUri, cl)), -1))
		}
	}
	for _, st := range []string{"fresh", "pub-announced", "sub-described"} {
		for _, t := range hostileTransports {
			cs = append(cs, mk("rtsp", st, "transport", clip(t), rtspMsg("SETUP", rtspUri+"/streamid=0", "7", [][2]string{{"Transport", t}}, nil), -1))
		}
	}
	for _, a := range []string{"", "Basic", "Basic ", "Basic !!!", "Basic dTpw", "Digest", "Digest username", "Digest username=\"u\", realm=\"", "Digest username=\"u\",,,,", "Digest " + strings.Repeat("a=\"b\", ", 2000), "Digest username=\"u\", realm=\"r\", nonce=\"n\", uri=\"x\", response=\"\""} {
		cs = append(cs, mk("rtsp", "fresh", "authorization", clip(a), rtspMsg("DESCRIBE", rtspUri, "7", [][2]string{{"Authorization", a}}, nil), -1))
	}
	for _, g := range [][]byte{[]byte("\r\n\r\n"), []byte("\n\n\n\n"), []byte("\x00\x00\x00\x00"), []byte(strings.Repeat("A", 70000) + "\r\n\r\n"), []byte("OPTIONS\r\n\r\n"), []byte(" \r\n\r\n"), []byte("OPTIONS * RTSP/1.0\r\n" + strings.Repeat("X: y\r\n", 5000) + "\r\n"), []byte("OPTIONS * RTSP/1.0\r\nCSeq\r\n\r\n"), []byte("OPTIONS * RTSP/1.0\r\n: 7\r\n\r\n")} {
		cs = append(cs, mk("rtsp", "fresh", "garbage", clip(string(g)), g, -1))
	}
	// SDP bodies
	for _, m := range sdpAlphabet(quick) {
		cs = append(cs, mk("rtsp", "fresh", "sdp-"+m.cls, m.desc, rtspMsg("ANNOUNCE", rtspUri, "7", [][2]string{{"Content-Type", "application/sdp"}}, m.b), -1))
	}
	return cs
}

func clip(s string) string {
	if len(s) > 60 {
		return fmt.Sprintf("%s...(%d bytes)", s[:60], len(s))
	}
	return s
}

// ---- SDP --------------------------------------------------------------------------------------------------------------

func sdpAlphabet(quick bool) []mut {
	var out []mut
	step := 1
	if quick {
		step = 4
	}
	for _, base := range [][]byte{sdpAV(), sdpHevc()} {
		out = append(out, truncs(base, step)...)
		lines := strings.SplitAfter(string(base), "\r\n")
		for i := range lines {
			var b []string
			b = append(b, lines[:i]...)
			b = append(b, lines[i+1:]...)
			out = append(out, mut{"line-deleted", strings.TrimSpace(lines[i]), []byte(strings.Join(b, ""))})
			out = append(out, mut{"line-doubled", strings.TrimSpace(lines[i]), []byte(strings.Join(lines[:i+1], "") + strings.Join(lines[i:], ""))})
		}
	}
	rep := func(old, new string) {
		s := string(sdpAV())
		if !strings.Contains(s, old) {
			panic("sdp pattern " + old)
		}
		out = append(out, mut{"field", old + " -> " + clip(new), []byte(strings.Replace(s, old, new, 1))})
	}
	for _, c := range []string{"0", "-1", "1", "99999999999", "abc", "", "90000/", "/"} {
		rep("H264/90000", "H264/"+c)
		rep("MPEG4-GENERIC/44100/2", "MPEG4-GENERIC/"+c+"/2")
		rep("MPEG4-GENERIC/44100/2", "MPEG4-GENERIC/44100/"+c)
	}
	for _, e := range []string{"", "H264", "h264/90000", "H265/90000", "JPEG/90000", "PCMA/8000", "PCMU/8000", "OPUS/48000/2", "MPEG4-GENERIC/90000", "AAC/44100", "X/1", strings.Repeat("Z", 5000) + "/1"} {
		rep("H264/90000", e)
		rep("MPEG4-GENERIC/44100/2", e)
	}
	for _, pt := range []string{"", "-1", "128", "255", "256", "999999999999", "abc", "96 97", "97"} {
		rep("m=video 0 RTP/AVP 96", "m=video 0 RTP/AVP "+pt)
		rep("a=rtpmap:96 ", "a=rtpmap:"+pt+" ")
		rep("a=fmtp:97 ", "a=fmtp:"+pt+" ")
	}
	for _, c := range []string{"", "1", "12", "121", "zz", "1210" + strings.Repeat("00", 4000), "ffff", "0000", "f8f8f8", "1210;", " 1210"} {
		rep("config=1210", "config="+c)
	}
	for _, v := range []string{"0", "1", "7", "16", "17", "32", "64", "255", "-1", "abc", ""} {
		rep("sizelength=13", "sizelength="+v)
		rep("indexlength=3", "indexlength="+v)
		rep("indexdeltalength=3", "indexdeltalength="+v)
	}
	for _, sp := range []string{"", ",", "!!!", "Z0IAH5WoFAFuQA==", "Z0IAH5WoFAFuQA==,", ",aM48gA==", "AA==,AA==", "Zw==,aA==", "////,////", strings.Repeat("QUJD", 5000) + ",aM48gA==", "Z0IAH5WoFAFuQA==,aM48gA==,aM48gA=="} {
		old := string(sdpAV())
		i := strings.Index(old, "sprop-parameter-sets=") + len("sprop-parameter-sets=")
		j := i + strings.Index(old[i:], ";")
		out = append(out, mut{"field", "sprop-parameter-sets=" + clip(sp), []byte(old[:i] + sp + old[j:])})
	}
	for _, m := range []string{"m=", "m=video", "m=video 0", "m=video 0 RTP/AVP", "m=application 0 RTP/AVP 96", "m=video 0 UDP 96", "m=video 99999999 RTP/AVP 96"} {
		rep("m=video 0 RTP/AVP 96", m)
	}
	for _, c := range []string{"", "*", "streamid=", "trackID=99999999999999999999", "rtsp://other/live/x/streamid=0", strings.Repeat("c", 70000)} {
		rep("a=control:streamid=0", "a=control:"+c)
	}
	for _, h := range []struct{ k, v string }{{"sprop-vps=", ""}, {"sprop-vps=", "!!"}, {"sprop-sps=", "AA=="}, {"sprop-sps=", "QgE="}, {"sprop-pps=", ""}, {"sprop-sps=", strings.Repeat("QgEB", 3000)}} {
		old := string(sdpHevc())
		i := strings.Index(old, h.k) + len(h.k)
		j := i + strings.IndexAny(old[i:], ";\r")
		out = append(out, mut{"field-hevc", h.k + clip(h.v), []byte(old[:i] + h.v + old[j:])})
	}
	// static payload types: every value 0..127 as an audio section without rtpmap (alone, and after the video
	// section), and as the video section's type
	for pt := 0; pt < 128; pt++ {
		head := "v=0\r\no=- 0 0 IN IP4 127.0.0.1\r\ns=x\r\nc=IN IP4 127.0.0.1\r\nt=0 0\r\n"
		out = append(out, mut{"static-pt/audio-only", fmt.Sprint(pt), []byte(head + fmt.Sprintf("m=audio 0 RTP/AVP %d\r\na=control:streamid=0\r\n", pt))})
		av := string(sdpAV())
		if i := strings.Index(av, "m=audio"); i > 0 {
			out = append(out, mut{"static-pt/video+audio", fmt.Sprint(pt), []byte(av[:i] + fmt.Sprintf("m=audio 0 RTP/AVP %d\r\na=control:streamid=1\r\n", pt))})
		}
		out = append(out, mut{"static-pt/video", fmt.Sprint(pt), []byte(head + fmt.Sprintf("m=video 0 RTP/AVP %d\r\na=control:streamid=0\r\n", pt))})
	}
	out = append(out, mut{"empty", "", []byte{}}, mut{"v-only", "", []byte("v=0\r\n")}, mut{"lf-only", "", []byte(strings.ReplaceAll(string(sdpAV()), "\r\n", "\n"))},
		mut{"no-eol", "", []byte(strings.TrimSuffix(string(sdpAV()), "\r\n"))}, mut{"binary", "", []byte{0, 1, 2, 0xff, 0xfe, '\r', '\n', '=', '='}}, mut{"equals", "", []byte("=\r\n==\r\na=\r\na=:\r\nm=\r\n")},
		mut{"audio-first", "", []byte(strings.Replace(string(sdpAV()), "m=video 0 RTP/AVP 96", "m=audio 0 RTP/AVP 96", 1))}, mut{"three-media", "", append(sdpAV(), sdpHevc()[strings.Index(string(sdpHevc()), "m=video"):]...)})
	return out
}

// ---- RTP / RTCP -----------------------------------------------------------------------------------------------------

func rtp(pt uint8, marker bool, seq uint16, ts uint32, payload []byte) []byte {
	return ref.BuildRtp(ref.Rtp{Marker: marker, PT: pt, Seq: seq, Ts: ts, Ssrc: 7, Payload: payload})
}

func body(n int) []byte {
	b := make([]byte, n)
	for i := range b {
		b[i] = byte(i*7) | 1
	}
	return b
}

// rtpAlphabet: single RTP packets (header + payload) for the video (96/98) and audio (97) payload types.
func rtpAlphabet(hevc bool, quick bool) []mut {
	var out []mut
	vpt := uint8(96)
	if hevc {
		vpt = 98
	}
	lens := []int{0, 1, 2, 3, 5, 20}
	// video: every value of the first payload byte x short lengths (covers every NAL / aggregation / fragmentation type)
	for b0 := 0; b0 < 256; b0++ {
		if quick && b0%8 != 0 && (b0&0x1f) < 23 && !hevc {
			continue
		}
		if quick && hevc && b0%4 != 0 && (b0>>1)&0x3f < 47 {
			continue
		}
		for _, l := range lens {
			if l == 0 && b0 != 0 {
				continue
			}
			p := body(l)
			if l > 0 {
				p[0] = byte(b0)
			}
			out = append(out, mut{fmt.Sprintf("video-b0/len%d", l), fmt.Sprintf("%#x", b0), rtp(vpt, true, 1, 0, p)})
		}
	}
	// second byte of FU / STAP / AP headers
	heads := [][]byte{{0x7c}, {0x78}, {0x79}, {0x7d}}
	if hevc {
		heads = [][]byte{{0x62, 0x01}, {0x60, 0x01}}
	}
	for _, h := range heads {
		for b1 := 0; b1 < 256; b1++ {
			if quick && b1%16 != 5 && b1%16 != 0 && b1 != 0x85 && b1 != 0x45 && b1 != 0xc5 {
				continue
			}
			for _, tail := range [][]byte{{}, {0}, {0, 1}, {0, 5, 1, 2, 3, 4, 5}, {0xff, 0xff, 1}, {0, 0, 0, 1}} {
				p := append(append(cp(h), byte(b1)), tail...)
				out = append(out, mut{fmt.Sprintf("video-b1/%x", h), fmt.Sprintf("%#x tail %x", b1, tail), rtp(vpt, true, 1, 0, p)})
			}
		}
	}
	// audio AU headers
	for _, hl := range []int{0, 1, 8, 15, 16, 17, 32, 48, 0x7ff8, 0xfff0, 0xffff} {
		for _, sz := range []int{0, 1, 5, 6, 0x1fff} {
			for _, n := range []int{0, 1, 2, 5, 40} {
				p := []byte{byte(hl >> 8), byte(hl), byte(sz >> 5), byte(sz << 3)}
				p = append(p, body(n)...)
				out = append(out, mut{"audio-au", fmt.Sprintf("hdrlen=%d size=%d data=%d", hl, sz, n), rtp(97, true, 1, 0, p)})
			}
		}
	}
	for _, l := range []int{0, 1, 2, 3} {
		out = append(out, mut{"audio-short", fmt.Sprint(l), rtp(97, true, 1, 0, body(l))})
	}
	// header mutations of a valid single-NAL packet
	valid := rtp(vpt, true, 1, 0, append([]byte{0x65}, body(10)...))
	if hevc {
		valid = rtp(vpt, true, 1, 0, append([]byte{0x26, 0x01}, body(10)...))
	}
	out = append(out, truncsM("rtp-hdr-truncated", valid, 1)...)
	for _, m := range flips(valid, 12, 1) {
		out = append(out, mut{"rtp-hdr-" + m.cls, m.desc, m.b})
	}
	for _, b0 := range []byte{0xa0, 0xbf, 0x90, 0x8f, 0xbf, 0xff, 0x00, 0x40} { // padding / extension / csrc combinations
		for _, last := range []byte{0, 1, 11, 12, 0xff} {
			m := cp(valid)
			m[0] = b0
			m[len(m)-1] = last
			out = append(out, mut{"rtp-pad-ext-cc", fmt.Sprintf("b0=%#x last=%d", b0, last), m})
		}
	}
	for _, pt := range []uint8{0, 8, 33, 95, 99, 127} {
		out = append(out, mut{"rtp-pt", fmt.Sprint(pt), rtp(pt, true, 1, 0, body(20))})
	}
	return out
}

func truncsM(cls string, b []byte, step int) []mut {
	var out []mut
	for _, m := range truncs(b, step) {
		out = append(out, mut{cls, m.desc, m.b})
	}
	return out
}

func rtcpSr() []byte {
	b := []byte{0x80, 200, 0, 6, 0, 0, 0, 7}
	return append(b, make([]byte, 20)...)
}

// rtpcbCases: sequences of datagrams handed to the UDP callbacks of an RTSP publisher.
func rtpcbCases(quick bool) []protox.Case {
	var cs []protox.Case
	R := func(b []byte) []byte { return append([]byte{'R'}, b...) }
	C := func(b []byte) []byte { return append([]byte{'C'}, b...) }
	for _, hv := range []bool{false, true} {
		st := "avc"
		if hv {
			st = "hevc"
		}
		for _, pk := range rtpAlphabet(hv, quick) {
			cs = append(cs, mk("rtpcb", st, "rtp/"+pk.cls, pk.desc, packItems(R(pk.b)), -1))
			cs = append(cs, mk("rtpcb", st, "rtcp-as/"+pk.cls, pk.desc, packItems(C(pk.b)), -1))
		}
		vpt := uint8(96)
		fuS, fuM, fuE := []byte{0x7c, 0x85}, []byte{0x7c, 0x05}, []byte{0x7c, 0x45}
		single := []byte{0x41}
		if hv {
			vpt = 98
			fuS, fuM, fuE = []byte{0x62, 0x01, 0x93}, []byte{0x62, 0x01, 0x13}, []byte{0x62, 0x01, 0x53}
			single = []byte{0x02, 0x01}
		}
		pk := func(h []byte, seq uint16, ts uint32, n int) []byte {
			return R(rtp(vpt, false, seq, ts, append(cp(h), body(n)...)))
		}
		seqs := map[string][][]byte{
			"fu-complete":      {pk(fuS, 1, 0, 5), pk(fuM, 2, 0, 5), pk(fuE, 3, 0, 5)},
			"fu-end-only":      {pk(fuE, 1, 0, 5)},
			"fu-mid-only":      {pk(fuM, 1, 0, 5), pk(single, 2, 90, 5)},
			"fu-start-single":  {pk(fuS, 1, 0, 5), pk(single, 2, 90, 5), pk(fuE, 3, 90, 5)},
			"fu-start-start":   {pk(fuS, 1, 0, 5), pk(fuS, 2, 0, 5), pk(fuE, 3, 0, 5)},
			"fu-empty-frags":   {pk(fuS, 1, 0, 0), pk(fuM, 2, 0, 0), pk(fuE, 3, 0, 0)},
			"fu-ts-change":     {pk(fuS, 1, 0, 5), pk(fuE, 2, 999, 5)},
			"seq-wrap":         {pk(single, 65534, 0, 5), pk(single, 65535, 90, 5), pk(single, 0, 180, 5), pk(single, 1, 270, 5)},
			"seq-jump":         {pk(single, 1, 0, 5), pk(single, 30000, 90, 5), pk(single, 2, 180, 5), pk(single, 60000, 270, 5)},
			"seq-dup":          {pk(single, 1, 0, 5), pk(single, 1, 0, 5), pk(single, 1, 0, 5)},
			"seq-reverse":      {pk(single, 5, 0, 5), pk(single, 4, 0, 5), pk(single, 3, 0, 5), pk(single, 2, 0, 5), pk(single, 1, 0, 5)},
			"ts-backwards":     {pk(single, 1, 0xffffff00, 5), pk(single, 2, 10, 5), pk(single, 3, 0xfffffff0, 5)},
			"audio-frag":       {R(rtp(97, false, 1, 0, append([]byte{0, 16, 0x01, 0x90}, body(20)...))), R(rtp(97, true, 2, 0, append([]byte{0, 16, 0x01, 0x90}, body(30)...)))},
			"audio-frag-over":  {R(rtp(97, false, 1, 0, append([]byte{0, 16, 0x00, 0x50}, body(20)...))), R(rtp(97, true, 2, 0, append([]byte{0, 16, 0x00, 0x50}, body(20)...)))},
			"many-gaps":        nil,
			"rtcp-sr":          {C(rtcpSr())},
			"rtcp-sr-then-rtp": {C(rtcpSr()), pk(single, 1, 0, 5)},
		}
		var gaps [][]byte
		for i := 0; i < 200; i++ {
			gaps = append(gaps, pk(single, uint16(i*3), uint32(i*90), 3))
		}
		seqs["many-gaps"] = gaps
		for name, s := range seqs {
			cs = append(cs, mk("rtpcb", st, "seq/"+name, "", packItems(s...), -1))
		}
		// all short sequences over {next RTP, duplicate, older, audio RTP, SR video / audio / foreign ssrc}:
		// receiver-report bookkeeping divides by packet counts that such histories make zero or negative
		maxL := 4
		if !quick {
			maxL = 5
		}
		alpha := []string{"Rn", "Rd", "Ro", "An", "Sv", "Sa", "Sf"}
		var recq func(cur []string)
		recq = func(cur []string) {
			if len(cur) > 0 {
				var its [][]byte
				vs, as := uint16(10), uint16(10)
				for _, k := range cur {
					switch k {
					case "Rn":
						vs++
						its = append(its, pk(single, vs, uint32(vs)*90, 4))
					case "Rd":
						its = append(its, pk(single, vs, uint32(vs)*90, 4))
					case "Ro":
						its = append(its, pk(single, vs-3, uint32(vs-3)*90, 4))
					case "An":
						as++
						its = append(its, R(rtp(97, true, as, uint32(as)*1024, append([]byte{0, 16, 0, 0x18}, body(3)...))))
					case "Sv":
						its = append(its, C(rtcpSr()))
					case "Sa":
						x := rtcpSr()
						x[7] = 8
						its = append(its, C(x))
					case "Sf":
						x := rtcpSr()
						x[7] = 99
						its = append(its, C(x))
					}
				}
				cs = append(cs, mk("rtpcb", st, "history", strings.Join(cur, " "), packItems(its...), -1))
			}
			if len(cur) == maxL {
				return
			}
			for _, k := range alpha {
				recq(append(append([]string{}, cur...), k))
			}
		}
		recq(nil)
		// the same histories (one shorter) for a publisher that set up only ONE of its two tracks, over UDP:
		// packets of the other track's payload type and reports for its SSRC still arrive on these sockets
		if !hv {
			saveMax := maxL
			maxL--
			for _, ust := range []string{"udp-video-only", "udp-audio-only"} {
				save := st
				st = ust
				recq(nil)
				st = save
			}
			maxL = saveMax
		}
		sr := rtcpSr()
		for _, m := range truncs(sr, 1) {
			cs = append(cs, mk("rtpcb", st, "rtcp-truncated", m.desc, packItems(C(m.b)), -1))
		}
		for _, m := range flips(sr, 8, 1) {
			cs = append(cs, mk("rtpcb", st, "rtcp-byte", m.desc, packItems(C(m.b)), -1))
		}
	}
	return cs
}

// ---- WebSocket RTSP ----------------------------------------------------------------------------------------------------

func wsCases(quick bool) []protox.Case {
	var cs []protox.Case
	opt := validRtsp()["OPTIONS"]
	ann := validRtsp()["ANNOUNCE"]
	for _, st := range []string{"upgraded", "noupgrade", "announced"} {
		for _, op := range []byte{0, 1, 2, 8, 9, 10, 3, 15} {
			for _, masked := range []bool{true, false} {
				cs = append(cs, mk("wsrtsp", st, fmt.Sprintf("frame/op%d/masked=%v", op, masked), "OPTIONS", wsFrame(op, masked, opt), -1))
				cs = append(cs, mk("wsrtsp", st, fmt.Sprintf("frame/op%d/masked=%v", op, masked), "ANNOUNCE", wsFrame(op, masked, ann), -1))
				cs = append(cs, mk("wsrtsp", st, fmt.Sprintf("frame/op%d/masked=%v", op, masked), "empty", wsFrame(op, masked, nil), -1))
			}
		}
		f := wsFrame(2, true, opt)
		for _, m := range truncs(f, 1) {
			cs = append(cs, mk("wsrtsp", st, "frame-truncated", m.desc, m.b, -1))
		}
		for _, m := range flips(f, 14, 1) {
			cs = append(cs, mk("wsrtsp", st, "frame-byte", m.desc, m.b, -1))
		}
		for _, l := range [][]byte{{0x82, 0x7e}, {0x82, 0x7e, 0xff}, {0x82, 0x7e, 0xff, 0xff}, {0x82, 0x7f}, {0x82, 0x7f, 0xff, 0xff, 0xff, 0xff, 0xff, 0xff, 0xff, 0xff}, {0x82, 0xff, 0x7f, 0xff, 0xff, 0xff, 0xff, 0xff, 0xff, 0xff, 1, 2, 3, 4},
			{0x82, 0x7f, 0x80, 0, 0, 0, 0, 0, 0, 0}, {0x82, 0xfe, 0, 0, 1, 2, 3, 4}, {0x02, 0x85, 1, 2, 3, 4, 'O' ^ 1, 'P' ^ 2, 'T' ^ 3, 'I' ^ 4, 'O' ^ 1}, {0xf2, 0x80, 0, 0, 0, 0}} {
			cs = append(cs, mk("wsrtsp", st, "frame-length", fmt.Sprintf("%x", l), l, -1))
			cs = append(cs, mk("wsrtsp", st, "frame-length", fmt.Sprintf("%x+data", l), append(cp(l), opt...), -1))
		}
		cs = append(cs, mk("wsrtsp", st, "two-frames", "", append(wsFrame(2, true, opt[:10]), wsFrame(0, true, opt[10:])...), -1))
		cs = append(cs, mk("wsrtsp", st, "raw-rtsp", "", opt, -1))
		cs = append(cs, mk("wsrtsp", st, "interleaved-in-frame", "", wsFrame(2, true, ref.Interleaved(0, rtp(96, true, 1, 0, []byte{0x65, 1, 2}))), -1))
	}
	return cs
}

// ---- GB28181 PS over RTP -------------------------------------------------------------------------------------------------

func psPack(scr uint64, key bool, seq *uint16) [][]byte {
	var ps []byte
	ps = append(ps, ref.PsPackHeader(scr, 0)...)
	if key {
		ps = append(ps, ref.PsSystemHeader()...)
		ps = append(ps, ref.PsMap([][2]uint8{{ref.PsStreamH264, 0xE0}, {ref.PsStreamAac, 0xC0}})...)
		ps = append(ps, ref.PsPes(0xE0, scr, scr, false, ref.AnnexB([][]byte{avcSps, avcPps, append([]byte{0x65}, body(40)...)}))...)
	} else {
		ps = append(ps, ref.PsPes(0xE0, scr, scr, false, ref.AnnexB([][]byte{append([]byte{0x41}, body(30)...)}))...)
	}
	adts := []byte{0xff, 0xf1, 0x50, 0x80, 0x02, 0x1f, 0xfc}
	ps = append(ps, ref.PsPes(0xC0, scr, 0, false, append(adts, body(9)...))...)
	return ref.SplitRtp(ps, 96, seq, uint32(scr), 9, 1400)
}

func psCases(quick bool) []protox.Case {
	var cs []protox.Case
	var seq uint16 = 1
	first := psPack(3600, true, &seq)
	second := psPack(7200, false, &seq)
	third := psPack(10800, true, &seq)
	cs = append(cs, mk("ps", "fresh", "valid", "", packItems(append(append(cp2(first), second...), third...)...), -1))
	p0 := first[0]
	step := 1
	if quick {
		step = 3
	}
	for _, st := range []string{"fresh", "after-pack"} {
		pre := [][]byte{}
		if st == "after-pack" {
			pre = append(pre, first...)
		}
		tail := func(x []byte) []byte { return packItems(append(append(cp2(pre), x), second...)...) }
		for _, m := range truncs(p0, step) {
			cs = append(cs, mk("ps", st, "truncated", m.desc, tail(m.b), -1))
		}
		for _, m := range flips(p0, len(p0), step) {
			cs = append(cs, mk("ps", st, "byte", m.desc, tail(m.b), -1))
		}
		// every PS start code followed by 0..8 bytes (the unpacker reads fixed offsets behind a start code)
		for code := 0xB9; code <= 0xFF; code++ {
			if quick && code > 0xC1 && code < 0xE0 && code%8 != 0 {
				continue
			}
			for n := 0; n <= 8; n++ {
				for _, fill := range []byte{0x00, 0xff} {
					b := []byte{0, 0, 1, byte(code)}
					for i := 0; i < n; i++ {
						b = append(b, fill)
					}
					cs = append(cs, mk("ps", st, fmt.Sprintf("startcode/%#x", code), fmt.Sprintf("%d x %#x", n, fill), tail(rtp(96, true, 1, 0, b)), -1))
				}
			}
		}
		for _, n := range []int{0, 1, 2, 3, 4, 5} {
			cs = append(cs, mk("ps", st, "short-body", fmt.Sprint(n), tail(rtp(96, true, 1, 0, body(n))), -1))
			cs = append(cs, mk("ps", st, "not-rtp", fmt.Sprint(n), tail(body(n)), -1))
		}
		// hostile lengths inside a PES / PSM / system header
		mkps := func(desc string, ps []byte) {
			cs = append(cs, mk("ps", st, "length-field", desc, tail(rtp(96, true, 1, 0, ps)), -1))
		}
		ph := ref.PsPackHeader(3600, 0)
		for _, l := range []int{0, 1, 2, 3, 7, 0x7fff, 0xffff} {
			pes := ref.PsPes(0xE0, 3600, 3600, true, ref.AnnexB([][]byte{append([]byte{0x65}, body(20)...)}))
			pes[4], pes[5] = byte(l>>8), byte(l)
			mkps(fmt.Sprintf("pes_packet_length=%d", l), append(cp(ph), pes...))
			pes2 := cp(pes)
			pes2[4], pes2[5] = 0, 30
			pes2[8] = byte(l)
			mkps(fmt.Sprintf("pes_header_data_length=%d", l&0xff), append(cp(ph), pes2...))
			psm := ref.PsMap([][2]uint8{{ref.PsStreamH264, 0xE0}})
			psm[4], psm[5] = byte(l>>8), byte(l)
			mkps(fmt.Sprintf("psm_length=%d", l), append(cp(ph), psm...))
			psm2 := ref.PsMap([][2]uint8{{ref.PsStreamH264, 0xE0}})
			psm2[8], psm2[9] = byte(l>>8), byte(l)
			mkps(fmt.Sprintf("psm_info_length=%d", l), append(cp(ph), psm2...))
			psm3 := ref.PsMap([][2]uint8{{ref.PsStreamH264, 0xE0}})
			psm3[10], psm3[11] = byte(l>>8), byte(l)
			mkps(fmt.Sprintf("psm_es_map_length=%d", l), append(cp(ph), psm3...))
			sys := ref.PsSystemHeader()
			sys[4], sys[5] = byte(l>>8), byte(l)
			mkps(fmt.Sprintf("system_header_length=%d", l), append(cp(ph), sys...))
		}
		for s := 0; s < 8; s++ {
			mkps(fmt.Sprintf("pack_stuffing=%d without bytes", s), ref.PsPackHeader(3600, s)[:14])
		}
		for _, flags := range []byte{0x00, 0x40, 0x80, 0xC0, 0xFF} {
			pes := ref.PsPes(0xE0, 3600, 3600, false, []byte{0, 0, 0, 1, 0x65, 1})
			pes[7] = flags
			mkps(fmt.Sprintf("pts_dts_flags=%#x", flags), append(cp(ph), pes...))
		}
		for _, stype := range []byte{0, 0x1B, 0x24, 0x0F, 0x90, 0x91, 0x80, 0xFF} {
			ps := append(cp(ph), ref.PsMap([][2]uint8{{stype, 0xE0}, {stype, 0xC0}})...)
			ps = append(ps, ref.PsPes(0xE0, 3600, 0, false, ref.AnnexB([][]byte{append([]byte{0x65}, body(5)...)}))...)
			ps = append(ps, ref.PsPes(0xC0, 3600, 0, false, body(4))...)
			mkps(fmt.Sprintf("stream_type=%#x", stype), ps)
		}
		// video payloads: start codes at the edges, empty NALs, no start code at all
		for i, pay := range [][]byte{{}, {0}, {0, 0}, {0, 0, 1}, {0, 0, 0, 1}, {0, 0, 1, 0, 0, 1}, {0, 0, 0, 1, 0x65}, {0x65, 1, 2, 3}, {0, 0, 1, 0x67, 0, 0, 1}, {0, 0, 1, 0x67}, append([]byte{0, 0, 1}, avcSps[:3]...), {0, 0, 1, 0x40, 1}, {0, 0, 1, 0x42}} {
			for _, typ := range []uint8{ref.PsStreamH264, ref.PsStreamH265} {
				ps := append(cp(ph), ref.PsMap([][2]uint8{{typ, 0xE0}})...)
				ps = append(ps, ref.PsPes(0xE0, 3600, 0, false, pay)...)
				ps = append(ps, ref.PsPackHeader(7200, 0)...)
				ps = append(ps, ref.PsPes(0xE0, 7200, 0, false, pay)...)
				mkps(fmt.Sprintf("video-payload#%d type %#x", i, typ), ps)
			}
		}
	}
	// reordering, loss and wrap-around of the RTP layer
	var s2 uint16 = 65530
	var all [][]byte
	for i := 0; i < 12; i++ {
		all = append(all, psPack(uint64(3600*(i+1)), i%4 == 0, &s2)...)
	}
	cs = append(cs, mk("ps", "fresh", "rtp-order/wrap", "", packItems(all...), -1))
	rev := cp2(all)
	for i, j := 0, len(rev)-1; i < j; i, j = i+1, j-1 {
		rev[i], rev[j] = rev[j], rev[i]
	}
	cs = append(cs, mk("ps", "fresh", "rtp-order/reversed", "", packItems(rev...), -1))
	var odd [][]byte
	for i, p := range all {
		if i%2 == 1 {
			odd = append(odd, p)
		}
	}
	cs = append(cs, mk("ps", "fresh", "rtp-order/every-second-lost", "", packItems(odd...), -1))
	var dup [][]byte
	for _, p := range all {
		dup = append(dup, p, p)
	}
	cs = append(cs, mk("ps", "fresh", "rtp-order/duplicated", "", packItems(dup...), -1))
	// long histories: every pattern of three datagrams (a permutation of three consecutive sequence
	// numbers x bodies from {garbage, pack header only, unknown bytes, a whole valid pack}) repeated 1100
	// times - state that leaks a little per round (counters, buffers) surfaces only after many rounds
	{
		var sv uint16 = 0
		valid := psPack(3600, true, &sv)[0][12:]
		bodies := [][]byte{{0, 0}, {0, 0, 1, 0xba}, {9, 9, 9, 9}, valid}
		perms := [][3]int{{0, 1, 2}, {0, 2, 1}, {1, 0, 2}, {1, 2, 0}, {2, 0, 1}, {2, 1, 0}}
		for pi, pm := range perms {
			for b0 := range bodies {
				for b1 := range bodies {
					for b2 := range bodies {
						if quick && (b0+b1+b2)%2 == 1 && pi > 1 {
							continue
						}
						bs := [3][]byte{bodies[b0], bodies[b1], bodies[b2]}
						var its [][]byte
						for k := 0; k < 3; k++ {
							its = append(its, ref.BuildRtp(ref.Rtp{Marker: true, PT: 96, Seq: uint16(100 + pm[k]), Ts: 3600, Ssrc: 9, Payload: bs[k]}))
						}
						cs = append(cs, mk("ps", "rounds", fmt.Sprintf("perm%d", pi), fmt.Sprintf("bodies %d %d %d", b0, b1, b2), packItems(its...), -1))
					}
				}
			}
		}
	}
	big := ref.SplitRtp(append(ref.PsPackHeader(1, 0), ref.PsPes(0xE0, 1, 0, false, ref.AnnexB([][]byte{append([]byte{0x65}, body(200000)...)}))...), 96, &s2, 1, 9, 1400)
	cs = append(cs, mk("ps", "fresh", "big-frame", "", packItems(big...), -1))
	return cs
}

func cp2(a [][]byte) [][]byte { return append([][]byte{}, a...) }

// ---- HTTP subscribers / HLS / API ------------------------------------------------------------------------------------------

func httpCases(quick bool) []protox.Case {
	var cs []protox.Case
	uris := []string{"/live/s.flv", "/live/s.ts", "/s.flv", "/.flv", "/live/.flv", "/live/s", "/", "/live/s.flv?", "/live/s.flv?lal_secret=", "/live/s.flv?%zz", "/live/s.flv?a=b&a=c&&&=", "/a/b/c/d/e.flv", "//live//s.flv", "/live/s.flv/", "/live/s.FLV", "/live/s.m3u8", "/live/" + strings.Repeat("s", 60000) + ".flv", "/live/..%2f..%2fs.flv", "/live/s.flv#frag", "/live/s%00.flv", "*", "/live/s.ts?x=" + strings.Repeat("y", 70000)}
	for _, u := range uris {
		for _, ws := range []string{"", "Connection: Upgrade\r\nUpgrade: websocket\r\nSec-WebSocket-Key: dGhlIHNhbXBsZSBub25jZQ==\r\n", "Connection: Upgrade\r\nUpgrade: websocket\r\n", "Connection: keep-alive, Upgrade\r\nUpgrade: WebSocket\r\nSec-WebSocket-Key: \r\n", "Upgrade: websocket\r\nSec-WebSocket-Key: " + strings.Repeat("k", 5000) + "\r\n"} {
			for _, method := range []string{"GET", "POST", "HEAD", "OPTIONS"} {
				if quick && method != "GET" && u != "/live/s.flv" {
					continue
				}
				raw := fmt.Sprintf("%s %s HTTP/1.1\r\nHost: h\r\n%s\r\n", method, u, ws)
				cs = append(cs, mk("http", "sub", "request/"+method, clip(u)+" ws="+fmt.Sprint(len(ws)), []byte(raw), -1))
			}
		}
	}
	for _, u := range []string{"/hls/s.m3u8", "/hls/s/playlist.m3u8", "/hls/s/record.m3u8", "/hls/s-0.ts", "/hls/s/s-0.ts", "/hls/.m3u8", "/hls/", "/hls/s.m3u8?session_id=", "/hls/s.m3u8?session_id=" + strings.Repeat("x", 5000), "/hls/-.ts", "/hls/--.ts", "/hls/s-.ts", "/hls/s-x-y-z.ts", "/hls/s.mp4", "/hls/s/../s.m3u8", "/hls/%2e%2e/x.m3u8"} {
		cs = append(cs, mk("http", "hls", "request", clip(u), []byte(fmt.Sprintf("GET %s HTTP/1.1\r\nHost: h\r\n\r\n", u)), -1))
	}
	return cs
}

func apiCases(quick bool) []protox.Case {
	var cs []protox.Case
	bodies := []string{"", "{", "}", "[]", "null", "0", "\"x\"", "{}", "{\"url\":5}", "{\"url\":null}", "{\"url\":[]}", "{\"url\":{}}", "{\"url\":\"\"}", "{\"url\":\"x\"}", "{\"url\":\"rtmp://\"}", "{\"url\":\"rtmp://h\"}", "{\"url\":\"rtmp://h/\"}", "{\"url\":\"rtmp://h/live/\"}",
		"{\"url\":\"rtmp://$W-origin:1935/live/s\"}", "{\"url\":\"rtsp://$W-origin:1935/live/s\",\"rtsp_mode\":0}", "{\"url\":\"http://h/live/s.flv\"}", "{\"url\":\"rtmp://h/live/..\"}", "{\"url\":\"rtmp://h/live/s\",\"stream_name\":\"../x\"}",
		"{\"url\":\"rtmp://$W-origin:1935/live/s\",\"pull_retry_num\":\"x\"}", "{\"url\":\"rtmp://$W-origin:1935/live/s\",\"pull_retry_num\":1e400}", "{\"url\":\"rtmp://$W-origin:1935/live/s\",\"pull_retry_num\":-9223372036854775808,\"pull_timeout_ms\":-1,\"auto_stop_pull_after_no_out_ms\":9223372036854775807}",
		"{\"url\":\"rtmp://$W-origin:1935/live/s\",\"debug_dump_packet\":\"/nonexistent/dir/x\"}", "{\"stream_name\":\"s\"}", "{\"stream_name\":\"\"}", "{\"stream_name\":5}", "{\"stream_name\":\"s\",\"session_id\":\"\"}", "{\"stream_name\":\"s\",\"session_id\":\"RTMPPUBSUB1\"}", "{\"stream_name\":\"s\",\"session_id\":5}",
		"{\"stream_name\":\"s\",\"port\":0}", "{\"stream_name\":\"s\",\"port\":-1}", "{\"stream_name\":\"s\",\"port\":70000}", "{\"stream_name\":\"s\",\"port\":\"x\"}", "{\"stream_name\":\"s\",\"port\":0,\"is_tcp_flag\":9,\"timeout_ms\":-5}", "{\"stream_name\":\"s\",\"port\":0,\"is_tcp_flag\":1}", "{\"stream_name\":\"s\",\"port\":0,\"debug_dump_packet\":\"/nonexistent/x\"}", "{\"stream_name\":\"../../x\",\"port\":0}",
		"{\"ip\":\"1.2.3.4\",\"duration_sec\":1}", "{\"ip\":\"\",\"duration_sec\":-1}", "{\"ip\":5}", "{\"ip\":\"1.2.3.4\",\"duration_sec\":9223372036854775807}", "{\"ip\":\"1.2.3.4\",\"duration_sec\":1e400}",
		strings.Repeat("[", 100000), strings.Repeat("{\"a\":", 100000), "{\"url\":\"" + strings.Repeat("x", 1000000) + "\"}", "\xff\xfe{}", "{\"url\":\"\\ud800\"}", "{\"url\":\"rtmp://h/live/s\"}{\"url\":1}", "{\"URL\":\"rtmp://h/live/s\"}", "{\"url\":\"rtmp://h/live/s\",\"url\":7}"}
	// pull URLs: every arrangement of <= 5 items over {"/", "?", "a", "=", ":", "@"} after the authority, for
	// rtmp and rtsp (the client sessions parse the URL again, in their own goroutine)
	var pullBodies []string
	{
		var gen func(cur string, n int)
		gen = func(cur string, n int) {
			for _, scheme := range []string{"rtmp", "rtsp"} {
				if quick && scheme == "rtsp" && n > 3 {
					continue
				}
				pullBodies = append(pullBodies, fmt.Sprintf("{\"url\":\"%s://$W-origin:1935%s\",\"stream_name\":\"s\"}", scheme, cur))
			}
			if n == 5 {
				return
			}
			for _, it := range []string{"/", "?", "a", "=", ":", "@"} {
				if quick && n >= 4 && it != "?" && it != "/" {
					continue
				}
				gen(cur+it, n+1)
			}
		}
		gen("", 0)
	}
	paths := []string{"/api/ctrl/start_relay_pull", "/api/ctrl/stop_relay_pull", "/api/ctrl/kick_session", "/api/ctrl/start_rtp_pub", "/api/ctrl/add_ip_blacklist", "/api/stat/group", "/api/stat/all_group", "/api/stat/lal_info", "/lal.html", "/api/", "/api/ctrl/unknown", "/"}
	for _, p := range paths {
		for i, b := range bodies {
			if quick && !strings.Contains(p, "ctrl") && i%6 != 0 {
				continue
			}
			cs = append(cs, mk("api", p, "body", clip(b), []byte(b), -1))
		}
		for _, q := range []string{"", "?", "?stream_name=", "?stream_name=s", "?stream_name=s&stream_name=t", "?stream_name=%zz", "?stream_name=" + strings.Repeat("s", 70000), "?x"} {
			cs = append(cs, mk("api", "GET "+p+q, "query", clip(q), nil, -1))
		}
	}
	for _, b := range pullBodies {
		cs = append(cs, mk("api", "/api/ctrl/start_relay_pull", "pull-url", clip(b), []byte(b), -1))
	}
	// pull URLs of every length: the client session serialises app, tcUrl and stream name into commands
	// whose buffers grow by doubling (app part of 1..1100 bytes; stream part likewise for a subset)
	for n := 1; n <= 1100; n++ {
		if quick && n > 64 && n%128 > 48 && n%128 < 80 {
			continue // quick: dense around every multiple of 128 (+-48), all of them thorough
		}
		for _, scheme := range []string{"rtmp", "rtsp"} {
			b := fmt.Sprintf("{\"url\":\"%s://$W-origin:1935/%s/s\",\"stream_name\":\"s\"}", scheme, strings.Repeat("a", n))
			cs = append(cs, mk("api", "/api/ctrl/start_relay_pull", "pull-url-length/app", fmt.Sprintf("%s app of %d bytes", scheme, n), []byte(b), -1))
			if n%8 == 0 || n < 64 {
				b = fmt.Sprintf("{\"url\":\"%s://$W-origin:1935/live/%s\",\"stream_name\":\"s\"}", scheme, strings.Repeat("s", n))
				cs = append(cs, mk("api", "/api/ctrl/start_relay_pull", "pull-url-length/stream", fmt.Sprintf("%s stream of %d bytes", scheme, n), []byte(b), -1))
			}
		}
	}
	return cs
}

func buildCases(quick bool) []protox.Case {
	var cs []protox.Case
	cs = append(cs, rtspCases(quick)...)
	cs = append(cs, rtpcbCases(quick)...)
	cs = append(cs, wsCases(quick)...)
	cs = append(cs, psCases(quick)...)
	cs = append(cs, httpCases(quick)...)
	cs = append(cs, apiCases(quick)...)
	cs = append(cs, clientCases(quick)...)
	cs = append(cs, rtspAuthCases(quick)...)
	cs = append(cs, hlsSubSessionCases(quick)...)
	return cs
}

// hlsSubSessionCases: HLS sub-session mode. Every sequence of <= 4 steps over {G: playlist request
// without a session id (answered with a redirect that carries one), Gs: playlist request with the id
// obtained last, Ts: segment request with it, O: the same id from another address, B: the viewer's
// address is black-listed, Bx: black-listed with an entry that has already expired}.
func hlsSubSessionCases(quick bool) []protox.Case {
	var cs []protox.Case
	alpha := []string{"G", "Gs", "Ts", "O", "B", "Bx"}
	maxL := 4
	var rec func(cur []string)
	rec = func(cur []string) {
		if len(cur) > 0 {
			cs = append(cs, mk("hlssub", "sub-session", "sequence", strings.Join(cur, " "), []byte(strings.Join(cur, " ")), -1))
		}
		if len(cur) == maxL {
			return
		}
		for _, k := range alpha {
			if quick && len(cur) == 3 && k != "Gs" && k != "Ts" {
				continue
			}
			rec(append(append([]string{}, cur...), k))
		}
	}
	rec(nil)
	return cs
}

// rtspAuthCases: with simple-auth on for RTSP subscribers, every sequence of <= 3 requests over
// {DESCRIBE with the right secret, without one, with a wrong one, for another stream, OPTIONS} on one
// connection while the stream is not published yet (accepted DESCRIBEs wait for the SDP); then a
// publisher arrives and the waiting sessions are fed.
func rtspAuthCases(quick bool) []protox.Case {
	var cs []protox.Case
	alpha := []string{"Dgood", "Dnone", "Dwrong", "Dother", "Opt"}
	var rec func(cur []string)
	rec = func(cur []string) {
		if len(cur) > 0 {
			var its [][]byte
			for i, k := range cur {
				uri := rtspUri
				switch k {
				case "Dgood":
					uri += "?lal_secret=$SECRET"
				case "Dwrong":
					uri += "?lal_secret=0123456789abcdef0123456789abcdef"
				case "Dother":
					uri = "rtsp://h/live/other?lal_secret=$SECRET"
				}
				if k == "Opt" {
					its = append(its, ref.RtspRequest("OPTIONS", rtspUri, i+1, nil, nil))
				} else {
					its = append(its, ref.RtspRequest("DESCRIBE", uri, i+1, map[string]string{"Accept": "application/sdp"}, nil))
				}
			}
			cs = append(cs, mk("rtspauth", "sub", "describe-sequence", strings.Join(cur, " "), packItems(its...), -1))
		}
		if len(cur) == 3 {
			return
		}
		for _, k := range alpha {
			rec(append(append([]string{}, cur...), k))
		}
	}
	rec(nil)
	return cs
}
