// C13 — no input on RTSP, RTP/RTCP, GB28181, WebSocket or HTTP surfaces terminates lal.
// Family (P): protocol-state x mutation-alphabet enumeration. Every case = (surface, stage reached by a
// valid prefix, one hostile input from the alphabet, fragmentation) on a fresh real server inside a
// worker process (a fatal error kills the worker and is attributed to the case), followed by a healthy
// publish+play probe on the same server.
package main

import (
	"encoding/hex"
	"encoding/json"
	"fmt"
	"os"
	"strings"
	"time"

	"verif/lib/lalenv"
	"verif/lib/protox"
	"verif/lib/vk"
	"verif/lib/world"
)

type caseData struct {
	Surface string `json:"surface"`
	Stage   string `json:"stage"`
	Hex     string `json:"hex"`  // the hostile input (for datagram surfaces: 2-byte length prefixed items)
	Frag    int    `json:"frag"` // -1: fed at once; k>0: fed in two parts split at k
	Desc    string `json:"desc"`
}

func mk(surface, stage, cls, desc string, in []byte, frag int) protox.Case {
	d, _ := json.Marshal(caseData{Surface: surface, Stage: stage, Hex: hex.EncodeToString(in), Frag: frag, Desc: desc})
	return protox.Case{Key: surface + "/" + stage + "/" + cls, Data: d}
}

func main() {
	if len(os.Args) > 1 && os.Args[1] == "worker" {
		lalenv.Quiet()
		world.SyncQueues()
		protox.WorkerMain(runCase)
	}
	r := vk.Start("C13", "exploration")
	r.Rule("one case = (surface, protocol stage reached by a valid prefix, next input from the mutation alphabet: valid message truncated at every offset, every header byte set to extremes, every field of the grammar mutated, hostile lengths) x (fragmentation); each runs on a fresh real server in a worker process, followed by a healthy publish+play probe on the same server. distinct_nontrivial = distinct (surface, stage, mutation class, outcome) tuples")
	r.Assume("hostile bytes reach the real session code through in-memory connections (no kernel sockets); RTP/RTCP datagrams and GB28181 datagrams are handed to the functions the UDP read loops call",
		"a panic in a goroutine lal itself starts, or inside a callback its read loops run, counts as process termination (lal has no recover there); a panic inside a net/http handler call is recovered by net/http and closes that connection only",
		"upstream servers (RTMP / RTSP / HTTP-FLV origin) are scripted peers behind the gated dialer",
		"TLS variants (rtsps, https, wss) are not driven; they wrap the same session code")
	if r.ReplayIn != "" {
		var c protox.Case
		r.LoadReplay(&c)
		protox.RunLevels([]protox.Case{c}, 1, 120*time.Second, nil, func(o protox.Outcome) { report(r, o) })
		r.Finish()
	}
	r.SetBudget(8*time.Minute, 60*time.Minute)
	cases := buildCases(r.Quick())
	if only := os.Getenv("C13_ONLY"); only != "" {
		var f []protox.Case
		for _, c := range cases {
			if strings.HasPrefix(c.Key, only) {
				f = append(f, c)
			}
		}
		cases = f
	}
	// every case of a surface whose code depends on the log level (lal dumps the first received RTP / RTCP
	// packets at debug level and every received chunk at trace level) once more at trace level
	for i, np := 0, len(cases); i < np; i++ {
		switch strings.SplitN(cases[i].Key, "/", 2)[0] {
		case "api", "http", "hlssub", "flv-pull":
		default:
			cases = append(cases, protox.TraceTwin(cases[i]))
		}
	}
	r.Cov("cases", len(cases))
	per := map[string]int{}
	for _, c := range cases {
		per[strings.SplitN(c.Key, "/", 2)[0]]++
	}
	r.Cov("cases_per_surface", per)
	n := protox.RunLevels(cases, 16, 120*time.Second, r.OutOfTime, func(o protox.Outcome) { report(r, o) })
	r.Eval(n)
	if n < len(cases) {
		r.NotExhaustive(fmt.Sprintf("time budget: %d of %d cases executed", n, len(cases)))
	}
	for _, i := range []int{len(cases) / 7, len(cases) / 3, len(cases) / 2, len(cases) * 4 / 5} {
		if i < len(cases) {
			var d caseData
			json.Unmarshal(cases[i].Data, &d)
			h := d.Hex
			if len(h) > 160 {
				h = h[:160] + "..."
			}
			r.Sample(map[string]interface{}{"key": cases[i].Key, "hex": h, "frag": d.Frag, "desc": d.Desc})
		}
	}
	r.Finish()
}

func report(r *vk.Run, o protox.Outcome) {
	cls := o.Res.Class
	var d caseData
	json.Unmarshal(o.Case.Data, &d)
	show := d.Hex
	if len(show) > 160 {
		show = show[:160] + "..."
	}
	what := fmt.Sprintf("%s input=%s frag=%d (%s)", o.Case.Key, show, d.Frag, d.Desc)
	if protox.IsTrace(o.Case) {
		what += " [log level trace]"
	}
	sk := surfStage(o.Case.Key)
	switch {
	case o.Killed:
		cls = "hang-killed"
		r.Violation("hang/"+sk, "no progress within the deadline: "+what, o.Case)
	case o.Death != "":
		k := protox.DeathKey(o.Death)
		cls = k
		r.Violation(k+"/"+sk, fmt.Sprintf("the server process died (%s): %s :: %s", k, what, firstLines(o.Death, 8)), o.Case)
	case o.Res.Panic != "":
		cls = "panic"
		r.Violation("panic/"+protox.PanicKey(o.Res.Panic), fmt.Sprintf("panic in a lal goroutine: %s :: %s", what, firstLines(o.Res.Panic, 14)), o.Case)
	case o.Res.Hang != "":
		cls = "hang"
		r.Violation("hang/"+sk, o.Res.Hang+" :: "+what, o.Case)
	case o.Res.Probe != "":
		cls = "probe-failed"
		r.Violation("others-not-served/"+sk, o.Res.Probe+" :: "+what, o.Case)
	case o.Res.Other != "":
		r.Violation(o.Res.OtherK+"/"+sk, o.Res.Other+" :: "+what, o.Case)
	}
	r.Class(mutClass(o.Case.Key) + "/" + cls)
}

func surfStage(k string) string {
	p := strings.Split(k, "/")
	if len(p) >= 2 {
		return p[0] + "/" + p[1]
	}
	return k
}

func mutClass(k string) string {
	p := strings.Split(k, "/")
	if len(p) >= 3 {
		return strings.Join(p[:3], "/")
	}
	return k
}

func firstLines(s string, n int) string {
	l := strings.Split(s, "\n")
	if len(l) > n {
		l = l[:n]
	}
	return strings.Join(l, " | ")
}
