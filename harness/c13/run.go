package main

import (
	"bufio"
	"bytes"
	"crypto/md5"
	"encoding/base64"
	"encoding/hex"
	"encoding/json"
	"fmt"
	"net"
	"net/http"
	"net/http/httptest"
	"net/url"
	"strings"
	"time"

	"github.com/q191201771/lal/pkg/base"
	"github.com/q191201771/lal/pkg/gb28181"
	"github.com/q191201771/lal/pkg/logic"
	"github.com/q191201771/lal/pkg/rtsp"

	"verif/lib/netsim"
	"verif/lib/protox"
	"verif/lib/ref"
	"verif/lib/sw"
	"verif/lib/world"
)

var (
	avcSps = ref.WriteAvcSps(ref.AvcSps{Profile: 100, Level: 31, ChromaFormat: 1, PocType: 0, Log2MaxPocLsbM4: 2, MaxNumRefFrames: 3, WidthMbsM1: 19, HeightMapUnitsM1: 14, FrameMbsOnly: true, Direct8x8: true})
	avcPps = []byte{0x68, 0xce, 0x3c, 0x80}
)

func sdpAV() []byte {
	sp := base64.StdEncoding.EncodeToString(avcSps) + "," + base64.StdEncoding.EncodeToString(avcPps)
	return []byte("v=0\r\no=- 0 0 IN IP4 127.0.0.1\r\ns=x\r\nc=IN IP4 127.0.0.1\r\nt=0 0\r\n" +
		"m=video 0 RTP/AVP 96\r\na=rtpmap:96 H264/90000\r\na=fmtp:96 packetization-mode=1; sprop-parameter-sets=" + sp + "; profile-level-id=64001F\r\na=control:streamid=0\r\n" +
		"m=audio 0 RTP/AVP 97\r\na=rtpmap:97 MPEG4-GENERIC/44100/2\r\na=fmtp:97 profile-level-id=1;mode=AAC-hbr;sizelength=13;indexlength=3;indexdeltalength=3; config=1210\r\na=control:streamid=1\r\n")
}

func sdpHevc() []byte {
	return []byte("v=0\r\no=- 0 0 IN IP4 127.0.0.1\r\ns=x\r\nc=IN IP4 127.0.0.1\r\nt=0 0\r\n" +
		"m=video 0 RTP/AVP 98\r\na=rtpmap:98 H265/90000\r\na=fmtp:98 sprop-vps=QAEMAf//AWAAAAMAkAAAAwAAAwBdlZgJ; sprop-sps=QgEBAWAAAAMAkAAAAwAAAwBdoAKAgC0WWVmkkyuAQAAA+gAAF3AC; sprop-pps=RAHBcrRiQA==\r\na=control:streamid=0\r\n")
}

const rtspUri = "rtsp://h/live/s"

func feed(w *world.W, c *netsim.Conn, in []byte, frag int) error {
	if frag > 0 && frag < len(in) {
		c.Feed(in[:frag])
		if err := w.Settle(); err != nil {
			return err
		}
		c.Feed(in[frag:])
	} else {
		c.Feed(in)
	}
	return w.Settle()
}

// guard runs f the way one of lal's own goroutines would: a panic is recorded, not propagated.
func guard(w *world.W, f func()) error {
	w.Net.Async(f)
	return w.Settle()
}

// items decodes a list of 2-byte-length-prefixed datagrams.
func items(b []byte) [][]byte {
	var out [][]byte
	for len(b) >= 2 {
		n := int(b[0])<<8 | int(b[1])
		b = b[2:]
		if n > len(b) {
			n = len(b)
		}
		out = append(out, b[:n])
		b = b[n:]
	}
	return out
}

func packItems(its ...[]byte) []byte {
	var b []byte
	for _, it := range its {
		b = append(b, byte(len(it)>>8), byte(len(it)))
		b = append(b, it...)
	}
	return b
}

func rtspPubTo(w *world.W, stage string, sdp []byte) (*world.RtspPeer, error) {
	p := w.NewRtspPeer(rtspUri)
	if stage == "fresh" {
		return p, w.Settle()
	}
	p.Request("OPTIONS", rtspUri, nil, nil)
	p.Request("ANNOUNCE", rtspUri, map[string]string{"Content-Type": "application/sdp"}, sdp)
	if err := w.Settle(); err != nil || stage == "pub-announced" {
		return p, err
	}
	s, _ := ref.ParseSdp(sdp)
	if strings.HasPrefix(stage, "pub-record-udp-") {
		// only one of the announced tracks is set up, over UDP (lal binds a real loopback port pair)
		k := 0
		if stage == "pub-record-udp-audio-only" {
			k = 1
		}
		p.Request("SETUP", rtspUri+"/"+s.Media[k].Control, map[string]string{"Transport": "RTP/AVP/UDP;unicast;client_port=40000-40001;mode=record"}, nil)
		if err := w.Settle(); err != nil {
			return p, err
		}
		p.Request("RECORD", rtspUri, map[string]string{"Range": "npt=0.000-"}, nil)
		return p, w.Settle()
	}
	for i, m := range s.Media {
		p.Request("SETUP", rtspUri+"/"+m.Control, map[string]string{"Transport": fmt.Sprintf("RTP/AVP/TCP;unicast;interleaved=%d-%d;mode=record", 2*i, 2*i+1)}, nil)
	}
	if err := w.Settle(); err != nil || stage == "pub-setup" {
		return p, err
	}
	p.Request("RECORD", rtspUri, map[string]string{"Range": "npt=0.000-"}, nil)
	return p, w.Settle()
}

func rtspSubTo(w *world.W, stage string) (*world.RtspPeer, error) {
	// a publisher first, so that the stream has an SDP
	pub, err := w.RtmpPublisher("live", "s")
	if err != nil {
		return nil, err
	}
	for i, k := range []string{"vsh", "ash", "key", "aac"} {
		m := sw.MakeMsg(k, i, uint32(i*20), 24)
		csid := 6
		if m.Type == 8 {
			csid = 4
		}
		pub.SendMsgs(ref.Msg{Csid: csid, Type: m.Type, Msid: 1, Ts: m.Ts, Payload: m.Payload})
	}
	if err := w.Settle(); err != nil {
		return nil, err
	}
	p := w.NewRtspPeer(rtspUri)
	p.Request("DESCRIBE", rtspUri, map[string]string{"Accept": "application/sdp"}, nil)
	if err := w.Settle(); err != nil || stage == "sub-described" {
		return p, err
	}
	p.Pump()
	var sdp []byte
	for _, it := range p.Items {
		if it.IsMsg && len(it.Body) > 0 {
			sdp = it.Body
		}
	}
	s, _ := ref.ParseSdp(sdp)
	if strings.HasPrefix(stage, "pub-record-udp-") {
		// only one of the announced tracks is set up, over UDP (lal binds a real loopback port pair)
		k := 0
		if stage == "pub-record-udp-audio-only" {
			k = 1
		}
		p.Request("SETUP", rtspUri+"/"+s.Media[k].Control, map[string]string{"Transport": "RTP/AVP/UDP;unicast;client_port=40000-40001;mode=record"}, nil)
		if err := w.Settle(); err != nil {
			return p, err
		}
		p.Request("RECORD", rtspUri, map[string]string{"Range": "npt=0.000-"}, nil)
		return p, w.Settle()
	}
	for i, m := range s.Media {
		p.Request("SETUP", rtspUri+"/"+m.Control, map[string]string{"Transport": fmt.Sprintf("RTP/AVP/TCP;unicast;interleaved=%d-%d", 2*i, 2*i+1)}, nil)
	}
	if err := w.Settle(); err != nil || stage == "sub-setup" {
		return p, err
	}
	p.Request("PLAY", rtspUri, map[string]string{"Range": "npt=0.000-"}, nil)
	return p, w.Settle()
}

func runCase(c protox.Case) (res protox.Result) {
	var d caseData
	json.Unmarshal(c.Data, &d)
	in, _ := hex.DecodeString(d.Hex)
	conf := world.Conf{"rtsp.enable": true, "hls.enable": true, "relay_push.enable": d.Surface == "rtmp-push", "relay_push.addr_list": []interface{}{"$W-origin:1935"}}
	if d.Surface == "hlssub" {
		conf["hls.sub_session_hash_key"] = "k1"
		conf["hls.cleanup_mode"] = 0
	}
	if d.Surface == "rtspauth" {
		conf["simple_auth.key"] = "q191201771"
		conf["simple_auth.sub_rtsp_enable"] = true
	}
	w := world.New(conf)
	w.Net.QuiesceTimeout = 20 * time.Second
	w.EnableRelay(nil)
	w.DialRaw = map[string]bool{"origin": true}
	if strings.Contains(c.Key, "pull-url-length") {
		w.DialRaw = nil // the upstream of these cases is a reference server that answers the handshake and the commands
	}
	w.RelaxedRelay = true
	defer w.Close()
	if bytes.Contains(in, []byte("$W")) {
		in = bytes.ReplaceAll(in, []byte("$W"), []byte(fmt.Sprintf("w%d", w.ID)))
	}
	res.Class = "served"
	var victim *netsim.Conn
	var err error
	switch d.Surface {
	case "rtsp":
		var p *world.RtspPeer
		if strings.HasPrefix(d.Stage, "sub-") {
			p, err = rtspSubTo(w, d.Stage)
		} else {
			sdp := sdpAV()
			if strings.HasSuffix(d.Stage, "-hevc") {
				sdp = sdpHevc()
			}
			p, err = rtspPubTo(w, strings.TrimSuffix(d.Stage, "-hevc"), sdp)
		}
		if err == nil {
			victim = p.Conn
			err = feed(w, victim, in, d.Frag)
		}
	case "hlssub":
		sid := ""
		get := func(path, remote string) {
			req, _ := http.NewRequest("GET", "http://h"+path, nil)
			req.RequestURI = path
			req.RemoteAddr = remote
			rec := httptest.NewRecorder()
			if e := guardHttp(w, &res, func() { logic.VerifServeHls(w.SM, rec, req) }); e != nil {
				err = e
			}
			if loc := rec.Header().Get("Location"); loc != "" {
				if u, e := url.Parse(loc); e == nil && u.Query().Get("session_id") != "" {
					sid = u.Query().Get("session_id")
				}
			}
		}
		for _, k := range strings.Fields(string(in)) {
			switch k {
			case "G":
				get("/hls/s.m3u8", "10.1.1.3:1")
			case "Gs":
				get("/hls/s.m3u8?session_id="+sid, "10.1.1.3:1")
			case "Ts":
				get("/hls/s-1-0.ts?session_id="+sid, "10.1.1.3:1")
			case "O":
				get("/hls/s.m3u8?session_id="+sid, "10.1.1.9:1")
			case "B":
				w.SM.CtrlAddIpBlacklist(base.ApiCtrlAddIpBlacklistReq{Ip: "10.1.1.3", DurationSec: 100})
			case "Bx":
				w.SM.CtrlAddIpBlacklist(base.ApiCtrlAddIpBlacklistReq{Ip: "10.1.1.3", DurationSec: -1})
			}
			if err != nil {
				break
			}
		}
	case "rtspauth":
		p := w.NewRtspPeer(rtspUri)
		victim = p.Conn
		for _, it := range items(in) {
			if victim.Closed() {
				break
			}
			h := md5.Sum([]byte("q191201771" + "s"))
			victim.Feed(bytes.ReplaceAll(it, []byte("$SECRET"), []byte(hex.EncodeToString(h[:]))))
			if err = w.Settle(); err != nil {
				break
			}
		}
		if err == nil {
			// the stream appears: sessions waiting for its description are fed
			var pub *world.RtmpPeer
			if pub, err = w.RtmpPublisher("live", "s"); err == nil {
				for i, k := range []string{"vsh", "ash", "key", "aac"} {
					m := sw.MakeMsg(k, i, uint32(i*20), 24)
					csid := 6
					if m.Type == 8 {
						csid = 4
					}
					pub.SendMsgs(ref.Msg{Csid: csid, Type: m.Type, Msid: 1, Ts: m.Ts, Payload: m.Payload})
				}
				err = w.Settle()
			}
		}
	case "rtpcb": // the UDP receive callbacks of an RTSP publisher
		sdp := sdpAV()
		if d.Stage == "hevc" {
			sdp = sdpHevc()
		}
		var p *world.RtspPeer
		pubStage := "pub-record"
		udp := strings.HasPrefix(d.Stage, "udp-")
		if udp {
			pubStage = "pub-record-" + d.Stage
		}
		p, err = rtspPubTo(w, pubStage, sdp)
		if err == nil {
			victim = p.Conn
			ps := logic.VerifRtspPubSession(w.SM, "s")
			if ps == nil {
				res.Other, res.OtherK = "the valid RTSP publisher prefix was not accepted", "prefix"
				return
			}
			bi := rtsp.VerifBaseIn(ps)
			for _, it := range items(in) {
				it := it
				if len(it) > 0 && it[0] == 'C' && udp { // a datagram on the RTCP socket
					err = guard(w, func() { rtsp.VerifOnReadRtcpFrom(bi, it[1:], &net.UDPAddr{IP: net.IPv4(127, 0, 0, 1), Port: 40001}) })
				} else if len(it) > 0 && it[0] == 'C' { // RTCP item marker
					err = guard(w, func() { rtsp.VerifOnReadRtcp(bi, it[1:]) })
				} else if len(it) > 0 {
					err = guard(w, func() { rtsp.VerifOnReadRtp(bi, it[1:]) })
				}
				if err != nil {
					break
				}
			}
		}
	case "wsrtsp":
		victim, err = wsConn(w, d.Stage, in, d.Frag)
	case "ps":
		r := w.SM.CtrlStartRtpPub(base.ApiCtrlStartRtpPubReq{StreamName: "s", Port: 0, TimeoutMs: 0})
		if r.ErrorCode != base.ErrorCodeSucc {
			res.Other, res.OtherK = "start_rtp_pub failed: "+r.Desp, "prefix"
			return
		}
		w.PsExpected = 1
		sess := logic.VerifPsPubSession(w.SM, "s")
		if d.Stage == "rounds" {
			// the datagrams are a pattern; it is repeated 1100 times (more than the 1024-packet reorder
			// window) with the sequence numbers advanced by the pattern length per round
			pat := items(in)
			err = guard(w, func() {
				for round := 0; round < 1100; round++ {
					for _, it := range pat {
						b := append([]byte{}, it...)
						if len(b) >= 4 {
							sq := uint16(b[2])<<8 | uint16(b[3])
							sq += uint16(round * len(pat))
							b[2], b[3] = byte(sq>>8), byte(sq)
						}
						gb28181.VerifFeed(sess, b)
					}
				}
			})
		} else {
			for _, it := range items(in) {
				it := it
				if err = guard(w, func() { gb28181.VerifFeed(sess, it) }); err != nil {
					break
				}
			}
		}
		if err == nil {
			w.SM.CtrlKickSession(base.ApiCtrlKickSessionReq{StreamName: "s", SessionId: r.Data.SessionId})
			w.PsExpected = 0
			err = w.Settle()
		}
	case "http":
		err = runHttp(w, d.Stage, in, &res)
	case "api":
		err = runApi(w, d.Stage, in, &res, strings.Contains(c.Key, "pull-url-length"))
	case "rtmp-pull", "rtmp-push", "rtsp-pull", "flv-pull":
		err = runClient(w, d, in, &res)
	default:
		res.Other, res.OtherK = "unknown surface "+d.Surface, "harness"
		return
	}
	if err != nil {
		res.Hang = err.Error()
		return
	}
	if victim != nil {
		if victim.Closed() {
			res.Class = "closed"
		}
		victim.PeerClose()
		if err := w.Settle(); err != nil {
			res.Hang = "after close: " + err.Error()
			return
		}
	}
	if p := w.Net.FirstPanic(); p != "" {
		res.Panic = p
		return
	}
	// others are still served: a fresh publisher + player on the same server
	pl, err1 := w.RtmpPlayer("live", "probe")
	pb, err2 := w.RtmpPublisher("live", "probe")
	if err1 != nil || err2 != nil || !pl.Accepted() || !pb.Accepted() {
		res.Probe = fmt.Sprintf("healthy publisher/player not served afterwards: %v %v", err1, err2)
		return
	}
	m := sw.MakeMsg("aac", 7, 0, 16)
	pb.SendMsgs(ref.Msg{Csid: 4, Type: 8, Msid: 1, Ts: 0, Payload: m.Payload})
	if err := w.Settle(); err != nil {
		res.Hang = "probe: " + err.Error()
		return
	}
	got := false
	for _, x := range pl.Pump() {
		if x.Type == 8 && bytes.Equal(x.Payload, m.Payload) {
			got = true
		}
	}
	if !got {
		res.Probe = "healthy player did not receive the healthy publisher's message afterwards"
	}
	if p := w.Net.FirstPanic(); p != "" {
		res.Panic = p
	}
	return
}

// ---- WebSocket RTSP -----------------------------------------------------------------------------------------

func wsFrame(opcode byte, masked bool, payload []byte) []byte {
	b := []byte{0x80 | opcode}
	m := byte(0)
	if masked {
		m = 0x80
	}
	switch {
	case len(payload) < 126:
		b = append(b, m|byte(len(payload)))
	case len(payload) < 65536:
		b = append(b, m|126, byte(len(payload)>>8), byte(len(payload)))
	default:
		b = append(b, m|127, 0, 0, 0, 0, byte(len(payload)>>24), byte(len(payload)>>16), byte(len(payload)>>8), byte(len(payload)))
	}
	if masked {
		key := []byte{1, 2, 3, 4}
		b = append(b, key...)
		for i, x := range payload {
			b = append(b, x^key[i%4])
		}
		return b
	}
	return append(b, payload...)
}

func wsConn(w *world.W, stage string, in []byte, frag int) (*netsim.Conn, error) {
	c := w.Net.NewConn("ws")
	req, _ := http.NewRequest("GET", "http://h/live/s", nil)
	req.RemoteAddr = c.Remote
	if stage != "noupgrade" {
		req.Header.Set("Connection", "Upgrade")
		req.Header.Set("Upgrade", "websocket")
		req.Header.Set("Sec-WebSocket-Key", "dGhlIHNhbXBsZSBub25jZQ==")
	}
	hw := world.NewHijackWriter(c)
	w.Net.Go(c, func() { rtsp.VerifHandleWs(w.SM, rtsp.ServerAuthConfig{}, hw, req) })
	if err := w.Settle(); err != nil {
		return c, err
	}
	if stage == "announced" {
		reqB := ref.RtspRequest("ANNOUNCE", rtspUri, 1, map[string]string{"Content-Type": "application/sdp"}, sdpAV())
		c.Feed(wsFrame(2, true, reqB))
		if err := w.Settle(); err != nil {
			return c, err
		}
	}
	return c, feed(w, c, in, frag)
}

// ---- HTTP subscribers, HLS, API -------------------------------------------------------------------------------

func runHttp(w *world.W, stage string, in []byte, res *protox.Result) error {
	req, err := http.ReadRequest(bufio.NewReader(bytes.NewReader(in)))
	if err != nil {
		res.Class = "rejected-by-net/http"
		return nil
	}
	c := w.Net.NewConn("http")
	req.RemoteAddr = c.Remote
	if stage == "hls" {
		rec := httptest.NewRecorder()
		return guardHttp(w, res, func() { logic.VerifServeHls(w.SM, rec, req) })
	}
	hw := world.NewHijackWriter(c)
	w.Net.Go(c, func() {
		defer func() {
			if p := recover(); p != nil {
				res.Class = "handler-panic-recovered-by-net/http"
			}
		}()
		logic.VerifServeHttpSub(w.SM, hw, req)
	})
	if err := w.Settle(); err != nil {
		return err
	}
	c.PeerClose()
	return w.Settle()
}

func guardHttp(w *world.W, res *protox.Result, f func()) error {
	w.Net.Async(func() {
		defer func() {
			if p := recover(); p != nil {
				res.Class = "handler-panic-recovered-by-net/http"
			}
		}()
		f()
	})
	return w.Settle()
}

func countPs(w *world.W) int {
	n := 0
	for _, sg := range w.SM.StatAllGroup() {
		if strings.HasPrefix(sg.StatPub.SessionId, base.UkPrePsPubSession) {
			n++
		}
	}
	return n
}

func runApi(w *world.W, stage string, in []byte, res *protox.Result, acceptDials bool) error {
	h := logic.VerifApiHandler(w.SM)
	method := "POST"
	path := stage
	if i := strings.IndexByte(stage, ' '); i > 0 {
		method, path = stage[:i], stage[i+1:]
	}
	req, err := http.NewRequest(method, "http://h"+path, bytes.NewReader(in))
	if err != nil {
		res.Class = "rejected-by-net/http"
		return nil
	}
	rec := httptest.NewRecorder()
	w.Net.Async(func() {
		defer func() {
			if p := recover(); p != nil {
				res.Class = "handler-panic-recovered-by-net/http"
			}
		}()
		h.ServeHTTP(rec, req)
	})
	// an API call may have started GB28181 sessions (each leaves a goroutine reading its socket) and
	// relay pulls (pending dials): settle with whatever it started
	old := w.Net.QuiesceTimeout
	w.Net.QuiesceTimeout = 300 * time.Millisecond
	for i := 0; i < 60; i++ {
		w.PsExpected = countPs(w)
		if err = w.Settle(); err == nil {
			break
		}
	}
	w.Net.QuiesceTimeout = old
	if err != nil {
		return err
	}
	for _, sg := range w.SM.StatAllGroup() {
		if strings.HasPrefix(sg.StatPub.SessionId, base.UkPrePsPubSession) {
			w.SM.CtrlKickSession(base.ApiCtrlKickSessionReq{StreamName: sg.StreamName, SessionId: sg.StatPub.SessionId})
			w.PsExpected--
		}
	}
	for _, d := range w.PendingDials() {
		if acceptDials {
			d.Accept() // the upstream answers like a server: the client session gets to send its commands
		} else {
			d.Refuse()
		}
	}
	err = w.Settle()
	return err
}
