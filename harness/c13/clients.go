package main

import (
	"encoding/binary"
	"fmt"
	"regexp"
	"strings"
	"sync/atomic"

	"github.com/q191201771/lal/pkg/base"
	"github.com/q191201771/lal/pkg/httpflv"

	"verif/lib/netsim"
	"verif/lib/protox"
	"verif/lib/ref"
	"verif/lib/world"
)

// lal as a client: the upstream server is a scripted peer behind the gated dialer. Each stage answers
// the requests up to a point validly, then sends the hostile input in place of the next answer.

func amfCmd(name string, tid float64, rest ...ref.AVal) []byte {
	b := ref.AEncode(ref.AVal{Kind: ref.AString, Str: name})
	b = append(b, ref.AEncode(ref.AVal{Kind: ref.ANumber, Num: tid})...)
	for _, r := range rest {
		b = append(b, ref.AEncode(r)...)
	}
	return b
}

func aStr(s string) ref.AVal { return ref.AVal{Kind: ref.AString, Str: s} }
func aObj(kv ...string) ref.AVal {
	o := ref.AVal{Kind: ref.AObject}
	for i := 0; i+1 < len(kv); i += 2 {
		o.Pairs = append(o.Pairs, ref.APair{Key: kv[i], Val: aStr(kv[i+1])})
	}
	return o
}

var aNull = ref.AVal{Kind: ref.ANull}

func chunked(enc *ref.ChunkEncoder, csid int, typ uint8, msid uint32, payload []byte) []byte {
	b, _ := enc.Encode([]ref.Msg{{Csid: csid, Type: typ, Msid: msid, Payload: payload}}, ref.First)
	return b
}

func rtmpServerStages(role string) []string {
	return []string{"hs", "connected", "created", role + "-wait", role + "ing"}
}

// rtmpOriginTo walks the scripted RTMP origin up to the stage.
func rtmpOriginTo(w *world.W, c *netsim.Conn, role, stage string) (*ref.ChunkEncoder, error) {
	enc := ref.NewChunkEncoder(128)
	if stage == "hs" {
		return enc, nil
	}
	s := make([]byte, 1+1536+1536)
	s[0] = 3
	c.Feed(s)
	if err := w.Settle(); err != nil || stage == "connected" {
		return enc, err
	}
	c.Feed(chunked(enc, 3, 20, 0, amfCmd("_result", 1, aObj("fmsVer", "FMS/3,0,1,123"), aObj("level", "status", "code", "NetConnection.Connect.Success"))))
	if err := w.Settle(); err != nil || stage == "created" {
		return enc, err
	}
	c.Feed(chunked(enc, 3, 20, 0, amfCmd("_result", 2, aNull, ref.AVal{Kind: ref.ANumber, Num: 1})))
	if err := w.Settle(); err != nil || strings.HasSuffix(stage, "-wait") {
		return enc, err
	}
	code := "NetStream.Play.Start"
	if role == "publish" {
		code = "NetStream.Publish.Start"
	}
	c.Feed(chunked(enc, 5, 20, 1, amfCmd("onStatus", 0, aNull, aObj("level", "status", "code", code))))
	return enc, w.Settle()
}

var cseqRe = regexp.MustCompile(`(?i)CSeq:\s*(\d+)`)

func lastCseq(b []byte) string {
	m := cseqRe.FindAllSubmatch(b, -1)
	if len(m) == 0 {
		return "0"
	}
	return string(m[len(m)-1][1])
}

var rtspClientStages = []string{"options", "describe", "setup", "setup2", "play", "playing"}

func rtspResp(code int, cseq string, hdrs [][2]string, body []byte) []byte {
	var sb strings.Builder
	fmt.Fprintf(&sb, "RTSP/1.0 %d X\r\nCSeq: %s\r\n", code, cseq)
	for _, h := range hdrs {
		fmt.Fprintf(&sb, "%s: %s\r\n", h[0], h[1])
	}
	if body != nil {
		fmt.Fprintf(&sb, "Content-Length: %d\r\n", len(body))
	}
	sb.WriteString("\r\n")
	return append([]byte(sb.String()), body...)
}

// rtspOriginTo answers OPTIONS / DESCRIBE / SETUP x2 / PLAY validly up to the stage; returns the CSeq
// of the request the hostile input answers.
func rtspOriginTo(w *world.W, c *netsim.Conn, stage string) (string, error) {
	answers := []func(cseq string) []byte{
		func(q string) []byte {
			return rtspResp(200, q, [][2]string{{"Public", "OPTIONS, DESCRIBE, SETUP, PLAY"}}, nil)
		},
		func(q string) []byte {
			return rtspResp(200, q, [][2]string{{"Content-Type", "application/sdp"}, {"Content-Base", rtspUri + "/"}}, sdpAV())
		},
		func(q string) []byte {
			return rtspResp(200, q, [][2]string{{"Transport", "RTP/AVP/TCP;unicast;interleaved=0-1"}, {"Session", "12345678"}}, nil)
		},
		func(q string) []byte {
			return rtspResp(200, q, [][2]string{{"Transport", "RTP/AVP/TCP;unicast;interleaved=2-3"}, {"Session", "12345678"}}, nil)
		},
		func(q string) []byte { return rtspResp(200, q, [][2]string{{"Session", "12345678"}}, nil) },
	}
	var seen []byte
	for i, st := range rtspClientStages {
		seen = append(seen, c.Take()...)
		if st == stage {
			return lastCseq(seen), nil
		}
		if i < len(answers) {
			c.Feed(answers[i](lastCseq(seen)))
			if err := w.Settle(); err != nil {
				return "", err
			}
		}
	}
	return lastCseq(seen), nil
}

func runClient(w *world.W, d caseData, in []byte, res *protox.Result) error {
	stream := "s"
	switch d.Surface {
	case "rtmp-pull":
		w.SM.CtrlStartRelayPull(base.ApiCtrlStartRelayPullReq{Url: "rtmp://" + w.Host("origin") + "/live/" + stream, PullRetryNum: 0, AutoStopPullAfterNoOutMs: -1})
	case "rtsp-pull":
		w.SM.CtrlStartRelayPull(base.ApiCtrlStartRelayPullReq{Url: "rtsp://" + w.Host("origin") + "/live/" + stream, PullRetryNum: 0, AutoStopPullAfterNoOutMs: -1, RtspMode: 0})
	case "rtmp-push":
		if _, err := w.RtmpPublisher("live", stream); err != nil {
			return err
		}
	case "flv-pull":
		s := httpflv.NewPullSession()
		atomic.AddInt64(&w.ExtraGor, 1)
		w.Net.Async(func() {}) // (keeps the panic bookkeeping initialised)
		go func() {
			defer atomic.AddInt64(&w.ExtraGor, -1)
			if err := s.Pull("http://"+w.Host("origin")+"/live/s.flv", func(tag httpflv.Tag) {}); err != nil {
				return
			}
			<-s.WaitChan()
		}()
	}
	if err := w.Settle(); err != nil {
		return err
	}
	pend := w.PendingDials()
	if len(pend) != 1 {
		res.Other, res.OtherK = fmt.Sprintf("the client made %d connection attempts", len(pend)), "prefix"
		return nil
	}
	pend[0].Accept()
	c := pend[0].Conn
	if err := w.Settle(); err != nil {
		return err
	}
	var err error
	switch d.Surface {
	case "rtmp-pull":
		_, err = rtmpOriginTo(w, c, "play", d.Stage)
	case "rtmp-push":
		_, err = rtmpOriginTo(w, c, "publish", d.Stage)
	case "rtsp-pull":
		var q string
		q, err = rtspOriginTo(w, c, d.Stage)
		in = []byte(strings.ReplaceAll(string(in), "$CSEQ", q))
	case "flv-pull":
		c.Take()
		if d.Stage == "header" {
			c.Feed([]byte("HTTP/1.1 200 OK\r\nContent-Type: video/x-flv\r\nConnection: close\r\n\r\n"))
			err = w.Settle()
		} else if d.Stage == "tags" {
			c.Feed([]byte("HTTP/1.1 200 OK\r\nContent-Type: video/x-flv\r\n\r\nFLV\x01\x05\x00\x00\x00\x09\x00\x00\x00\x00"))
			err = w.Settle()
		}
	}
	if err != nil {
		return err
	}
	if err := feed(w, c, in, d.Frag); err != nil {
		return err
	}
	if c.Closed() {
		res.Class = "closed"
	}
	c.PeerClose()
	if err := w.Settle(); err != nil {
		return err
	}
	// whatever the client started afterwards (retries, redirects) is refused
	for i := 0; i < 4; i++ {
		p := w.PendingDials()
		if len(p) == 0 {
			break
		}
		for _, x := range p {
			x.Refuse()
		}
		if err := w.Settle(); err != nil {
			return err
		}
	}
	w.SM.CtrlStopRelayPull(stream)
	return w.Settle()
}

func rawChunk(f uint8, csid int, ts uint32, mlen uint32, typ uint8, msid uint32, body []byte) []byte {
	b := []byte{f<<6 | byte(csid)}
	if f <= 2 {
		b = append(b, byte(ts>>16), byte(ts>>8), byte(ts))
	}
	if f <= 1 {
		b = append(b, byte(mlen>>16), byte(mlen>>8), byte(mlen), typ)
	}
	if f == 0 {
		var m [4]byte
		binary.LittleEndian.PutUint32(m[:], msid)
		b = append(b, m[:]...)
	}
	return append(b, body...)
}

// wholeMsg: one message in well-formed chunks of 128 bytes (fmt 0 first, fmt 3 continuations).
func wholeMsg(csid int, typ uint8, msid uint32, body []byte) []byte {
	b := rawChunk(0, csid, 0, uint32(len(body)), typ, msid, nil)
	for off := 0; off < len(body); off += 128 {
		if off > 0 {
			b = append(b, 3<<6|byte(csid))
		}
		e := off + 128
		if e > len(body) {
			e = len(body)
		}
		b = append(b, body[off:e]...)
	}
	return b
}

func clientCases(quick bool) []protox.Case {
	var cs []protox.Case
	// ---- RTMP client (pull and push)
	for _, surf := range []string{"rtmp-pull", "rtmp-push"} {
		role := "play"
		if surf == "rtmp-push" {
			role = "publish"
		}
		for _, st := range rtmpServerStages(role) {
			if st == "hs" {
				s := make([]byte, 1+1536+1536)
				s[0] = 3
				for _, m := range []mut{{"hs", "empty", nil}, {"hs", "version 0", append([]byte{0}, s[1:]...)}, {"hs", "version 6", append([]byte{6}, s[1:]...)}, {"hs", "version 255", append([]byte{255}, s[1:]...)}, {"hs", "S0 only", s[:1]}, {"hs", "S0S1 only", s[:1537]}, {"hs", "one byte short", s[:len(s)-1]}, {"hs", "text", []byte("HTTP/1.1 400 Bad Request\r\n\r\n")}} {
					cs = append(cs, mk(surf, st, m.cls, m.desc, m.b, -1))
				}
				continue
			}
			// every message type id x small payloads
			payloads := [][]byte{{}, {0}, {0xff}, {0, 1}, {0, 0, 0, 0}, {0xff, 0xff, 0xff, 0xff}, {0, 6, 0, 0, 0, 1}, {2, 0, 1}, {2, 0, 7, '_', 'r', 'e', 's', 'u', 'l', 't'}}
			for typ := 0; typ < 256; typ++ {
				if quick && typ > 24 && typ%16 != 0 {
					continue
				}
				for pi, p := range payloads {
					if quick && pi > 3 && typ > 24 {
						continue
					}
					cs = append(cs, mk(surf, st, fmt.Sprintf("type/%d", typ), fmt.Sprintf("len%d", len(p)), rawChunk(0, 3, 0, uint32(len(p)), uint8(typ), 1, p), -1))
				}
			}
			// command answers truncated at every offset and with hostile fields
			cmds := map[string][]byte{
				"_result-connect": amfCmd("_result", 1, aObj("fmsVer", "x"), aObj("level", "status", "code", "NetConnection.Connect.Success")),
				"_result-create":  amfCmd("_result", 2, aNull, ref.AVal{Kind: ref.ANumber, Num: 1}),
				"onStatus":        amfCmd("onStatus", 0, aNull, aObj("level", "status", "code", "NetStream.Play.Start")),
				"onStatus-pub":    amfCmd("onStatus", 0, aNull, aObj("level", "status", "code", "NetStream.Publish.Start")),
				"_error":          amfCmd("_error", 1, aNull, aObj("level", "error", "code", "NetConnection.Connect.Rejected", "description", "[ AccessManager.Reject ] : [ code=403 need auth; authmod=adobe ] : ")),
				"_error-needauth": amfCmd("_error", 1, aNull, aObj("level", "error", "code", "NetConnection.Connect.Rejected", "description", "[ AccessManager.Reject ] : [ authmod=adobe ] : ?reason=needauth&user=&salt=abc&challenge=def&opaque=ghi")),
				"_error-2colons":  amfCmd("_error", 1, aNull, aObj("description", "a:b?reason=needauth")),
				"_error-nodesc":   amfCmd("_error", 1, aNull, aObj("level", "error")),
				"onBWDone":        amfCmd("onBWDone", 0, aNull),
				"unknown":         amfCmd("xyz", 0, aNull),
				"_result-tid99":   amfCmd("_result", 99, aNull),
				"_result-nocode":  amfCmd("_result", 1, aObj("a", "b"), aObj("level", "status")),
				"onStatus-noobj":  amfCmd("onStatus", 0, aNull),
				"onStatus-str":    amfCmd("onStatus", 0, aNull, aStr("NetStream.Play.Start")),
			}
			step := 1
			if quick {
				step = 3
			}
			for name, body := range cmds {
				cs = append(cs, mk(surf, st, "cmd/"+name, "", wholeMsg(3, 20, 1, body), -1))
				for _, m := range truncs(body, step) {
					cs = append(cs, mk(surf, st, "cmd-truncated/"+name, m.desc, rawChunk(0, 3, 0, uint32(len(m.b)), 20, 1, m.b), -1))
				}
				cs = append(cs, mk(surf, st, "cmd-amf3/"+name, "", rawChunk(0, 3, 0, uint32(len(body)+1), 17, 1, append([]byte{0}, body...)), -1))
			}
			// the description string of an _error is parsed further by the push client (Adobe-style
			// authentication challenge): the well-formed challenge cut at every offset, and every list of
			// <= 2 (thorough 3) items over {salt, challenge, opaque, user, x} x {k=v, k=, k, =v}
			if surf == "rtmp-push" {
				descr := func(d string) []byte {
					return amfCmd("_error", 1, aNull, aObj("level", "error", "code", "NetConnection.Connect.Rejected", "description", d))
				}
				full := "[ AccessManager.Reject ] : [ authmod=adobe ] : ?reason=needauth&user=&salt=abc&challenge=def&opaque=ghi"
				for cut := 0; cut <= len(full); cut++ {
					b := descr(full[:cut])
					cs = append(cs, mk(surf, st, "error-description/cut", fmt.Sprint(cut), wholeMsg(3, 20, 1, b), -1))
				}
				var items []string
				for _, k := range []string{"salt", "challenge", "opaque", "user", "x"} {
					items = append(items, k+"=v", k+"=", k, "=v")
				}
				maxItems := 2
				if !quick {
					maxItems = 3
				}
				var genI func(cur []string)
				genI = func(cur []string) {
					if len(cur) > 0 {
						b := descr("[ AccessManager.Reject ] : [ authmod=adobe ] : ?reason=needauth&user=&" + strings.Join(cur, "&"))
						cs = append(cs, mk(surf, st, "error-description/items", strings.Join(cur, "&"), wholeMsg(3, 20, 1, b), -1))
					}
					if len(cur) == maxItems {
						return
					}
					for _, it := range items {
						genI(append(append([]string{}, cur...), it))
					}
				}
				genI(nil)
			}
			for _, v := range []uint32{0, 1, 127, 128, 0x7fffffff, 0x80000000, 0xffffffff} {
				var p [4]byte
				binary.BigEndian.PutUint32(p[:], v)
				for _, typ := range []uint8{1, 2, 3, 5, 6} {
					cs = append(cs, mk(surf, st, fmt.Sprintf("control/%d", typ), fmt.Sprint(v), append(rawChunk(0, 2, 0, 4, typ, 0, p[:]), rawChunk(0, 3, 0, 3, 8, 1, []byte{0xaf, 1, 2})...), -1))
				}
			}
			for _, uc := range [][]byte{{}, {0}, {0, 6}, {0, 6, 0, 0}, {0, 6, 0, 0, 0, 1}, {0, 0, 0, 0, 0, 1}, {0xff, 0xff, 1, 2, 3, 4}} {
				cs = append(cs, mk(surf, st, "user-control", fmt.Sprintf("%x", uc), rawChunk(0, 2, 0, uint32(len(uc)), 4, 0, uc), -1))
			}
			// chunk framing
			for _, f := range []uint8{1, 2, 3} {
				cs = append(cs, mk(surf, st, fmt.Sprintf("fmt%d-first", f), "", rawChunk(f, 9, 0, 4, 20, 1, []byte{2, 0, 1, 'x'}), -1))
			}
			cs = append(cs, mk(surf, st, "huge-msglen", "", rawChunk(0, 3, 0, 0xffffff, 20, 1, []byte{2, 0, 1}), -1))
			cs = append(cs, mk(surf, st, "ext-ts", "", append(rawChunk(0, 3, 0xffffff, 3, 8, 1, nil), 0xff, 0xff, 0xff, 0xff, 0xaf, 1, 2), -1))
			// media towards a client
			for _, p := range [][]byte{{}, {0x17}, {0x17, 0}, {0x17, 0, 0, 0, 0}, {0x17, 1, 0, 0, 0, 0, 0, 0, 9, 0x65}, {0x1c, 0, 0, 0, 0}, {0x90, 'h', 'v', 'c', '1'}, {0xaf}, {0xaf, 0}, {0xaf, 0, 0x12}, {0xaf, 1}, {0x72}, {0x7e, 1}} {
				typ := uint8(9)
				if len(p) > 0 && (p[0] == 0xaf || p[0] == 0x72 || p[0] == 0x7e) {
					typ = 8
				}
				cs = append(cs, mk(surf, st, "media", fmt.Sprintf("%x", p), rawChunk(0, 6, 0, uint32(len(p)), typ, 1, p), -1))
			}
			for _, p := range [][]byte{{}, {2}, {2, 0}, {2, 0, 5, 'o'}, ref.AEncode(aStr("onMetaData")), append(ref.AEncode(aStr("|RtmpSampleAccess")), 1, 1), append(ref.AEncode(aStr("onMetaData")), 8, 0xff, 0xff, 0xff, 0xff)} {
				cs = append(cs, mk(surf, st, "data", fmt.Sprintf("%x", p), rawChunk(0, 6, 0, uint32(len(p)), 18, 1, p), -1))
			}
		}
	}
	// ---- RTSP client
	for _, st := range rtspClientStages {
		if st == "playing" {
			for _, ch := range []int{0, 1, 2, 3, 9} {
				for _, pk := range rtpAlphabet(false, true) {
					if len(pk.b) > 20 && ch > 0 {
						continue
					}
					cs = append(cs, mk("rtsp-pull", st, fmt.Sprintf("interleaved/ch%d/%s", ch, pk.cls), pk.desc, ref.Interleaved(ch, pk.b), -1))
				}
			}
			cs = append(cs, mk("rtsp-pull", st, "interleaved/cut", "", []byte{'$', 0, 0xff}, -1))
			cs = append(cs, mk("rtsp-pull", st, "server-request", "", []byte("OPTIONS * RTSP/1.0\r\nCSeq: 1\r\n\r\n"), -1))
			cs = append(cs, mk("rtsp-pull", st, "late-response", "", rtspResp(200, "$CSEQ", nil, nil), -1))
			continue
		}
		valid := rtspResp(200, "$CSEQ", [][2]string{{"Content-Type", "application/sdp"}, {"Transport", "RTP/AVP/TCP;unicast;interleaved=0-1"}, {"Session", "12345678;timeout=60"}, {"Public", "DESCRIBE"}}, sdpAV())
		hdrEnd := strings.Index(string(valid), "\r\n\r\n") + 4
		step := 1
		if quick {
			step = 4
		}
		for _, m := range truncs(valid[:hdrEnd], step) {
			cs = append(cs, mk("rtsp-pull", st, "resp-truncated", m.desc, m.b, -1))
		}
		for _, m := range flips(valid, 24, 2) {
			cs = append(cs, mk("rtsp-pull", st, "resp-byte", m.desc, m.b, -1))
		}
		for _, code := range []int{100, 200, 201, 301, 302, 400, 401, 404, 454, 461, 500, 0, 99999} {
			cs = append(cs, mk("rtsp-pull", st, "status", fmt.Sprint(code), rtspResp(code, "$CSEQ", nil, nil), -1))
			cs = append(cs, mk("rtsp-pull", st, "status+sdp", fmt.Sprint(code), rtspResp(code, "$CSEQ", [][2]string{{"Content-Type", "application/sdp"}}, sdpAV()), -1))
		}
		for _, a := range []string{"", "Basic", "Basic realm=\"r\"", "Digest", "Digest realm", "Digest realm=\"r\"", "Digest nonce=\"n\"", "Digest realm=\"r\", nonce=\"n\"", "Digest realm=\"r\", nonce=\"n\", algorithm=\"SHA-256\"", "Digest realm=\"", "Digest " + strings.Repeat("x=\"y\",", 3000), "Unknown x"} {
			cs = append(cs, mk("rtsp-pull", st, "www-authenticate", clip(a), rtspResp(401, "$CSEQ", [][2]string{{"WWW-Authenticate", a}}, nil), -1))
		}
		for _, t := range hostileTransports {
			cs = append(cs, mk("rtsp-pull", st, "transport", clip(t), rtspResp(200, "$CSEQ", [][2]string{{"Transport", t}, {"Session", "1"}}, nil), -1))
		}
		for _, sess := range []string{"", ";", ";timeout=", "x;timeout=abc", strings.Repeat("9", 5000)} {
			cs = append(cs, mk("rtsp-pull", st, "session", clip(sess), rtspResp(200, "$CSEQ", [][2]string{{"Session", sess}, {"Transport", "RTP/AVP/TCP;unicast;interleaved=0-1"}}, nil), -1))
		}
		for _, q := range []string{"", "0", "999", "-1", "abc"} {
			cs = append(cs, mk("rtsp-pull", st, "cseq", q, rtspResp(200, q, [][2]string{{"Content-Type", "application/sdp"}}, sdpAV()), -1))
		}
		for _, cl := range []string{"-1", "0", "1", "99999999999", "abc"} {
			cs = append(cs, mk("rtsp-pull", st, "content-length", cl, []byte("RTSP/1.0 200 OK\r\nCSeq: $CSEQ\r\nContent-Type: application/sdp\r\nContent-Length: "+cl+"\r\n\r\nv=0\r\n"), -1))
		}
		for _, g := range []string{"\r\n\r\n", "RTSP/1.0\r\n\r\n", "RTSP/1.0 200\r\n\r\n", "200 OK\r\n\r\n", "HTTP/1.1 200 OK\r\n\r\n", "RTSP/1.0 abc OK\r\nCSeq: $CSEQ\r\n\r\n", "RTSP/1.0 200 OK\r\nCSeq\r\n\r\n", strings.Repeat("A", 70000) + "\r\n\r\n"} {
			cs = append(cs, mk("rtsp-pull", st, "garbage", clip(g), []byte(g), -1))
		}
		if st == "describe" {
			for _, m := range sdpAlphabet(quick) {
				cs = append(cs, mk("rtsp-pull", st, "sdp-"+m.cls, m.desc, rtspResp(200, "$CSEQ", [][2]string{{"Content-Type", "application/sdp"}, {"Content-Base", rtspUri + "/"}}, m.b), -1))
			}
			for _, cb := range []string{"", "x", "rtsp://", "rtsp://h:99999/", strings.Repeat("c", 70000)} {
				cs = append(cs, mk("rtsp-pull", st, "content-base", clip(cb), rtspResp(200, "$CSEQ", [][2]string{{"Content-Type", "application/sdp"}, {"Content-Base", cb}}, sdpAV()), -1))
			}
		}
	}
	// ---- HTTP-FLV client
	flvHdr := []byte("FLV\x01\x05\x00\x00\x00\x09\x00\x00\x00\x00")
	tag := func(typ byte, size int, ts uint32, data []byte, prev uint32) []byte {
		b := []byte{typ, byte(size >> 16), byte(size >> 8), byte(size), byte(ts >> 16), byte(ts >> 8), byte(ts), byte(ts >> 24), 0, 0, 0}
		b = append(b, data...)
		return append(b, byte(prev>>24), byte(prev>>16), byte(prev>>8), byte(prev))
	}
	okHdr := "HTTP/1.1 200 OK\r\nContent-Type: video/x-flv\r\n\r\n"
	for _, h := range []string{"", "\r\n", "\r\n\r\n", "HTTP/1.1\r\n\r\n", "HTTP/1.1 200\r\n\r\n", "200 OK\r\n\r\n", "HTTP/1.1 abc OK\r\n\r\n", "HTTP/1.1 404 Not Found\r\n\r\n", "HTTP/1.1 302 Found\r\n\r\n", "HTTP/1.1 302 Found\r\nLocation: \r\n\r\n", "HTTP/1.1 302 Found\r\nLocation: x\r\n\r\n",
		"HTTP/1.1 301 Moved\r\nLocation: http://$W-origin:1935/live/s.flv\r\n\r\n", "HTTP/1.1 302 Found\r\nLocation: https://h/\r\n\r\n", "HTTP/1.1 200 OK\r\nX\r\n\r\n", "HTTP/1.1 200 OK\r\n: y\r\n\r\n", "HTTP/1.1 200 OK\r\n" + strings.Repeat("X: y\r\n", 20000) + "\r\n", "HTTP/1.1 200 OK\r\nX: " + strings.Repeat("y", 200000) + "\r\n\r\n", "HTTP/1.1 200 OK\nX: y\n\n", okHdr[:len(okHdr)-2]} {
		cs = append(cs, mk("flv-pull", "status", "http", clip(h), []byte(h), -1))
		cs = append(cs, mk("flv-pull", "status", "http+flv", clip(h), append([]byte(h), flvHdr...), -1))
	}
	for _, m := range truncs(flvHdr, 1) {
		cs = append(cs, mk("flv-pull", "header", "flvheader-truncated", m.desc, m.b, -1))
	}
	for _, m := range flips(flvHdr, 13, 1) {
		cs = append(cs, mk("flv-pull", "header", "flvheader-byte", m.desc, append(m.b, tag(9, 5, 0, []byte{0x17, 0, 0, 0, 0}, 16)...), -1))
	}
	valid := tag(9, 5, 0, []byte{0x17, 0, 0, 0, 0}, 16)
	for _, m := range truncs(valid, 1) {
		cs = append(cs, mk("flv-pull", "tags", "tag-truncated", m.desc, m.b, -1))
	}
	for _, m := range flips(valid, len(valid), 1) {
		cs = append(cs, mk("flv-pull", "tags", "tag-byte", m.desc, append(m.b, valid...), -1))
	}
	for _, sz := range []int{0, 1, 0xffffff, 0x800000} {
		for _, typ := range []byte{8, 9, 18, 0, 0xff} {
			cs = append(cs, mk("flv-pull", "tags", "tag-size", fmt.Sprintf("type %d size %d", typ, sz), tag(typ, sz, 0, []byte{1, 2, 3}, 0), -1))
		}
	}
	return cs
}
