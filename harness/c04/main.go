// C04 — no byte sequence from an RTMP peer can terminate the server.
// Family (I)+(S): protocol stages (valid canonical prefixes from the reference codec) x an
// exhaustive mutation alphabet for the next message(s) x fragmentations, each case executed on a
// real ServerManager / rtmp.Server session in a worker subprocess; afterwards a healthy publisher
// and player on the SAME server must still work.
package main

import (
	"bytes"
	"encoding/binary"
	"encoding/hex"
	"encoding/json"
	"fmt"
	"os"
	"strings"
	"time"

	"verif/lib/lalenv"
	"verif/lib/protox"
	"verif/lib/ref"
	"verif/lib/sw"
	"verif/lib/vk"
	"verif/lib/world"
)

type caseData struct {
	Stage string `json:"stage"`
	Hex   string `json:"hex,omitempty"`
	Gen   string `json:"gen,omitempty"` // generated input: nest:<family>:<depth>
	Frag  int    `json:"frag"`          // -1 whole, 0 byte-wise, k>0 two writes split at k
	Desc  string `json:"desc"`
}

var stages = []string{"fresh", "c0c1", "handshaken", "connected", "created", "publishing", "playing", "pubsub"}

func c0c1() []byte {
	b := make([]byte, 1+1536)
	b[0] = 3
	for i := 9; i < len(b); i++ {
		b[i] = byte(i)
	}
	return b
}

func amf(vals ...ref.AVal) []byte {
	var b []byte
	for _, v := range vals {
		b = append(b, ref.AEncode(v)...)
	}
	return b
}
func s(x string) ref.AVal  { return ref.AVal{Kind: ref.AString, Str: x} }
func n(x float64) ref.AVal { return ref.AVal{Kind: ref.ANumber, Num: x} }

var null = ref.AVal{Kind: ref.ANull}

func connectObj() ref.AVal {
	return ref.AVal{Kind: ref.AObject, Pairs: []ref.APair{{"app", s("live")}, {"tcUrl", s("rtmp://h/live")}, {"objectEncoding", n(0)}}}
}

// rawChunk builds one chunk with an arbitrary header.
func rawChunk(f uint8, csid int, ts uint32, mlen uint32, typ uint8, msid uint32, ext bool, extv uint32, body []byte) []byte {
	var b []byte
	switch {
	case csid >= 2 && csid <= 63:
		b = []byte{f<<6 | byte(csid)}
	case csid < 320:
		b = []byte{f << 6, byte(csid - 64)}
	default:
		b = []byte{f<<6 | 1, byte(csid - 64), byte((csid - 64) >> 8)}
	}
	if f <= 2 {
		b = append(b, byte(ts>>16), byte(ts>>8), byte(ts))
	}
	if f <= 1 {
		b = append(b, byte(mlen>>16), byte(mlen>>8), byte(mlen), typ)
	}
	if f == 0 {
		var t [4]byte
		binary.LittleEndian.PutUint32(t[:], msid)
		b = append(b, t[:]...)
	}
	if ext {
		var t [4]byte
		binary.BigEndian.PutUint32(t[:], extv)
		b = append(b, t[:]...)
	}
	return append(b, body...)
}

// msgBytes chunk-encodes one message canonically (chunk size 128).
func msgBytes(csid int, typ uint8, msid uint32, ts uint32, payload []byte) []byte {
	e := ref.NewChunkEncoder(128)
	b, _ := e.Encode([]ref.Msg{{Csid: csid, Type: typ, Msid: msid, Ts: ts, Payload: payload}}, ref.First)
	return b
}

// stagePrefixTail: nothing (the stage prefix itself is sent by the runner).
func stagePrefixTail(stage string) []byte { return nil }

func stagePrefix(stage string) (pre []byte) {
	cmds := [][]byte{
		msgBytes(3, 20, 0, 0, amf(s("connect"), n(1), connectObj())),
		msgBytes(3, 20, 0, 0, amf(s("createStream"), n(2), null)),
	}
	switch stage {
	case "fresh":
		return nil
	case "c0c1":
		return c0c1()
	}
	pre = append(c0c1(), make([]byte, 1536)...)
	switch stage {
	case "connected":
		pre = append(pre, cmds[0]...)
	case "created":
		pre = append(append(pre, cmds[0]...), cmds[1]...)
	case "publishing", "pubsub":
		pre = append(append(pre, cmds[0]...), cmds[1]...)
		pre = append(pre, msgBytes(4, 20, 1, 0, amf(s("publish"), n(3), null, s("victim"), s("live")))...)
	case "playing":
		pre = append(append(pre, cmds[0]...), cmds[1]...)
		pre = append(pre, msgBytes(4, 20, 1, 0, amf(s("play"), n(3), null, s("victim")))...)
	}
	return pre
}

func genInput(gen string) []byte {
	p := strings.Split(gen, ":")
	if p[0] == "nest" {
		var depth int
		fmt.Sscanf(p[2], "%d", &depth)
		unit := map[string][]byte{"object": {3, 0, 0}, "ecma": {8, 0, 0, 0, 1, 0, 0}, "strict": {0x0a, 0, 0, 0, 1}, "alt": {3, 0, 0, 0x0a, 0, 0, 0, 1}, "kstrict": {0x0a, 0, 0, 0, 1}, "kecma-strict": {0x0a, 0, 0, 0, 1}}[p[1]]
		body := amf(s("connect"), n(1))
		if len(p) > 3 && p[3] == "meta" {
			body = amf(s("onMetaData"))
		}
		switch p[1] {
		case "kstrict": // an object whose one property holds the chain of strict arrays
			body = append(body, 3, 0, 1, 'k')
		case "kecma-strict": // the same inside an ECMA array
			body = append(body, 8, 0, 0, 0, 1, 0, 1, 'k')
		}
		for i := 0; i < depth; i++ {
			body = append(body, unit...)
		}
		typ := uint8(20)
		if len(p) > 3 && p[3] == "meta" {
			typ = 18
		}
		// one fmt0 chunk header + fmt3 continuation headers with the default chunk size 128
		e := ref.NewChunkEncoder(128)
		// raise the chunk size first so that 16 MiB does not need 130k headers
		var v [4]byte
		binary.BigEndian.PutUint32(v[:], 1<<24)
		out, _ := e.Encode([]ref.Msg{{Csid: 2, Type: 1, Msid: 0, Payload: v[:]}, {Csid: 3, Type: typ, Msid: 1, Payload: body}}, ref.First)
		return out
	}
	return nil
}

func runCase(c protox.Case) (res protox.Result) {
	var d caseData
	json.Unmarshal(c.Data, &d)
	w := world.New(world.Conf{"log.assert_behavior": 3})
	w.Net.QuiesceTimeout = 20 * time.Second
	defer w.Close()
	var healthySub *world.RtmpPeer
	if d.Stage == "pubsub" {
		healthySub, _ = w.RtmpPlayer("live", "victim")
	}
	victim := w.NewRawRtmpConn()
	victim.Feed(stagePrefix(d.Stage))
	if err := w.Settle(); err != nil {
		res.Hang = "prefix: " + err.Error()
		return
	}
	in := genInput(d.Gen)
	if d.Hex != "" {
		in, _ = hex.DecodeString(d.Hex)
	}
	switch {
	case d.Frag < 0:
		victim.Feed(in)
	case d.Frag == 0:
		for i := range in {
			victim.Feed(in[i : i+1])
			if i%64 == 63 {
				if err := w.Settle(); err != nil {
					res.Hang = err.Error()
					return
				}
			}
		}
	default:
		k := d.Frag
		if k > len(in) {
			k = len(in)
		}
		victim.Feed(in[:k])
		if err := w.Settle(); err != nil {
			res.Hang = err.Error()
			return
		}
		victim.Feed(in[k:])
	}
	if err := w.Settle(); err != nil {
		res.Hang = err.Error()
		return
	}
	res.Class = "served"
	if victim.Closed() {
		res.Class = "closed"
	}
	victim.PeerClose()
	if err := w.Settle(); err != nil {
		res.Hang = "after close: " + err.Error()
		return
	}
	if p := w.Net.FirstPanic(); p != "" {
		res.Panic = p
		return
	}
	// others still served: a fresh publisher + player on the same server
	pl, err1 := w.RtmpPlayer("live", "probe")
	pb, err2 := w.RtmpPublisher("live", "probe")
	if err1 != nil || err2 != nil || !pl.Accepted() || !pb.Accepted() {
		res.Probe = fmt.Sprintf("healthy publisher/player not served afterwards: %v %v", err1, err2)
		return
	}
	m := sw.MakeMsg("aac", 7, 0, 16)
	pb.SendMsgs(ref.Msg{Csid: 4, Type: 8, Msid: 1, Ts: 0, Payload: m.Payload})
	if err := w.Settle(); err != nil {
		res.Hang = "probe: " + err.Error()
		return
	}
	got := false
	for _, x := range pl.Pump() {
		if x.Type == 8 && string(x.Payload) == string(m.Payload) {
			got = true
		}
	}
	if !got {
		res.Probe = "healthy player did not receive the healthy publisher's message afterwards"
	}
	if p := w.Net.FirstPanic(); p != "" {
		res.Panic = p
	}
	if healthySub != nil && healthySub.Conn.Closed() {
		res.Other = "the hostile publisher's departure closed a subscriber connection"
		res.OtherK = "subscriber-closed"
	}
	return
}

func mkCase(stage, cls, desc string, in []byte, frag int) protox.Case {
	d, _ := json.Marshal(caseData{Stage: stage, Hex: hex.EncodeToString(in), Frag: frag, Desc: desc})
	return protox.Case{Key: stage + "/" + cls, Data: d}
}

func validCommands() map[string][]byte {
	return map[string][]byte{
		"connect":       amf(s("connect"), n(1), connectObj()),
		"createStream":  amf(s("createStream"), n(2), null),
		"publish":       amf(s("publish"), n(3), null, s("v2"), s("live")),
		"play":          amf(s("play"), n(3), null, s("v2")),
		"releaseStream": amf(s("releaseStream"), n(2), null, s("v2")),
		"FCPublish":     amf(s("FCPublish"), n(3), null, s("v2")),
		"deleteStream":  amf(s("deleteStream"), n(4), null, n(1)),
		"unknowncmd":    amf(s("xyz"), n(4), null),
	}
}

func buildCases(r *vk.Run) []protox.Case {
	var cs []protox.Case
	quick := r.Quick()
	stg := stages
	// (i) every message type id x small payloads x header format x csid form
	payloads := [][]byte{{}, {0}, {0xff}, {0, 1}, {0, 0, 0}, {1, 2, 3, 4}, {0xff, 0xff, 0xff, 0xff, 0xff}, {0, 6, 0, 0, 0, 1}, make([]byte, 11)}
	for _, st := range stg {
		for typ := 0; typ < 256; typ++ {
			if quick && typ > 24 && typ%16 != 0 {
				continue
			}
			for pi, p := range payloads {
				for _, f := range []uint8{0, 1, 2, 3} {
					if f != 0 && (quick || pi > 3) {
						continue
					}
					for _, csid := range []int{3, 64, 320} {
						if csid != 3 && (quick || pi > 1) {
							continue
						}
						in := rawChunk(f, csid, 0, uint32(len(p)), uint8(typ), 1, false, 0, p)
						cs = append(cs, mkCase(st, fmt.Sprintf("type/%d/len%d/f%d", typ, len(p), f), "", in, -1))
					}
				}
			}
		}
	}
	// (ii) valid commands truncated at every offset (as a shorter message), mutated fields, and the
	// stream cut at every byte
	cmdStages := []string{"handshaken", "connected", "created", "publishing", "playing"}
	for name, body := range validCommands() {
		for _, st := range cmdStages {
			if quick && st != "handshaken" && st != "created" && st != "publishing" {
				continue
			}
			for cut := 0; cut <= len(body); cut++ {
				cs = append(cs, mkCase(st, "cmd-truncated/"+name, fmt.Sprint(cut), msgBytes(3, 20, 1, 0, body[:cut]), -1))
				cs = append(cs, mkCase(st, "cmd17-truncated/"+name, fmt.Sprint(cut), msgBytes(3, 17, 1, 0, body[:cut]), -1))
			}
			full := msgBytes(3, 20, 1, 0, body)
			for cut := 1; cut < len(full); cut++ {
				if quick && cut%3 != 0 {
					continue
				}
				cs = append(cs, mkCase(st, "stream-cut/"+name, fmt.Sprint(cut), full[:cut], -1))
			}
			for off := 0; off < len(body); off++ {
				for _, v := range [][]byte{{0xff}, {0xff, 0xff}, {0xff, 0xff, 0xff, 0xff}, {0, 0}, {0x7f, 0xff, 0xff, 0xff}} {
					if off+len(v) > len(body) {
						continue
					}
					m := append([]byte{}, body...)
					copy(m[off:], v)
					cs = append(cs, mkCase(st, "cmd-mutated/"+name, fmt.Sprintf("%d:%x", off, v), msgBytes(3, 20, 1, 0, m), -1))
				}
			}
		}
	}
	// protocol control / data messages at their length extremes
	for _, st := range stg[2:] {
		for _, typ := range []uint8{1, 2, 3, 4, 5, 6, 18, 22} {
			for l := 0; l <= 12; l++ {
				for _, fill := range []byte{0, 0xff, 0x02} {
					p := make([]byte, l)
					for i := range p {
						p[i] = fill
					}
					cs = append(cs, mkCase(st, fmt.Sprintf("ctl/%d/len%d", typ, l), fmt.Sprintf("%x", fill), msgBytes(2, typ, 0, 0, p), -1))
				}
			}
		}
		for _, v := range []uint32{0, 1, 128, 1<<31 - 1, 1 << 31, 1<<32 - 1} {
			var b [4]byte
			binary.BigEndian.PutUint32(b[:], v)
			follow := msgBytes(3, 20, 1, 0, validCommands()["createStream"])
			cs = append(cs, mkCase(st, "set-chunk-size", fmt.Sprint(v), append(msgBytes(2, 1, 0, 0, b[:]), follow...), -1))
		}
		// chunk header extremes: huge message length, extended timestamps, fmt1-3 on a fresh csid
		cs = append(cs, mkCase(st, "hdr/len-max", "", rawChunk(0, 5, 0, 0xFFFFFF, 9, 1, false, 0, make([]byte, 200)), -1))
		cs = append(cs, mkCase(st, "hdr/ext-ts", "", rawChunk(0, 5, 0xFFFFFF, 4, 9, 1, true, 0xFFFFFFFF, []byte{0x17, 1, 0, 0}), -1))
		for f := uint8(1); f <= 3; f++ {
			cs = append(cs, mkCase(st, fmt.Sprintf("hdr/fresh-csid-f%d", f), "", rawChunk(f, 9, 5, 4, 9, 1, false, 0, []byte{0x17, 1, 0, 0}), -1))
		}
		// aggregate messages: well-formed, truncated sub header, sub length past the end
		sub := ref.Msg{Type: 9, Ts: 10, Payload: []byte{0x27, 1, 0, 0, 0}}
		agg := ref.BuildAggregate(5, 1, []ref.Msg{sub, sub})
		for cut := 0; cut <= len(agg.Payload); cut++ {
			cs = append(cs, mkCase(st, "aggregate-truncated", fmt.Sprint(cut), msgBytes(5, 22, 1, 0, agg.Payload[:cut]), -1))
		}
		bad := append([]byte{}, agg.Payload...)
		bad[1], bad[2], bad[3] = 0xff, 0xff, 0xff
		cs = append(cs, mkCase(st, "aggregate-sublen-max", "", msgBytes(5, 22, 1, 0, bad), -1))
	}
	// media before / without the right role, and empty media payloads
	for _, st := range stg[2:] {
		for _, typ := range []uint8{8, 9, 18} {
			for _, p := range [][]byte{{}, {0x17}, {0xaf}, {0x17, 0}, {0xaf, 0}, {0x17, 1, 0, 0, 0}, amf(s("@setDataFrame"), s("onMetaData"), connectObj()), amf(s("|RtmpSampleAccess"))} {
				cs = append(cs, mkCase(st, fmt.Sprintf("media/%d/len%d", typ, len(p)), "", msgBytes(6, typ, 1, 0, p), -1))
			}
		}
	}
	// (iv) raw byte strings: all of length <= 2, and <= 3/4 over the reduced alphabet
	for _, st := range []string{"fresh", "c0c1", "handshaken", "connected", "publishing", "playing"} {
		if quick && st != "handshaken" && st != "fresh" && st != "publishing" {
			continue
		}
		for a := 0; a < 256; a++ {
			cs = append(cs, mkCase(st, "raw1", "", []byte{byte(a)}, -1))
			if !quick {
				for b := 0; b < 256; b++ {
					cs = append(cs, mkCase(st, "raw2", "", []byte{byte(a), byte(b)}, -1))
				}
			}
		}
		alpha := []byte{0x00, 0x01, 0x02, 0x03, 0x05, 0x08, 0x09, 0x0a, 0x0c, 0x11, 0x14, 0xff}
		maxL := 3
		if !quick {
			maxL = 4
		}
		var rec func(cur []byte)
		rec = func(cur []byte) {
			if len(cur) >= 2 {
				cs = append(cs, mkCase(st, fmt.Sprintf("raw-alpha%d", len(cur)), "", append([]byte{}, cur...), -1))
			}
			if len(cur) == maxL {
				return
			}
			for _, x := range alpha {
				rec(append(cur, x))
			}
		}
		rec(nil)
	}
	// (v) handshake: every C0, C1 truncated at coarse offsets and byte-wise near the ends
	for c0 := 0; c0 < 256; c0++ {
		h := c0c1()
		h[0] = byte(c0)
		cs = append(cs, mkCase("fresh", "c0", fmt.Sprint(c0), append(h, make([]byte, 1536)...), -1))
	}
	for _, cut := range []int{0, 1, 2, 8, 9, 10, 100, 1535, 1536, 1537, 1538, 3000, 3072, 3073} {
		full := append(c0c1(), make([]byte, 1536)...)
		if cut <= len(full) {
			cs = append(cs, mkCase("fresh", "handshake-cut", fmt.Sprint(cut), full[:cut], -1))
		}
	}
	// (v') complex handshake (non-zero version field): the digest position inside C1 is computed from
	// four bytes the peer chooses, for either schema; every value of their sum 0..1020
	{
		vers := [][]byte{{0x80, 0x00, 0x07, 0x02}}
		if !quick {
			vers = append(vers, []byte{0, 0, 0, 1}, []byte{0xff, 0xff, 0xff, 0xff})
		}
		for _, ver := range vers {
			for _, at := range []int{8, 772} {
				for sum := 0; sum <= 1020; sum++ {
					h := c0c1()
					copy(h[1+4:], ver)
					left := sum
					for k := 0; k < 4; k++ {
						x := left
						if x > 255 {
							x = 255
						}
						h[1+at+k] = byte(x)
						left -= x
					}
					cs = append(cs, mkCase("fresh", "complex-handshake", fmt.Sprintf("ver %x offset bytes at %d sum %d", ver, at, sum), append(h, make([]byte, 1536)...), -1))
				}
			}
		}
	}
	// (vi') a message left in progress on a chunk stream (first chunk of a longer message), then a new
	// message header on the same chunk stream that announces every smaller / equal / larger length, in
	// header formats 0 and 1, followed by a full chunk of data
	for _, st := range []string{"handshaken", "publishing"} {
		for _, have := range []int{1, 127, 128} {
			first := rawChunk(0, 3, 0, 300, 20, 0, false, 0, make([]byte, have))
			if have < 128 {
				first = rawChunk(0, 3, 0, uint32(have+200), 20, 0, false, 0, make([]byte, have))
			}
			for _, f := range []uint8{0, 1} {
				for _, l := range []int{0, 1, have - 1, have, have + 1, 127, 128, 129, 299, 300, 301} {
					if l < 0 {
						continue
					}
					// (a whole chunk of data follows whatever the header says: the reader decides how much of it
					// belongs to the message)
					second := rawChunk(f, 3, 0, uint32(l), 20, 0, false, 0, make([]byte, 128))
					cs = append(cs, mkCase(st, "msglen-changes-mid-message", fmt.Sprintf("have %d then fmt%d len %d", have, f, l), append(append(stagePrefixTail(st), first...), second...), -1))
				}
			}
		}
	}
	// (vi'') the same with the data the second header announces: the new length is larger than what was
	// reserved for the message in progress, and every continuation chunk up to that length (and two more)
	// follows; also with a Set Chunk Size in between, after which the new length arrives in one chunk
	for _, st := range []string{"handshaken", "publishing"} {
		for _, have := range []int{1, 128} {
			first := rawChunk(0, 3, 0, 300, 20, 0, false, 0, make([]byte, have))
			if have < 128 {
				first = rawChunk(0, 3, 0, uint32(have+200), 20, 0, false, 0, make([]byte, have))
			}
			for _, f := range []uint8{0, 1} {
				for _, l := range []int{301, 1000, 4095, 4096, 4097, 8192, 70000} {
					in := append(append(stagePrefixTail(st), first...), rawChunk(f, 3, 0, uint32(l), 20, 0, false, 0, make([]byte, 128))...)
					for n := 0; n < (l+127)/128+2; n++ {
						in = append(in, rawChunk(3, 3, 0, 0, 0, 0, false, 0, make([]byte, 128))...)
					}
					cs = append(cs, mkCase(st, "msglen-grows-mid-message", fmt.Sprintf("have %d then fmt%d len %d and all its chunks", have, f, l), in, -1))
					var v [4]byte
					binary.BigEndian.PutUint32(v[:], 1<<16)
					in2 := append(append(stagePrefixTail(st), first...), msgBytes(2, 1, 0, 0, v[:])...)
					big := l
					if big > 1<<16 {
						big = 1 << 16
					}
					in2 = append(in2, rawChunk(f, 3, 0, uint32(l), 20, 0, false, 0, make([]byte, big))...)
					in2 = append(in2, rawChunk(3, 3, 0, 0, 0, 0, false, 0, make([]byte, 1<<16))...)
					cs = append(cs, mkCase(st, "msglen-grows-mid-message+chunksize", fmt.Sprintf("have %d, set chunk size 65536, fmt%d len %d", have, f, l), in2, -1))
				}
			}
		}
	}
	// (vii) fragmentation: the canonical publish session cut at every offset / byte-wise
	{
		full := stagePrefix("publishing")[1+1536+1536:]
		full = append(full, msgBytes(6, 9, 1, 0, sw.MakeMsg("vsh", 1, 0, 0).Payload)...)
		full = append(full, msgBytes(6, 9, 1, 40, sw.MakeMsg("key", 2, 40, 300).Payload)...)
		step := 1
		if quick {
			step = 7
		}
		for k := 1; k < len(full); k += step {
			cs = append(cs, mkCase("handshaken", "fragment-cut", fmt.Sprint(k), full, k))
		}
		cs = append(cs, mkCase("handshaken", "fragment-bytewise", "", full, 0))
	}
	// (iii) AMF nesting, inside connect and inside metadata of a publisher
	for _, fam := range []string{"object", "ecma", "strict", "alt", "kstrict", "kecma-strict"} {
		for _, depth := range []int{1, 8, 63, 64, 65, 1000, 100000} {
			d, _ := json.Marshal(caseData{Stage: "handshaken", Gen: fmt.Sprintf("nest:%s:%d", fam, depth), Frag: -1})
			cs = append(cs, protox.Case{Key: "handshaken/nest-connect/" + fam, Data: d})
			d, _ = json.Marshal(caseData{Stage: "publishing", Gen: fmt.Sprintf("nest:%s:%d:meta", fam, depth), Frag: -1})
			cs = append(cs, protox.Case{Key: "publishing/nest-metadata/" + fam, Data: d})
		}
		max := (1<<24 - 64) / map[string]int{"object": 3, "ecma": 7, "strict": 5, "alt": 8, "kstrict": 5, "kecma-strict": 5}[fam]
		d, _ := json.Marshal(caseData{Stage: "handshaken", Gen: fmt.Sprintf("nest:%s:%d", fam, max), Frag: -1})
		cs = append(cs, protox.Case{Key: "handshaken/nest-connect-16MiB/" + fam, Data: d})
		d, _ = json.Marshal(caseData{Stage: "publishing", Gen: fmt.Sprintf("nest:%s:%d:meta", fam, max), Frag: -1})
		cs = append(cs, protox.Case{Key: "publishing/nest-metadata-16MiB/" + fam, Data: d})
	}
	// (iii') AMF values cut short exactly at the end of the receive buffer: the chunk stream's message
	// buffer has a capacity of a power of two (at least 128, 4096 when the chunk stream is new), and a
	// decoder that looks ahead without checking the length reads into the spare capacity - harmless until
	// the message ends where the capacity ends. Every tail (type marker x 0..8 following bytes x 4 byte
	// patterns) at the top level, as an object property and as an ECMA-array element, padded so that
	// the message is 0..4 bytes shorter than each power of two 128..4096; inside connect (fresh chunk
	// stream), inside a later command (used chunk stream) and inside a publisher's metadata.
	{
		pats := [][]byte{{0, 0, 0, 0}, {0xff, 0xff, 0xff, 0xff}, {0, 0, 0, 1}, {0, 1, 0x61, 2}}
		var tails [][]byte
		for marker := 0; marker <= 0x11; marker++ {
			for l := 0; l <= 8; l++ {
				for pi, pt := range pats {
					if l == 0 && pi > 0 {
						continue
					}
					t := []byte{byte(marker)}
					for i := 0; i < l; i++ {
						t = append(t, pt[i%4])
					}
					tails = append(tails, t)
				}
			}
		}
		pad := func(head []byte, tail []byte, total int) []byte { // head + string property "p" of the right size + tail
			n := total - len(head) - len(tail) - 6 // 00 01 'p' 02 hi lo
			if n < 0 {
				return nil
			}
			b := append([]byte{}, head...)
			b = append(b, 0, 1, 'p', 2, byte(n>>8), byte(n))
			b = append(b, bytes.Repeat([]byte{'x'}, n)...)
			return append(b, tail...)
		}
		type ctx struct {
			name, stage string
			typ         uint8
			head        []byte
			key         bool // the tail is preceded by a property name
		}
		ctxs := []ctx{
			{"connect-object", "handshaken", 20, append(amf(s("connect"), n(1)), 3), true},
			{"connect-ecma", "handshaken", 20, append(amf(s("connect"), n(1)), 8, 0, 0, 0, 9), true},
			{"publish-object", "created", 20, append(amf(s("publish"), n(3)), 3), true},
			{"metadata-ecma", "publishing", 18, append(amf(s("@setDataFrame"), s("onMetaData")), 8, 0, 0, 0, 9), true},
			{"metadata-object", "publishing", 18, append(amf(s("onMetaData")), 3), true},
		}
		for _, cx := range ctxs {
			for k := 7; k <= 12; k++ {
				if quick && k != 7 && k != 8 && k != 12 {
					continue
				}
				for d := 0; d <= 4; d++ {
					for ti, t := range tails {
						tail := t
						if cx.key {
							tail = append([]byte{0, 1, 'k'}, t...)
						}
						body := pad(cx.head, tail, 1<<uint(k)-d)
						if body == nil {
							continue
						}
						csid := 3
						if cx.typ == 18 {
							csid = 4
						}
						cs = append(cs, mkCase(cx.stage, "amf-tail-at-capacity/"+cx.name, fmt.Sprintf("2^%d-%d tail#%d %x", k, d, ti, t), msgBytes(csid, cx.typ, 1, 0, body), -1))
					}
				}
			}
		}
	}
	// (vi) pairs over a reduced alphabet (state carried across messages)
	if !quick {
		var red [][]byte
		var v [4]byte
		binary.BigEndian.PutUint32(v[:], 4096)
		red = append(red, msgBytes(2, 1, 0, 0, v[:]))
		binary.BigEndian.PutUint32(v[:], 1)
		red = append(red, msgBytes(2, 1, 0, 0, v[:]))
		red = append(red, rawChunk(0, 5, 0xFFFFFF, 4, 9, 1, true, 1<<31, []byte{0x17, 1, 0, 0}))
		red = append(red, rawChunk(0, 5, 0, 300, 9, 1, false, 0, make([]byte, 128)))
		red = append(red, rawChunk(3, 5, 0, 0, 0, 0, false, 0, make([]byte, 128)))
		red = append(red, rawChunk(1, 5, 10, 4, 8, 0, false, 0, []byte{0xaf, 1, 0, 0}))
		red = append(red, rawChunk(2, 5, 10, 0, 0, 0, false, 0, []byte{0xaf, 1, 0, 0}))
		for _, b := range validCommands() {
			red = append(red, msgBytes(3, 20, 1, 0, b))
		}
		for _, typ := range []uint8{3, 4, 5, 6, 8, 9, 18, 22} {
			red = append(red, msgBytes(2, typ, 1, 0, []byte{0}))
			red = append(red, msgBytes(2, typ, 1, 0, make([]byte, 6)))
		}
		for _, st := range []string{"handshaken", "created", "publishing", "playing"} {
			for i, a := range red {
				for j, b := range red {
					cs = append(cs, mkCase(st, "pair", fmt.Sprintf("%d,%d", i, j), append(append([]byte{}, a...), b...), -1))
				}
			}
		}
	}
	return cs
}

func main() {
	if len(os.Args) > 1 && os.Args[1] == "worker" {
		lalenv.Quiet()
		world.SyncQueues()
		protox.WorkerMain(runCase)
	}
	r := vk.Start("C04", "exploration")
	r.Rule("one case = (protocol stage reached by a valid prefix) x (next input from the mutation alphabet) x (fragmentation); each runs on a fresh real server in a worker process, followed by a healthy publish+play probe on the same server. distinct_nontrivial = distinct (stage, mutation class, outcome) triples")
	r.Assume("hostile bytes reach rtmp.Server.handleTcpConnect through an in-memory net.Conn (no kernel socket)",
		"a recovered panic in a session goroutine counts as process termination (lal has no recover)",
		"memory exhaustion by many simultaneous 16 MiB messages is not explored")
	if r.ReplayIn != "" {
		var ac acceptCase
		if r.LoadReplay(&ac); ac.First != "" {
			dir := os.Getenv("VERIF_SCRATCH")
			if dir == "" {
				dir = os.TempDir()
			}
			cf, kf, err := selfSigned(dir)
			v, err2 := runAccept(ac, cf, kf)
			if err != nil || err2 != nil {
				r.Violation("infra/accept-loop", fmt.Sprint(err, err2), ac)
			} else if v != "" {
				r.Violation("others-not-served/accept-loop", v, ac)
			}
			r.Finish()
		}
		var c protox.Case
		r.LoadReplay(&c)
		protox.RunLevels([]protox.Case{c}, 1, 120*time.Second, nil, func(o protox.Outcome) { report(r, o) })
		r.Finish()
	}
	r.SetBudget(6*time.Minute, 60*time.Minute)
	cases := buildCases(r)
	// every case once more with the server logging at trace level (lal dumps received chunks only then)
	for i, np := 0, len(cases); i < np; i++ {
		if !strings.Contains(cases[i].Key, "16MiB") {
			cases = append(cases, protox.TraceTwin(cases[i]))
		}
	}
	r.Cov("cases", len(cases))
	n := protox.RunLevels(cases, 16, 120*time.Second, r.OutOfTime, func(o protox.Outcome) { report(r, o) })
	r.Eval(n)
	if n < len(cases) {
		r.NotExhaustive(fmt.Sprintf("time budget: %d of %d cases executed", n, len(cases)))
	}
	acceptPhase(r)
	var d caseData
	json.Unmarshal(cases[len(cases)/3].Data, &d)
	r.Sample(map[string]interface{}{"key": cases[len(cases)/3].Key, "stage": d.Stage, "hex": d.Hex, "frag": d.Frag})
	r.Finish()
}

func report(r *vk.Run, o protox.Outcome) {
	cls := o.Res.Class
	var d caseData
	json.Unmarshal(o.Case.Data, &d)
	show := d.Hex
	if len(show) > 120 {
		show = show[:120] + "..."
	}
	what := fmt.Sprintf("stage=%s input=%s%s frag=%d (%s %s)", d.Stage, show, d.Gen, d.Frag, o.Case.Key, d.Desc)
	lv := ""
	if protox.IsTrace(o.Case) {
		what += " [log level trace]"
		lv = "@trace"
	}
	switch {
	case o.Killed:
		cls = "hang-killed"
		r.Violation("hang/"+stageOf(o.Case.Key), "no progress within the deadline: "+what, o.Case)
	case o.Death != "":
		k := protox.DeathKey(o.Death)
		cls = k
		r.Violation(k+"/"+mutClass(o.Case.Key), fmt.Sprintf("the server process died (%s): %s :: %s", k, what, firstLines(o.Death, 6)), o.Case)
	case o.Res.Panic != "":
		cls = "panic"
		r.Violation("panic/"+protox.PanicKey(o.Res.Panic), fmt.Sprintf("panic in a lal goroutine: %s :: %s", what, firstLines(o.Res.Panic, 12)), o.Case)
	case o.Res.Hang != "":
		cls = "hang"
		r.Violation("hang/"+stageOf(o.Case.Key), o.Res.Hang+" :: "+what, o.Case)
	case o.Res.Probe != "":
		cls = "probe-failed"
		r.Violation("others-not-served/"+stageOf(o.Case.Key), o.Res.Probe+" :: "+what, o.Case)
	case o.Res.Other != "":
		r.Violation(o.Res.OtherK+"/"+stageOf(o.Case.Key), o.Res.Other+" :: "+what, o.Case)
	}
	r.Class(mutClassCoarse(o.Case.Key) + "/" + cls + lv)
}

func stageOf(k string) string { return strings.SplitN(k, "/", 2)[0] }
func mutClass(k string) string {
	p := strings.Split(k, "/")
	if len(p) > 2 {
		return strings.Join(p[1:3], "/")
	}
	return strings.Join(p[1:], "/")
}
func mutClassCoarse(k string) string {
	p := strings.Split(k, "/")
	if len(p) >= 2 {
		return p[0] + "/" + p[1]
	}
	return k
}

func firstLines(s string, n int) string {
	l := strings.Split(s, "\n")
	var keep []string
	for _, x := range l {
		if strings.Contains(x, "lal/pkg") || strings.Contains(x, "panic") || strings.Contains(x, "fatal") || strings.Contains(x, "runtime error") || len(keep) == 0 {
			keep = append(keep, strings.TrimSpace(x))
		}
		if len(keep) >= n {
			break
		}
	}
	return strings.Join(keep, " | ")
}
