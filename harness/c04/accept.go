package main

// The accept loop itself: "stops serving other connections" can also happen before a session exists. A real
// rtmp.Server listens on a loopback socket (plain and with TLS, certificate made on the spot); peer A
// connects and sends nothing, one byte, half a TLS record or half a C0C1, and stays; peer B then connects
// and does the RTMP handshake: it must be answered (given up after 90 s: the loop is then blocked by A).

import (
	"crypto/ecdsa"
	"crypto/elliptic"
	"crypto/rand"
	"crypto/tls"
	"crypto/x509"
	"crypto/x509/pkix"
	"encoding/pem"
	"fmt"
	"io"
	"math/big"
	"net"
	"os"
	"path/filepath"
	"time"

	"github.com/q191201771/lal/pkg/rtmp"

	"verif/lib/vk"
	"verif/lib/world"
)

type acceptCase struct {
	Tls   bool   `json:"tls"`
	First string `json:"first"` // what peer A sends before it goes quiet
}

func selfSigned(dir string) (certFile, keyFile string, err error) {
	key, err := ecdsa.GenerateKey(elliptic.P256(), rand.Reader)
	if err != nil {
		return "", "", err
	}
	tpl := &x509.Certificate{SerialNumber: big.NewInt(1), Subject: pkix.Name{CommonName: "localhost"}, NotBefore: time.Now().Add(-time.Hour), NotAfter: time.Now().Add(24 * time.Hour),
		KeyUsage: x509.KeyUsageDigitalSignature, ExtKeyUsage: []x509.ExtKeyUsage{x509.ExtKeyUsageServerAuth}, DNSNames: []string{"localhost"}, IPAddresses: []net.IP{net.ParseIP("127.0.0.1")}}
	der, err := x509.CreateCertificate(rand.Reader, tpl, tpl, &key.PublicKey, key)
	if err != nil {
		return "", "", err
	}
	kb, err := x509.MarshalECPrivateKey(key)
	if err != nil {
		return "", "", err
	}
	certFile, keyFile = filepath.Join(dir, "c04-cert.pem"), filepath.Join(dir, "c04-key.pem")
	if err = os.WriteFile(certFile, pem.EncodeToMemory(&pem.Block{Type: "CERTIFICATE", Bytes: der}), 0o600); err != nil {
		return
	}
	err = os.WriteFile(keyFile, pem.EncodeToMemory(&pem.Block{Type: "EC PRIVATE KEY", Bytes: kb}), 0o600)
	return
}

func runAccept(c acceptCase, certFile, keyFile string) (viol string, infra error) {
	w := world.New(world.Conf{})
	defer w.Close()
	srv := rtmp.NewServer("127.0.0.1:0", w.SM)
	var err error
	if c.Tls {
		err = srv.ListenWithTLS(certFile, keyFile)
	} else {
		err = srv.Listen()
	}
	if err != nil {
		return "", err
	}
	defer srv.Dispose()
	go srv.RunLoop()
	addr := rtmp.VerifAddr(srv)
	a, err := net.Dial("tcp", addr)
	if err != nil {
		return "", err
	}
	defer a.Close()
	switch c.First {
	case "one-byte":
		a.Write([]byte{3})
	case "half-tls-record":
		a.Write([]byte{0x16, 0x03, 0x01, 0x00, 0xc8})
	case "half-c0c1":
		a.Write(make([]byte, 700))
	}
	served := make(chan error, 1)
	go func() {
		var b net.Conn
		var err error
		if c.Tls {
			b, err = tls.DialWithDialer(&net.Dialer{Timeout: 80 * time.Second}, "tcp", addr, &tls.Config{InsecureSkipVerify: true})
		} else {
			b, err = net.DialTimeout("tcp", addr, 80*time.Second)
		}
		if err != nil {
			served <- err
			return
		}
		defer b.Close()
		b.SetDeadline(time.Now().Add(80 * time.Second))
		c0c1 := make([]byte, 1+1536)
		c0c1[0] = 3
		if _, err := b.Write(c0c1); err != nil {
			served <- err
			return
		}
		_, err = io.ReadFull(b, make([]byte, 1+1536+1536))
		served <- err
	}()
	select {
	case err := <-served:
		if err != nil {
			return fmt.Sprintf("peer A (%s) stays connected; peer B, connecting after it, was not served: %v", c.First, err), nil
		}
	case <-time.After(90 * time.Second):
		return fmt.Sprintf("peer A (%s) stays connected; peer B, connecting after it, got no answer to its handshake (given up after 90 s)", c.First), nil
	}
	return "", nil
}

func acceptPhase(r *vk.Run) {
	dir := os.Getenv("VERIF_SCRATCH")
	if dir == "" {
		dir = os.TempDir()
	}
	certFile, keyFile, err := selfSigned(dir)
	if err != nil {
		r.Violation("infra/accept-loop", "certificate: "+err.Error(), "accept")
		return
	}
	var cases []acceptCase
	for _, t := range []bool{false, true} {
		for _, f := range []string{"silent", "one-byte", "half-tls-record", "half-c0c1"} {
			cases = append(cases, acceptCase{t, f})
		}
	}
	type out struct {
		v   string
		err error
	}
	res := make([]out, len(cases))
	vk.Par(len(cases), 8, func(i int) {
		v, err := runAccept(cases[i], certFile, keyFile)
		res[i] = out{v, err}
	})
	for i, o := range res {
		r.Eval(1)
		if o.err != nil {
			r.Violation("infra/accept-loop", fmt.Sprintf("%+v: %v", cases[i], o.err), cases[i])
			continue
		}
		r.Class(fmt.Sprintf("accept-loop/tls=%v/%s/served=%v", cases[i].Tls, cases[i].First, o.v == ""))
		if o.v != "" {
			tl := "plain"
			if cases[i].Tls {
				tl = "tls"
			}
			r.Violation("others-not-served/accept-loop/"+tl, o.v, cases[i])
		}
	}
	r.Cov("accept_loop_cases", len(cases))
}
