// C07 — RTSP, GB28181 and customize ingest reach RTMP/FLV consumers with the same frames.
// Family (B/S): exhaustive enumeration of (source, codec pair and clock rate, frame-shape sequence,
// packetisation, arrival perturbation) driving the real server; an RTMP subscriber attached before the
// publisher receives the stream, which is compared NAL by NAL, frame by frame and timestamp by
// timestamp with what the publisher sent.
package main

import (
	"bytes"
	"encoding/base64"
	"fmt"
	"os"
	"strings"
	"time"

	"github.com/q191201771/lal/pkg/base"
	"github.com/q191201771/lal/pkg/gb28181"
	"github.com/q191201771/lal/pkg/logic"

	"verif/lib/lalenv"
	"verif/lib/ref"
	"verif/lib/vk"
	"verif/lib/world"
)

type scenario struct {
	Source    string   `json:"source"` // rtsp ps cust-annexb3 cust-annexb4 cust-avcc
	Video     string   `json:"video"`  // avc hevc ""
	Audio     string   `json:"audio"`  // aac pcma ""
	Rate      int      `json:"rate"`   // audio clock
	Seq       []string `json:"seq"`
	Limit     int      `json:"limit"` // RTP payload limit
	Aggr      bool     `json:"aggregate"`
	Perturb   string   `json:"perturb"` // "", swapK, dupK
	Seq0      int      `json:"seq0"`
	PsSplit   bool     `json:"ps_split"`      // a frame in two PES packets
	CustSplit bool     `json:"cust_split"`    // customize: parameter sets in FeedAvPacket calls of their own, every call through one reused buffer
	TsWrap    bool     `json:"ts_wrap"`       // rtsp: the RTP timestamps of both tracks start just below 2^32 and wrap within the first frames
	PsTcp     bool     `json:"ps_tcp"`        // packets arrive as over TCP: read into one buffer that every packet reuses
	PsNoPts   bool     `json:"ps_no_pts"`     // ... the second one without PTS (continuation)
	AacAggr   int      `json:"aac_aggregate"` // RTSP: up to this many consecutive AAC frames per RTP packet (0 / 1: one each)
	AacFrag   bool     `json:"aac_fragment"`  // RTSP: an AAC frame larger than the payload limit is fragmented
}

type frame struct {
	video   bool
	key     bool
	nals    [][]byte // all NALs sent (including in-band parameter sets, AUD)
	au      []byte
	ts      uint32 // RTP / 90 kHz units for video, clock units for audio
	ms      int64
	closing bool // part of the balancing tail (may be held back by a reorder / A-V queue when the publisher leaves)
}

var (
	avcSps  = ref.WriteAvcSps(ref.AvcSps{Profile: 100, Level: 31, ChromaFormat: 1, PocType: 0, Log2MaxPocLsbM4: 2, MaxNumRefFrames: 3, WidthMbsM1: 19, HeightMapUnitsM1: 14, FrameMbsOnly: true, Direct8x8: true})
	avcPps  = []byte{0x68, 0xce, 0x3c, 0x80}
	hevcPtl = ref.HevcPtl{ProfileIdc: 1, Level: 93, Compat: 0x60000000, Constraint: 0x900000000000}
	hevcVps = ref.WriteHevcVps(0, hevcPtl)
	hevcSps = ref.WriteHevcSps(ref.HevcSps{Ptl: hevcPtl, ChromaFormat: 1, Width: 320, Height: 240})
	hevcPps = []byte{0x44, 0x01, 0xc1, 0x72, 0xb4, 0x62, 0x40}
	// a second set of parameter sets (another picture size / level), sent in-band mid-stream
	avcSps2  = ref.WriteAvcSps(ref.AvcSps{Profile: 100, Level: 40, ChromaFormat: 1, PocType: 0, Log2MaxPocLsbM4: 2, MaxNumRefFrames: 3, WidthMbsM1: 39, HeightMapUnitsM1: 29, FrameMbsOnly: true, Direct8x8: true})
	avcPps2  = []byte{0x68, 0xee, 0x3c, 0xb0}
	hevcPtl2 = ref.HevcPtl{ProfileIdc: 1, Level: 120, Compat: 0x60000000, Constraint: 0x900000000000}
	hevcVps2 = ref.WriteHevcVps(0, hevcPtl2)
	hevcSps2 = ref.WriteHevcSps(ref.HevcSps{Ptl: hevcPtl2, ChromaFormat: 1, Width: 640, Height: 480})
	hevcPps2 = []byte{0x44, 0x01, 0xc0, 0xf7, 0xc0, 0xcc, 0x90}
)

func paramSets2(v string) [][]byte {
	if v == "avc" {
		return [][]byte{avcSps2, avcPps2}
	}
	return [][]byte{hevcVps2, hevcSps2, hevcPps2}
}

func body(n, salt int) []byte {
	b := make([]byte, n)
	for i := range b {
		b[i] = byte(i*7+salt*13) | 1
	}
	return b
}

func nal(v string, typ, size, salt int) []byte {
	if v == "avc" {
		ref := byte(0x60)
		if typ == 6 || typ == 9 {
			ref = 0
		}
		if typ == 1 {
			ref = 0x40
		}
		if size < 1 {
			size = 1
		}
		return append([]byte{ref | byte(typ)}, body(size-1, salt)...)
	}
	if size < 2 {
		size = 2
	}
	return append([]byte{byte(typ << 1), 0x01}, body(size-2, salt)...)
}

func isParamOrAud(v string, n []byte) bool {
	if v == "avc" {
		t := n[0] & 0x1f
		return t == 7 || t == 8 || t == 9
	}
	t := (n[0] >> 1) & 0x3f
	return t == 32 || t == 33 || t == 34 || t == 35
}

func isIrap(v string, n []byte) bool {
	if v == "avc" {
		return n[0]&0x1f == 5
	}
	t := (n[0] >> 1) & 0x3f
	return t >= 16 && t <= 23
}

func paramSets(v string) [][]byte {
	if v == "avc" {
		return [][]byte{avcSps, avcPps}
	}
	return [][]byte{hevcVps, hevcSps, hevcPps}
}

// ascFor builds an AAC-LC stereo AudioSpecificConfig for the rate.
func ascFor(rate int) []byte {
	idx := map[int]int{96000: 0, 88200: 1, 64000: 2, 48000: 3, 44100: 4, 32000: 5, 24000: 6, 22050: 7, 16000: 8, 12000: 9, 11025: 10, 8000: 11}[rate]
	return []byte{2<<3 | byte(idx>>1), byte(idx&1)<<7 | 2<<3}
}

func adts(rate int, raw []byte) []byte {
	idx := map[int]int{96000: 0, 88200: 1, 64000: 2, 48000: 3, 44100: 4, 32000: 5, 24000: 6, 22050: 7, 16000: 8, 12000: 9, 11025: 10, 8000: 11}[rate]
	n := 7 + len(raw)
	h := []byte{0xff, 0xf1, 1<<6 | byte(idx)<<2, 2<<6 | byte(n>>11), byte(n >> 3), byte(n<<5) | 0x1f, 0xfc}
	return append(h, raw...)
}

// build turns the shape sequence into frames (video 25 fps, audio 1024 samples per frame).
func build(sc scenario) []frame {
	v := sc.Video
	var fs []frame
	idr, trail, sei, aud := 5, 1, 6, 9
	if v == "hevc" {
		idr, trail, sei, aud = 19, 1, 39, 35
	}
	vn, an := 0, 0
	addV := func(key bool, nals [][]byte) {
		ts := uint32(vn * 3600)
		fs = append(fs, frame{video: true, key: key, nals: nals, ts: ts, ms: int64(vn * 40)})
		vn++
	}
	addA := func(au []byte) {
		ts := uint32(an * 1024)
		fs = append(fs, frame{au: au, ts: ts, ms: int64(uint64(an) * 1024 * 1000 / uint64(sc.Rate))})
		an++
	}
	shapes := append([]string{"Kp"}, sc.Seq...)
	for i, s := range shapes {
		salt := i + 1
		switch s {
		case "Kp":
			if v != "" {
				addV(true, append(append([][]byte{}, paramSets(v)...), nal(v, idr, 40, salt)))
			}
		case "K":
			if v != "" {
				addV(true, [][]byte{nal(v, idr, 30, salt)})
			}
		case "Kp2": // a key frame that brings NEW parameter sets in-band (resolution switch)
			if v != "" {
				addV(true, append(append([][]byte{}, paramSets2(v)...), nal(v, idr, 44, salt)))
			}
		case "Kaud":
			if v != "" {
				addV(true, append(append([][]byte{nal(v, aud, 2, salt)}, paramSets(v)...), nal(v, idr, 35, salt)))
			}
		case "Kbig":
			if v != "" {
				addV(true, [][]byte{nal(v, idr, 70000, salt)})
			}
		case "K2": // two slices
			if v != "" {
				addV(true, [][]byte{nal(v, idr, 900, salt), nal(v, idr, 800, salt+50)})
			}
		case "P":
			if v != "" {
				addV(false, [][]byte{nal(v, trail, 60, salt)})
			}
		case "P1":
			if v != "" {
				addV(false, [][]byte{nal(v, trail, 1, salt)})
			}
		case "Pmid":
			if v != "" {
				addV(false, [][]byte{nal(v, trail, 1500, salt)})
			}
		case "Ps":
			if v != "" {
				addV(false, [][]byte{nal(v, sei, 12, salt), nal(v, trail, 80, salt+1)})
			}
		case "Psk": // slice followed by a trailing SEI (the last NAL is not the picture)
			if v != "" {
				addV(true, [][]byte{nal(v, idr, 70, salt), nal(v, sei, 9, salt+1)})
			}
		case "A":
			if sc.Audio != "" {
				addA(append([]byte{byte(salt), byte(an)}, body(120, salt)...))
			}
		case "A1":
			if sc.Audio != "" {
				addA([]byte{byte(0x80 | salt)})
			}
		case "A3":
			if sc.Audio != "" {
				for k := 0; k < 3; k++ {
					addA(append([]byte{byte(salt), byte(an)}, body(30+k, salt+k)...))
				}
			}
		case "A50": // many audio frames: drift shows
			if sc.Audio != "" {
				for k := 0; k < 50; k++ {
					addA(append([]byte{byte(salt), byte(an)}, body(20, salt+k)...))
				}
			}
		}
	}
	// balancing tail: both tracks run on, alternating by time, until 300 ms past the sequence, so that
	// whatever a reorder buffer or the audio/video interleaving queue holds back belongs to the tail
	mark := len(fs)
	ams := func() int64 {
		if sc.Audio == "" {
			return 1 << 40
		}
		return int64(uint64(an) * 1024 * 1000 / uint64(sc.Rate))
	}
	vms := func() int64 {
		if v == "" {
			return 1 << 40
		}
		return int64(vn * 40)
	}
	var end int64
	for _, f := range fs {
		if f.ms > end {
			end = f.ms
		}
	}
	end += 300
	firstV := true
	for guard := 0; guard < 3000; guard++ {
		a, b := ams(), vms()
		if (a >= end || sc.Audio == "") && (b >= end || v == "") {
			break
		}
		if b <= a && v != "" {
			if firstV {
				addV(true, [][]byte{nal(v, idr, 30, 200+guard)})
				firstV = false
			} else {
				addV(false, [][]byte{nal(v, trail, 25, 200+guard)})
			}
		} else {
			addA(append([]byte{byte(guard), byte(an), 0x55}, body(15, guard)...))
		}
	}
	for i := mark; i < len(fs); i++ {
		fs[i].closing = true
	}
	return fs
}

type result struct{ key, what string }

type rx struct {
	typ     uint8
	ts      uint32
	payload []byte
}

func sdpFor(sc scenario) []byte {
	s := "v=0\r\no=- 0 0 IN IP4 127.0.0.1\r\ns=x\r\nc=IN IP4 127.0.0.1\r\nt=0 0\r\n"
	tr := 0
	if sc.Video == "avc" {
		sp := base64.StdEncoding.EncodeToString(avcSps) + "," + base64.StdEncoding.EncodeToString(avcPps)
		s += "m=video 0 RTP/AVP 96\r\na=rtpmap:96 H264/90000\r\na=fmtp:96 packetization-mode=1; sprop-parameter-sets=" + sp + "; profile-level-id=64001F\r\n" + fmt.Sprintf("a=control:streamid=%d\r\n", tr)
		tr++
	} else if sc.Video == "hevc" {
		s += "m=video 0 RTP/AVP 98\r\na=rtpmap:98 H265/90000\r\na=fmtp:98 sprop-vps=" + base64.StdEncoding.EncodeToString(hevcVps) + "; sprop-sps=" + base64.StdEncoding.EncodeToString(hevcSps) + "; sprop-pps=" + base64.StdEncoding.EncodeToString(hevcPps) + "\r\n" + fmt.Sprintf("a=control:streamid=%d\r\n", tr)
		tr++
	}
	if sc.Audio == "aac" {
		s += fmt.Sprintf("m=audio 0 RTP/AVP 97\r\na=rtpmap:97 MPEG4-GENERIC/%d/2\r\na=fmtp:97 profile-level-id=1;mode=AAC-hbr;sizelength=13;indexlength=3;indexdeltalength=3; config=%x\r\na=control:streamid=%d\r\n", sc.Rate, ascFor(sc.Rate), tr)
	} else if sc.Audio == "pcma" {
		s += fmt.Sprintf("m=audio 0 RTP/AVP 8\r\na=rtpmap:8 PCMA/8000\r\na=control:streamid=%d\r\n", tr)
	} else if sc.Audio == "opus" {
		s += fmt.Sprintf("m=audio 0 RTP/AVP 111\r\na=rtpmap:111 opus/48000/2\r\na=control:streamid=%d\r\n", tr)
	}
	return []byte(s)
}

func perturb(pk [][]byte, p string) [][]byte {
	if p == "" || len(pk) < 2 {
		return pk
	}
	var k int
	if p == "first" { // the first two packets of the stream arrive swapped (not part of the enumeration: see DESIGN.md)
		out := append([][]byte{}, pk...)
		out[0], out[1] = out[1], out[0]
		return out
	}
	if strings.HasPrefix(p, "swap") {
		fmt.Sscanf(p, "swap%d", &k)
		if len(pk) < 5 {
			return pk
		}
		k = 2 + (k-2)%(len(pk)-3) // never the first two packets of the stream
		out := append([][]byte{}, pk...)
		out[k], out[k+1] = out[k+1], out[k]
		return out
	}
	if strings.HasPrefix(p, "dup") {
		fmt.Sscanf(p, "dup%d", &k)
		if len(pk) < 5 {
			return pk
		}
		k = 2 + (k-2)%(len(pk)-2)
		out := append([][]byte{}, pk[:k+1]...)
		out = append(out, pk[k])
		return append(out, pk[k+1:]...)
	}
	return pk
}

func run(sc scenario) (res []result, compared int, infra error) {
	add := func(key, f string, a ...interface{}) { res = append(res, result{key, fmt.Sprintf(f, a...)}) }
	conf := world.Conf{"rtsp.enable": true}
	if os.Getenv("C07_DEBUG") == "2" {
		conf["log.level"] = 0
		conf["log.is_to_stdout"] = true
	}
	w := world.New(conf)
	w.EnableRelay(nil)
	defer w.Close()
	sub, err := w.RtmpPlayer("live", "s")
	if err != nil || !sub.Accepted() {
		return nil, 0, fmt.Errorf("subscriber: %v", err)
	}
	fs := build(sc)
	v := sc.Video
	switch {
	case sc.Source == "rtsp":
		ctl := []string{"streamid=0"}
		if sc.Video != "" && sc.Audio != "" {
			ctl = append(ctl, "streamid=1")
		}
		p, err := w.RtspPublisher("rtsp://h/live/s", sdpFor(sc), ctl)
		if err != nil {
			return nil, 0, err
		}
		if !p.Accepted() || p.LastStatus() != 200 {
			add("rtsp/publisher-refused", "the reference RTSP publisher was refused (status %d)", p.LastStatus())
			return
		}
		vseq, aseq := uint16(sc.Seq0), uint16(sc.Seq0)
		var vBase, aBase uint32
		if sc.TsWrap {
			// the publisher's RTP clocks started long ago: both wrap within the first frames (what lal serves is
			// the source's time up to one constant per track all the same)
			vBase, aBase = uint32(1<<32-2*3600+7), uint32(1<<32-1500)
		}
		vtrack, atrack := 0, 0
		if sc.Video != "" {
			atrack = 1
		}
		// packets of one track, in order; the perturbation applies to the video track (audio if no video)
		var vp, ap [][]byte
		var aacPend []frame
		for _, f := range fs {
			if f.video {
				var pl [][]byte
				if v == "avc" {
					pl = ref.PackH264(f.nals, ref.PackOpt{Limit: sc.Limit, Aggregate: sc.Aggr})
				} else {
					pl = ref.PackH265(f.nals, ref.PackOpt{Limit: sc.Limit, Aggregate: sc.Aggr})
				}
				pt := uint8(96)
				if v == "hevc" {
					pt = 98
				}
				for i, x := range pl {
					vp = append(vp, ref.BuildRtp(ref.Rtp{Marker: i == len(pl)-1, PT: pt, Seq: vseq, Ts: f.ts + vBase, Ssrc: 7, Payload: x}))
					vseq++
				}
			} else {
				if sc.Audio == "aac" && (sc.AacAggr > 1 || sc.AacFrag) {
					aacPend = append(aacPend, f)
					continue
				}
				if sc.Audio == "aac" {
					ap = append(ap, ref.BuildRtp(ref.Rtp{Marker: true, PT: 97, Seq: aseq, Ts: f.ts + aBase, Ssrc: 8, Payload: ref.PackAacHbr(f.au)}))
				} else if sc.Audio == "opus" {
					ap = append(ap, ref.BuildRtp(ref.Rtp{Marker: true, PT: 111, Seq: aseq, Ts: f.ts + aBase, Ssrc: 8, Payload: f.au}))
				} else {
					ap = append(ap, ref.BuildRtp(ref.Rtp{Marker: true, PT: 8, Seq: aseq, Ts: f.ts + aBase, Ssrc: 8, Payload: f.au}))
				}
				aseq++
			}
		}
		// AAC frames (all 1024 samples apart) aggregated and / or fragmented by the reference packetiser
		for i := 0; i < len(aacPend); {
			f := aacPend[i]
			if sc.AacFrag && len(f.au)+4 > sc.Limit {
				frags := ref.PackAacHbrFrag(f.au, sc.Limit)
				for k, p := range frags {
					ap = append(ap, ref.BuildRtp(ref.Rtp{Marker: k == len(frags)-1, PT: 97, Seq: aseq, Ts: f.ts + aBase, Ssrc: 8, Payload: p}))
					aseq++
				}
				i++
				continue
			}
			n := 1
			if sc.AacAggr > 1 {
				size := 2 + 2 + len(f.au)
				for n < sc.AacAggr && i+n < len(aacPend) && size+2+len(aacPend[i+n].au) <= sc.Limit && !(sc.AacFrag && len(aacPend[i+n].au)+4 > sc.Limit) {
					size += 2 + len(aacPend[i+n].au)
					n++
				}
			}
			var aus [][]byte
			for k := 0; k < n; k++ {
				aus = append(aus, aacPend[i+k].au)
			}
			ap = append(ap, ref.BuildRtp(ref.Rtp{Marker: true, PT: 97, Seq: aseq, Ts: f.ts + aBase, Ssrc: 8, Payload: ref.PackAacHbrMulti(aus)}))
			aseq++
			i += n
		}
		if sc.Video != "" {
			vp = perturb(vp, sc.Perturb)
		} else {
			ap = perturb(ap, sc.Perturb)
		}
		// interleave: all of video frame i's packets, then the audio packets (keeps per-track order)
		for len(vp) > 0 || len(ap) > 0 {
			for k := 0; k < 3 && len(vp) > 0; k++ {
				p.SendRtp(vtrack, vp[0])
				vp = vp[1:]
			}
			if len(ap) > 0 {
				p.SendRtp(atrack, ap[0])
				ap = ap[1:]
			}
			if err := w.Settle(); err != nil {
				return nil, 0, err
			}
		}
		p.Close()
	case sc.Source == "ps":
		r := w.SM.CtrlStartRtpPub(base.ApiCtrlStartRtpPubReq{StreamName: "s", Port: 0})
		if r.ErrorCode != base.ErrorCodeSucc {
			return nil, 0, fmt.Errorf("start_rtp_pub: %s", r.Desp)
		}
		w.PsExpected = 1
		sess := logic.VerifPsPubSession(w.SM, "s")
		vt := uint8(ref.PsStreamH264)
		if v == "hevc" {
			vt = ref.PsStreamH265
		}
		at := uint8(ref.PsStreamAac)
		if sc.Audio == "pcma" {
			at = ref.PsStreamG711
		}
		seq := uint16(sc.Seq0)
		var pk [][]byte
		for _, f := range fs {
			pts := uint64(f.ms * 90)
			var ps []byte
			if f.video {
				ps = append(ps, ref.PsPackHeader(pts, 0)...)
				if f.key {
					ps = append(ps, ref.PsSystemHeader()...)
					ps = append(ps, ref.PsMap([][2]uint8{{vt, 0xE0}, {at, 0xC0}})...)
				}
				es := ref.AnnexB(f.nals)
				if sc.PsSplit && len(es) > 20 {
					ps = append(ps, ref.PsPes(0xE0, pts, pts, false, es[:len(es)/2])...)
					if sc.PsNoPts {
						ps = append(ps, ref.PsPesNoPts(0xE0, es[len(es)/2:])...)
					} else {
						ps = append(ps, ref.PsPes(0xE0, pts, pts, false, es[len(es)/2:])...)
					}
				} else if len(es) > 60000 {
					for len(es) > 0 {
						n := 60000
						if n > len(es) {
							n = len(es)
						}
						ps = append(ps, ref.PsPes(0xE0, pts, pts, false, es[:n])...)
						es = es[n:]
					}
				} else {
					ps = append(ps, ref.PsPes(0xE0, pts, pts, false, es)...)
				}
			} else {
				ps = append(ps, ref.PsPackHeader(pts, 0)...)
				pay := f.au
				if sc.Audio == "aac" {
					pay = adts(sc.Rate, f.au)
				}
				ps = append(ps, ref.PsPes(0xC0, pts, pts, false, pay)...)
			}
			pk = append(pk, ref.SplitRtp(ps, 96, &seq, uint32(pts), 9, sc.Limit)...)
		}
		pk = perturb(pk, sc.Perturb)
		var scratch []byte
		for _, x := range pk {
			x := x
			if sc.PsTcp {
				w.Net.Async(func() { gb28181.VerifFeedTcp(sess, &scratch, x) })
			} else {
				w.Net.Async(func() { gb28181.VerifFeed(sess, x) })
			}
			if err := w.Settle(); err != nil {
				return nil, 0, err
			}
		}
		w.SM.CtrlKickSession(base.ApiCtrlKickSessionReq{StreamName: "s", SessionId: r.Data.SessionId})
		w.PsExpected = 0
	default: // customize
		ctx, err := w.SM.AddCustomizePubSession("s")
		if err != nil {
			return nil, 0, err
		}
		ctx.WithOption(func(o *base.AvPacketStreamOption) {
			if sc.Source == "cust-avcc" {
				o.VideoFormat = base.AvPacketStreamVideoFormatAvcc
			} else {
				o.VideoFormat = base.AvPacketStreamVideoFormatAnnexb
			}
			o.AudioFormat = base.AvPacketStreamAudioFormatRawAac
		})
		if sc.Audio == "aac" {
			ctx.FeedAudioSpecificConfig(ascFor(sc.Rate))
		}
		var custScratch []byte
		for _, f := range fs {
			var pkt base.AvPacket
			pkt.Timestamp, pkt.Pts = f.ms, f.ms
			if f.video {
				pkt.PayloadType = base.AvPacketPtAvc
				if v == "hevc" {
					pkt.PayloadType = base.AvPacketPtHevc
				}
				switch sc.Source {
				case "cust-avcc":
					for _, n := range f.nals {
						pkt.Payload = append(pkt.Payload, byte(len(n)>>24), byte(len(n)>>16), byte(len(n)>>8), byte(len(n)))
						pkt.Payload = append(pkt.Payload, n...)
					}
				case "cust-annexb3":
					for _, n := range f.nals {
						pkt.Payload = append(append(pkt.Payload, 0, 0, 1), n...)
					}
				default:
					pkt.Payload = ref.AnnexB(f.nals)
				}
			} else {
				pkt.PayloadType = base.AvPacketPtAac
				if sc.Audio == "pcma" {
					pkt.PayloadType = base.AvPacketPtG711A
				}
				if sc.Audio == "opus" {
					pkt.PayloadType = base.AvPacketPtOpus
				}
				pkt.Payload = f.au
			}
			if sc.CustSplit && f.video {
				// each parameter set in a call of its own, the rest of the frame in one more; every call hands over
				// the same buffer with new content (the API says the buffer is not kept)
				frame1 := func(nals [][]byte) []byte {
					var b []byte
					for _, n := range nals {
						switch sc.Source {
						case "cust-avcc":
							b = append(b, byte(len(n)>>24), byte(len(n)>>16), byte(len(n)>>8), byte(len(n)))
						case "cust-annexb3":
							b = append(b, 0, 0, 1)
						default:
							b = append(b, 0, 0, 0, 1)
						}
						b = append(b, n...)
					}
					return b
				}
				isPs := func(n []byte) bool {
					if v == "hevc" {
						t := n[0] >> 1 & 0x3f
						return t >= 32 && t <= 34
					}
					t := n[0] & 0x1f
					return t == 7 || t == 8
				}
				var calls [][]byte
				var rest [][]byte
				for _, n := range f.nals {
					if isPs(n) && len(rest) == 0 {
						calls = append(calls, frame1([][]byte{n}))
					} else {
						rest = append(rest, n)
					}
				}
				if len(rest) > 0 {
					calls = append(calls, frame1(rest))
				}
				for _, c := range calls {
					if cap(custScratch) < len(c) {
						custScratch = make([]byte, len(c), 2*len(c)+64)
					}
					buf := custScratch[:len(c)]
					copy(buf, c)
					p := pkt
					p.Payload = buf
					w.Net.Async(func() { ctx.FeedAvPacket(p) })
					if err := w.Settle(); err != nil {
						return nil, 0, err
					}
				}
				continue
			}
			p := pkt
			w.Net.Async(func() { ctx.FeedAvPacket(p) })
			if err := w.Settle(); err != nil {
				return nil, 0, err
			}
		}
		w.SM.DelCustomizePubSession(ctx)
	}
	if err := w.Settle(); err != nil {
		return nil, 0, err
	}
	if p := w.Net.FirstPanic(); p != "" {
		add("panic", "%s", strings.SplitN(p, "\n", 2)[0])
		return
	}
	sub.Pump()
	if sub.DecErr != nil {
		add("subscriber-bytes", "%v", sub.DecErr)
		return
	}
	if os.Getenv("C07_DEBUG") != "" {
		for _, m := range sub.Msgs {
			fmt.Fprintf(os.Stderr, "rx type=%d ts=%d len=%d head=% x\n", m.Type, m.Ts, len(m.Payload), m.Payload[:minI(8, len(m.Payload))])
		}
	}
	// ---- compare
	var pubV, pubA []frame
	for _, f := range fs {
		if f.video {
			pubV = append(pubV, f)
		} else {
			pubA = append(pubA, f)
		}
	}
	type gotNal struct {
		b   []byte
		ts  uint32
		key bool
	}
	var gv []gotNal
	var ga []rx
	var vsh [][]byte
	sawAsh := false
	firstVideoIdx := -1
	for i, m := range sub.Msgs {
		switch m.Type {
		case 9:
			if len(m.Payload) < 5 {
				add("video-message-short", "video message of %d bytes", len(m.Payload))
				continue
			}
			if m.Payload[1] == 0 {
				vsh = append(vsh, m.Payload)
				continue
			}
			if firstVideoIdx < 0 {
				firstVideoIdx = i
				if len(vsh) == 0 {
					add("video-without-seq-header", "the first video frame arrives before any sequence header")
				}
			}
			b := m.Payload[5:]
			for len(b) >= 4 {
				n := int(b[0])<<24 | int(b[1])<<16 | int(b[2])<<8 | int(b[3])
				if n > len(b)-4 {
					add("video-avcc-framing", "NAL length %d with %d bytes left", n, len(b)-4)
					break
				}
				gv = append(gv, gotNal{b[4 : 4+n], m.Ts, m.Payload[0]>>4 == 1})
				b = b[4+n:]
			}
		case 8:
			if sc.Audio == "aac" {
				if len(m.Payload) >= 2 && m.Payload[0]>>4 == 10 && m.Payload[1] == 0 {
					sawAsh = true
					if !bytes.Equal(m.Payload[2:], ascFor(sc.Rate)) {
						add("audio-seq-header", "AAC sequence header carries % x, the publisher's AudioSpecificConfig is % x", m.Payload[2:], ascFor(sc.Rate))
					}
					continue
				}
				if len(m.Payload) < 2 {
					add("audio-message-short", "audio message of %d bytes", len(m.Payload))
					continue
				}
				if !sawAsh {
					add("audio-without-seq-header", "an AAC frame arrives before the AAC sequence header")
					sawAsh = true
				}
				ga = append(ga, rx{m.Type, m.Ts, m.Payload[2:]})
			} else if len(m.Payload) >= 1 {
				ga = append(ga, rx{m.Type, m.Ts, m.Payload[1:]})
			}
		}
	}
	if v != "" {
		// sequence header content
		if len(vsh) > 0 {
			for _, ps := range paramSets(v) {
				if !bytes.Contains(vsh[0], ps) {
					add("video-seq-header", "the video sequence header does not contain the publisher's parameter set % x", ps[:minI(8, len(ps))])
					break
				}
			}
		}
		// every sequence header carries one coherent generation of parameter sets: all of the first or all
		// of the second, never a mixture; and the second generation is announced once it has been sent
		sentSecond := false
		for _, f := range pubV {
			if !f.closing && len(f.nals) > 1 && bytes.Equal(f.nals[0], paramSets2(v)[0]) {
				sentSecond = true
			}
		}
		sawSecond := false
		for i, h := range vsh {
			n1, n2 := 0, 0
			for _, ps := range paramSets(v) {
				if bytes.Contains(h, ps) {
					n1++
				}
			}
			for _, ps := range paramSets2(v) {
				if bytes.Contains(h, ps) {
					n2++
				}
			}
			if !((n1 == len(paramSets(v)) && n2 == 0) || (n2 == len(paramSets2(v)) && n1 == 0)) {
				add("video-seq-header-mixed", "sequence header #%d carries %d of the first and %d of the second generation of parameter sets", i, n1, n2)
				break
			}
			if n2 > 0 {
				sawSecond = true
			}
		}
		if sentSecond && !sawSecond && len(gv) > 0 {
			add("video-seq-header-stale", "new parameter sets were sent in-band with a key frame but no sequence header announces them")
		}
		var want []gotNal
		mustV := 0
		for _, f := range pubV {
			for _, n := range f.nals {
				if !isParamOrAud(v, n) {
					want = append(want, gotNal{n, uint32(f.ms), f.key})
					if !f.closing {
						mustV++
					}
				}
			}
		}
		if len(gv) == 0 {
			add("video-nothing", "no video frame reached the RTMP subscriber (%d frames published, first is a key frame)", len(pubV))
		} else {
			start := -1
			for i := range want {
				if bytes.Equal(want[i].b, gv[0].b) {
					start = i
					break
				}
			}
			if start < 0 {
				add("video-unknown-nal", "the first NAL received (%d bytes, header %#x) is not one the publisher sent", len(gv[0].b), gv[0].b[0])
			} else {
				if !isIrap(v, want[start].b) {
					add("video-start-not-key", "the first NAL received is published NAL %d, not part of a key frame", start)
				}
				if start != 0 {
					add("video-late-start", "the subscriber was attached before the publisher but the first NAL received is published NAL %d", start)
				}
				// every frame of the sequence proper must have arrived; the balancing tail may be held back
				if len(gv) > len(want)-start || start+len(gv) < mustV {
					add("video-count", "%d NAL units received from published NAL %d on; the sequence has %d NALs before its %d-NAL tail", len(gv), start, mustV, len(want)-mustV)
				}
				var c0 int64
				vRebased := false
				for k, g := range gv {
					if start+k >= len(want) {
						break
					}
					wn := want[start+k]
					if !bytes.Equal(g.b, wn.b) {
						add("video-nals", "NAL %d received (%d bytes, header %#x) differs from published NAL %d (%d bytes, header %#x)", k, len(g.b), g.b[0], start+k, len(wn.b), wn.b[0])
						break
					}
					if isIrap(v, wn.b) && !g.key {
						add("video-key-flag", "the message carrying IRAP NAL %d is not marked as a key frame", start+k)
						break
					}
					if !wn.key && g.key {
						add("video-key-flag", "the message carrying non-key NAL %d is marked as a key frame", start+k)
						break
					}
					d := int64(g.ts) - int64(wn.ts)
					if k == 0 {
						c0 = d
					}
					if (d-c0 > 1 || d-c0 < -1) && sc.TsWrap && !vRebased && d-c0 < 1000 && d-c0 > -1000 {
						// where the 32-bit RTP timestamp wraps lal continues with the previous packet's interval (it does
						// not know the clock rate there): the track's constant may move once, by less than a second
						vRebased, c0 = true, d
					}
					if d-c0 > 1 || d-c0 < -1 {
						add("video-timestamp", "NAL %d: message timestamp %d for source time %d ms (track offset %d)", k, g.ts, wn.ts, c0)
						break
					}
					compared++
				}
			}
		}
	}
	if sc.Audio != "" {
		if len(ga) == 0 {
			add("audio-nothing", "no audio frame reached the RTMP subscriber (%d published)", len(pubA))
		} else {
			start := -1
			for i := range pubA {
				if bytes.Equal(pubA[i].au, ga[0].payload) {
					start = i
					break
				}
			}
			if start < 0 {
				add("audio-unknown-frame", "the first audio frame received (%d bytes) is not one the publisher sent", len(ga[0].payload))
			} else {
				mustA := 0
				for _, f := range pubA {
					if !f.closing {
						mustA++
					}
				}
				if len(ga) > len(pubA)-start || start+len(ga) < mustA {
					add("audio-count", "%d audio frames received from published frame %d on; the sequence has %d frames before its %d-frame tail", len(ga), start, mustA, len(pubA)-mustA)
				}
				if start > 0 && v == "" {
					add("audio-late-start", "audio-only stream: the first frame received is published frame %d", start)
				}
				var c0 int64
				aRebased := false
				for k, g := range ga {
					if start+k >= len(pubA) {
						break
					}
					f := pubA[start+k]
					if !bytes.Equal(g.payload, f.au) {
						add("audio-frames", "audio frame %d received differs from published frame %d (%d vs %d bytes)", k, start+k, len(g.payload), len(f.au))
						break
					}
					d := int64(g.ts) - f.ms
					if k == 0 {
						c0 = d
					}
					if (d-c0 > 1 || d-c0 < -1) && sc.TsWrap && !aRebased && d-c0 < 1000 && d-c0 > -1000 {
						aRebased, c0 = true, d
					}
					if d-c0 > 1 || d-c0 < -1 {
						add("audio-timestamp-drift", "audio frame %d: message timestamp %d for source time %d ms at %d Hz (track offset %d): drift %d ms", start+k, g.ts, f.ms, sc.Rate, c0, d-c0)
						break
					}
					compared++
				}
			}
		}
	}
	return
}

func minI(a, b int) int {
	if a < b {
		return a
	}
	return b
}

func main() {
	r := vk.Start("C07", "model_checking")
	lalenv.Quiet()
	world.SyncQueues()
	r.Rule("one case = (source in {RTSP interleaved, GB28181 PS over RTP, customize Annex-B 3/4-byte start codes, customize AVCC}, codec pair and audio clock rate, frame-shape sequence after a first key frame with in-band parameter sets, RTP payload limit and aggregation, arrival perturbation (swap / duplicate at every position), initial sequence number (incl. wrap)); all sequences up to the length bound over {K, Kaud, Kbig, K2, Psk, P, P1, Pmid, Ps, A, A1, A3, A50}. distinct_nontrivial = distinct cases in which at least one frame was compared")
	r.Assume("the RTMP subscriber is attached before the publisher; FLV consumers share the message path (C01 / C11)",
		"RTSP over interleaved TCP (the UDP callbacks run the same depacketisers; C13 drives them directly)",
		"every run ends with a balancing tail (both tracks continue 300 ms past the sequence); frames of the tail may be held back by a reorder buffer, the PS frame assembler or the RTSP audio/video interleaving queue when the publisher leaves, frames of the sequence proper may not",
		"AAC access units larger than one RTP packet are not driven (the reference packetiser does not fragment AUs)")
	if r.ReplayIn != "" {
		var sc scenario
		r.LoadReplay(&sc)
		res, _, err := run(sc)
		if err != nil {
			r.Violation("infra/replay", err.Error(), sc)
		}
		for _, v := range res {
			r.Violation(v.key, v.what, sc)
		}
		r.Finish()
	}
	r.SetBudget(6*time.Minute, 60*time.Minute)
	maxLen := 2
	if !r.Quick() {
		maxLen = 3
	}
	type cd struct {
		v, a string
		rate int
	}
	var cases []scenario
	vShapes := []string{"K", "Kaud", "Kbig", "K2", "Kp2", "Psk", "P", "P1", "Pmid", "Ps"}
	aShapes := []string{"A", "A1", "A3", "A50"}
	for _, src := range []string{"rtsp", "ps", "cust-annexb4", "cust-annexb3", "cust-avcc"} {
		codecs := []cd{{"avc", "aac", 44100}, {"hevc", "aac", 48000}, {"avc", "pcma", 8000}, {"avc", "opus", 48000}, {"avc", "", 0}, {"", "aac", 44100}, {"", "aac", 8000}, {"", "aac", 96000}, {"", "aac", 16000}, {"hevc", "", 0}}
		if r.Quick() {
			codecs = codecs[:7]
		}
		for _, c := range codecs {
			if src == "ps" && (c.v == "" || c.a == "opus") {
				continue // (the program stream map has no stream type for Opus)
			}
			if c.a == "opus" && src != "rtsp" && src != "cust-annexb4" {
				continue
			}
			var sh []string
			if c.v != "" {
				sh = append(sh, vShapes...)
			}
			if c.a != "" {
				sh = append(sh, aShapes...)
			}
			var seqs [][]string
			var rec func(cur []string)
			rec = func(cur []string) {
				seqs = append(seqs, append([]string{}, cur...))
				if len(cur) == maxLen {
					return
				}
				for _, s := range sh {
					rec(append(cur, s))
				}
			}
			rec(nil)
			for _, sq := range seqs {
				base := scenario{Source: src, Video: c.v, Audio: c.a, Rate: c.rate, Seq: sq, Limit: 1400}
				cases = append(cases, base)
				if src == "rtsp" || src == "ps" {
					b2 := base
					b2.Limit = 100
					cases = append(cases, b2)
					b3 := base
					b3.Seq0 = 65533
					cases = append(cases, b3)
				}
				if src == "rtsp" {
					b4 := base
					b4.Aggr = true
					cases = append(cases, b4)
					if c.v != "" && c.a != "" { // (a single-track stream has no A/V queue, and lal handles the wrap only there: recorded in DESIGN.md, not claimed)
						b16 := base
						b16.TsWrap = true
						cases = append(cases, b16)
					}
				}
				if src == "rtsp" && c.a == "aac" {
					hasA := false
					for _, x := range sq {
						if x[0] == 'A' {
							hasA = true
						}
					}
					if hasA {
						for _, n := range []int{3, 12} {
							b9 := base
							b9.AacAggr = n
							cases = append(cases, b9)
						}
						b10 := base
						b10.Limit, b10.AacFrag = 100, true
						cases = append(cases, b10)
						b11 := b10
						b11.AacAggr = 3
						cases = append(cases, b11)
					}
				}
				if strings.HasPrefix(src, "cust") {
					b14 := base
					b14.CustSplit = true
					cases = append(cases, b14)
				}
				if src == "ps" {
					b13 := base
					b13.PsTcp = true
					cases = append(cases, b13)
					b5 := base
					b5.PsSplit = true
					cases = append(cases, b5)
					b8 := b5
					b8.PsNoPts = true
					cases = append(cases, b8)
				}
				// arrival perturbations: only for the shorter sequences (the position is what matters)
				if (src == "rtsp" || src == "ps") && len(sq) <= 1 {
					for k := 2; k < 14; k++ { // (the first two packets of a stream have no predecessor to be ordered against)
						for _, p := range []string{"swap", "dup"} {
							b6 := base
							b6.Limit = 100
							b6.Perturb = fmt.Sprintf("%s%d", p, k)
							cases = append(cases, b6)
							b7 := b6
							b7.Seq0 = 65533
							cases = append(cases, b7)
							if src == "ps" {
								b12 := b6
								b12.PsTcp = true
								cases = append(cases, b12)
							}
						}
					}
				}
			}
		}
	}
	r.Cov("cases_enumerated", len(cases))
	r.Cov("max_sequence_length", maxLen)
	vk.Par(len(cases), 16, func(i int) {
		if r.OutOfTime() {
			r.NotExhaustive("internal time budget hit")
			return
		}
		sc := cases[i]
		r.Eval(1)
		res, compared, err := run(sc)
		if err != nil {
			r.Violation("infra/hang", fmt.Sprintf("%+v: %v", sc, err), sc)
			return
		}
		r.CovAdd("frames_compared", int64(compared))
		r.AddStates(int64(len(sc.Seq) + 5))
		r.AddTransitions(int64(len(sc.Seq) + 5))
		r.AddTraces(1)
		for _, v := range res {
			r.Violation(sc.Source+"/"+v.key, fmt.Sprintf("[%s %s+%s@%d seq=%v limit=%d aggr=%v perturb=%s seq0=%d split=%v/%v tcp=%v cust-split=%v ts-wrap=%v aac-aggr=%d aac-frag=%v] %s", sc.Source, sc.Video, sc.Audio, sc.Rate, sc.Seq, sc.Limit, sc.Aggr, sc.Perturb, sc.Seq0, sc.PsSplit, sc.PsNoPts, sc.PsTcp, sc.CustSplit, sc.TsWrap, sc.AacAggr, sc.AacFrag, v.what), sc)
		}
		if compared > 0 {
			r.Class(fmt.Sprintf("%+v", sc))
		}
		if i%1499 == 0 {
			r.Sample(sc)
		}
	})
	r.Finish()
}
