// C03 — a stream has one input; foreign arrivals and departures never disturb it.
// Family (S): explicit-state search over arrivals / departures / kicks of inputs of every kind (RTMP,
// RTSP, customize, GB28181 via start_rtp_pub, relay pull attempts that succeed, fail or are overtaken),
// subscribers, API calls and ticks on the real server; monitors: single input, refusal, undisturbed
// delivery and outputs, notification pairing, stat API.
package main

import (
	"os"
	"bytes"
	"fmt"
	"sort"
	"strings"
	"time"

	"github.com/q191201771/lal/pkg/base"
	"github.com/q191201771/lal/pkg/logic"

	"verif/lib/lalenv"
	"verif/lib/ref"
	"verif/lib/seqx"
	"verif/lib/vk"
	"verif/lib/world"
)

const stream = "s"

type cfg struct {
	Name      string   `json:"name"`
	Alphabet  []string `json:"alphabet"`
	MaxSubs   int      `json:"max_subs"`
	MaxInputs int      `json:"max_inputs"` // arrivals explored per execution
	Prefix    []string `json:"prefix"`
	RtspPull  bool     `json:"rtsp_pull"` // relay pull attempts go to an RTSP origin
}

type replay struct {
	Cfg   cfg      `json:"cfg"`
	Trace []string `json:"trace"`
}

type input struct {
	id      int
	kind    string // rtmp rtsp cust ps pull
	rtmp    *world.RtmpPeer
	rtsp    *world.RtspPeer
	cust    logic.ICustomizePubSessionContext
	psID    string
	dial    *world.Dial
	sent    int
	session string // session id the server gave it (stat API), once known
	seq     uint16
	tcp     bool
}

type sub struct {
	p       *world.RtmpPeer
	id      string
	seen    int // messages of p.Msgs already examined
	gotIdx  map[int]int
	joinPub int // number of frames published when it joined
}

type frame struct {
	idx   int
	input int
}

type sys struct {
	c        cfg
	w        *world.W
	cur      *input // the accepted input, nil if none
	old      []*input
	oldCust  *input // a customize context that has been deleted (or refused: none exists then)
	subs     []*sub
	nin      int
	frames   []frame // every frame any input ever sent, idx = position
	viols    []seqx.Viol
	infra    error
	lastEv   string
	accepted []int // ids of inputs ever accepted, in order
	ended    map[int]bool
	nsubsAcc int
	nsubsEnd int
	attempts int // pull attempts started (dials to origin)
	seenDial int
	apiOn    bool
	// a second stream with its own publisher and subscriber, attached before anything else happens: no
	// event on the first stream may disturb it
	byPub   *world.RtmpPeer
	bySub   *world.RtmpPeer
	byIDs   map[string]bool // session ids of the bystanders (not counted with the first stream's notifications)
	bySent  int
	curIdle int // ticks since the accepted input arrived or last sent something (capped): part of the state
	byHooks int // hook contexts that belong to the bystander stream (created before anything else)
}

func (s *sys) add(key, f string, a ...interface{}) {
	s.viols = append(s.viols, seqx.Viol{Key: key, What: fmt.Sprintf(f, a...)})
}

func newSys(c cfg) *sys {
	s := &sys{c: c, w: world.New(world.Conf{"rtsp.enable": true, "_hook": true}), ended: map[int]bool{}}
	s.w.EnableRelay(nil)
	// an RTMP origin sends the stream's audio sequence header in the same segment as its play status: a pull
	// that is refused when it tries to attach has then already received media
	s.w.OriginEager = []ref.Msg{{Csid: 4, Type: 8, Msid: 1, Ts: 0, Payload: ashPayload}}
	s.w.PsAuto = true
	s.setupBystander()
	for _, ev := range c.Prefix {
		if err := s.Apply(ev); err != nil {
			s.infra = fmt.Errorf("prefix event %s: %v", ev, err)
			break
		}
	}
	s.viols = nil
	return s
}

func (s *sys) Close() { s.w.Close() }

func (s *sys) has(k string) bool {
	for _, a := range s.c.Alphabet {
		if a == k {
			return true
		}
	}
	return false
}

func (s *sys) stat() *base.StatGroup { return s.w.SM.StatGroup(stream) }

func (s *sys) pullDials() (pending, live []*world.Dial) {
	for _, d := range s.w.AllDials() {
		if d.State == "pending" {
			pending = append(pending, d)
		}
		if d.State == "accepted" && !d.Conn.Closed() {
			live = append(live, d)
		}
	}
	return
}

func (s *sys) Enabled() []string {
	var ev []string
	if s.nin < s.c.MaxInputs {
		for _, k := range []string{"In:rtmp", "In:rtsp", "In:cust", "In:ps", "In:pstcp"} {
			if s.has(k) {
				ev = append(ev, k)
			}
		}
	}
	if s.cur != nil {
		if s.has("Out") && s.cur.kind != "pull" && s.cur.kind != "ps" {
			ev = append(ev, "Out")
		}
		if s.has("KickIn") && s.cur.kind != "cust" {
			ev = append(ev, "KickIn")
		}
		if s.has("P") && s.cur.kind != "ps" {
			ev = append(ev, "P")
		}
	}
	if s.has("FeedOld") && s.oldCust != nil {
		ev = append(ev, "FeedOld")
	}
	if s.has("J") && len(s.subs) < s.c.MaxSubs {
		ev = append(ev, "J")
	}
	if s.has("J") && len(s.subs) > 0 {
		ev = append(ev, "L")
		if s.has("KickSub") {
			ev = append(ev, "KickSub")
		}
	}
	if s.has("ApiStart") {
		ev = append(ev, "ApiStart")
		ev = append(ev, "ApiStop")
	}
	if s.has("T") {
		ev = append(ev, "T")
	}
	pend, live := s.pullDials()
	if len(pend) > 0 {
		ev = append(ev, "D:accept", "D:refuse")
	}
	for _, d := range live {
		if d.Origin != nil && d.Origin.Started && (s.cur == nil || s.cur.dial != d) {
			// a pull connection that is established but is not the accepted input (should not exist at rest)
			_ = d
		}
	}
	if s.cur != nil && s.cur.kind == "pull" && s.has("ApiStart") {
		ev = append(ev, "O:close")
	}
	return ev
}

func aacPayload(idx int) []byte {
	return []byte{0xaf, 1, byte(idx >> 8), byte(idx), 0x21, 0x43, byte(idx * 7), 0x65}
}

var ashPayload = []byte{0xaf, 0, 0x12, 0x10}

var sdpAac = []byte("v=0\r\no=- 0 0 IN IP4 127.0.0.1\r\ns=x\r\nc=IN IP4 127.0.0.1\r\nt=0 0\r\nm=audio 0 RTP/AVP 97\r\na=rtpmap:97 MPEG4-GENERIC/44100/2\r\na=fmtp:97 profile-level-id=1;mode=AAC-hbr;sizelength=13;indexlength=3;indexdeltalength=3; config=1210\r\na=control:streamid=0\r\n")

// send makes input in emit one audio frame (preceded by its header the first time).
func (s *sys) send(in *input) {
	idx := len(s.frames)
	s.frames = append(s.frames, frame{idx, in.id})
	ts := uint32(idx * 23)
	switch in.kind {
	case "rtmp":
		if in.sent == 0 {
			in.rtmp.SendMsgs(ref.Msg{Csid: 4, Type: 8, Msid: 1, Ts: ts, Payload: ashPayload})
		}
		in.rtmp.SendMsgs(ref.Msg{Csid: 4, Type: 8, Msid: 1, Ts: ts, Payload: aacPayload(idx)})
	case "pull":
		if in.dial.Origin.Rtsp {
			in.seq++
			in.dial.Conn.Feed(ref.Interleaved(0, ref.BuildRtp(ref.Rtp{Marker: true, PT: 97, Seq: in.seq, Ts: uint32(idx * 1024), Ssrc: 9, Payload: ref.PackAacHbr(aacPayload(idx)[2:])})))
			break
		}
		if in.sent == 0 {
			in.dial.Origin.SendMsgs(ref.Msg{Csid: 4, Type: 8, Msid: 1, Ts: ts, Payload: ashPayload})
		}
		in.dial.Origin.SendMsgs(ref.Msg{Csid: 4, Type: 8, Msid: 1, Ts: ts, Payload: aacPayload(idx)})
	case "cust":
		feed := func(p []byte) {
			in.cust.FeedRtmpMsg(base.RtmpMsg{Header: base.RtmpHeader{Csid: 4, MsgLen: uint32(len(p)), MsgTypeId: 8, MsgStreamId: 1, TimestampAbs: ts}, Payload: p})
		}
		if in.sent == 0 {
			feed(ashPayload)
		}
		feed(aacPayload(idx))
	case "rtsp":
		in.seq++
		in.rtsp.SendRtp(0, ref.BuildRtp(ref.Rtp{Marker: true, PT: 97, Seq: in.seq, Ts: uint32(idx * 1024), Ssrc: 7, Payload: ref.PackAacHbr(aacPayload(idx)[2:])}))
	}
	in.sent++
}

func (s *sys) alive(in *input) bool {
	switch in.kind {
	case "rtmp":
		return in.rtmp.Accepted()
	case "rtsp":
		return in.rtsp.Accepted()
	case "pull":
		return !in.dial.Conn.Closed()
	case "ps":
		return logic.VerifPsPubSession(s.w.SM, stream) != nil
	}
	return true
}

func (s *sys) endCur() {
	if s.cur != nil {
		s.ended[s.cur.id] = true
		if s.cur.kind == "cust" {
			s.oldCust = s.cur
		}
		if s.cur.kind == "ps" {
			s.w.PsExpected--
		}
		s.old = append(s.old, s.cur)
		s.cur = nil
	}
}

func (s *sys) accept(in *input) {
	s.cur = in
	s.curIdle = 0
	s.accepted = append(s.accepted, in.id)
}

const byStream = "bystander"

func (s *sys) setupBystander() {
	var err error
	if s.byPub, err = s.w.RtmpPublisher("live", byStream); err != nil {
		s.infra = err
		return
	}
	if s.bySub, err = s.w.RtmpPlayer("live", byStream); err != nil {
		s.infra = err
		return
	}
	s.byPub.SendMsgs(ref.Msg{Csid: 4, Type: 8, Msid: 1, Payload: []byte{0xaf, 0, 0x12, 0x10}})
	if err = s.w.Settle(); err != nil {
		s.infra = err
		return
	}
	s.bySub.Pump()
	s.byHooks = len(s.w.Hooks)
	s.byIDs = map[string]bool{}
	for _, e := range s.w.Notify.Snapshot() {
		if f := strings.Fields(e); len(f) >= 2 {
			s.byIDs[f[1]] = true
		}
	}
}

// Apply runs the event on the first stream, then lets the bystander stream send one frame.
func (s *sys) Apply(ev string) error {
	if err := s.applyMain(ev); err != nil {
		return err
	}
	if s.byPub == nil {
		return nil
	}
	if s.byPub.Conn.Closed() || s.bySub.Conn.Closed() {
		s.add("bystander/disconnected", "event %s on stream %q disconnected a session of another stream (publisher closed=%v, subscriber closed=%v)", ev, stream, s.byPub.Conn.Closed(), s.bySub.Conn.Closed())
		s.byPub = nil
		return nil
	}
	s.bySent++
	pl := append([]byte{0xaf, 1, 0x21}, aacPayload(10000+s.bySent)...)
	s.byPub.SendMsgs(ref.Msg{Csid: 4, Type: 8, Msid: 1, Ts: uint32(20 * s.bySent), Payload: pl})
	if err := s.w.Settle(); err != nil {
		return err
	}
	n := 0
	for _, m := range s.bySub.Pump() {
		if m.Type == 8 && len(m.Payload) > 2 && m.Payload[1] == 1 {
			n++
			if !bytes.Equal(m.Payload, pl) {
				s.add("bystander/delivery", "after %s the other stream's subscriber received an audio message that is not the one its publisher just sent", ev)
			}
		}
	}
	if n != 1 {
		s.add("bystander/delivery", "after %s the other stream's subscriber received %d messages for the one frame its publisher sent", ev, n)
	}
	for _, h := range s.w.Hooks[:s.byHooks] {
		if _, stops := h.Counts(); stops != 0 {
			s.add("bystander/outputs", "after %s the other stream's output pipeline was told to stop", ev)
		}
	}
	g := s.w.SM.StatGroup(byStream)
	if g == nil || g.StatPub.SessionId == "" || len(g.StatSubs) != 1 {
		s.add("bystander/stat", "after %s the stat API no longer lists the other stream's publisher and subscriber (%+v)", ev, g)
	}
	for _, e := range s.w.Notify.Snapshot() {
		if f := strings.Fields(e); len(f) >= 2 && s.byIDs[f[1]] && strings.HasSuffix(f[0], "_stop") {
			s.add("bystander/notify", "after %s: %s for a session of the other stream, which is still attached", ev, e)
		}
	}
	return nil
}

func (s *sys) applyMain(ev string) error {
	if s.infra != nil {
		return s.infra
	}
	s.lastEv = ev
	s.viols = nil // the monitors of earlier events ran when those events were explored
	w := s.w
	curBefore := s.cur
	sdpBefore := logic.VerifSdp(w.SM, stream)
	hooksBefore := len(w.Hooks)
	hookMsgsBefore := 0
	if hooksBefore > 0 {
		hookMsgsBefore, _ = w.Hooks[hooksBefore-1].Counts()
	}
	var err error
	if (ev == "Out" || ev == "KickIn" || ev == "P" || ev == "O:close") && s.cur == nil {
		return fmt.Errorf("event %s needs an accepted input, but the prefix left none this time (it did when the prefix was first explored)", ev)
	}
	newIn := func(kind string) *input { s.nin++; return &input{id: s.nin, kind: kind} }
	refusedOK := func(kind string, accepted bool) {
		if curBefore != nil && accepted {
			s.add("second-input-accepted", "%s input accepted although the %s input #%d is attached", kind, curBefore.kind, curBefore.id)
		}
		if curBefore == nil && !accepted {
			s.add("input-refused", "%s input refused although the stream has no input", kind)
		}
	}
	switch ev {
	case "In:rtmp":
		in := newIn("rtmp")
		in.rtmp, err = w.RtmpPublisher("live", stream)
		if err == nil {
			ok := in.rtmp.Accepted()
			refusedOK("rtmp", ok)
			if ok && curBefore == nil {
				s.accept(in)
			} else if ok {
				s.old = append(s.old, in)
			}
		}
	case "In:rtsp":
		in := newIn("rtsp")
		in.rtsp, err = w.RtspPublisher("rtsp://h/live/"+stream, sdpAac, []string{"streamid=0"})
		if err == nil {
			ok := in.rtsp.Accepted() && in.rtsp.LastStatus() == 200
			refusedOK("rtsp", ok)
			if ok && curBefore == nil {
				s.accept(in)
			}
		}
	case "In:cust":
		in := newIn("cust")
		var e error
		in.cust, e = w.SM.AddCustomizePubSession(stream)
		err = w.Settle()
		refusedOK("customize", e == nil)
		if e == nil && curBefore == nil {
			s.accept(in)
		}
	case "In:ps", "In:pstcp":
		in := newIn("ps")
		tcp := 0
		if ev == "In:pstcp" {
			tcp = 1
			in.tcp = true
		}
		// an accepted session never times out by itself (timeout 0); a call that must be refused asks for
		// a one-second timeout: nothing of a refused call may rub off on the accepted input
		timeoutMs := 0
		if curBefore != nil {
			timeoutMs = 1000
		}
		r := w.SM.CtrlStartRtpPub(base.ApiCtrlStartRtpPubReq{StreamName: stream, Port: 0, TimeoutMs: timeoutMs, IsTcpFlag: tcp})
		ok := r.ErrorCode == base.ErrorCodeSucc
		if ok {
			w.PsExpected++
			in.psID = r.Data.SessionId
		}
		err = w.Settle()
		refusedOK("start_rtp_pub", ok)
		if ok && curBefore == nil {
			s.accept(in)
		} else if ok {
			s.old = append(s.old, in) // a second PS session now exists somewhere
		}
	case "Out":
		switch s.cur.kind {
		case "rtmp":
			s.cur.rtmp.Close()
		case "rtsp":
			s.cur.rtsp.Close()
		case "cust":
			w.SM.DelCustomizePubSession(s.cur.cust)
		}
		s.endCur()
		err = w.Settle()
	case "KickIn":
		id := ""
		if g := s.stat(); g != nil {
			id = g.StatPub.SessionId
			if s.cur.kind == "pull" {
				id = g.StatPull.SessionId
			}
		}
		if id == "" {
			s.add("stat/input-missing", "the stat API shows no session id for the attached %s input", s.cur.kind)
			return nil
		}
		r := w.SM.CtrlKickSession(base.ApiCtrlKickSessionReq{StreamName: stream, SessionId: id})
		if r.ErrorCode != base.ErrorCodeSucc {
			s.add("kick/response", "kick of the attached %s input %s answered code=%d", s.cur.kind, id, r.ErrorCode)
		}
		s.endCur()
		err = w.Settle()
	case "P":
		s.send(s.cur)
		s.curIdle = 0
		err = w.Settle()
	case "FeedOld":
		// through every entry point of the stale context: an RTMP message, an AudioSpecificConfig (which
		// makes the context's remuxer emit a sequence header) and a raw AAC packet
		s.send(s.oldCust)
		s.oldCust.cust.FeedAudioSpecificConfig([]byte{0x11, 0x90})
		idx := len(s.frames)
		s.frames = append(s.frames, frame{idx, s.oldCust.id})
		s.oldCust.cust.FeedAvPacket(base.AvPacket{PayloadType: base.AvPacketPtAac, Timestamp: int64(idx * 23), Pts: int64(idx * 23), Payload: aacPayload(idx)[2:]})
		err = w.Settle()
	case "J":
		var p *world.RtmpPeer
		p, err = w.RtmpPlayer("live", stream)
		if err == nil {
			if !p.Accepted() {
				s.add("subscriber-refused", "an RTMP subscriber was refused")
			} else {
				s.subs = append(s.subs, &sub{p: p, gotIdx: map[int]int{}, joinPub: len(s.frames)})
				s.nsubsAcc++
			}
		}
	case "L":
		s.subs[0].p.Close()
		s.subs = s.subs[1:]
		s.nsubsEnd++
		err = w.Settle()
	case "KickSub":
		id := ""
		if g := s.stat(); g != nil && len(g.StatSubs) > 0 {
			ids := []string{}
			for _, ss := range g.StatSubs {
				ids = append(ids, ss.SessionId)
			}
			sort.Strings(ids)
			id = ids[0]
		}
		if id == "" {
			s.add("stat/sub-missing", "the stat API lists no subscriber although %d are attached", len(s.subs))
			return nil
		}
		r := w.SM.CtrlKickSession(base.ApiCtrlKickSessionReq{StreamName: stream, SessionId: id})
		if r.ErrorCode != base.ErrorCodeSucc {
			s.add("kick/response", "kick of subscriber %s answered code=%d", id, r.ErrorCode)
		}
		err = w.Settle()
		// which peer it was: the one whose connection the server closed
		n := 0
		for i := 0; i < len(s.subs); i++ {
			if !s.subs[i].p.Accepted() {
				s.subs = append(s.subs[:i], s.subs[i+1:]...)
				i--
				n++
				s.nsubsEnd++
			}
		}
		if n != 1 {
			s.add("kick/subscribers-closed", "kick of one subscriber closed %d subscriber connections", n)
		}
	case "ApiStart":
		s.apiOn = true
		scheme := "rtmp://"
		if s.c.RtspPull {
			scheme = "rtsp://"
		}
		w.SM.CtrlStartRelayPull(base.ApiCtrlStartRelayPullReq{Url: scheme + w.Host("origin") + "/live/" + stream, PullRetryNum: 0, AutoStopPullAfterNoOutMs: -1})
		err = w.Settle()
	case "ApiStop":
		s.apiOn = false
		w.SM.CtrlStopRelayPull(stream)
		if s.cur != nil && s.cur.kind == "pull" {
			s.endCur()
		}
		err = w.Settle()
	case "T":
		err = w.Tick()
		if s.curIdle < 3 {
			s.curIdle++
		}
	case "D:accept":
		pend, _ := s.pullDials()
		d := pend[0]
		d.Accept()
		err = w.Settle()
		if err == nil {
			attached := !d.Conn.Closed() && d.Origin.Started
			if attached {
				in := newIn("pull")
				s.nin-- // a pull attempt is not an arrival of the explored budget
				in.id = 1000 + d.Seq
				in.dial = d
				if curBefore != nil {
					s.add("second-input-accepted", "a relay pull attached although the %s input #%d is attached", curBefore.kind, curBefore.id)
				} else {
					s.accept(in)
				}
			}
		}
	case "D:refuse":
		pend, _ := s.pullDials()
		pend[0].Refuse()
		err = w.Settle()
	case "O:close":
		s.cur.dial.Origin.Close()
		s.endCur()
		err = w.Settle()
	default:
		return fmt.Errorf("unknown event %s", ev)
	}
	if err != nil {
		return err
	}
	if p := w.Net.FirstPanic(); p != "" {
		s.add("panic", "%s", strings.SplitN(p, "\n", 2)[0])
	}
	for _, d := range w.AllDials()[s.seenDial:] {
		_ = d
		s.attempts++
	}
	s.seenDial = len(w.AllDials())

	// ---- (C) the accepted input is still the accepted input
	foreign := !(ev == "Out" || ev == "KickIn" || ev == "O:close" || (ev == "ApiStop" && curBefore != nil && curBefore.kind == "pull"))
	if s.cur != nil && !s.alive(s.cur) {
		// (a tick may end an input through the idle check, every base.LogicCheckSessionAliveIntervalSec =
		// 120 ticks - far beyond the depth explored here -, or a GB28181 session through its own timeout,
		// which is 0 = never for every accepted session of this harness)
		if foreign {
			s.add("accepted-input-disconnected", "event %s disconnected the accepted %s input #%d", ev, s.cur.kind, s.cur.id)
		}
		s.endCur()
	}
	dump := ""
	for _, l := range strings.Split(w.Dump(), "\n") { // the first stream's group only
		if strings.HasPrefix(l, "group "+stream+" ") {
			dump = l
		}
	}
	wantIn := map[string]string{"": "in[rtmp=0 rtsp=0 cust=0 ps=0 pullRtmp=0 pullRtsp=0", "rtmp": "in[rtmp=1 rtsp=0 cust=0 ps=0 pullRtmp=0 pullRtsp=0", "rtsp": "in[rtmp=0 rtsp=1 cust=0 ps=0 pullRtmp=0 pullRtsp=0",
		"cust": "in[rtmp=0 rtsp=0 cust=1 ps=0 pullRtmp=0 pullRtsp=0", "ps": "in[rtmp=0 rtsp=0 cust=0 ps=1 pullRtmp=0 pullRtsp=0", "pull": "in[rtmp=0 rtsp=0 cust=0 ps=0 pullRtmp=1 pullRtsp=0"}
	if s.c.RtspPull {
		wantIn["pull"] = "in[rtmp=0 rtsp=0 cust=0 ps=0 pullRtmp=0 pullRtsp=1"
	}
	k := ""
	if s.cur != nil {
		k = s.cur.kind
	}
	if dump != "" || k != "" {
		i := strings.Index(dump, "in[")
		got := ""
		if i >= 0 {
			got = dump[i:]
			if j := strings.Index(got, " pulling="); j >= 0 {
				got = got[:j]
			}
		} else if k == "" {
			got = wantIn[""]
		}
		if got != wantIn[k] {
			what := "none"
			if s.cur != nil {
				what = fmt.Sprintf("%s #%d", s.cur.kind, s.cur.id)
			}
			s.add("input-slot", "after %s the accepted input should be %s, the group holds %s]", ev, what, got)
		}
	}
	// ---- outputs: one hook context per accepted input, untouched by foreign events
	if len(w.Hooks)-s.byHooks != len(s.accepted) {
		s.add("outputs/pipeline-count", "after %s: %d output pipelines (hook contexts) were created for %d accepted inputs", ev, len(w.Hooks)-s.byHooks, len(s.accepted))
	} else {
		for i, h := range w.Hooks[s.byHooks:] {
			_, stops := h.Counts()
			want := 0
			if s.ended[s.accepted[i]] {
				want = 1
			}
			if stops != want {
				s.add("outputs/stopped", "after %s: the output pipeline of input #%d was stopped %d times, its input has ended: %v", ev, s.accepted[i], stops, s.ended[s.accepted[i]])
			}
		}
	}
	if foreign && curBefore != nil && s.cur == curBefore && len(w.Hooks) != hooksBefore {
		s.add("outputs/rebuilt", "foreign event %s rebuilt the output pipeline of the accepted input", ev)
	}
	// ---- delivery: what subscribers received
	lastFrame := -1
	if (ev == "P" || ev == "FeedOld") && len(s.frames) > 0 {
		lastFrame = len(s.frames) - 1
	}
	for i := 0; i < len(s.subs); i++ {
		sb := s.subs[i]
		sb.p.Pump()
		if !sb.p.Accepted() {
			if ev != "T" {
				s.add("subscriber-disconnected", "event %s disconnected a subscriber", ev)
			}
			s.subs = append(s.subs[:i], s.subs[i+1:]...)
			s.nsubsEnd++
			i--
			continue
		}
		if sb.p.DecErr != nil {
			s.add("subscriber-bytes", "subscriber stream does not decode: %v", sb.p.DecErr)
		}
		gotNew := map[int]bool{}
		for _, m := range sb.p.Msgs[sb.seen:] {
			if m.Type == 8 && len(m.Payload) >= 4 && m.Payload[0] == 0xaf && m.Payload[1] == 1 {
				idx := int(m.Payload[2])<<8 | int(m.Payload[3])
				sb.gotIdx[idx]++
				gotNew[idx] = true
				if idx >= len(s.frames) {
					s.add("delivery/unknown-frame", "a subscriber received a frame nobody sent")
					continue
				}
				f := s.frames[idx]
				if ev == "FeedOld" && idx == lastFrame {
					s.add("delivery/from-departed-input", "frame #%d fed by the deleted customize input #%d was forwarded to a subscriber (current input: %v)", idx, f.input, s.cur != nil)
				} else if s.cur == nil || f.input != s.cur.id {
					s.add("delivery/from-foreign-input", "after %s a subscriber received frame #%d of input #%d which is not the accepted input", ev, idx, f.input)
				}
				if sb.gotIdx[idx] > 1 {
					s.add("delivery/duplicate", "frame #%d delivered %d times", idx, sb.gotIdx[idx])
				}
			}
		}
		sb.seen = len(sb.p.Msgs)
		if ev == "P" && !gotNew[lastFrame] {
			s.add("delivery/lost", "frame #%d published by the accepted %s input #%d did not reach an attached subscriber", lastFrame, s.cur.kind, s.cur.id)
		}
	}
	// the description RTSP subscribers of the stream get is the accepted input's: no foreign event changes it
	if foreign && ev != "T" && curBefore != nil && s.cur == curBefore {
		if now := logic.VerifSdp(w.SM, stream); !bytes.Equal(now, sdpBefore) {
			s.add("outputs/sdp-changed", "event %s changed the stream's RTSP description while the %s input #%d stayed attached (%d -> %d bytes)", ev, curBefore.kind, curBefore.id, len(sdpBefore), len(now))
		}
	}
	// the hook (an output) sees exactly what the accepted input sends: nothing on foreign events
	if curBefore != nil && s.cur == curBefore && len(w.Hooks) == hooksBefore && hooksBefore > 0 {
		msgs, _ := w.Hooks[hooksBefore-1].Counts()
		delta := msgs - hookMsgsBefore
		want := 0
		if ev == "P" {
			want = 1
			if s.cur.sent == 1 && s.cur.kind != "rtsp" && !(s.cur.kind == "pull" && s.c.RtspPull) {
				want = 2 // its sequence header
			}
		}
		if delta != want {
			s.add("outputs/messages", "event %s made the output pipeline of the accepted %s input see %d more messages, want %d", ev, s.cur.kind, delta, want)
		}
	}

	// ---- (D) notifications
	evs := w.Notify.Snapshot()
	cnt := map[string]map[string]int{}
	order := map[string][]string{}
	for _, e := range evs {
		f := strings.Fields(e)
		if len(f) < 2 || s.byIDs[f[1]] {
			continue
		}
		if cnt[f[0]] == nil {
			cnt[f[0]] = map[string]int{}
		}
		cnt[f[0]][f[1]]++
		order[f[1]] = append(order[f[1]], f[0])
	}
	for id, seq := range order {
		j := strings.Join(seq, " ")
		okSeqs := map[string]bool{"pub_start": true, "pub_start pub_stop": true, "sub_start": true, "sub_start sub_stop": true, "pull_start": true, "pull_start pull_stop": true, "pull_stop": true}
		if !okSeqs[j] {
			s.add("notify/sequence", "after %s session %s has the notification sequence [%s]", ev, id, j)
		}
	}
	netAccepted, netEnded := 0, 0
	psAccepted, psEnded := 0, 0
	for _, in := range append(append([]*input{}, s.old...), s.cur) {
		if in == nil || in.kind == "cust" || in.kind == "pull" {
			continue
		}
		if in.kind == "ps" {
			for _, a := range s.accepted {
				if a == in.id {
					psAccepted++
					if s.ended[in.id] {
						psEnded++
					}
				}
			}
			continue
		}
		acc := false
		for _, a := range s.accepted {
			if a == in.id {
				acc = true
			}
		}
		if acc {
			netAccepted++
			if s.ended[in.id] {
				netEnded++
			}
		}
	}
	psStart, psStop := 0, 0
	for id := range cnt["pub_start"] {
		if strings.HasPrefix(id, base.UkPrePsPubSession) {
			psStart++
			delete(cnt["pub_start"], id)
		}
	}
	for id := range cnt["pub_stop"] {
		if strings.HasPrefix(id, base.UkPrePsPubSession) {
			psStop++
			delete(cnt["pub_stop"], id)
		}
	}
	if psStart != psAccepted || psStop != psEnded {
		s.add("notify/gb28181-session", "after %s: %d pub_start / %d pub_stop notifications for GB28181 sessions, %d were accepted and %d of them have ended", ev, psStart, psStop, psAccepted, psEnded)
	}
	if n := len(cnt["pub_start"]); n != netAccepted {
		s.add("notify/pub-start-count", "after %s: %d pub_start notifications for %d accepted network publishers", ev, n, netAccepted)
	}
	if n := len(cnt["pub_stop"]); n != netEnded {
		s.add("notify/pub-stop-count", "after %s: %d pub_stop notifications for %d accepted network publishers that have ended", ev, n, netEnded)
	}
	if n := len(cnt["sub_start"]); n != s.nsubsAcc {
		s.add("notify/sub-start-count", "after %s: %d sub_start notifications for %d accepted subscribers", ev, n, s.nsubsAcc)
	}
	if n := len(cnt["sub_stop"]); n != s.nsubsEnd {
		s.add("notify/sub-stop-count", "after %s: %d sub_stop notifications for %d subscribers that have gone", ev, n, s.nsubsEnd)
	}
	pend, _ := s.pullDials()
	pullAcc, pullRunning := 0, len(pend)
	for _, a := range s.accepted {
		if a >= 1000 {
			pullAcc++
			if !s.ended[a] {
				pullRunning++
			}
		}
	}
	if n := len(cnt["pull_start"]); n != pullAcc {
		s.add("notify/pull-start-count", "after %s: %d pull_start notifications for %d pull sessions that attached", ev, n, pullAcc)
	}
	if n := len(cnt["pull_stop"]); n != s.attempts-pullRunning {
		s.add("notify/pull-stop-count", "after %s: %d pull_stop notifications for %d finished pull attempts (%d attempts, %d still running)", ev, n, s.attempts-pullRunning, s.attempts, pullRunning)
	}

	// ---- (E) stat API
	g := s.stat()
	pubID, pullID, nsub := "", "", 0
	if g != nil {
		pubID, pullID, nsub = g.StatPub.SessionId, g.StatPull.SessionId, len(g.StatSubs)
	}
	wantPub := s.cur != nil && (s.cur.kind == "rtmp" || s.cur.kind == "rtsp" || s.cur.kind == "ps")
	if (pubID != "") != wantPub {
		s.add("stat/pub", "after %s the stat API shows publisher %q; attached network publisher: %v", ev, pubID, wantPub)
	}
	if (pullID != "") != (s.cur != nil && s.cur.kind == "pull") {
		s.add("stat/pull", "after %s the stat API shows pull session %q; attached pull: %v", ev, pullID, s.cur != nil && s.cur.kind == "pull")
	}
	if nsub != len(s.subs) {
		s.add("stat/subs", "after %s the stat API lists %d subscribers, %d are attached", ev, nsub, len(s.subs))
	}
	if s.cur != nil && s.cur.kind == "ps" && pubID != s.cur.psID {
		s.add("stat/pub", "the stat API shows publisher %q, start_rtp_pub reported session %q", pubID, s.cur.psID)
	}
	return nil
}

func (s *sys) Check() []seqx.Viol { v := s.viols; s.viols = nil; return v }

func (s *sys) Fingerprint() string {
	var sb strings.Builder
	sb.WriteString(strings.ReplaceAll(s.w.Dump(), fmt.Sprintf("w%d-", s.w.ID), "w-"))
	k := "none"
	if s.cur != nil {
		k = fmt.Sprintf("%s tcp=%v sent=%d", s.cur.kind, s.cur.tcp, minI(s.cur.sent, 2))
	}
	fmt.Fprintf(&sb, " |cur=%s idle=%d nin=%d subs=%d oldCust=%v api=%v ps=%d", k, s.curIdle, s.nin, len(s.subs), s.oldCust != nil, s.apiOn, s.w.PsExpected)
	pend, live := s.pullDials()
	fmt.Fprintf(&sb, " dials=%d/%d live[%s]", len(pend), len(live), s.w.LivenessSig())
	for _, b := range s.subs {
		fmt.Fprintf(&sb, " sub[%d]", minI(len(b.gotIdx), 2))
	}
	return sb.String()
}

func minI(a, b int) int {
	if a < b {
		return a
	}
	return b
}

func configs(r *vk.Run) []cfg {
	var cs []cfg
	cs = append(cs, cfg{Name: "publishers", Alphabet: []string{"In:rtmp", "In:rtsp", "In:cust", "Out", "KickIn", "P", "J", "FeedOld"}, MaxSubs: 1, MaxInputs: 3})
	cs = append(cs, cfg{Name: "publishers+ps", Alphabet: []string{"In:rtmp", "In:ps", "In:cust", "Out", "KickIn", "P", "J", "T"}, MaxSubs: 1, MaxInputs: 3})
	cs = append(cs, cfg{Name: "pull-vs-publishers", Alphabet: []string{"In:rtmp", "In:rtsp", "In:cust", "In:ps", "Out", "KickIn", "P", "J", "ApiStart", "T"}, MaxSubs: 1, MaxInputs: 2})
	cs = append(cs, cfg{Name: "rtsppull-vs-publishers", RtspPull: true, Alphabet: []string{"In:rtmp", "In:rtsp", "In:cust", "Out", "KickIn", "P", "J", "ApiStart", "T"}, MaxSubs: 1, MaxInputs: 2})
	cs = append(cs, cfg{Name: "rtsp-vs-ps", Alphabet: []string{"In:rtsp", "In:ps", "In:pstcp", "Out", "KickIn", "P", "J"}, MaxSubs: 1, MaxInputs: 3})
	cs = append(cs, cfg{Name: "subscribers", Alphabet: []string{"In:rtmp", "In:rtsp", "Out", "P", "J", "KickSub", "T"}, MaxSubs: 2, MaxInputs: 2})
	if !r.Quick() {
		cs = append(cs, cfg{Name: "everything", Alphabet: []string{"In:rtmp", "In:rtsp", "In:cust", "In:ps", "Out", "KickIn", "P", "J", "KickSub", "FeedOld", "ApiStart", "T"}, MaxSubs: 2, MaxInputs: 3})
	}
	return cs
}

func main() {
	r := vk.Start("C03", "model_checking")
	lalenv.Quiet()
	world.SyncQueues()
	r.Rule("states = distinct canonical fingerprints reached by event sequences over {In:rtmp|rtsp|cust|ps (arrival of an input), Out, KickIn, P (the accepted input sends a frame), FeedOld (a deleted customize context feeds), J, L, KickSub, start/stop_relay_pull, D:accept, D:refuse, O:close, T}; after every transition the single-input, refusal, undisturbed-delivery / outputs, notification and stat monitors run. distinct_nontrivial = states")
	r.Assume("all inputs send AAC audio only (no key-frame gating), so delivery to an attached subscriber is immediate; subscriber write queues are synchronous",
		"the GB28181 input opened by start_rtp_pub listens on a real loopback UDP port and never receives a packet; its departure is by kick",
		"outbound pull connections go through the gated dialer of C17; one stream name (other names are independent groups)",
		"notifications are compared by count and per-session order; ids of refused sessions are not known to the harness, so a notification for a refused session shows up as a count mismatch")
	mk := func(c cfg) func() seqx.Sys { return func() seqx.Sys { return newSys(c) } }
	if r.ReplayIn != "" {
		var rp replay
		r.LoadReplay(&rp)
		s, vs, err := seqx.Run(seqx.Config{New: mk(rp.Cfg)}, rp.Trace)
		if err != nil {
			r.Violation("infra/replay", err.Error(), rp)
		}
		for _, v := range vs {
			r.Violation(v.Key, v.What, rp)
		}
		seqx.Close(s)
		r.Finish()
	}
	if tr := os.Getenv("C03_FDPROBE"); tr != "" { // debugging aid: run one trace 200 times, print the open descriptors
		c := configs(r)[1]
		for i := 0; i < 200; i++ {
			s := newSys(c)
			for _, ev := range strings.Fields(tr) {
				s.Apply(ev)
			}
			s.Close()
		}
		time.Sleep(500 * time.Millisecond)
		ents, _ := os.ReadDir("/proc/self/fd")
		fmt.Printf("FDPROBE trace=%q open descriptors after 200 executions: %d\n", tr, len(ents))
		os.Exit(0)
	}
	r.SetBudget(6*time.Minute, 60*time.Minute)
	depth := 7
	if !r.Quick() {
		depth = 10
	}
	var states, trans, execs int64
	per := map[string]interface{}{}
	for _, c := range configs(r) {
		c := c
		st := seqx.Explore(seqx.Config{New: mk(c), MaxDepth: depth, Workers: 16, OutOfTime: r.OutOfTime,
			Known: r.IsKnown,
			OnViolation: func(tr []string, v seqx.Viol) {
				r.Violation(v.Key, fmt.Sprintf("[%s] after %s: %s", c.Name, strings.Join(tr, " "), v.What), replay{c, tr})
			},
			OnInfra: func(tr []string, err error) {
				r.Violation("infra/hang-or-nondeterminism", fmt.Sprintf("[%s] %v: %v", c.Name, tr, err), replay{c, tr})
			},
			OnState: func(d int, fp string, tr []string) {
				if os.Getenv("C03_DEBUG") != "" && c.Name == "publishers+ps" {
					only := true
					for _, e := range tr {
						if e != "In:ps" && e != "T" && e != "In:rtmp" {
							only = false
						}
					}
					if only {
						fmt.Fprintf(os.Stderr, "STATE d=%d %v :: %s\n", d, tr, fp[strings.LastIndex(fp, "|cur="):])
					}
				}
				r.Class(c.Name + "|" + fp)
				if d == depth {
					r.Sample(map[string]interface{}{"config": c.Name, "trace": tr})
				}
			}})
		states += st.States
		trans += st.Transitions
		execs += st.Executions
		per[c.Name] = map[string]interface{}{"states": st.States, "transitions": st.Transitions, "depth_completed": st.MaxDepthCompleted, "frontier": st.Frontier, "executions_repeated_after_infra_error": st.Retried}
		if st.Capped {
			r.NotExhaustive("internal time budget hit before the depth bound")
		}
		r.Eval(int(st.Executions))
	}
	r.AddStates(states)
	r.AddTransitions(trans)
	r.AddTraces(execs)
	r.Cov("per_config", per)
	r.Cov("max_depth", depth)
	r.Finish()
}
