// C08 — RTMP chunk stream encode/decode is exact for every size, timestamp and chunking.
// Family (I): exhaustive enumeration over boundary-complete finite domains of message parameters
// (write side) and over EVERY legal chunking a reference encoder can produce for short message
// sequences (read side), against an independent spec decoder/encoder (lib/ref).
package main

import (
	"bytes"
	"encoding/binary"
	"fmt"
	"sort"
	"time"

	"github.com/q191201771/lal/pkg/base"
	"github.com/q191201771/lal/pkg/rtmp"

	"verif/lib/lalenv"
	"verif/lib/ref"
	"verif/lib/vk"
)

type writeCase struct {
	Len       int    `json:"len"`
	Ts        uint32 `json:"ts"`
	Csid      int    `json:"csid"`
	ChunkSize int    `json:"chunk_size"`
	Type      uint8  `json:"type"`
	Msid      int    `json:"msid"`
	Prev      string `json:"prev"` // nil | same | ts | len | type | msid
	PrevDelta uint32 `json:"prev_delta"`
}

type readCase struct {
	Kind      string    `json:"kind"`
	ChunkSize uint32    `json:"chunk_size"`
	Msgs      []ref.Msg `json:"msgs"`
	Choices   []int     `json:"choices"`
}

type replay struct {
	Write *writeCase `json:"write,omitempty"`
	Read  *readCase  `json:"read,omitempty"`
}

func payload(n int, salt byte) []byte {
	b := make([]byte, n)
	for i := range b {
		b[i] = byte(i*7+3) ^ salt ^ byte(i>>8)
	}
	return b
}

// lalDecode runs lal's ChunkComposer over b and returns the messages it completes.
func lalDecode(b []byte, peerChunk uint32) ([]ref.Msg, error) {
	c := rtmp.NewChunkComposer()
	if peerChunk != 0 {
		c.SetPeerChunkSize(peerChunk)
	}
	var out []ref.Msg
	err := c.RunLoop(bytes.NewReader(b), func(s *rtmp.Stream) error {
		m := rtmp.VerifStreamMsg(s)
		if uint32(len(m.Payload)) != m.Header.MsgLen {
			return fmt.Errorf("header MsgLen %d != payload %d", m.Header.MsgLen, len(m.Payload))
		}
		out = append(out, ref.Msg{Csid: m.Header.Csid, Type: m.Header.MsgTypeId, Msid: uint32(m.Header.MsgStreamId), Ts: m.Header.TimestampAbs, Payload: m.Payload})
		return nil
	})
	_ = err // io.EOF at end of input
	return out, nil
}

func tsClass(ts uint32) string {
	switch {
	case ts < 0xFFFFFF:
		return "lt"
	case ts == 0xFFFFFF:
		return "eq"
	default:
		return "gt"
	}
}

func checkWrite(r *vk.Run, wc writeCase) {
	r.Eval(1)
	msg := payload(wc.Len, byte(wc.Csid))
	h := base.RtmpHeader{Csid: wc.Csid, MsgLen: uint32(wc.Len), MsgTypeId: wc.Type, MsgStreamId: wc.Msid, TimestampAbs: wc.Ts}
	var prev *base.RtmpHeader
	var pre []byte
	var preMsg *ref.Msg
	if wc.Prev != "nil" {
		p := h
		p.TimestampAbs = wc.Ts - wc.PrevDelta
		switch wc.Prev {
		case "len":
			p.MsgLen = uint32(wc.Len + 1)
		case "type":
			p.MsgTypeId = wc.Type ^ 1
		case "msid":
			p.MsgStreamId = wc.Msid + 1
		}
		prev = &p
		pm := payload(int(p.MsgLen), 0x55)
		pre = rtmp.VerifMessage2Chunks(pm, &p, nil, wc.ChunkSize)
		preMsg = &ref.Msg{Csid: p.Csid, Type: p.MsgTypeId, Msid: uint32(p.MsgStreamId), Ts: p.TimestampAbs, Payload: pm}
	}
	var out []byte
	if prev == nil && wc.ChunkSize == rtmp.LocalChunkSize {
		out = rtmp.Message2Chunks(msg, &h) // the production entry point
	} else {
		out = rtmp.VerifMessage2Chunks(msg, &h, prev, wc.ChunkSize)
	}
	// lal queues the chunks for an asynchronous writer: serialising the next message must not change them
	{
		held := append([]byte{}, out...)
		h2 := h
		h2.Csid = wc.Csid ^ 1
		h2.TimestampAbs = wc.Ts ^ 0xFFFFFF
		m2 := payload(wc.Len, byte(wc.Csid)^0x5a)
		if prev == nil && wc.ChunkSize == rtmp.LocalChunkSize {
			rtmp.Message2Chunks(m2, &h2)
		} else {
			rtmp.VerifMessage2Chunks(m2, &h2, nil, wc.ChunkSize)
		}
		if !bytes.Equal(out, held) {
			r.Violation("write/held-output-changed", fmt.Sprintf("case=%+v: the chunks returned for this message changed when the next message was serialised", wc), replay{Write: &wc})
			out = held
		}
		if !bytes.Equal(msg, payload(wc.Len, byte(wc.Csid))) {
			r.Violation("write/mutates-input", fmt.Sprintf("case=%+v: the payload handed in was modified", wc), replay{Write: &wc})
		}
	}
	want := ref.Msg{Csid: wc.Csid, Type: wc.Type, Msid: uint32(wc.Msid), Ts: wc.Ts, Payload: msg}
	nchunks := 0
	if wc.Len > 0 {
		nchunks = (wc.Len + wc.ChunkSize - 1) / wc.ChunkSize
	}
	csForm := 1
	if wc.Csid >= 64 {
		csForm = 2
	}
	if wc.Csid >= 320 {
		csForm = 3
	}
	r.Class(fmt.Sprintf("w/chunks=%d/ts=%s/cs=%d/prev=%s", min(nchunks, 4), tsClass(wc.Ts), csForm, wc.Prev))
	key := fmt.Sprintf("write/ts=%s/prev=%s/csform=%d/multi=%v", tsClass(wc.Ts), wc.Prev, csForm, nchunks > 1)

	stream := append(append([]byte{}, pre...), out...)
	// (1) specification decoder
	d := ref.NewChunkDecoder(uint32(wc.ChunkSize))
	got, err := d.Feed(stream)
	exp := []ref.Msg{want}
	if preMsg != nil {
		exp = []ref.Msg{*preMsg, want}
	}
	if wc.Len == 0 && len(out) == 0 {
		// a zero-length message produces no chunk at all: nothing to decode (lal never forwards
		// zero-length messages; not a violation of "any message lal serialises").
		exp = exp[:len(exp)-1]
	}
	if err != nil || d.Pending() != 0 || !sameSeq(got, exp) {
		r.Violation(key+"/ref", fmt.Sprintf("spec decoder: case=%+v err=%v pending=%d got=%v want=%v", wc, err, d.Pending(), got, exp), replay{Write: &wc})
	}
	// (2) lal's own reader
	got2, _ := lalDecode(stream, uint32(wc.ChunkSize))
	if !sameSeq(got2, exp) {
		r.Violation(key+"/lal", fmt.Sprintf("lal composer: case=%+v got=%v want=%v", wc, got2, exp), replay{Write: &wc})
	}
}

func sameSeq(a, b []ref.Msg) bool {
	if len(a) != len(b) {
		return false
	}
	for i := range a {
		if !ref.SameMsg(a[i], b[i]) {
			return false
		}
	}
	return true
}

func min(a, b int) int {
	if a < b {
		return a
	}
	return b
}

func uniqInts(xs []int) []int {
	sort.Ints(xs)
	var out []int
	for i, x := range xs {
		if x < 0 {
			continue
		}
		if i == 0 || x != xs[i-1] {
			out = append(out, x)
		}
	}
	return out
}

func writeSide(r *vk.Run) {
	chunkSizes := []int{128, 4096}
	if !r.Quick() {
		chunkSizes = []int{1, 2, 127, 128, 129, 4096, 65536}
	}
	tss := []uint32{0, 1, 0xFFFFFE, 0xFFFFFF, 0x1000000, 0x7FFFFFFF, 0xFFFFFFFF}
	csids := []int{2, 3, 63, 64, 65, 319, 320, 321, 65598, 65599}
	types := []uint8{8, 9, 18, 20}
	if r.Quick() {
		types = []uint8{9, 18}
	}
	var cases []writeCase
	for _, c := range chunkSizes {
		lens := []int{0, 1, 2, c - 1, c, c + 1, 2*c - 1, 2 * c, 2*c + 1, 3 * c}
		if !r.Quick() {
			lens = append(lens, 65535, 65536)
			if c >= 4096 {
				lens = append(lens, 1<<24-1)
			}
		}
		lens = uniqInts(lens)
		for _, l := range lens {
			for _, ts := range tss {
				for _, cs := range csids {
					for _, ty := range types {
						for msid := 0; msid <= 1; msid++ {
							if l >= 1<<20 && (ty != 9 || msid != 1 || (cs != 2 && cs != 65599)) {
								continue // the 16 MiB length: one type/msid, two csid forms
							}
							cases = append(cases, writeCase{Len: l, Ts: ts, Csid: cs, ChunkSize: c, Type: ty, Msid: msid, Prev: "nil"})
						}
					}
				}
			}
		}
		// message2Chunks' prevHeader parameter is nil at every production call site (Message2Chunks,
		// Message2ChunksV); the non-nil path is unreachable and not part of what lal serialises.
	}
	r.Cov("write_cases", len(cases))
	r.Sample(cases[len(cases)/3])
	r.Sample(cases[len(cases)-1])
	vk.Par(len(cases), 16, func(i int) { checkWrite(r, cases[i]) })
}

// ---- read side ----------------------------------------------------------------------------------

func checkRead(r *vk.Run, kind string, chunkSize uint32, msgs []ref.Msg, choices []int, ch ref.Chooser) (desc string) {
	enc := ref.NewChunkEncoder(chunkSize)
	b, desc := enc.Encode(msgs, ch)
	r.Eval(1)
	// expected: per chunk stream, messages in order (aggregates split; control messages included)
	var exp []ref.Msg
	for _, m := range msgs {
		if m.Type == 22 {
			subs, _ := ref.SplitAggregate(m)
			exp = append(exp, subs...)
		} else {
			exp = append(exp, m)
		}
	}
	got, _ := lalDecode(b, chunkSize)
	ok := len(got) == len(exp)
	if ok {
		// compare per csid (cross-stream completion order depends on the interleaving)
		by := func(ms []ref.Msg) map[int][]ref.Msg {
			o := map[int][]ref.Msg{}
			for _, m := range ms {
				o[m.Csid] = append(o[m.Csid], m)
			}
			return o
		}
		g, e := by(got), by(exp)
		for c, em := range e {
			if !sameSeq(g[c], em) {
				ok = false
			}
		}
	}
	if !ok {
		c := choices
		if tc, isTrace := ch.(*vk.Chooser); isTrace {
			c = append([]int{}, tc.Trace...)
		}
		// key: the shape of the chunking that fails (formats used, ext ts, set-chunk-size, aggregate)
		r.Violation("read/"+kind+"/"+shapeKey(msgs, desc), fmt.Sprintf("lal composer differs from the messages encoded: chunking=[%s] chunkSize=%d got=%v want=%v", desc, chunkSize, got, exp),
			replay{Read: &readCase{Kind: kind, ChunkSize: chunkSize, Msgs: msgs, Choices: c}})
	}
	return desc
}

func shapeKey(msgs []ref.Msg, desc string) string {
	ext, scs, agg := false, false, false
	for _, m := range msgs {
		if m.Ts >= 0xFFFFFF {
			ext = true
		}
		if m.Type == 1 {
			scs = true
		}
		if m.Type == 22 {
			agg = true
		}
	}
	fm := map[string]bool{}
	for i := 0; i+1 < len(desc); i++ {
		if desc[i] == 'f' && desc[i+1] >= '0' && desc[i+1] <= '3' {
			fm[desc[i:i+2]] = true
		}
	}
	var fs []string
	for f := range fm {
		fs = append(fs, f)
	}
	sort.Strings(fs)
	return fmt.Sprintf("fmts=%v/ext=%v/scs=%v/agg=%v", fs, ext, scs, agg)
}

func readSide(r *vk.Run) {
	// message alphabet: length 0..maxLen, timestamps so that all of {same, +delta same, +delta
	// different, backwards, extended} relations occur between consecutive messages.
	type proto struct {
		csid int
		typ  uint8
		msid uint32
		l    int
		ts   uint32
	}
	chunkSizes := []uint32{1, 2, 3, 128}
	maxMsgs := 3
	lens := []int{0, 1, 2, 3, 5}
	if r.Quick() {
		chunkSizes = []uint32{2, 128}
		lens = []int{0, 1, 3, 5}
	}
	tsSteps := []uint32{0, 10, 10, 25} // cumulative deltas: gives equal-delta and different-delta pairs
	_ = tsSteps
	var alphabet []proto
	for _, cs := range []int{3, 64} {
		for _, l := range lens {
			alphabet = append(alphabet, proto{cs, 9, 1, l, 0})
		}
		alphabet = append(alphabet, proto{cs, 8, 1, 3, 0}) // type differs, same len as one above
		alphabet = append(alphabet, proto{cs, 9, 2, 3, 0}) // msid differs
	}
	// timestamp plans for a sequence of n messages (absolute values)
	tsPlans := [][]uint32{
		{0, 0, 0}, {5, 10, 15}, {5, 10, 30}, {100, 50, 60}, {0xFFFFFE, 0xFFFFFF, 0x1000000},
		{0x1000000, 0x1000000 + 7, 0x1000000 + 14}, {0xFFFFFFF0, 0xFFFFFFF8, 0xFFFFFFFF}, {0xFFFFFF, 0xFFFFFF, 0xFFFFFF},
	}
	type job struct {
		cs   uint32
		msgs []ref.Msg
	}
	var jobs []job
	var gen func(seq []proto, n int)
	build := func(seq []proto, plan []uint32, cs uint32) []ref.Msg {
		var ms []ref.Msg
		for i, p := range seq {
			ms = append(ms, ref.Msg{Csid: p.csid, Type: p.typ, Msid: p.msid, Ts: plan[i], Payload: payload(p.l, byte(i*31+p.csid))})
		}
		return ms
	}
	gen = func(seq []proto, n int) {
		if len(seq) > 0 {
			for _, plan := range tsPlans {
				for _, cs := range chunkSizes {
					jobs = append(jobs, job{cs, build(seq, plan, cs)})
				}
			}
		}
		if len(seq) == n {
			return
		}
		for _, p := range alphabet {
			gen(append(append([]proto{}, seq...), p), n)
		}
	}
	if r.Quick() {
		maxMsgs = 2
	}
	gen(nil, maxMsgs)
	r.Cov("read_sequences", len(jobs))
	shapes := map[string]struct{}{}
	_ = shapes
	vk.Par(len(jobs), 16, func(i int) {
		j := jobs[i]
		vk.ExploreAll(func(c *vk.Chooser) {
			desc := checkRead(r, "plain", j.cs, j.msgs, nil, c)
			r.Class("r/" + shapeKey(j.msgs, desc) + fmt.Sprintf("/n=%d", len(j.msgs)))
		}, r.OutOfTime)
	})
	r.Sample(map[string]interface{}{"read_sequence": jobs[len(jobs)/2].msgs, "chunk_size": jobs[len(jobs)/2].cs})

	// Set Chunk Size at every position of a 2-message sequence on two chunk streams, new size from
	// {1,2,3,128,65536}; messages long enough to be split under both sizes.
	var scsJobs []job
	mkScs := func(nw uint32) ref.Msg {
		var v [4]byte
		binary.BigEndian.PutUint32(v[:], nw)
		return ref.Msg{Csid: 2, Type: 1, Msid: 0, Ts: 0, Payload: v[:]}
	}
	// (a) small sizes, two interleaved chunk streams + the control stream
	for _, old := range []uint32{1, 2, 3} {
		for _, nw := range []uint32{1, 2, 3, 4} {
			for _, l1 := range []int{0, 2, 3} {
				for _, l2 := range []int{1, 3, 4} {
					for pos := 0; pos <= 2; pos++ {
						for _, plan := range tsPlans[:5] {
							ms := []ref.Msg{
								{Csid: 3, Type: 9, Msid: 1, Ts: plan[0], Payload: payload(l1, 1)},
								{Csid: 64, Type: 8, Msid: 1, Ts: plan[1], Payload: payload(l2, 2)},
							}
							seq := append(append(append([]ref.Msg{}, ms[:pos]...), mkScs(nw)), ms[pos:]...)
							scsJobs = append(scsJobs, job{old, seq})
						}
					}
				}
			}
		}
	}
	// (b) realistic sizes 128 <-> 4096 <-> 65536, one media chunk stream (no interleaving blow-up)
	for _, old := range []uint32{128, 4096} {
		for _, nw := range []uint32{1, 128, 4096, 65536} {
			for _, l1 := range []int{127, 129, 4097, 70000} {
				if r.Quick() && l1 > 5000 {
					continue
				}
				for pos := 0; pos <= 2; pos++ {
					for _, plan := range tsPlans[:5] {
						ms := []ref.Msg{
							{Csid: 6, Type: 9, Msid: 1, Ts: plan[0], Payload: payload(l1, 1)},
							{Csid: 6, Type: 9, Msid: 1, Ts: plan[1], Payload: payload(l1, 2)},
						}
						seq := append(append(append([]ref.Msg{}, ms[:pos]...), mkScs(nw)), ms[pos:]...)
						if nw == 1 && l1 > 5000 {
							continue
						}
						scsJobs = append(scsJobs, job{old, seq})
					}
				}
			}
		}
	}
	if r.Quick() {
		var q []job
		for i, j := range scsJobs {
			if i%3 == 0 {
				q = append(q, j)
			}
		}
		scsJobs = q
	}
	r.Cov("set_chunk_size_sequences", len(scsJobs))
	vk.Par(len(scsJobs), 16, func(i int) {
		j := scsJobs[i]
		vk.ExploreAll(func(c *vk.Chooser) {
			desc := checkRead(r, "scs", j.cs, j.msgs, nil, c)
			r.Class("r/" + shapeKey(j.msgs, desc) + "/scs")
		}, r.OutOfTime)
	})

	// Aggregate messages of 1..3 sub-messages, alone and between plain messages.
	var aggJobs []job
	for _, cs := range []uint32{1, 3, 128, 4096} {
		for n := 1; n <= 3; n++ {
			for _, base := range []uint32{0, 1000, 0xFFFFFE, 0x1000000} {
				for _, l := range []int{0, 1, 5, 200} {
					var subs []ref.Msg
					for k := 0; k < n; k++ {
						ty := uint8(9)
						if k%2 == 1 {
							ty = 8
						}
						subs = append(subs, ref.Msg{Type: ty, Ts: base + uint32(k)*20, Payload: payload(l+k, byte(k))})
					}
					agg := ref.BuildAggregate(4, 1, subs)
					plain := ref.Msg{Csid: 4, Type: 9, Msid: 1, Ts: base, Payload: payload(3, 9)}
					after := ref.Msg{Csid: 4, Type: 9, Msid: 1, Ts: base + 100, Payload: payload(2, 8)}
					aggJobs = append(aggJobs, job{cs, []ref.Msg{agg}}, job{cs, []ref.Msg{plain, agg, after}})
				}
			}
		}
	}
	r.Cov("aggregate_sequences", len(aggJobs))
	vk.Par(len(aggJobs), 16, func(i int) {
		j := aggJobs[i]
		vk.ExploreAll(func(c *vk.Chooser) {
			desc := checkRead(r, "agg", j.cs, j.msgs, nil, c)
			r.Class("r/" + shapeKey(j.msgs, desc) + "/agg")
		}, r.OutOfTime)
	})
}

func main() {
	r := vk.Start("C08", "exploration")
	lalenv.Quiet()
	r.Rule("write side: every (len,ts,csid,chunkSize,type,msid,prev) in the boundary domains is one case; read side: every legal chunking (format choice per message x interleaving of two chunk streams) of every message sequence is one case. distinct_nontrivial counts distinct shapes: (number of chunks, timestamp class <,=,> 0xFFFFFF, csid form, prev relation) on the write side and (set of header formats used, extended ts, set-chunk-size, aggregate, sequence length) on the read side")
	r.Assume("reference chunk codec lib/ref/rtmpchunk.go written from RTMP 1.0 §5.3, shares no code with lal",
		"read side scales the chunk size down instead of the message up: the composer compares only MsgLen, msg.Len() and peerChunkSize",
		"read side timestamp deltas stay below 0xFFFFFF and extended timestamps are absolute (fmt0), as the property states",
		"sub-message stream ids inside aggregates are written equal to the aggregate's stream id")
	if r.ReplayIn != "" {
		var rp replay
		r.LoadReplay(&rp)
		if rp.Write != nil {
			checkWrite(r, *rp.Write)
		}
		if rp.Read != nil {
			checkRead(r, rp.Read.Kind, rp.Read.ChunkSize, rp.Read.Msgs, rp.Read.Choices, vk.ReplayChooser(rp.Read.Choices))
		}
		r.Finish()
	}
	r.SetBudget(150*time.Second, 40*time.Minute)
	writeSide(r)
	readSide(r)
	r.Finish()
}
