// C06 — RTMP ingest reaches TS, HLS and RTSP consumers with the same frames.
// Family (B/S): exhaustive enumeration of frame sequences (alphabet of frame shapes x codecs x join
// points) published over RTMP into the real server; three reference demuxers (MPEG-TS, the HLS segment
// files, RTP over interleaved RTSP) recover the elementary frames, which are compared byte for byte and
// timestamp for timestamp with what was published.
package main

import (
	"bytes"
	"fmt"
	"os"
	"strings"
	"time"

	"verif/lib/lalenv"
	"verif/lib/ref"
	"verif/lib/vk"
	"verif/lib/world"
)

type codecs struct {
	Video string `json:"video"` // avc hevc ""
	Audio string `json:"audio"` // aac aac48 g711a ""
}

type scenario struct {
	C      codecs   `json:"codecs"`
	Seq    []string `json:"seq"`  // frame shapes after the prologue
	Join   int      `json:"join"` // consumers join after this many events (0 = before the publisher sends anything)
	Prolog bool     `json:"prolog_key"`
	// Prev: an earlier publisher of the same name (same codecs, other frames) has published two GOPs and
	// left before this one arrives, and the GOP caches are on (one GOP per protocol): nothing of it may
	// reach this publisher's consumers
	Prev bool `json:"prev,omitempty"`
}

type pubFrame struct {
	asc   []byte // AudioSpecificConfig in force when an audio frame was published
	video bool
	key   bool
	nals  [][]byte // video
	au    []byte   // audio (raw AAC frame / G.711 samples)
	dts   uint32
	cts   uint32
	ev    int // index of the event that published it
}

var (
	avcSps   = ref.WriteAvcSps(ref.AvcSps{Profile: 100, Level: 31, ChromaFormat: 1, PocType: 0, Log2MaxPocLsbM4: 2, MaxNumRefFrames: 3, WidthMbsM1: 19, HeightMapUnitsM1: 14, FrameMbsOnly: true, Direct8x8: true})
	avcPps   = []byte{0x68, 0xce, 0x3c, 0x80}
	hevcPtl  = ref.HevcPtl{ProfileIdc: 1, Level: 93, Compat: 0x60000000, Constraint: 0x900000000000}
	hevcVps  = ref.WriteHevcVps(0, hevcPtl)
	hevcSps  = ref.WriteHevcSps(ref.HevcSps{Ptl: hevcPtl, ChromaFormat: 1, Width: 320, Height: 240})
	hevcPps  = []byte{0x44, 0x01, 0xc1, 0x72, 0xb4, 0x62, 0x40}
	ascAac   = []byte{0x12, 0x10} // AAC-LC 44100 stereo
	ascAac48 = []byte{0x11, 0x90} // AAC-LC 48000 stereo
)

func body(n, salt int) []byte {
	b := make([]byte, n)
	for i := range b {
		b[i] = byte(i*7+salt*13) | 1
	}
	return b
}

// nal builds a NAL unit of the given total size (at least the header) whose body has no zero byte.
func nal(v string, typ int, size int, salt int) []byte {
	if v == "avc" {
		ref := byte(0x60)
		if typ == 6 {
			ref = 0
		}
		if typ == 1 {
			ref = 0x40
		}
		if size < 1 {
			size = 1
		}
		return append([]byte{ref | byte(typ)}, body(size-1, salt)...)
	}
	if size < 2 {
		size = 2
	}
	return append([]byte{byte(typ << 1), 0x01}, body(size-2, salt)...)
}

func isParamOrAud(v string, n []byte) bool {
	if v == "avc" {
		t := n[0] & 0x1f
		return t == 7 || t == 8 || t == 9
	}
	t := (n[0] >> 1) & 0x3f
	return t == 32 || t == 33 || t == 34 || t == 35
}

func isSei(v string, n []byte) bool {
	if v == "avc" {
		return n[0]&0x1f == 6
	}
	t := (n[0] >> 1) & 0x3f
	return t == 39 || t == 40
}

func avcc(nals [][]byte) []byte {
	var b []byte
	for _, n := range nals {
		b = append(b, byte(len(n)>>24), byte(len(n)>>16), byte(len(n)>>8), byte(len(n)))
		b = append(b, n...)
	}
	return b
}

func videoSeqHeader(v string) []byte {
	if v == "avc" {
		b := []byte{0x17, 0, 0, 0, 0, 1, avcSps[1], avcSps[2], avcSps[3], 0xff, 0xe1, byte(len(avcSps) >> 8), byte(len(avcSps))}
		b = append(b, avcSps...)
		b = append(b, 1, byte(len(avcPps)>>8), byte(len(avcPps)))
		return append(b, avcPps...)
	}
	b := []byte{0x1c, 0, 0, 0, 0}
	rec := make([]byte, 23)
	rec[0], rec[1], rec[21], rec[22] = 1, 1, 0x0f, 3
	b = append(b, rec...)
	for _, a := range []struct {
		t byte
		d []byte
	}{{32, hevcVps}, {33, hevcSps}, {34, hevcPps}} {
		b = append(b, 0x80|a.t, 0, 1, byte(len(a.d)>>8), byte(len(a.d)))
		b = append(b, a.d...)
	}
	return b
}

func videoMsg(v string, f pubFrame) []byte {
	first := byte(0x27)
	if f.key {
		first = 0x17
	}
	if v == "hevc" {
		first = first&0xf0 | 12
	}
	b := []byte{first, 1, byte(f.cts >> 16), byte(f.cts >> 8), byte(f.cts)}
	return append(b, avcc(f.nals)...)
}

func asc(a string) []byte {
	if a == "aac48" {
		return ascAac48
	}
	return ascAac
}

func audioMsg(a string, au []byte) []byte {
	if a == "g711a" {
		return append([]byte{0x72}, au...)
	}
	if a == "opus" {
		return append([]byte{0xdf}, au...)
	}
	return append([]byte{0xaf, 1}, au...)
}

type result struct {
	key  string
	what string
}

type runCtx struct {
	sc       scenario
	w        *world.W
	pub      *world.RtmpPeer
	pubs     []pubFrame
	ts       uint32
	jump     bool
	jumpBack bool
	nev      int
	tsSub    *world.HttpPeer
	rtsp     *world.RtspPeer
	res      []result
	joinV    int // number of video frames published before the consumers joined
	joinA    int
	curAsc   []byte
	compared int // frames compared with their published counterpart (vacuity guard)
	fsFrom   int // file-system operations before this index belong to an earlier publisher
}

// firstOf: index of the first published frame of the track (-1 if none yet; a stream without that track: 0).
func (x *runCtx) firstOf(video bool) int {
	if (video && x.sc.C.Video == "") || (!video && x.sc.C.Audio == "") {
		return 0
	}
	for i, f := range x.pubs {
		if f.video == video {
			return i
		}
	}
	return -1
}

func (x *runCtx) add(key, f string, a ...interface{}) {
	x.res = append(x.res, result{key, fmt.Sprintf(f, a...)})
}

func (x *runCtx) send(typ uint8, ts uint32, p []byte) error {
	csid := 6
	if typ == 8 {
		csid = 4
	}
	x.pub.SendMsgs(ref.Msg{Csid: csid, Type: typ, Msid: 1, Ts: ts, Payload: p})
	return x.w.Settle()
}

func (x *runCtx) pubVideo(key bool, nals [][]byte, cts uint32) error {
	f := pubFrame{video: true, key: key, nals: nals, dts: x.ts, cts: cts, ev: x.nev}
	x.pubs = append(x.pubs, f)
	return x.send(9, x.ts, videoMsg(x.sc.C.Video, f))
}

func (x *runCtx) pubAudio(au []byte) error {
	f := pubFrame{au: au, dts: x.ts, ev: x.nev, asc: x.curAsc}
	x.pubs = append(x.pubs, f)
	return x.send(8, x.ts, audioMsg(x.sc.C.Audio, au))
}

// event publishes one frame shape. Every event advances the clock by 20 ms ("J": the next by 10 s more).
func (x *runCtx) event(shape string) error {
	v, a := x.sc.C.Video, x.sc.C.Audio
	x.nev++
	x.ts += 20
	if x.jump {
		x.ts += 10000
		x.jump = false
	}
	if x.jumpBack {
		// never below what both tracks started at: lal's TS timestamps are relative to each track's first
		// frame and cannot express an earlier instant (recorded in DESIGN.md, not claimed)
		if iv, ia := x.firstOf(true), x.firstOf(false); iv >= 0 && ia >= 0 && len(x.pubs) > 0 {
			base := x.pubs[iv].dts
			if x.pubs[ia].dts > base {
				base = x.pubs[ia].dts
			}
			if x.ts >= base+1500+40 {
				x.ts -= 1500
			}
		}
		x.jumpBack = false
	}
	salt := x.nev
	idr, trail, sei := 5, 1, 6
	if v == "hevc" {
		idr, trail, sei = 19, 1, 39
	}
	switch shape {
	case "K":
		return x.pubVideo(true, [][]byte{nal(v, idr, 20, salt)}, 0)
	case "Kp":
		var ps [][]byte
		if v == "avc" {
			ps = [][]byte{avcSps, avcPps}
		} else {
			ps = [][]byte{hevcVps, hevcSps, hevcPps}
		}
		return x.pubVideo(true, append(ps, nal(v, idr, 33, salt)), 0)
	case "Kbig":
		return x.pubVideo(true, [][]byte{nal(v, idr, 70000, salt)}, 0)
	case "P1":
		return x.pubVideo(false, [][]byte{nal(v, trail, 1, salt)}, 0)
	case "Pf": // filler, distinguishable
		return x.pubVideo(false, [][]byte{nal(v, trail, 6, salt)}, 0)
	case "Af":
		return x.pubAudio(append([]byte{byte(salt), byte(salt >> 8)}, body(5, salt)...))
	case "Pb":
		return x.pubVideo(false, [][]byte{nal(v, trail, 3000, salt)}, 80)
	case "Ps":
		return x.pubVideo(false, [][]byte{nal(v, sei, 10, salt), nal(v, trail, 50, salt+1)}, 40)
	case "P2":
		return x.pubVideo(false, [][]byte{nal(v, trail, 1400, salt), nal(v, trail, 200, salt+1)}, 0)
	case "A":
		return x.pubAudio(append([]byte{byte(salt)}, body(99, salt)...))
	case "A1":
		return x.pubAudio([]byte{byte(0x80 | salt)})
	case "A3":
		for i := 0; i < 3; i++ {
			if err := x.pubAudio(append([]byte{byte(salt), byte(i)}, body(40+i, salt+i)...)); err != nil {
				return err
			}
			x.ts += 23
		}
		return nil
	case "Abig": // frames on both sides of the ADTS frame-length field's upper bits (2048, 4096), then a small one
		for i, n := range []int{2040, 2041, 6200, 4089, 50} {
			if err := x.pubAudio(append([]byte{byte(salt), byte(i)}, body(n-2, salt+i)...)); err != nil {
				return err
			}
			x.ts += 23
		}
		return nil
	case "Ash2": // a new AAC sequence header with another AudioSpecificConfig (mid-stream change)
		if a != "aac" && a != "aac48" {
			return nil
		}
		if bytes.Equal(x.curAsc, ascAac) {
			x.curAsc = ascAac48
		} else {
			x.curAsc = ascAac
		}
		return x.send(8, x.ts, append([]byte{0xaf, 0}, x.curAsc...))
	case "Pall": // one inter frame for every residue of the TS packet payload size
		for n := 100; n < 100+188; n++ {
			if err := x.pubVideo(false, [][]byte{nal(v, trail, n, n)}, 0); err != nil {
				return err
			}
			x.ts += 40
		}
		return nil
	case "Aall":
		for n := 1; n <= 190; n++ {
			if err := x.pubAudio(append([]byte{byte(n), byte(n >> 8)}, body(n, n)...)); err != nil {
				return err
			}
			x.ts += 23
			if n%7 == 0 && v != "" { // a video frame now and then closes the audio PES at varying totals
				if err := x.pubVideo(false, [][]byte{nal(v, trail, 30, n)}, 0); err != nil {
					return err
				}
			}
		}
		return nil
	case "J":
		x.jump = true
		return nil
	case "Jb": // the next frame's timestamp steps BACK by 1.5 s (a publisher that re-bases its clock)
		x.jumpBack = true
		return nil
	case "M": // an onMetaData message (encoders repeat it; its audiosamplerate is the encoder's idea of the output rate, e.g. the SBR rate of HE-AAC, not necessarily the AudioSpecificConfig's)
		num := func(k string, v float64) ref.APair {
			return ref.APair{Key: k, Val: ref.AVal{Kind: ref.ANumber, Num: v}}
		}
		obj := ref.AVal{Kind: ref.AObject, Pairs: []ref.APair{num("width", 320), num("height", 240), num("framerate", 25)}}
		switch a {
		case "aac", "aac48":
			obj.Pairs = append(obj.Pairs, num("audiocodecid", 10), num("audiosamplerate", 22050), num("audiosamplesize", 16))
		case "g711a":
			obj.Pairs = append(obj.Pairs, num("audiocodecid", 7), num("audiosamplerate", 8000))
		}
		b := ref.AEncode(ref.AVal{Kind: ref.AString, Str: "@setDataFrame"})
		b = append(b, ref.AEncode(ref.AVal{Kind: ref.AString, Str: "onMetaData"})...)
		return x.send(18, x.ts, append(b, ref.AEncode(obj)...))
	}
	_ = a
	return fmt.Errorf("unknown shape %s", shape)
}

func shapesFor(c codecs) []string {
	var s []string
	if c.Video != "" {
		s = append(s, "K", "Kp", "Kbig", "P1", "Pb", "Ps", "P2")
	}
	if c.Audio != "" {
		s = append(s, "A", "A1", "A3")
	}
	if c.Audio == "aac" || c.Audio == "aac48" {
		s = append(s, "Ash2", "Abig")
	}
	return append(s, "J", "Jb", "M")
}

func (x *runCtx) join() error {
	x.joinV, x.joinA = 0, 0
	for _, f := range x.pubs {
		if f.video {
			x.joinV++
		} else {
			x.joinA++
		}
	}
	var err error
	if x.sc.C.Audio != "g711a" {
		x.tsSub, err = x.w.HttpSub("/live/s.ts", false)
		if err != nil {
			return err
		}
	}
	x.rtsp, err = x.w.RtspPlayer("rtsp://h/live/s", nil)
	return err
}

func run(sc scenario) (res []result, compared int, infra error) {
	conf := world.Conf{"rtsp.enable": true}
	if sc.C.Audio != "g711a" {
		conf["hls.enable"] = true
		conf["hls.cleanup_mode"] = 0
	}
	if sc.Prev {
		conf["rtmp.gop_num"], conf["httpflv.gop_num"], conf["httpts.gop_num"] = 1, 1, 1
	}
	x := &runCtx{sc: sc, w: world.New(conf)}
	defer x.w.Close()
	var err error
	if sc.Prev {
		px := &runCtx{sc: sc, w: x.w, nev: 1000} // (frame contents depend on the event number: none equals a frame of the run proper)
		px.pub, err = x.w.RtmpPublisher("live", "s")
		if err != nil || !px.pub.Accepted() {
			return nil, 0, fmt.Errorf("previous publisher: %v", err)
		}
		if sc.C.Video != "" {
			if err := px.send(9, 0, videoSeqHeader(sc.C.Video)); err != nil {
				return nil, 0, err
			}
		}
		if sc.C.Audio == "aac" || sc.C.Audio == "aac48" {
			px.curAsc = asc(sc.C.Audio)
			if err := px.send(8, 0, append([]byte{0xaf, 0}, asc(sc.C.Audio)...)); err != nil {
				return nil, 0, err
			}
		}
		shapes := []string{"K", "A", "P1", "A", "K", "A", "P1", "A"}
		if sc.C.Video == "" {
			shapes = []string{"A", "A", "A", "A"}
		} else if sc.C.Audio == "" {
			shapes = []string{"K", "P1", "K", "P1"}
		}
		for _, sh := range shapes {
			if err := px.event(sh); err != nil {
				return nil, 0, err
			}
		}
		px.pub.Close()
		if err := x.w.Settle(); err != nil {
			return nil, 0, err
		}
	}
	if x.w.FS != nil {
		x.fsFrom = len(x.w.FS.OpsCopy())
	}
	x.pub, err = x.w.RtmpPublisher("live", "s")
	if err != nil || !x.pub.Accepted() {
		return nil, 0, fmt.Errorf("publisher: %v", err)
	}
	step := 0
	maybeJoin := func() error {
		if step == sc.Join {
			if err := x.join(); err != nil {
				return err
			}
		}
		step++
		return nil
	}
	if err := maybeJoin(); err != nil {
		return nil, 0, err
	}
	// prologue: sequence headers and (optionally) a first key frame
	if sc.C.Video != "" {
		if err := x.send(9, 0, videoSeqHeader(sc.C.Video)); err != nil {
			return nil, 0, err
		}
	}
	if sc.C.Audio == "aac" || sc.C.Audio == "aac48" {
		x.curAsc = asc(sc.C.Audio)
		if err := x.send(8, 0, append([]byte{0xaf, 0}, asc(sc.C.Audio)...)); err != nil {
			return nil, 0, err
		}
	}
	cont := func() error {
		if x.rtsp != nil {
			x.rtsp.Pump()
			return x.rtsp.Continue()
		}
		return nil
	}
	if sc.Prolog && sc.C.Video != "" {
		if err := x.event("K"); err != nil {
			return nil, 0, err
		}
	}
	if sc.Prolog && (sc.C.Audio == "g711a" || sc.C.Audio == "opus") {
		// G.711 has no sequence header: the stream can be described once the first audio frame has been seen
		if err := x.event("Af"); err != nil {
			return nil, 0, err
		}
	}
	if sc.Prolog && (sc.C.Video == "" || sc.C.Audio == "") {
		// a single-track stream is described (PMT, SDP) only after 16 messages have been analysed
		for i := 0; i < 16; i++ {
			sh := "Pf"
			if sc.C.Video == "" {
				sh = "Af"
			}
			if err := x.event(sh); err != nil {
				return nil, 0, err
			}
		}
	}
	if err := maybeJoin(); err != nil {
		return nil, 0, err
	}
	if err := cont(); err != nil {
		return nil, 0, err
	}
	for _, s := range sc.Seq {
		if err := x.event(s); err != nil {
			return nil, 0, err
		}
		if err := maybeJoin(); err != nil {
			return nil, 0, err
		}
		if err := cont(); err != nil {
			return nil, 0, err
		}
	}
	// a held DESCRIBE is answered once the SDP exists
	if x.rtsp != nil {
		x.rtsp.Pump()
		if err := x.rtsp.Continue(); err != nil {
			return nil, 0, err
		}
	}
	// closing key frame + audio, then the publisher leaves (flushes what the remuxer holds back)
	if sc.C.Video != "" {
		if err := x.event("K"); err != nil {
			return nil, 0, err
		}
	}
	if sc.C.Audio != "" {
		if err := x.event("A"); err != nil {
			return nil, 0, err
		}
	}
	if x.rtsp != nil {
		x.rtsp.Pump()
		if err := x.rtsp.Continue(); err != nil {
			return nil, 0, err
		}
	}
	x.pub.Close()
	if err := x.w.Settle(); err != nil {
		return nil, 0, err
	}
	if p := x.w.Net.FirstPanic(); p != "" {
		x.add("panic", "%s", strings.SplitN(p, "\n", 2)[0])
		return x.res, 0, nil
	}
	if x.tsSub != nil {
		x.tsSub.Pump()
		if x.tsSub.Err != nil {
			x.add("ts/http", "%v", x.tsSub.Err)
		} else {
			x.checkTs("ts", x.tsSub.Body, x.joinV, x.joinA)
		}
	}
	if x.w.FS != nil {
		var all []byte
		cur := map[string][]byte{}
		var order []string
		for i, op := range x.w.FS.OpsCopy() {
			if !strings.HasSuffix(op.Path, ".ts") || i < x.fsFrom {
				continue
			}
			switch op.Kind {
			case "create":
				if _, ok := cur[op.Path]; !ok {
					order = append(order, op.Path)
				}
				cur[op.Path] = nil
			case "write":
				cur[op.Path] = append(cur[op.Path], op.Data...)
			}
		}
		for _, p := range order {
			all = append(all, cur[p]...)
		}
		x.checkTs("hls", all, 0, 0)
	}
	x.checkRtsp()
	return x.res, x.compared, nil
}

// pubTrack returns the published frames of one track.
func (x *runCtx) pubTrack(video bool) []pubFrame {
	var out []pubFrame
	for _, f := range x.pubs {
		if f.video == video {
			out = append(out, f)
		}
	}
	return out
}

func strip(v string, nals [][]byte, dropSei bool) [][]byte {
	var out [][]byte
	for _, n := range nals {
		if len(n) == 0 || isParamOrAud(v, n) || (dropSei && isSei(v, n)) {
			continue
		}
		out = append(out, n)
	}
	return out
}

func eqNals(a, b [][]byte) bool {
	if len(a) != len(b) {
		return false
	}
	for i := range a {
		if !bytes.Equal(a[i], b[i]) {
			return false
		}
	}
	return true
}

func shapeOf(nals [][]byte) string {
	var s []string
	for _, n := range nals {
		h := 0
		if len(n) > 0 {
			h = int(n[0])
		}
		s = append(s, fmt.Sprintf("%02x/%d", h, len(n)))
	}
	return strings.Join(s, ",")
}

func (x *runCtx) checkTs(who string, b []byte, joinV, joinA int) {
	v, a := x.sc.C.Video, x.sc.C.Audio
	if len(b)%188 != 0 {
		x.add(who+"/not-whole-packets", "%d bytes", len(b))
		return
	}
	pk, err := ref.ParseTs(b)
	if err != nil {
		x.add(who+"/malformed", "%v", err)
		return
	}
	pv := x.pubTrack(true)
	pa := x.pubTrack(false)
	if len(pk) == 0 {
		return // where a consumer starts is C02's subject; a short stream may end before it does
	}
	dropSei := v == "hevc"
	if v != "" {
		pes, err := ref.DemuxPes(pk, 0x100, -1)
		if err != nil {
			x.add(who+"/video-pes", "%v", err)
			return
		}
		// find the starting point: the published frame whose NALs equal the first PES
		start := -1
		var first [][]byte
		if len(pes) > 0 {
			first = strip(v, ref.SplitAnnexB(pes[0].Payload), dropSei)
			for i := range pv {
				if eqNals(strip(v, pv[i].nals, dropSei), first) {
					start = i
					break
				}
			}
		}
		if len(pes) == 0 {
			// nothing yet: the consumer waits for a boundary (a key frame preceded by audio)
		} else if start < 0 {
			x.add(who+"/video-unknown-frame", "the first video PES (%s) is not a published frame", shapeOf(first))
		} else {
			if !pv[start].key {
				x.add(who+"/video-start-not-key", "the first video frame received is published frame %d, not a key frame", start)
			}
			x.compared++
			if len(pes) != len(pv)-start {
				x.add(who+"/video-count", "%d video PES for published frames %d..%d", len(pes), start, len(pv)-1)
			}
			var c0 int64
			for k, p := range pes {
				if start+k >= len(pv) {
					break
				}
				f := pv[start+k]
				got := strip(v, ref.SplitAnnexB(p.Payload), dropSei)
				want := strip(v, f.nals, dropSei)
				if !eqNals(got, want) {
					x.add(who+"/video-nals", "PES %d carries NALs [%s], published frame %d has [%s]", k, shapeOf(got), start+k, shapeOf(want))
					break
				}
				if !p.HasPTS {
					x.add(who+"/video-no-pts", "video PES %d without PTS", k)
					continue
				}
				dts := p.PTS
				if p.HasDTS {
					dts = p.DTS
				}
				cd := int64(dts) - int64(f.dts)*90
				if k == 0 {
					c0 = cd
				}
				if cd != c0 || int64(p.PTS)-int64(dts) != int64(f.cts)*90 {
					x.add(who+"/video-timestamp", "PES %d: DTS %d PTS %d for published dts %d ms cts %d ms (track offset of the first PES %d)", k, dts, p.PTS, f.dts, f.cts, c0)
					break
				}
			}
		}
	}
	if a == "aac" || a == "aac48" || a == "opus" {
		pes, err := ref.DemuxPes(pk, 0x101, -1)
		if err != nil {
			x.add(who+"/audio-pes", "%v", err)
			return
		}
		type gotAu struct {
			b     []byte
			pts   uint64
			first bool
			hdr   []byte
		}
		var got []gotAu
		for _, p := range pes {
			if a == "opus" { // one frame per PES, as published
				got = append(got, gotAu{p.Payload, p.PTS, true, nil})
				continue
			}
			frames, hdrs, err := ref.SplitAdts(p.Payload)
			if err != nil {
				x.add(who+"/adts", "%v", err)
				return
			}
			for i, f := range frames {
				got = append(got, gotAu{f, p.PTS, i == 0, hdrs[i]})
			}
		}
		start := -1
		if len(got) > 0 {
			for i := range pa {
				if bytes.Equal(pa[i].au, got[0].b) {
					start = i
					break
				}
			}
		}
		if len(got) == 0 {
			// nothing yet
		} else if start < 0 {
			x.add(who+"/audio-unknown-frame", "the first audio frame in TS (%d bytes) is not a published frame", len(got[0].b))
		} else {
			if len(got) != len(pa)-start {
				x.add(who+"/audio-count", "%d audio frames in TS for published frames %d..%d", len(got), start, len(pa)-1)
			}
			var c0 int64
			for k, g := range got {
				if start+k >= len(pa) {
					break
				}
				f := pa[start+k]
				if !bytes.Equal(g.b, f.au) {
					x.add(who+"/audio-frames", "audio frame %d in TS differs from published frame %d (%d vs %d bytes)", k, start+k, len(g.b), len(f.au))
					break
				}
				if a == "opus" {
					cd := int64(g.pts) - int64(f.dts)*90
					if k == 0 {
						c0 = cd
					}
					if cd != c0 {
						x.add(who+"/audio-timestamp", "Opus PES of published frame %d (ts %d ms) has PTS %d; track offset of the first PES is %d", start+k, f.dts, g.pts, c0)
						break
					}
					x.compared++
					continue
				}
				// ADTS header consistent with the AudioSpecificConfig
				c := f.asc
				if c == nil {
					c = asc(a)
				}
				aot := int(c[0] >> 3)
				fi := int(c[0]&7)<<1 | int(c[1]>>7)
				ch := int(c[1]>>3) & 0x0f
				h := g.hdr
				if int(h[2]>>6) != aot-1 || int(h[2]>>2)&0x0f != fi || (int(h[2]&1)<<2|int(h[3]>>6)) != ch {
					x.add(who+"/adts-header", "ADTS header % x does not match the AudioSpecificConfig % x (profile %d freq index %d channels %d)", h, c, aot-1, fi, ch)
					break
				}
				if g.first {
					cd := int64(g.pts) - int64(f.dts)*90
					if k == 0 {
						c0 = cd
					}
					if cd != c0 {
						x.add(who+"/audio-timestamp", "audio PES starting with published frame %d (ts %d ms) has PTS %d; track offset of the first PES is %d", start+k, f.dts, g.pts, c0)
						break
					}
				}
			}
		}
	}
}

func (x *runCtx) checkRtsp() {
	v, a := x.sc.C.Video, x.sc.C.Audio
	p := x.rtsp
	if p == nil {
		return
	}
	p.Pump()
	if p.Err != nil {
		x.add("rtsp/framing", "%v", p.Err)
		return
	}
	var sdpBody []byte
	for _, it := range p.Items {
		if it.IsMsg && it.Status == 200 && len(it.Body) > 0 && sdpBody == nil {
			sdpBody = it.Body
		}
	}
	pv := x.pubTrack(true)
	pa := x.pubTrack(false)
	if sdpBody == nil {
		return // the remuxer analyses up to 16 messages before it describes the stream
	}
	s, err := ref.ParseSdp(sdpBody)
	if err != nil {
		x.add("rtsp/sdp", "%v", err)
		return
	}
	for ti, m := range s.Media {
		var pkts []ref.Rtp
		for _, it := range p.Items {
			if !it.IsMsg && it.Channel == 2*ti {
				r, err := ref.ParseRtp(it.Data)
				if err != nil {
					x.add("rtsp/rtp", "%v", err)
					return
				}
				pkts = append(pkts, r)
			}
		}
		for i := 1; i < len(pkts); i++ {
			if pkts[i].Seq != pkts[i-1].Seq+1 {
				x.add("rtsp/seq", "%s track: sequence number %d follows %d", m.Media, pkts[i].Seq, pkts[i-1].Seq)
				break
			}
		}
		if os.Getenv("C06_DEBUG") != "" {
			fmt.Fprintf(os.Stderr, "rtsp track %d %s enc=%s clock=%d pkts=%d published v=%d a=%d\n", ti, m.Media, m.Enc, m.Clock, len(pkts), len(pv), len(pa))
		}
		if m.Media == "video" {
			var units []ref.Unit
			var err error
			if v == "avc" {
				units, err = ref.DepackH264(pkts)
			} else {
				units, err = ref.DepackH265(pkts)
			}
			if err != nil {
				x.add("rtsp/video-depack", "%v", err)
				continue
			}
			// group NALs by RTP timestamp (one access unit), drop parameter sets
			type au struct {
				ts   uint32
				nals [][]byte
			}
			var aus []au
			for _, u := range units {
				if isParamOrAud(v, u.Data) {
					continue
				}
				if len(aus) == 0 || aus[len(aus)-1].ts != u.Ts {
					aus = append(aus, au{ts: u.Ts})
				}
				aus[len(aus)-1].nals = append(aus[len(aus)-1].nals, u.Data)
			}
			if len(aus) == 0 {
				continue
			}
			start := -1
			for i := range pv {
				if eqNals(strip(v, pv[i].nals, false), aus[0].nals) {
					start = i
					break
				}
			}
			if start < 0 {
				x.add("rtsp/video-unknown-frame", "the first access unit received over RTP [%s] is not a published frame", shapeOf(aus[0].nals))
				continue
			}
			if !pv[start].key {
				x.add("rtsp/video-start-not-key", "the first video frame received over RTP is published frame %d, not a key frame", start)
			}
			if len(aus) != len(pv)-start {
				x.add("rtsp/video-count", "%d access units over RTP for published frames %d..%d", len(aus), start, len(pv)-1)
			}
			for k, g := range aus {
				if start+k >= len(pv) {
					break
				}
				f := pv[start+k]
				if !eqNals(g.nals, strip(v, f.nals, false)) {
					x.add("rtsp/video-nals", "access unit %d over RTP carries [%s], published frame %d has [%s]", k, shapeOf(g.nals), start+k, shapeOf(strip(v, f.nals, false)))
					break
				}
				// "the published timestamp at the track's clock rate": the RTMP message timestamp
				want := uint32(uint64(f.dts) * uint64(m.Clock) / 1000)
				if d := int32(g.ts - want); d < -1 || d > 1 {
					x.add("rtsp/video-timestamp", "access unit %d: RTP timestamp %d for published timestamp %d ms at %d Hz (want %d)", k, g.ts, f.dts, m.Clock, want)
					break
				}
				x.compared++
			}
		} else {
			var got []ref.Unit
			if a == "g711a" || a == "opus" {
				for _, r := range pkts {
					got = append(got, ref.Unit{Ts: r.Ts, Data: r.Payload})
				}
			} else {
				var err error
				got, err = ref.DepackAacHbr(pkts)
				if err != nil {
					x.add("rtsp/audio-depack", "%v", err)
					continue
				}
			}
			if len(got) == 0 {
				continue
			}
			start := -1
			for i := range pa {
				if bytes.Equal(pa[i].au, got[0].Data) {
					start = i
					break
				}
			}
			if start < 0 {
				x.add("rtsp/audio-unknown-frame", "the first audio frame over RTP (%d bytes) is not a published frame", len(got[0].Data))
				continue
			}
			if len(got) != len(pa)-start {
				x.add("rtsp/audio-count", "%d audio frames over RTP for published frames %d..%d", len(got), start, len(pa)-1)
			}
			for k, g := range got {
				if start+k >= len(pa) {
					break
				}
				f := pa[start+k]
				if !bytes.Equal(g.Data, f.au) {
					x.add("rtsp/audio-frames", "audio frame %d over RTP differs from published frame %d", k, start+k)
					break
				}
				want := uint32(uint64(f.dts) * uint64(m.Clock) / 1000)
				if d := int32(g.Ts - want); d < -1 || d > 1 {
					x.add("rtsp/audio-timestamp", "audio frame %d: RTP timestamp %d for published ts %d ms at %d Hz (want %d)", k, g.Ts, f.dts, m.Clock, want)
					break
				}
				x.compared++
			}
		}
	}
	if v != "" && len(pv) > 0 {
		hasV := false
		for _, m := range s.Media {
			if m.Media == "video" {
				hasV = true
			}
		}
		if !hasV {
			x.add("rtsp/sdp-no-video", "the SDP has no video media although video was published")
		}
	}
}

func main() {
	r := vk.Start("C06", "model_checking")
	lalenv.Quiet()
	world.SyncQueues()
	r.Rule("one case = (codec pair, frame-shape sequence after the prologue, join point of the TS / RTSP consumers); all sequences up to the length bound over the shape alphabet {K, Kp (in-band parameter sets), Kbig (70000-byte NAL), P1 (minimal NAL), Pb (3000 bytes, cts 80), Ps (SEI + slice, cts 40), P2 (two slices), A, A1 (1-byte frame), A3 (three frames at once), Ash2 (AAC sequence header change), J (10 s timestamp jump)} plus the size sweeps Pall (188 inter frames of 100..287 bytes) and Aall (190 audio frames of 3..192 bytes); distinct_nontrivial = distinct (codec, sequence, join) cases that delivered at least one frame to a consumer")
	r.Assume("NAL bodies contain no zero byte (no start-code emulation inside a NAL; RTMP carries escaped NALs)",
		"HTTP-TS and RTSP consumers join at the same instant; HLS is checked on every segment ever written, in creation order (instrumented file system, cleanup off)",
		"RTSP over interleaved TCP only (UDP delivery uses the same packets); Opus audio over RTMP is not driven",
		"every run ends with a key frame, an audio frame and the publisher leaving, so everything the remuxer holds back is flushed")
	if r.ReplayIn != "" {
		var sc scenario
		r.LoadReplay(&sc)
		res, _, err := run(sc)
		if err != nil {
			r.Violation("infra/replay", err.Error(), sc)
		}
		for _, v := range res {
			r.Violation(v.key, v.what, sc)
		}
		r.Finish()
	}
	r.SetBudget(6*time.Minute, 60*time.Minute)
	maxLen := 3
	if !r.Quick() {
		maxLen = 4
	}
	cs := []codecs{{"avc", "aac"}, {"hevc", "aac48"}, {"avc", ""}, {"", "aac"}, {"avc", "g711a"}, {"avc", "opus"}}
	var cases []scenario
	for _, c := range cs {
		sh := shapesFor(c)
		var rec func(seq []string)
		rec = func(seq []string) {
			for _, prolog := range []bool{true, false} {
				joins := []int{0, 1}
				for j := 2; j <= len(seq)+1; j++ {
					joins = append(joins, j)
				}
				for _, j := range joins {
					cases = append(cases, scenario{C: c, Seq: append([]string{}, seq...), Join: j, Prolog: prolog})
				}
			}
			if len(seq) == maxLen {
				return
			}
			for _, s := range sh {
				if s == "J" && len(seq) > 0 && seq[len(seq)-1] == "J" {
					continue
				}
				rec(append(seq, s))
			}
		}
		rec(nil)
	}
	// after an earlier publisher of the same name (GOP caches on): sequences of <= 2 shapes, every join point
	for _, c := range cs {
		sh := shapesFor(c)
		var seqs [][]string
		seqs = append(seqs, nil)
		for _, a := range sh {
			seqs = append(seqs, []string{a})
			if !r.Quick() {
				for _, b := range sh {
					seqs = append(seqs, []string{a, b})
				}
			}
		}
		for _, seq := range seqs {
			for j := 0; j <= len(seq)+1; j++ {
				cases = append(cases, scenario{C: c, Seq: seq, Join: j, Prolog: true, Prev: true})
			}
		}
	}
	// size sweeps: every residue of the TS packet payload size for video frames and audio PES totals
	for _, c := range cs {
		for _, sh := range []string{"Pall", "Aall"} {
			if (sh == "Pall" && c.Video == "") || (sh == "Aall" && (c.Audio == "" || c.Audio == "g711a" || c.Audio == "opus")) {
				continue
			}
			for _, j := range []int{0, 1} {
				cases = append(cases, scenario{C: c, Seq: []string{sh}, Join: j, Prolog: true})
			}
		}
	}
	r.Cov("cases_enumerated", len(cases))
	r.Cov("max_sequence_length", maxLen)
	vk.Par(len(cases), 16, func(i int) {
		if r.OutOfTime() {
			r.NotExhaustive("internal time budget hit")
			return
		}
		sc := cases[i]
		r.Eval(1)
		res, compared, err := run(sc)
		if err != nil {
			r.Violation("infra/hang", fmt.Sprintf("%+v: %v", sc, err), sc)
			return
		}
		r.CovAdd("frames_compared", int64(compared))
		// a case is one execution of the real server: its states are the instants after each published event
		r.AddStates(int64(len(sc.Seq) + 3))
		r.AddTransitions(int64(len(sc.Seq) + 3))
		r.AddTraces(1)
		for _, v := range res {
			r.Violation(v.key, fmt.Sprintf("[%s+%s seq=%v join=%d prolog=%v] %s", sc.C.Video, sc.C.Audio, sc.Seq, sc.Join, sc.Prolog, v.what), sc)
		}
		if compared > 0 {
			r.Class(fmt.Sprintf("%s+%s|%v|%d|%v", sc.C.Video, sc.C.Audio, sc.Seq, sc.Join, sc.Prolog))
		}
		if i%997 == 0 {
			r.Sample(sc)
		}
	})
	r.Finish()
}
