// C17 — relay pull and push start, retry and stop exactly when their rules say.
// Family (S): explicit-state search over subscriber / publisher / API / tick / connection-outcome event
// sequences on the real server, whose outbound connections go through a gated dialer (every attempt is
// an observable event whose outcome the explorer chooses). Oracle: a small reference model of the
// rules with MAY (an attempt is allowed) and MUST (an attempt is required) predicates.
package main

import (
	"fmt"
	"sort"
	"strings"
	"time"

	"github.com/q191201771/lal/pkg/base"
	"github.com/q191201771/lal/pkg/logic"

	"verif/lib/lalenv"
	"verif/lib/seqx"
	"verif/lib/vk"
	"verif/lib/world"
)

const stream = "s"

type cfg struct {
	Name      string   `json:"name"`
	Static    bool     `json:"static"`    // static_relay_pull enabled (retry forever, stop immediately)
	Retry     int      `json:"retry"`     // API start: pull_retry_num
	AutoStop  int      `json:"auto_stop"` // API start: auto_stop_pull_after_no_out_ms
	Push      []string `json:"push"`      // relay push target names
	Query     []string `json:"query"`     // URL parameters of successive publishers
	RtspPub   bool     `json:"rtsp_pub"`
	AutoStop2 *int     `json:"auto_stop_2,omitempty"` // the auto-stop setting of the second and later start calls (nil: the same)
	CustPub   bool     `json:"cust_pub"`              // the publisher is a customize pub session (ILalServer.AddCustomizePubSession)
	RtspPull  bool     `json:"rtsp_pull"`             // the API pull goes to an RTSP origin
	Alphabet  []string `json:"alphabet"`
	MaxSubs   int      `json:"max_subs"`
	MaxPubs   int      `json:"max_pubs"`
	Prefix    []string `json:"prefix"`
}

type replay struct {
	Cfg   cfg      `json:"cfg"`
	Trace []string `json:"trace"`
}

// custPub: a customize pub session as the stream's input; closing it = DelCustomizePubSession.
type custPub struct {
	w   *world.W
	ctx logic.ICustomizePubSessionContext
}

func (c custPub) Close() {
	if c.ctx != nil {
		c.w.SM.DelCustomizePubSession(c.ctx)
	}
}

type sys struct {
	c         cfg
	w         *world.W
	subs      []*world.RtmpPeer
	pub       interface{ Close() }
	pubOK     func() bool
	npub      int
	nApiStart int
	viols     []seqx.Viol
	infra     error

	// ---- reference model of the pull rules
	apiMay      bool // an API start has been called and no stop / kick since (attempts are allowed)
	apiMust     bool // an API start succeeded and nothing can have made the server forget it
	retry       int
	autoStop    int
	mayCount    int            // attempts since the last API start / stop / kick / auto stop
	lalCount    int            // attempts since the last stop (the server's own way of counting)
	lastPresent int64          // ms: last instant a consumer was present
	lastEarly   int64          // ms: last instant a consumer was really there (or the first start call): nothing stops the pull sooner than the window after it
	dialSession map[int]string // attempt -> session id the API reported for it
	seenDials   int
	orphanTicks map[int]int
	dialQuery   map[int]string
	pubQuery    string
	stopDue     int
	lastEv      string
}

func (s *sys) add(key, f string, a ...interface{}) {
	s.viols = append(s.viols, seqx.Viol{Key: key, What: fmt.Sprintf(f, a...)})
}

func newSys(c cfg) *sys {
	conf := world.Conf{}
	if c.Static {
		conf["static_relay_pull.enable"] = true
		conf["static_relay_pull.addr"] = "$W-origin:1935"
	}
	if len(c.Push) > 0 {
		conf["relay_push.enable"] = true
		var l []interface{}
		for _, t := range c.Push {
			l = append(l, "$W-"+t+":1935")
		}
		conf["relay_push.addr_list"] = l
	}
	if c.RtspPub {
		conf["rtsp.enable"] = true
	}
	s := &sys{c: c, w: world.New(conf), retry: -1, autoStop: 0, orphanTicks: map[int]int{}, dialQuery: map[int]string{}, dialSession: map[int]string{}}
	s.w.EnableRelay(nil)
	s.lastPresent = s.w.Now().UnixMilli()
	s.lastEarly = s.lastPresent
	for _, ev := range c.Prefix {
		if err := s.Apply(ev); err != nil {
			s.infra = fmt.Errorf("prefix event %s: %v", ev, err)
			break
		}
	}
	s.viols = nil
	return s
}

func (s *sys) Close() { s.w.Close() }

func (s *sys) pubAlive() bool { return s.pub != nil }

func (s *sys) dialsOf(name string) (pending, live []*world.Dial) {
	for _, d := range s.w.AllDials() {
		if d.Name != name {
			continue
		}
		if d.State == "pending" {
			pending = append(pending, d)
		}
		if d.State == "accepted" && !d.Conn.Closed() {
			live = append(live, d)
		}
	}
	return
}

func (s *sys) attachedPull() string {
	g := s.w.SM.StatGroup(stream)
	if g == nil {
		return ""
	}
	return g.StatPull.SessionId
}

func (s *sys) Enabled() []string {
	var ev []string
	has := func(k string) bool {
		for _, a := range s.c.Alphabet {
			if a == k {
				return true
			}
		}
		return false
	}
	if has("J") && len(s.subs) < s.c.MaxSubs {
		ev = append(ev, "J")
	}
	if has("J") && len(s.subs) > 0 {
		ev = append(ev, "L")
	}
	if has("T") {
		ev = append(ev, "T")
	}
	if has("ApiStart") {
		ev = append(ev, "ApiStart")
	}
	if has("ApiStop") {
		ev = append(ev, "ApiStop")
	}
	if has("Kick") && s.attachedPull() != "" {
		ev = append(ev, "Kick")
	}
	if has("Pub") {
		if s.pubAlive() {
			ev = append(ev, "PubLeave")
		} else if s.npub < s.c.MaxPubs {
			ev = append(ev, "PubArrive")
		}
	}
	names := map[string]bool{}
	for _, d := range s.w.PendingDials() {
		if !names[d.Name] {
			names[d.Name] = true
			ev = append(ev, "D:accept:"+d.Name, "D:refuse:"+d.Name)
		}
	}
	seen := map[string]bool{}
	for _, d := range s.w.LiveDials() {
		if !seen[d.Name] && d.Origin != nil && d.Origin.Started {
			seen[d.Name] = true
			ev = append(ev, "O:close:"+d.Name)
		}
	}
	return ev
}

// ---- the pull rules -------------------------------------------------------------------------------------------

func (s *sys) enabledMay() bool { return s.c.Static || s.apiMay }

func (s *sys) windowOK(slackMs int64) bool { // a consumer has been present within the window
	if s.autoStop < 0 {
		return true
	}
	if len(s.subs) > 0 {
		return true
	}
	if s.autoStop == 0 {
		return false
	}
	return s.w.Now().UnixMilli()-s.lastPresent < int64(s.autoStop)+slackMs
}

func (s *sys) Apply(ev string) error {
	if s.infra != nil {
		return s.infra
	}
	s.lastEv = ev
	s.viols = nil // the monitors of earlier events ran when those events were explored
	w := s.w
	pullPendBefore, pullLiveBefore := s.dialsOf("origin")
	inflightBefore := len(pullPendBefore) > 0
	attachedBefore := s.attachedPull()
	pubBefore := s.pubAlive()
	inputBefore := pubBefore || attachedBefore != ""
	busyBefore := inflightBefore || len(pullLiveBefore) > 0
	nowBefore := w.Now().UnixMilli()
	if len(s.subs) > 0 {
		s.lastPresent = nowBefore
	}
	budgetMay := s.retry < 0 || s.mayCount <= s.retry
	budgetMust := s.retry < 0 || s.lalCount <= s.retry
	var err error
	var apiStartResp *base.ApiCtrlStartRelayPullResp
	acceptedSeq := -1
	switch {
	case ev == "J":
		var p *world.RtmpPeer
		p, err = w.RtmpPlayer("live", stream)
		if err == nil && !p.Accepted() {
			err = fmt.Errorf("subscriber refused")
		}
		s.subs = append(s.subs, p)
	case ev == "L":
		s.subs[0].Close()
		s.subs = s.subs[1:]
		err = w.Settle()
	case ev == "T":
		err = w.Tick()
		if len(s.subs) > 0 {
			// (lal looks for consumers once a tick: one that comes and goes between two ticks is not seen, which
			// the "stopped early" rule tolerates; the "must stop by" rule counts every consumer)
			s.lastEarly = w.Now().UnixMilli()
		}
	case ev == "ApiStart":
		s.apiMay = true
		as := s.c.AutoStop
		if s.c.AutoStop2 != nil && s.nApiStart > 0 {
			as = *s.c.AutoStop2
		}
		s.nApiStart++
		s.retry, s.autoStop = s.c.Retry, as
		s.mayCount = 0
		// the statement does not say when the auto-stop window of an API pull opens; the start call
		// is taken as its beginning (the server does so for a stream it did not know yet)
		s.lastPresent = nowBefore
		if s.nApiStart == 1 {
			s.lastEarly = nowBefore
		}
		budgetMay = true
		scheme := "rtmp://"
		if s.c.RtspPull {
			scheme = "rtsp://"
		}
		r := w.SM.CtrlStartRelayPull(base.ApiCtrlStartRelayPullReq{Url: scheme + w.Host("origin") + "/live/" + stream, PullTimeoutMs: 0, PullRetryNum: s.c.Retry, AutoStopPullAfterNoOutMs: as})
		apiStartResp = &r
		err = w.Settle()
	case ev == "ApiStop":
		r := w.SM.CtrlStopRelayPull(stream)
		err = w.Settle()
		s.apiMay, s.apiMust = false, false
		s.mayCount, s.lalCount = 0, 0
		if attachedBefore != "" {
			if r.ErrorCode != base.ErrorCodeSucc || r.Data.SessionId != attachedBefore {
				s.add("api-stop/response", "stop_relay_pull with pull session %s attached answered code=%d session=%q", attachedBefore, r.ErrorCode, r.Data.SessionId)
			}
			if now := s.attachedPull(); now != "" {
				s.add("api-stop/not-stopped", "stop_relay_pull answered code=%d but pull session %s is still attached", r.ErrorCode, now)
			}
		} else if r.ErrorCode == base.ErrorCodeSucc {
			s.add("api-stop/response", "stop_relay_pull with no pull session attached answered success (session %q)", r.Data.SessionId)
		}
	case ev == "Kick":
		r := w.SM.CtrlKickSession(base.ApiCtrlKickSessionReq{StreamName: stream, SessionId: attachedBefore})
		err = w.Settle()
		s.apiMay, s.apiMust = false, false
		s.mayCount, s.lalCount = 0, 0
		if r.ErrorCode != base.ErrorCodeSucc {
			s.add("kick/response", "kick of attached pull session %s answered code=%d", attachedBefore, r.ErrorCode)
		}
		if now := s.attachedPull(); now == attachedBefore {
			s.add("kick/not-stopped", "kick answered code=%d but pull session %s is still attached", r.ErrorCode, now)
		}
	case ev == "PubArrive":
		q := ""
		if s.npub < len(s.c.Query) {
			q = s.c.Query[s.npub]
		}
		s.npub++
		name := stream
		if q != "" {
			name += "?" + q
		}
		if s.c.CustPub {
			ctx, e := w.SM.AddCustomizePubSession(stream)
			ok := e == nil
			if ok {
				s.pub, s.pubOK = custPub{w, ctx}, func() bool { return true }
			} else {
				s.pub, s.pubOK = custPub{w, nil}, func() bool { return false }
			}
			q = ""
			err = w.Settle()
		} else if s.c.RtspPub {
			var p *world.RtspPeer
			p, err = w.RtspPublisher("rtsp://h/live/"+name, sdpAac, []string{"streamid=0"})
			if err == nil {
				s.pub, s.pubOK = p, p.Accepted
				q = "" // URL parameters of an RTSP publisher are not forwarded
			}
		} else {
			var p *world.RtmpPeer
			p, err = w.RtmpPublisher("live", name)
			if err == nil {
				s.pub, s.pubOK = p, p.Accepted
			}
		}
		if err == nil && !s.pubOK() {
			if !inputBefore && !busyBefore {
				s.add("publisher-refused", "publisher refused although the stream has no input")
			}
			s.pub = nil
		} else {
			s.pubQuery = q
		}
	case ev == "PubLeave":
		s.pub.Close()
		s.pub = nil
		err = w.Settle()
	case strings.HasPrefix(ev, "D:accept:"), strings.HasPrefix(ev, "D:refuse:"):
		name := ev[strings.LastIndex(ev, ":")+1:]
		pend, _ := s.dialsOf(name)
		if len(pend) == 0 {
			return fmt.Errorf("%s: no pending dial", ev)
		}
		if strings.HasPrefix(ev, "D:accept:") {
			acceptedSeq = pend[0].Seq
			pend[0].Accept()
		} else {
			pend[0].Refuse()
		}
		err = w.Settle()
	case strings.HasPrefix(ev, "O:close:"):
		name := ev[strings.LastIndex(ev, ":")+1:]
		_, live := s.dialsOf(name)
		if len(live) == 0 {
			return fmt.Errorf("%s: no live connection", ev)
		}
		live[0].Origin.Close()
		err = w.Settle()
	default:
		return fmt.Errorf("unknown event %s", ev)
	}
	if err != nil {
		return err
	}
	if s.pub != nil && !s.pubOK() {
		s.pub = nil // disconnected by the server
		if ev != "T" {
			s.add("publisher-disconnected", "the accepted publisher was disconnected by event %s", ev)
		}
	}
	for i := 0; i < len(s.subs); i++ {
		s.subs[i].Pump()
		if !s.subs[i].Accepted() {
			s.add("subscriber-disconnected", "a subscriber was disconnected by event %s", ev)
			s.subs = append(s.subs[:i], s.subs[i+1:]...)
			i--
		}
	}
	if p := w.Net.FirstPanic(); p != "" {
		s.add("panic", "%s", strings.SplitN(p, "\n", 2)[0])
	}

	// ---- new connection attempts caused by this event
	all := w.AllDials()
	var newPull []*world.Dial
	newPush := map[string]int{}
	for _, d := range all[s.seenDials:] {
		if d.Name == "origin" {
			newPull = append(newPull, d)
		} else {
			newPush[d.Name]++
			s.dialQuery[d.Seq] = s.pubQuery
			if !pubBefore && !s.pubAlive() {
				s.add("push/without-publisher", "event %s opened a push connection to %s although no publisher is attached", ev, d.Name)
			}
		}
	}
	s.seenDials = len(all)

	// ---- pull: MAY
	if len(newPull) > 1 {
		s.add("pull/two-attempts", "event %s started %d pull attempts", ev, len(newPull))
	}
	if len(newPull) > 0 {
		s.mayCount += len(newPull)
		s.lalCount += len(newPull)
		why := ""
		switch {
		case !s.enabledMay():
			why = "relay pull is not enabled (no static pull, API pull stopped or never started)"
		case inputBefore && !(ev == "PubLeave" || strings.HasPrefix(ev, "O:close") || ev == "Kick" || ev == "ApiStop"):
			why = "the stream has an input"
		case busyBefore && !(strings.HasPrefix(ev, "D:") || strings.HasPrefix(ev, "O:close") || ev == "Kick" || ev == "ApiStop"):
			why = "an attempt is already in flight or attached"
		case !budgetMay:
			why = fmt.Sprintf("the retry budget (%d retries) is exhausted: %d attempts since it was (re)started", s.retry, s.mayCount-len(newPull))
		case !s.windowOK(1000):
			why = fmt.Sprintf("auto-stop=%d ms and no consumer has been present for %d ms", s.autoStop, w.Now().UnixMilli()-s.lastPresent)
		}
		if why != "" {
			s.add("pull/attempt-not-allowed", "event %s started a pull attempt although %s", ev, why)
		}
		if ev != "J" && ev != "T" && ev != "ApiStart" {
			s.add("pull/attempt-without-trigger", "a pull attempt was started by event %s (triggers are: subscriber arrival, API start, tick)", ev)
		}
	}
	// ---- pull: MUST
	must := ""
	if !inputBefore && !busyBefore {
		switch {
		case ev == "J" && s.c.Static && !s.apiMay:
			must = "static relay pull is enabled and a subscriber arrived at a stream without input"
		case ev == "T" && s.c.Static && !s.apiMay && len(s.subs) > 0:
			must = "static relay pull is enabled, a subscriber is waiting and the stream has no input"
		case ev == "T" && s.apiMust && budgetMust && (s.autoStop < 0 || len(s.subs) > 0):
			must = fmt.Sprintf("API pull is enabled (retry=%d, %d attempts so far, auto-stop=%d), the stream has no input, %d subscribers", s.retry, s.lalCount, s.autoStop, len(s.subs))
		case ev == "ApiStart" && (s.autoStop < 0 || len(s.subs) > 0) && s.lalCount == 0:
			must = fmt.Sprintf("start_relay_pull was called (retry=%d auto-stop=%d) on a stream without input, %d subscribers", s.retry, s.autoStop, len(s.subs))
		}
	}
	if must != "" && len(newPull) == 0 {
		s.add("pull/no-attempt", "event %s started no pull attempt although %s", ev, must)
	}
	// ---- API start response
	if apiStartResp != nil {
		r := *apiStartResp
		if (r.ErrorCode == base.ErrorCodeSucc) != (len(newPull) > 0) {
			s.add("api-start/response", "start_relay_pull answered code=%d desp=%q session=%q; pull attempts started by the call: %d", r.ErrorCode, r.Desp, r.Data.SessionId, len(newPull))
		}
		if r.ErrorCode == base.ErrorCodeSucc {
			if r.Data.SessionId == "" || r.Data.StreamName != stream {
				s.add("api-start/response", "start_relay_pull succeeded with session=%q stream=%q", r.Data.SessionId, r.Data.StreamName)
			}
			for _, d := range newPull {
				s.dialSession[d.Seq] = r.Data.SessionId
			}
			s.apiMust = true
		}
	}
	if a := s.attachedPull(); a != "" && attachedBefore == "" && acceptedSeq >= 0 {
		if want, ok := s.dialSession[acceptedSeq]; ok && want != a {
			s.add("api-start/session-id", "start_relay_pull reported session %s for the attempt it started, the pull session that attached from that attempt is %s", want, a)
		}
	}
	// ---- pull: stop rules
	attachedNow := s.attachedPull()
	if attachedNow != "" && !s.enabledMay() {
		s.add("pull/attached-while-disabled", "after %s a pull session (%s) is attached although relay pull is stopped / not enabled", ev, attachedNow)
	}
	if attachedNow != "" && s.pubAlive() {
		s.add("two-inputs", "after %s a pull session and a publisher are both attached", ev)
	}
	if ev == "T" && attachedBefore != "" {
		if attachedNow == "" {
			// stopped by the tick: must be the auto-stop rule
			if s.autoStop < 0 || len(s.subs) > 0 || (s.autoStop > 0 && w.Now().UnixMilli()-s.lastEarly < int64(s.autoStop)-1000) {
				s.add("pull/stopped-early", "the tick stopped the pull although auto-stop=%d ms, %d subscribers, last consumer seen %d ms ago", s.autoStop, len(s.subs), w.Now().UnixMilli()-s.lastEarly)
			}
			s.mayCount, s.lalCount = 0, 0
		} else if s.autoStop >= 0 && len(s.subs) == 0 && w.Now().UnixMilli()-s.lastPresent >= int64(s.autoStop)+1000 {
			s.add("pull/not-stopped", "auto-stop=%d ms, no consumer for %d ms, and the pull is still attached after the tick", s.autoStop, w.Now().UnixMilli()-s.lastPresent)
		}
	}
	// a pull that is due to be auto-stopped counts as stopped: the next start has a fresh retry budget
	if ev == "T" && s.autoStop >= 0 && len(s.subs) == 0 {
		el := w.Now().UnixMilli() - s.lastPresent
		if s.autoStop == 0 || el >= int64(s.autoStop)-1000 {
			s.mayCount = 0
		}
		if s.autoStop == 0 || el >= int64(s.autoStop) {
			s.lalCount = 0
		}
	}
	// the server may forget an API pull once nothing keeps the stream alive
	if ev == "T" && !s.pubAlive() && len(s.subs) == 0 && attachedNow == "" {
		if p, _ := s.dialsOf("origin"); len(p) == 0 {
			s.apiMust = false
		}
	}

	// ---- push rules
	for _, t := range s.c.Push {
		pend, live := s.dialsOf(t)
		if len(pend)+len(live) > 1 {
			s.add("push/two-sessions", "after %s target %s has %d pending and %d live connections", ev, t, len(pend), len(live))
		}
		if (ev == "PubArrive" || ev == "T") && s.pubAlive() && len(pend)+len(live) == 0 {
			s.add("push/not-started", "after %s a publisher is attached but target %s has no connection or attempt", ev, t)
		}
		for _, d := range live {
			if !s.pubAlive() && d.Origin.Started {
				if ev == "T" {
					s.orphanTicks[d.Seq]++
				}
				if s.orphanTicks[d.Seq] >= 2 {
					s.add("push/outlives-publisher", "the push session to %s is still connected %d ticks after its publisher has gone", t, s.orphanTicks[d.Seq])
				}
			}
			if d.Origin.Role == "publish" {
				want := stream
				if q := s.dialQuery[d.Seq]; q != "" {
					want += "?" + q
				}
				if s.pubAlive() && d.Origin.Started && s.dialQuery[d.Seq] != s.pubQuery {
					s.add("push/stale-url", "the push session to %s carries the URL parameters %q of an earlier publisher; the current publisher's are %q", t, clip(s.dialQuery[d.Seq]), clip(s.pubQuery))
				}
				if d.Origin.Stream != want || d.Origin.App != "live" {
					s.add("push/url", "push to %s published app=%q stream=%q (%d bytes), want app=live stream=%s... (%d bytes)", t, d.Origin.App, clip(d.Origin.Stream), len(d.Origin.Stream), clip(want), len(want))
				}
			}
			if d.Origin.DecErr != nil {
				s.add("push/bytes", "what lal sent to %s does not decode: %v", t, d.Origin.DecErr)
			}
		}
	}
	return nil
}

func clip(s string) string {
	if len(s) > 40 {
		return s[:40]
	}
	return s
}

var sdpAac = []byte("v=0\r\no=- 0 0 IN IP4 127.0.0.1\r\ns=x\r\nc=IN IP4 127.0.0.1\r\nt=0 0\r\nm=audio 0 RTP/AVP 97\r\na=rtpmap:97 MPEG4-GENERIC/44100/2\r\na=fmtp:97 profile-level-id=1;mode=AAC-hbr;sizelength=13;indexlength=3;indexdeltalength=3; config=1210\r\na=control:streamid=0\r\n")

func (s *sys) Check() []seqx.Viol { v := s.viols; s.viols = nil; return v }

func (s *sys) Fingerprint() string {
	var sb strings.Builder
	sb.WriteString(strings.ReplaceAll(s.w.Dump(), fmt.Sprintf("w%d-", s.w.ID), "w-"))
	fmt.Fprintf(&sb, " |subs=%d pub=%v npub=%d apiMay=%v apiMust=%v may=%d lal=%d", len(s.subs), s.pubAlive(), s.npub, s.apiMay, s.apiMust, minI(s.mayCount, 4), minI(s.lalCount, 4))
	if s.c.AutoStop2 != nil {
		ea := s.w.Now().UnixMilli() - s.lastEarly
		if ea > 6000 {
			ea = 6000
		}
		fmt.Fprintf(&sb, " started-before=%v autostop=%d early-age=%d", s.nApiStart > 0, s.autoStop, ea)
	}
	if s.autoStop > 0 {
		age := s.w.Now().UnixMilli() - s.lastPresent
		if age > int64(s.autoStop)+2000 {
			age = int64(s.autoStop) + 2000
		}
		fmt.Fprintf(&sb, " age=%d", age)
	}
	var ds []string
	for _, d := range s.w.AllDials() {
		if d.State == "pending" {
			ds = append(ds, d.Name+":pending:"+s.dialQuery[d.Seq])
		} else if d.State == "accepted" && !d.Conn.Closed() {
			ds = append(ds, fmt.Sprintf("%s:live:%v:%d:%s", d.Name, d.Origin.Started, minI(s.orphanTicks[d.Seq], 2), s.dialQuery[d.Seq]))
		}
	}
	sort.Strings(ds)
	fmt.Fprintf(&sb, " dials%v live[%s]", ds, s.w.LivenessSig())
	return sb.String()
}

func minI(a, b int) int {
	if a < b {
		return a
	}
	return b
}

func configs(r *vk.Run) []cfg {
	pullAlpha := []string{"J", "T", "ApiStart", "ApiStop", "Kick", "Pub"}
	var cs []cfg
	cs = append(cs, cfg{Name: "static-pull", Static: true, Alphabet: []string{"J", "T", "Pub", "Kick"}, MaxSubs: 2, MaxPubs: 1})
	type rp struct{ r, a int }
	params := []rp{{0, -1}, {1, -1}, {-1, 0}, {1, 2000}}
	if !r.Quick() {
		params = append(params, []rp{{-1, -1}, {0, 0}, {2, 0}, {-1, 2000}, {0, 2000}, {1, 1000}, {2, -1}}...)
	}
	for _, p := range params {
		cs = append(cs, cfg{Name: fmt.Sprintf("api-pull(retry=%d,autostop=%d)", p.r, p.a), Retry: p.r, AutoStop: p.a, Alphabet: pullAlpha, MaxSubs: 1, MaxPubs: 1})
	}
	// the same rules with an RTSP origin (interleaved transport)
	for _, p := range []rp{{1, -1}, {-1, 2000}} {
		cs = append(cs, cfg{Name: fmt.Sprintf("api-pull-rtsp(retry=%d,autostop=%d)", p.r, p.a), Retry: p.r, AutoStop: p.a, RtspPull: true, Alphabet: pullAlpha, MaxSubs: 1, MaxPubs: 1})
	}
	long := strings.Repeat("k=0123456789abcdef&", 300) + "z=1"
	// the start call repeated with another auto-stop setting (never, then a 4 s window): the second call's
	// setting is in force from then on, and its window counts from the last consumer seen, not from long ago
	{
		two := 4000
		cs = append(cs, cfg{Name: "api-pull(retry=-1,autostop=-1 then 4000)", Retry: -1, AutoStop: -1, AutoStop2: &two, Alphabet: pullAlpha, MaxSubs: 1, MaxPubs: 1})
		cs = append(cs, cfg{Name: "api-pull(retry=-1,autostop=-1 then 4000)+watched-for-a-while", Retry: -1, AutoStop: -1, AutoStop2: &two, Alphabet: []string{"J", "T", "ApiStart", "ApiStop"}, MaxSubs: 1, MaxPubs: 1,
			Prefix: []string{"ApiStart", "D:accept:origin", "J", "T", "T", "T"}})
	}
	// the input is a customize pub session (no connection, no network session: the pull rules must count it as an input all the same)
	cs = append(cs, cfg{Name: "api-pull+customize-pub(retry=1,autostop=-1)", Retry: 1, AutoStop: -1, CustPub: true, Alphabet: pullAlpha, MaxSubs: 1, MaxPubs: 1})
	cs = append(cs, cfg{Name: "static-pull+customize-pub", Static: true, CustPub: true, Alphabet: []string{"J", "T", "Pub", "Kick"}, MaxSubs: 1, MaxPubs: 1})
	cs = append(cs, cfg{Name: "push-2-targets", Push: []string{"pushA", "pushB"}, Query: []string{"", "a=1&b=2"}, Alphabet: []string{"T", "Pub"}, MaxPubs: 2})
	cs = append(cs, cfg{Name: "push-long-query", Push: []string{"pushA"}, Query: []string{strings.Repeat("p", 150), long}, Alphabet: []string{"T", "Pub"}, MaxPubs: 2})
	cs = append(cs, cfg{Name: "push-rtsp-pub", Push: []string{"pushA"}, RtspPub: true, Query: []string{"", ""}, Alphabet: []string{"T", "Pub"}, MaxPubs: 2})
	if !r.Quick() {
		cs = append(cs, cfg{Name: "push+sub", Push: []string{"pushA"}, Query: []string{"x=1", ""}, Alphabet: []string{"T", "Pub", "J"}, MaxPubs: 2, MaxSubs: 1})
		cs = append(cs, cfg{Name: "static-pull+push", Static: true, Push: []string{"pushA"}, Alphabet: []string{"J", "T", "Pub"}, MaxSubs: 1, MaxPubs: 1})
	}
	return cs
}

func main() {
	r := vk.Start("C17", "model_checking")
	lalenv.Quiet()
	world.SyncQueues()
	r.Rule("states = distinct canonical fingerprints (server dump + pending/live outbound connections + reference-model counters) reached by event sequences over {J, L, T, ApiStart, ApiStop, Kick, PubArrive, PubLeave, D:accept, D:refuse, O:close} per relay configuration; every outbound connection attempt is an observed event whose outcome the explorer chooses; after every transition the MAY / MUST rules of the reference model are compared with the attempts, stops and API answers observed. distinct_nontrivial = states")
	r.Assume("net.Dial of the RTMP / RTSP client sessions goes through a gated in-memory dialer (vgen rewrites the selector); the remote end is a reference RTMP peer",
		"the server's clock is the world's: one tick = one second; auto-stop windows are compared with a tolerance of one tick",
		"connect timeouts (real-time context deadlines) never fire: a connection attempt ends by accept, refuse or a close of the remote end",
		"relay pull over RTSP is not driven (RTMP origin only); the session idle check (10 ticks) is beyond the explored depth")
	mk := func(c cfg) func() seqx.Sys { return func() seqx.Sys { return newSys(c) } }
	if r.ReplayIn != "" {
		var rp replay
		r.LoadReplay(&rp)
		s, vs, err := seqx.Run(seqx.Config{New: mk(rp.Cfg)}, rp.Trace)
		if err != nil {
			r.Violation("infra/replay", err.Error(), rp)
		}
		for _, v := range vs {
			r.Violation(v.Key, v.What, rp)
		}
		seqx.Close(s)
		r.Finish()
	}
	r.SetBudget(6*time.Minute, 60*time.Minute)
	depth := 8
	if !r.Quick() {
		depth = 12
	}
	var states, trans, execs int64
	per := map[string]interface{}{}
	for _, c := range configs(r) {
		c := c
		st := seqx.Explore(seqx.Config{New: mk(c), MaxDepth: depth, Workers: 16, OutOfTime: r.OutOfTime,
			OnViolation: func(tr []string, v seqx.Viol) {
				r.Violation(v.Key, fmt.Sprintf("[%s] after %s: %s", c.Name, strings.Join(tr, " "), v.What), replay{c, tr})
			},
			OnInfra: func(tr []string, err error) {
				r.Violation("infra/hang-or-nondeterminism", fmt.Sprintf("[%s] %v: %v", c.Name, tr, err), replay{c, tr})
			},
			OnState: func(d int, fp string, tr []string) {
				r.Class(c.Name + "|" + fp)
				if d == depth {
					r.Sample(map[string]interface{}{"config": c.Name, "trace": tr})
				}
			}})
		states += st.States
		trans += st.Transitions
		execs += st.Executions
		per[c.Name] = map[string]interface{}{"states": st.States, "transitions": st.Transitions, "depth_completed": st.MaxDepthCompleted, "frontier": st.Frontier, "executions_repeated_after_infra_error": st.Retried}
		if st.Capped {
			r.NotExhaustive("internal time budget hit before the depth bound")
		}
		r.Eval(int(st.Executions))
	}
	r.AddStates(states)
	r.AddTransitions(trans)
	r.AddTraces(execs)
	r.Cov("per_config", per)
	r.Cov("max_depth", depth)
	r.Finish()
}
