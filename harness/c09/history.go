package main

// PAT/PMT blocks in a history: the block lal builds for a stream is kept by its consumers (the HLS
// muxer writes it at the head of every segment, the group sends it to every HTTP-TS subscriber that
// joins later; remux.IRtmp2MpegtsRemuxerObserver.OnPatPmt says the receiver may hold it). So for
// every ordered pair of codec pairs (A, B): build A's block, keep it, build B's block - A's block must
// still declare exactly A's codecs. Both through the idiom lal's remuxer uses on the mpegts package
// (append(PackPat(), PackPmt(v, a)...)) and through two real remux.Rtmp2MpegtsRemuxer objects.

import (
	"bytes"
	"fmt"

	"github.com/q191201771/lal/pkg/base"
	"github.com/q191201771/lal/pkg/mpegts"
	"github.com/q191201771/lal/pkg/remux"

	"verif/lib/ref"
	"verif/lib/vk"
)

type pmtStream struct {
	typ uint8
	pid uint16
}

func wantStreams(v, a int) (want []pmtStream) {
	switch v {
	case 7:
		want = append(want, pmtStream{0x1B, 0x100})
	case 12:
		want = append(want, pmtStream{0x24, 0x100})
	}
	switch a {
	case 10:
		want = append(want, pmtStream{0x0F, 0x101})
	case 13:
		want = append(want, pmtStream{0x06, 0x101})
	}
	return
}

// blockProblem parses a PAT+PMT block with the reference demuxer; "" when it declares exactly (v, a).
func blockProblem(b []byte, v, a int) string {
	pp, err := ref.ParseTs(b)
	if err != nil {
		return "malformed: " + err.Error()
	}
	if len(pp) != 2 {
		return fmt.Sprintf("%d packets", len(pp))
	}
	if _, err := ref.ParsePat(pp[0]); err != nil {
		return "PAT: " + err.Error()
	}
	m, err := ref.ParsePmt(pp[1])
	if err != nil {
		return "PMT: " + err.Error()
	}
	want := wantStreams(v, a)
	if len(m.Streams) != len(want) {
		return fmt.Sprintf("declares %+v, want %+v", m.Streams, want)
	}
	for i := range want {
		if m.Streams[i].Type != want[i].typ || m.Streams[i].PID != want[i].pid {
			return fmt.Sprintf("declares %+v, want %+v", m.Streams, want)
		}
	}
	return ""
}

type psiPair struct {
	V1 int `json:"v1"`
	A1 int `json:"a1"`
	V2 int `json:"v2"`
	A2 int `json:"a2"`
}

func checkPsiPair(r *vk.Run, p psiPair) {
	r.Eval(1)
	rp := replay{Kind: "psipair", Pair: &p}
	first := append(mpegts.PackPat(), mpegts.PackPmt(p.V1, p.A1)...)
	snap := append([]byte{}, first...)
	second := append(mpegts.PackPat(), mpegts.PackPmt(p.V2, p.A2)...)
	if !bytes.Equal(first, snap) {
		r.Violation("psi/block-changed-by-later-stream", fmt.Sprintf("the PAT/PMT block built for codecs (video=%d,audio=%d) changed when the block for (video=%d,audio=%d) was built: now %s", p.V1, p.A1, p.V2, p.A2, blockProblem(first, p.V1, p.A1)), rp)
	} else if s := blockProblem(first, p.V1, p.A1); s != "" && blockProblem(snap, p.V1, p.A1) == "" {
		r.Violation("psi/block-changed-by-later-stream", s, rp)
	}
	if s := blockProblem(second, p.V2, p.A2); s != "" && wantKnown(p.V2, p.A2) {
		r.Violation("psi/second-block", fmt.Sprintf("the block built second, for (video=%d,audio=%d): %s", p.V2, p.A2, s), rp)
	}
	r.Class(fmt.Sprintf("psipair/same=%v", p.V1 == p.V2 && p.A1 == p.A2))
}

func wantKnown(v, a int) bool {
	return (v == -1 || v == 7 || v == 12) && (a == -1 || a == 10 || a == 13)
}

type patObs struct {
	blocks [][]byte // held, not copied: what lal's own observers do
	copies [][]byte
}

func (o *patObs) OnPatPmt(b []byte) {
	o.blocks = append(o.blocks, b)
	o.copies = append(o.copies, append([]byte{}, b...))
}
func (o *patObs) OnTsPackets(tsPackets []byte, frame *mpegts.Frame, boundary bool) {}

// feedCodecs gives a remuxer the first messages of a stream with the given codec ids (-1: track absent).
func feedCodecs(x *remux.Rtmp2MpegtsRemuxer, v, a int) {
	msg := func(typ uint8, p []byte) base.RtmpMsg {
		return base.RtmpMsg{Header: base.RtmpHeader{Csid: 6, MsgLen: uint32(len(p)), MsgTypeId: typ, MsgStreamId: 1}, Payload: p}
	}
	if v >= 0 {
		x.FeedRtmpMessage(msg(9, []byte{0x10 | byte(v), 0, 0, 0, 0, 1, 0x64, 0, 0x1e, 0xff, 0xe0}))
	}
	if a >= 0 {
		x.FeedRtmpMessage(msg(8, []byte{byte(a)<<4 | 0x0f, 0, 0x12, 0x10}))
	}
	x.FlushAudio()
	x.Dispose() // a stream with one track only gets its block when the probe ends
}

func checkPsiRemuxPair(r *vk.Run, p psiPair) {
	r.Eval(1)
	rp := replay{Kind: "psiremux", Pair: &p}
	o1, o2 := &patObs{}, &patObs{}
	x1 := remux.NewRtmp2MpegtsRemuxer(o1)
	feedCodecs(x1, p.V1, p.A1)
	x2 := remux.NewRtmp2MpegtsRemuxer(o2)
	feedCodecs(x2, p.V2, p.A2)
	if len(o1.blocks) != 1 || len(o2.blocks) != 1 {
		r.Violation("psi/remux-block-count", fmt.Sprintf("remuxers of streams (video=%d,audio=%d) and (video=%d,audio=%d) announced %d and %d PAT/PMT blocks, want one each", p.V1, p.A1, p.V2, p.A2, len(o1.blocks), len(o2.blocks)), rp)
		return
	}
	if !bytes.Equal(o1.blocks[0], o1.copies[0]) {
		r.Violation("psi/block-changed-by-later-stream", fmt.Sprintf("the PAT/PMT block a remuxer handed out for a stream with codecs (video=%d,audio=%d) changed after another remuxer announced (video=%d,audio=%d): now %s", p.V1, p.A1, p.V2, p.A2, blockProblem(o1.blocks[0], p.V1, p.A1)), rp)
	}
	// lal declares H.264 when there is no video (documented TODO in the filter): only demanded with video
	if p.V1 != -1 {
		if s := blockProblem(o1.copies[0], p.V1, p.A1); s != "" {
			r.Violation("psi/remux-block", fmt.Sprintf("stream (video=%d,audio=%d): %s", p.V1, p.A1, s), rp)
		}
	}
	r.Class(fmt.Sprintf("psiremux/%d/%d/%d/%d", p.V1, p.A1, p.V2, p.A2))
}
