// C09 — MPEG-TS packetisation is well-formed and lossless for every frame.
// Family (I): every payload length in the boundary windows x key x (PTS==DTS, !=) x pid/sid x
// incoming continuity counter through the real mpegts.Frame.Pack, parsed back by a strict
// ISO 13818-1 reference demuxer (lib/ref/ts.go); PAT/PMT for every codec pair; frame sequences
// per PID for counter continuity.
package main

import (
	"bytes"
	"fmt"
	"strings"
	"time"

	"github.com/q191201771/lal/pkg/mpegts"

	"verif/lib/lalenv"
	"verif/lib/ref"
	"verif/lib/vk"
)

type frameCase struct {
	Len int    `json:"len"`
	Key bool   `json:"key"`
	Pts uint64 `json:"pts"`
	Dts uint64 `json:"dts"`
	Pid uint16 `json:"pid"`
	Sid uint8  `json:"sid"`
	Cc  uint8  `json:"cc"`
}

type replay struct {
	Kind  string      `json:"kind"`
	Frame *frameCase  `json:"frame,omitempty"`
	Seq   []frameCase `json:"seq,omitempty"`
	V     int         `json:"v,omitempty"`
	A     int         `json:"a,omitempty"`
	Pair  *psiPair    `json:"pair,omitempty"`
}

const delay = 63000 // the constant lal adds to PTS/DTS (700 ms at 90 kHz); checked to be ONE constant

func payload(n int, salt byte) []byte {
	b := make([]byte, n)
	for i := range b {
		b[i] = byte(i) ^ byte(i>>8)*31 ^ salt // position-dependent: a shifted copy is detected
	}
	return b
}

func lenShape(fc frameCase) string {
	// position of the length relative to the first-packet capacity and the 184-byte packets
	hdr := 9 + 5
	if fc.Pts != fc.Dts {
		hdr += 5
	}
	first := 184 - hdr
	if fc.Key {
		first -= 8
	}
	switch {
	case fc.Len < first:
		return "single-stuffed"
	case fc.Len == first:
		return "single-exact"
	}
	rem := (fc.Len - first) % 184
	np := (fc.Len-first+183)/184 + 1
	if np > 4 {
		np = 4
	}
	switch {
	case rem == 0:
		return fmt.Sprintf("multi%d-exact", np)
	case rem == 183:
		return fmt.Sprintf("multi%d-stuff1", np)
	case rem == 182:
		return fmt.Sprintf("multi%d-stuff2", np)
	}
	return fmt.Sprintf("multi%d-stuffed", np)
}

func checkFrame(r *vk.Run, fc frameCase) {
	r.Eval(1)
	raw := payload(fc.Len, byte(fc.Cc))
	f := mpegts.Frame{Pts: fc.Pts, Dts: fc.Dts, Cc: fc.Cc, Pid: fc.Pid, Sid: fc.Sid, Key: fc.Key, Raw: append([]byte{}, raw...)}
	out := f.Pack()
	shape := lenShape(fc)
	big := fc.Len+19 > 0xFFFF
	cls := fmt.Sprintf("frame/%s/key=%v/ptsdts=%v/video=%v/pes0=%v", shape, fc.Key, fc.Pts != fc.Dts, fc.Pid == 0x100, big)
	r.Class(cls)
	rp := replay{Kind: "frame", Frame: &fc}
	fail := func(what string, a ...interface{}) {
		// key = failure kind + the discriminator that matters for it (timestamp magnitude for
		// pts/dts/pcr, stuffing shape + key flag otherwise), so one defect is one key
		disc := fmt.Sprintf("%s/key=%v", strings.TrimLeft(strings.TrimPrefix(shape, "multi"), "0123456789"), fc.Key)
		if what == "pts" || what == "dts" || what == "pcr-value" {
			disc = "lt2^30"
			if fc.Pts+delay >= 1<<30 {
				disc = "ge2^30"
			}
		}
		r.Violation("pack/"+what+"/"+disc, fmt.Sprintf("Frame.Pack(len=%d key=%v pts=%d dts=%d pid=%#x cc=%d): %s", fc.Len, fc.Key, fc.Pts, fc.Dts, fc.Pid, fc.Cc, fmt.Sprintf(a[0].(string), a[1:]...)), rp)
	}
	if !bytes.Equal(f.Raw, raw) {
		fail("mutates-input", "Pack modified Frame.Raw")
	}
	// the receiver of the packets may hold them (IRtmp2MpegtsRemuxerObserver.OnTsPackets): packing the
	// next frame must not change them
	held := append([]byte{}, out...)
	f2 := mpegts.Frame{Pts: fc.Pts + 3600, Dts: fc.Dts + 3600, Cc: fc.Cc ^ 5, Pid: fc.Pid ^ 1, Sid: fc.Sid, Key: !fc.Key, Raw: payload(fc.Len, byte(fc.Cc)^0x5a)}
	f2.Pack()
	if !bytes.Equal(out, held) {
		fail("held-output-changed", "the packets returned for this frame changed when the next frame was packed")
		out = held
	}
	pkts, err := ref.ParseTs(out)
	if err != nil {
		fail("malformed-ts", "%v", err)
		return
	}
	for i, p := range pkts {
		if p.PID != fc.Pid {
			fail("pid", "packet %d has PID %#x", i, p.PID)
			return
		}
		if p.PUSI != (i == 0) {
			fail("pusi", "packet %d payload_unit_start_indicator=%v", i, p.PUSI)
			return
		}
	}
	pes, err := ref.DemuxPes(pkts, fc.Pid, int(fc.Cc))
	if err != nil {
		fail("malformed-pes", "%v", err)
		return
	}
	if len(pes) != 1 {
		fail("pes-count", "%d PES packets", len(pes))
		return
	}
	p := pes[0]
	if p.StreamID != fc.Sid {
		fail("stream-id", "stream_id %#x", p.StreamID)
	}
	if !bytes.Equal(p.Payload, raw) {
		fail("payload", "elementary payload differs (got %d bytes, want %d)", len(p.Payload), len(raw))
	}
	const m33 = 1<<33 - 1
	if !p.HasPTS || p.PTS != (fc.Pts+delay)&m33 {
		fail("pts", "PTS %d, want input+%d = %d", p.PTS, delay, (fc.Pts+delay)&m33)
	}
	if p.HasDTS != (fc.Pts != fc.Dts) || p.DTS != (fc.Dts+delay)&m33 {
		fail("dts", "DTS present=%v value %d, want present=%v value %d", p.HasDTS, p.DTS, fc.Pts != fc.Dts, (fc.Dts+delay)&m33)
	}
	if p.RAI != fc.Key || p.HasPCR != fc.Key {
		fail("marking", "random_access=%v pcr=%v for key=%v", p.RAI, p.HasPCR, fc.Key)
	}
	if fc.Key && p.HasPCR {
		want := uint64(0)
		if fc.Dts > delay {
			want = fc.Dts - delay
		}
		if p.PCRBase != want&m33 || p.PCRExt != 0 {
			fail("pcr-value", "PCR base=%d ext=%d, want base=%d ext=0", p.PCRBase, p.PCRExt, want&m33)
		}
	}
	hl := 5
	if fc.Pts != fc.Dts {
		hl = 10
	}
	wantLen := 3 + hl + fc.Len
	if wantLen > 0xFFFF {
		wantLen = 0
	}
	if p.LenField != wantLen {
		fail("pes-length", "PES_packet_length %d, want %d", p.LenField, wantLen)
	}
	if f.Cc&0x0f != p.LastCC { // the counter is carried unmasked; only its low 4 bits are the protocol value
		fail("cc-out", "Frame.Cc after Pack = %d but the last packet used %d", f.Cc, p.LastCC)
	}
	if p.FirstCC != (fc.Cc+1)&0x0f {
		fail("cc-in", "first packet counter %d after incoming %d", p.FirstCC, fc.Cc)
	}
}

func checkSeq(r *vk.Run, seq []frameCase) {
	r.Eval(1)
	cc := map[uint16]uint8{0x100: seq[0].Cc, 0x101: (seq[0].Cc + 7) & 0x0f}
	start := map[uint16]uint8{0x100: cc[0x100], 0x101: cc[0x101]}
	var all []byte
	want := map[uint16][][]byte{}
	for i, fc := range seq {
		raw := payload(fc.Len, byte(i))
		f := mpegts.Frame{Pts: fc.Pts, Dts: fc.Dts, Cc: cc[fc.Pid], Pid: fc.Pid, Sid: fc.Sid, Key: fc.Key, Raw: raw}
		all = append(all, f.Pack()...)
		cc[fc.Pid] = f.Cc // how Rtmp2MpegtsRemuxer carries the counter
		want[fc.Pid] = append(want[fc.Pid], raw)
	}
	rp := replay{Kind: "seq", Seq: seq}
	pkts, err := ref.ParseTs(all)
	if err != nil {
		r.Violation("seq/malformed-ts", err.Error(), rp)
		return
	}
	for _, pid := range []uint16{0x100, 0x101} {
		pes, err := ref.DemuxPes(pkts, pid, int(start[pid]))
		if err != nil {
			r.Violation("seq/continuity", fmt.Sprintf("pid %#x over %d frames: %v", pid, len(seq), err), rp)
			continue
		}
		if len(pes) != len(want[pid]) {
			r.Violation("seq/count", fmt.Sprintf("pid %#x: %d PES for %d frames", pid, len(pes), len(want[pid])), rp)
			continue
		}
		for i := range pes {
			if !bytes.Equal(pes[i].Payload, want[pid][i]) {
				r.Violation("seq/payload", fmt.Sprintf("pid %#x frame %d payload differs", pid, i), rp)
			}
		}
	}
	s := ""
	for _, fc := range seq {
		s += lenShape(fc)[:6] + fmt.Sprint(fc.Pid&1) + ","
	}
	r.Class("seq/" + s)
}

func checkPsi(r *vk.Run, v, a int) {
	r.Eval(1)
	rp := replay{Kind: "psi", V: v, A: a}
	pat := mpegts.PackPat()
	pmt := mpegts.PackPmt(v, a)
	pp, err := ref.ParseTs(append(append([]byte{}, pat...), pmt...))
	if err != nil {
		r.Violation("psi/malformed-ts", err.Error(), rp)
		return
	}
	ents, err := ref.ParsePat(pp[0])
	if err != nil {
		r.Violation("psi/pat", "PackPat: "+err.Error(), rp)
		return
	}
	if len(ents) != 1 || ents[0].Program == 0 || ents[0].PID != pp[1].PID {
		r.Violation("psi/pat-program", fmt.Sprintf("PAT entries %+v but the PMT travels on PID %#x", ents, pp[1].PID), rp)
	}
	m, err := ref.ParsePmt(pp[1])
	if err != nil {
		r.Violation("psi/pmt", fmt.Sprintf("PackPmt(%d,%d): %v", v, a, err), rp)
		return
	}
	if m.Program != ents[0].Program {
		r.Violation("psi/pmt-program", fmt.Sprintf("PMT program_number %d, PAT says %d", m.Program, ents[0].Program), rp)
	}
	type st struct {
		typ uint8
		pid uint16
	}
	var want []st
	switch v {
	case 7:
		want = append(want, st{0x1B, 0x100})
	case 12:
		want = append(want, st{0x24, 0x100})
	}
	switch a {
	case 10:
		want = append(want, st{0x0F, 0x101})
	case 13:
		want = append(want, st{0x06, 0x101})
	}
	ok := len(m.Streams) == len(want)
	if ok {
		for i := range want {
			if m.Streams[i].Type != want[i].typ || m.Streams[i].PID != want[i].pid {
				ok = false
			}
		}
	}
	if !ok {
		r.Violation("psi/pmt-streams", fmt.Sprintf("PackPmt(video=%d,audio=%d) declares %+v, want %+v", v, a, m.Streams, want), rp)
	}
	if a == 13 && ok {
		d := m.Streams[len(m.Streams)-1].Descriptors
		if !bytes.Contains(d, []byte{0x05, 0x04, 'O', 'p', 'u', 's'}) {
			r.Violation("psi/opus-registration", fmt.Sprintf("Opus stream lacks the registration descriptor 'Opus': %x", d), rp)
		}
	}
	r.Class(fmt.Sprintf("psi/v=%d/a=%d", v, a))
}

func main() {
	r := vk.Start("C09", "exploration")
	lalenv.Quiet()
	r.Rule("cases: every payload length of the windows x key x (PTS==DTS, PTS!=DTS) x (video,audio) pid x incoming cc in {0,15} (all 16 for a subset) x timestamp values incl. the 33-bit wrap; PAT/PMT for 5 video x 6 audio codec ids; all sequences of 4 frames over a 6-letter alphabet x 2 start counters. distinct_nontrivial = distinct (stuffing shape, key, PTS!=DTS, pid, PES length 0) classes + PSI codec pairs + sequence shapes")
	r.Assume("strict ISO 13818-1 reference demuxer lib/ref/ts.go (sync, flags, adaptation field incl. stuffing 0xFF and PCR reserved bits, PES header, CRC-32/MPEG-2)",
		"payload bytes are opaque to Frame.Pack (copied); a position-dependent pattern detects shifted copies")
	if r.ReplayIn != "" {
		var rp replay
		r.LoadReplay(&rp)
		switch rp.Kind {
		case "frame":
			checkFrame(r, *rp.Frame)
		case "seq":
			checkSeq(r, rp.Seq)
		case "psi":
			checkPsi(r, rp.V, rp.A)
		case "psipair":
			checkPsiPair(r, *rp.Pair)
		case "psiremux":
			checkPsiRemuxPair(r, *rp.Pair)
		}
		r.Finish()
	}
	r.SetBudget(3*time.Minute, 40*time.Minute)
	var lens []int
	maxDense := 184 * 5
	win := 200
	if !r.Quick() {
		maxDense = 184 * 12
	}
	for l := 1; l <= maxDense; l++ {
		lens = append(lens, l)
	}
	for l := 65535 - 19 - 8 - win; l <= 65535+win; l++ {
		lens = append(lens, l)
	}
	if !r.Quick() {
		for l := 200*1024 - win; l <= 200*1024+win; l++ {
			lens = append(lens, l)
		}
	} else {
		for l := 200*1024 - 2; l <= 200*1024+2; l++ {
			lens = append(lens, l)
		}
	}
	type tsv struct{ pts, dts uint64 }
	tsvals := []tsv{{90000, 90000}, {93600, 90000}}
	extra := []tsv{{1<<30 - 63001, 1<<30 - 63001}, {1<<30 - 63000, 1<<30 - 63000}, {1 << 31, 1 << 31}, {1<<32 + 5, 1 << 32}, {0, 0}, {1, 1}, {63000, 63000}, {63001, 63001}, {3600, 0}, {1<<33 - 63001, 1<<33 - 63001}, {1<<33 - 1, 1<<33 - 1}, {1<<33 - 1, 1<<33 - 3601}}
	var cases []frameCase
	for _, l := range lens {
		for _, key := range []bool{false, true} {
			for _, tv := range tsvals {
				for _, ps := range []struct {
					pid uint16
					sid uint8
				}{{0x100, 0xE0}, {0x101, 0xC0}} {
					ccs := []uint8{0, 15}
					if l == 1 || l == 170 || l == 184 || l == 1000 {
						ccs = []uint8{0, 1, 2, 3, 4, 5, 6, 7, 8, 9, 10, 11, 12, 13, 14, 15}
					}
					for _, cc := range ccs {
						cases = append(cases, frameCase{l, key, tv.pts, tv.dts, ps.pid, ps.sid, cc})
					}
				}
			}
		}
	}
	for _, l := range []int{1, 100, 157, 162, 165, 170, 184, 500} {
		for _, key := range []bool{false, true} {
			for _, tv := range extra {
				cases = append(cases, frameCase{l, key, tv.pts, tv.dts, 0x100, 0xE0, 3})
			}
		}
	}
	r.Cov("frame_cases", len(cases))
	r.Sample(cases[len(cases)/2])
	vk.Par(len(cases), 16, func(i int) {
		if r.OutOfTime() {
			return
		}
		checkFrame(r, cases[i])
	})

	for _, v := range []int{-1, 0, 7, 12, 13} {
		for _, a := range []int{-1, 0, 7, 8, 10, 13} {
			checkPsi(r, v, a)
		}
	}
	// the same blocks in a history of two streams (history.go)
	npairs := 0
	for _, v1 := range []int{-1, 0, 7, 12, 13} {
		for _, a1 := range []int{-1, 0, 7, 8, 10, 13} {
			for _, v2 := range []int{-1, 0, 7, 12, 13} {
				for _, a2 := range []int{-1, 0, 7, 8, 10, 13} {
					checkPsiPair(r, psiPair{v1, a1, v2, a2})
					npairs++
				}
			}
		}
	}
	for _, v1 := range []int{-1, 7, 12} {
		for _, a1 := range []int{-1, 10, 13} {
			for _, v2 := range []int{-1, 7, 12} {
				for _, a2 := range []int{-1, 10, 13} {
					if (v1 == -1 && a1 == -1) || (v2 == -1 && a2 == -1) {
						continue
					}
					checkPsiRemuxPair(r, psiPair{v1, a1, v2, a2})
					npairs++
				}
			}
		}
	}
	r.Cov("psi_history_pairs", npairs)

	alpha := []frameCase{
		{Len: 50, Key: true, Pts: 90000, Dts: 90000, Pid: 0x100, Sid: 0xE0},
		{Len: 170, Key: false, Pts: 93600, Dts: 90000, Pid: 0x100, Sid: 0xE0},
		{Len: 1000, Key: true, Pts: 90000, Dts: 90000, Pid: 0x100, Sid: 0xE0},
		{Len: 7, Key: false, Pts: 90000, Dts: 90000, Pid: 0x101, Sid: 0xC0},
		{Len: 184 * 17, Key: false, Pts: 90000, Dts: 90000, Pid: 0x101, Sid: 0xC0},
		{Len: 354, Key: false, Pts: 90000, Dts: 90000, Pid: 0x100, Sid: 0xE0},
	}
	var seqs [][]frameCase
	var gen func(cur []frameCase)
	gen = func(cur []frameCase) {
		if len(cur) == 4 {
			for _, cc := range []uint8{0, 14} {
				s := append([]frameCase{}, cur...)
				s[0].Cc = cc
				seqs = append(seqs, s)
			}
			return
		}
		for _, a := range alpha {
			gen(append(cur, a))
		}
	}
	gen(nil)
	r.Cov("frame_sequences", len(seqs))
	r.Sample(map[string]interface{}{"sequence": seqs[len(seqs)/3]})
	vk.Par(len(seqs), 16, func(i int) { checkSeq(r, seqs[i]) })
	r.Finish()
}
