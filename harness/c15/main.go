// C15 — a stalled consumer cannot delay others or corrupt its own framing.
// Family (S): explicit-state search over publish / join / stall / resume / write-timeout / tick event
// sequences on the real server with its asynchronous write queues ENABLED (size 3, so that queue-full
// instants are reached at small depth). The in-memory connections know how many queued writes are
// outstanding (instrumented copy of naza's connection), so every step settles exactly.
package main

import (
	"fmt"
	"os"
	"sort"
	"strings"
	"time"

	"github.com/q191201771/lal/pkg/base"
	"github.com/q191201771/lal/pkg/hls"
	"github.com/q191201771/lal/pkg/httpflv"
	"github.com/q191201771/lal/pkg/httpts"
	"github.com/q191201771/lal/pkg/rtmp"
	"github.com/q191201771/lal/pkg/rtsp"

	"verif/lib/lalenv"
	"verif/lib/netsim"
	"verif/lib/seqx"
	"verif/lib/sw"
	"verif/lib/vk"
	"verif/lib/world"
)

// large enough for the burst of writes a fresh consumer's first broadcast causes (header, metadata,
// sequence headers, frame), small enough for a stalled consumer to overflow within two P5 events
const queueSize = 6

type cfg struct {
	Name     string   `json:"name"`
	Kinds    []string `json:"kinds"` // consumer kinds that may join
	MaxCons  int      `json:"max_consumers"`
	Video    bool     `json:"video"`
	Alphabet []string `json:"alphabet"`
	// Rtsp: the RTSP server is on and its subscribers do not wait for a key frame (so that a joining
	// player is fed from the first frame and the depth bound reaches its queue-full instants)
	Rtsp bool `json:"rtsp"`
	// Merge: rtmp.merge_write_size (0 = off). With merge-write RTMP delivery trails the publisher by up to
	// that many bytes (C01 bounds the lag), so "delivered within the step" is not demanded of RTMP consumers
	Merge int `json:"merge_write_size"`
}

type replay struct {
	Cfg   cfg      `json:"cfg"`
	Trace []string `json:"trace"`
}

type cstate struct {
	stalled    bool
	stallTicks int
	everStall  bool
	closedOK   bool
	fullAtTick bool // stalled with a full write queue when the previous tick ended
	rtpBefore  int
}

type sys struct {
	c      cfg
	x      *sw.X
	cs     map[int]*cstate
	viols  []seqx.Viol
	infra  error
	lastEv string
	// byte counters of every session when the last liveness check ran: whether a session has moved
	// since then decides what the next check does with it, so it is part of the state
	atTick map[string][2]uint64
}

func (s *sys) add(key, f string, a ...interface{}) {
	s.viols = append(s.viols, seqx.Viol{Key: key, What: fmt.Sprintf(f, a...)})
}

func conn(c *sw.Consumer) *netsim.Conn {
	if c.Rtmp != nil {
		return c.Rtmp.Conn
	}
	if c.Http != nil {
		return c.Http.Conn
	}
	if c.Rtsp != nil {
		return c.Rtsp.Conn
	}
	return nil
}

func newSys(c cfg) *sys {
	conf := world.Conf{}
	if c.Rtsp {
		conf["rtsp.enable"] = true
		conf["rtsp.out_wait_key_frame_flag"] = false
	}
	if c.Merge > 0 {
		conf["rtmp.merge_write_size"] = c.Merge
	}
	s := &sys{c: c, x: sw.New(conf), cs: map[int]*cstate{}}
	s.x.W.Net.QuiesceTimeout = 20 * time.Second
	if ok, err := s.x.PubArrive(); err != nil || !ok {
		s.infra = fmt.Errorf("publisher: %v", err)
		return s
	}
	pre := []string{"ash"}
	if c.Video {
		pre = []string{"vsh", "ash", "key"}
	}
	for _, k := range pre {
		if _, err := s.x.Publish(k); err != nil {
			s.infra = err
		}
	}
	return s
}

func (s *sys) Close() {
	for _, c := range s.x.Consumers {
		if cn := conn(c); cn != nil {
			cn.Stall(false)
		}
	}
	s.x.Close()
}

func (s *sys) live() []*sw.Consumer {
	var l []*sw.Consumer
	for _, c := range s.x.Consumers {
		if !c.Left {
			l = append(l, c)
		}
	}
	return l
}

func (s *sys) Enabled() []string {
	var ev []string
	if s.x.Pub != nil && !s.x.Pub.Conn.Closed() { // (a publisher that sends nothing for two ticks is disconnected by the idle check)
		ev = append(ev, "P:aac", "P5")
		if s.c.Video {
			ev = append(ev, "P:inter", "P:key")
		}
	}
	l := s.live()
	if len(l) < s.c.MaxCons {
		for _, k := range s.c.Kinds {
			ev = append(ev, "J:"+k)
		}
	}
	for i, c := range l {
		st := s.cs[c.ID]
		if !st.stalled {
			ev = append(ev, fmt.Sprintf("S:%d", i))
		} else {
			ev = append(ev, fmt.Sprintf("R:%d", i))
			if conn(c).BlockedWriters() > 0 {
				ev = append(ev, fmt.Sprintf("X:%d", i))
			}
		}
	}
	return append(ev, "T")
}

func (s *sys) Apply(ev string) error {
	if s.infra != nil {
		return s.infra
	}
	s.lastEv = ev
	s.viols = nil
	x := s.x
	var err error
	pubBefore := len(x.Published)
	for _, c := range x.Consumers {
		if st := s.cs[c.ID]; st != nil {
			st.rtpBefore = c.RtpPkts
		}
	}
	fullBefore := map[int]bool{}
	switch {
	case ev == "P5": // five audio frames, one after the other (a macro step: reaches queue-full at small depth)
		for i := 0; i < 5 && err == nil; i++ {
			_, err = x.Publish("aac")
		}
		if err != nil {
			s.add("publisher-delayed", "publishing did not complete: %v", err)
			return nil
		}
	case strings.HasPrefix(ev, "P:"):
		_, err = x.Publish(ev[2:])
		if err != nil {
			// the publisher's own session did not get through the step: it is being delayed
			s.add("publisher-delayed", "publishing %s did not complete: %v", ev[2:], err)
			return nil
		}
	case strings.HasPrefix(ev, "J:"):
		var c *sw.Consumer
		c, err = x.Join(ev[2:])
		if c != nil {
			s.cs[c.ID] = &cstate{}
		}
	case strings.HasPrefix(ev, "S:"), strings.HasPrefix(ev, "R:"), strings.HasPrefix(ev, "X:"):
		var i int
		fmt.Sscanf(ev[2:], "%d", &i)
		l := s.live()
		if i >= len(l) {
			return fmt.Errorf("%s: no such consumer", ev)
		}
		c := l[i]
		st := s.cs[c.ID]
		switch ev[0] {
		case 'S':
			conn(c).Stall(true)
			st.stalled, st.everStall, st.stallTicks = true, true, 0
		case 'R':
			conn(c).Stall(false)
			st.stalled, st.fullAtTick = false, false
		case 'X':
			// the write deadline of the blocked write expires
			conn(c).FailWrites(os.ErrDeadlineExceeded)
			st.closedOK = true
		}
		err = x.W.Settle()
		x.PumpAll()
		if ev[0] == 'X' {
			if !conn(c).Closed() {
				s.add("write-timeout-not-disconnected", "the write to stalled consumer %d (%s) timed out but its connection was not closed", c.ID, c.Kind)
			}
		}
	case ev == "T":
		for _, c := range s.live() {
			fullBefore[c.ID] = s.cs[c.ID].fullAtTick
		}
		err = x.Tick()
		for _, c := range s.live() {
			st := s.cs[c.ID]
			if st.stalled {
				st.stallTicks++
			}
			// the writer goroutine holds at most one message, the channel queueSize more
			st.fullAtTick = st.stalled && conn(c).Pending() >= queueSize+1
		}
		s.atTick = s.counters()
	default:
		return fmt.Errorf("unknown event %s", ev)
	}
	if err != nil {
		return err
	}
	if p := x.W.Net.FirstPanic(); p != "" {
		s.add("panic", "%s", strings.SplitN(p, "\n", 2)[0])
	}
	x.PumpAll()
	P := x.Published
	for _, c := range x.Consumers {
		if c.Left {
			continue
		}
		st := s.cs[c.ID]
		cn := conn(c)
		if cn.Closed() {
			// disconnected by the server: fine for a stalled consumer (timeout / liveness sweep) and for any
			// consumer on a tick (no bytes written to it for a whole check interval)
			if !(st.stalled || st.closedOK || ev == "T") {
				s.add("healthy-consumer-disconnected", "event %s disconnected healthy consumer %d (%s)", ev, c.ID, c.Kind)
			}
			c.Left = true
			cn.Stall(false)
			continue
		}
		// framing of whatever it has received so far
		if c.Err != "" {
			s.add("framing/"+c.Kind, "the byte stream consumer %d (%s, stalled before: %v) received is not well-framed: %s", c.ID, c.Kind, st.everStall, c.Err)
			c.Left = true
			continue
		}
		last := -1
		seen := map[int]bool{}
		for _, r := range c.Recv {
			if !r.Known {
				continue
			}
			if seen[r.Idx] {
				s.add("duplicate/"+c.Kind, "consumer %d (%s) received message #%d twice", c.ID, c.Kind, r.Idx)
			}
			seen[r.Idx] = true
			if r.Idx < last && P[r.Idx].Kind != "ash" && P[r.Idx].Kind != "vsh" {
				s.add("order/"+c.Kind, "consumer %d (%s) received #%d after #%d", c.ID, c.Kind, r.Idx, last)
			}
			if r.Idx > last {
				last = r.Idx
			}
		}
		// a consumer that never stalled gets every message at once (audio is never gated; video only
		// in the video configuration after its key frame, which the prologue already contains)
		gated := false
		if s.c.Video { // a consumer of a stream with video gets nothing before a key frame; the one being published counts
			gated = true
			for _, r := range c.Recv {
				if r.Known && P[r.Idx].Kind == "key" {
					gated = false
				}
			}
		}
		if c.Rtsp != nil {
			if strings.HasPrefix(ev, "P") && !st.everStall && len(P) > pubBefore && c.RtpPkts == st.rtpBefore {
				s.add("healthy-consumer-delayed/"+c.Kind, "no RTP packet reached consumer %d (%s), which has never stalled, while %s was published", c.ID, c.Kind, ev)
			}
		} else if strings.HasPrefix(ev, "P") && !st.everStall && c.Kind != "ts" && len(P) > pubBefore && !gated && !(c.Kind == "rtmp" && s.c.Merge > 0) {
			if !seen[len(P)-1] {
				s.add("healthy-consumer-delayed/"+c.Kind, "message #%d (%s) was not delivered to consumer %d (%s), which has never stalled", len(P)-1, P[len(P)-1].Kind, c.ID, c.Kind)
			}
		}
		// whole units only: a reading consumer with nothing queued has received a byte stream that ends
		// at a unit boundary
		if c.Rtsp != nil && !st.stalled && cn.Pending() == 0 && c.Rtsp.Residue() > 0 {
			s.add("framing/"+c.Kind, "consumer %d (%s, stalled before: %v) is reading and nothing is queued, but the bytes it received end %d bytes into an interleaved frame, message or WebSocket frame", c.ID, c.Kind, st.everStall, c.Rtsp.Residue())
		}
		// a healthy consumer has nothing queued once the step has settled
		if !st.stalled && cn.Pending() > 0 {
			s.add("queue-not-drained/"+c.Kind, "consumer %d (%s) is reading but %d writes are still queued after the step settled", c.ID, c.Kind, cn.Pending())
		}
		// its queue was already full when the previous liveness check ended and it has not read since:
		// nothing can have been written to it (or accepted for it) during this whole interval
		if ev == "T" && st.stalled && fullBefore[c.ID] {
			s.add("stalled-consumer-not-disconnected/"+c.Kind, "consumer %d (%s) has not read and its write queue (%d) has been full for a whole liveness interval, and the check left it attached", c.ID, c.Kind, queueSize)
		}
		// (an RTSP subscriber's liveness is judged by lal from the packets it accepted for it, not from the
		// bytes that reached the socket: while its queue still has room it counts as alive, so only the
		// full-queue rule above applies to it)
		if st.stalled && st.stallTicks >= 4 && c.Rtsp == nil {
			s.add("stalled-consumer-not-disconnected/"+c.Kind, "consumer %d (%s) has not read for %d ticks (liveness check every tick) and is still attached", c.ID, c.Kind, st.stallTicks)
		}
	}
	return nil
}

func (s *sys) counters() map[string][2]uint64 {
	m := map[string][2]uint64{}
	if g := s.x.W.SM.StatGroup(s.x.Stream); g != nil {
		if g.StatPub.SessionId != "" {
			m[g.StatPub.SessionId] = [2]uint64{g.StatPub.ReadBytesSum, g.StatPub.WroteBytesSum}
		}
		for _, u := range g.StatSubs {
			m[u.SessionId] = [2]uint64{u.ReadBytesSum, u.WroteBytesSum}
		}
	}
	return m
}

func (s *sys) Check() []seqx.Viol { v := s.viols; s.viols = nil; return v }

func (s *sys) Fingerprint() string {
	var sb strings.Builder
	sb.WriteString(s.x.W.Dump())
	fmt.Fprintf(&sb, " |pub=%d alive=%v", minI(len(s.x.Published), 6), s.x.Pub != nil && !s.x.Pub.Conn.Closed())
	now := s.counters()
	var mv []string
	for id, v := range now {
		kind := strings.TrimRight(id, "0123456789")
		if o, ok := s.atTick[id]; ok {
			mv = append(mv, fmt.Sprintf("%s:r%v,w%v", kind, v[0] != o[0], v[1] != o[1]))
		} else {
			mv = append(mv, kind+":unchecked")
		}
	}
	sort.Strings(mv)
	fmt.Fprintf(&sb, " since-check=%v", mv)
	for _, c := range s.x.Consumers {
		if c.Left {
			continue
		}
		st := s.cs[c.ID]
		cn := conn(c)
		fmt.Fprintf(&sb, " c[%s stalled=%v ever=%v ticks=%d pend=%d blocked=%d full=%v]", c.Kind, st.stalled, st.everStall, minI(st.stallTicks, 4), minI(cn.Pending(), queueSize+2), cn.BlockedWriters(), st.fullAtTick)
	}
	return sb.String()
}

func minI(a, b int) int {
	if a < b {
		return a
	}
	return b
}

func configs(r *vk.Run) []cfg {
	cs := []cfg{
		{Name: "rtmp+flv", Kinds: []string{"rtmp", "flv"}, MaxCons: 2},
		{Name: "wsflv+ts", Kinds: []string{"wsflv", "ts"}, MaxCons: 2},
		{Name: "rtmp-video", Kinds: []string{"rtmp"}, MaxCons: 2, Video: true},
		{Name: "rtmp+merge", Kinds: []string{"rtmp"}, MaxCons: 2, Merge: 100},
		{Name: "rtsp", Kinds: []string{"rtsp"}, MaxCons: 1, Video: true, Rtsp: true},
		{Name: "wsrtsp", Kinds: []string{"wsrtsp"}, MaxCons: 1, Video: true, Rtsp: true},
	}
	if !r.Quick() {
		cs = append(cs, cfg{Name: "all-kinds", Kinds: []string{"rtmp", "flv", "wsflv", "ts"}, MaxCons: 3},
			cfg{Name: "flv-video", Kinds: []string{"flv", "ts"}, MaxCons: 2, Video: true},
			cfg{Name: "rtsp+rtmp", Kinds: []string{"rtsp", "rtmp"}, MaxCons: 2, Video: true, Rtsp: true})
	}
	return cs
}

func main() {
	r := vk.Start("C15", "model_checking")
	lalenv.Quiet()
	hls.VerifNoSweep = true
	rtmp.VerifSetWChanSize(queueSize)
	httpflv.SubSessionWriteChanSize = queueSize
	httpts.SubSessionWriteChanSize = queueSize
	rtsp.VerifSetWriteChanSize(queueSize)
	base.LogicCheckSessionAliveIntervalSec = 1
	r.Rule("states = distinct canonical fingerprints (server dump, per session whether its byte counters moved since the last liveness check, per consumer: stalled, ever stalled, ticks since the stall, queued writes, blocked writers) reached by event sequences over {P:aac|inter|key, P5, J:rtmp|flv|wsflv|ts|rtsp|wsrtsp, S:i (consumer i stops reading), R:i (resumes), X:i (the blocked write's deadline expires), T}; write queues are enabled with size 6 and P5 publishes five frames in a row so that queue-full instants are reached within the depth bound. distinct_nontrivial = states")
	r.Assume("the asynchronous write queues of naza's connection are instrumented (generated copy, see tools/vgen): the in-memory connection knows how many queued writes are outstanding, so a step is settled exactly when every queue is drained or its writer is blocked on the stalled peer",
		"'never delays by more than a small bound' is decided as: the step in which the publisher's message is processed settles with the message delivered to every consumer that has never stalled and with the publisher's session idle again",
		"write deadlines do not fire by themselves (no real-time timers in an execution): X:i is the event 'the deadline of the blocked write expires'",
		"RTSP subscribers are interleaved (TCP) players of a stream with video, with rtsp.out_wait_key_frame_flag off; their liveness is decided by lal from the packets it accepted for them, so 'must be disconnected' is demanded only after a whole check interval with a full queue; one stream")
	mk := func(c cfg) func() seqx.Sys { return func() seqx.Sys { return newSys(c) } }
	if r.ReplayIn != "" {
		var rp replay
		r.LoadReplay(&rp)
		s, vs, err := seqx.Run(seqx.Config{New: mk(rp.Cfg)}, rp.Trace)
		if err != nil {
			r.Violation("infra/replay", err.Error(), rp)
		}
		for _, v := range vs {
			r.Violation(v.Key, v.What, rp)
		}
		seqx.Close(s)
		r.Finish()
	}
	r.SetBudget(6*time.Minute, 60*time.Minute)
	depth := 7
	if !r.Quick() {
		depth = 10
	}
	var states, trans, execs int64
	per := map[string]interface{}{}
	for _, c := range configs(r) {
		c := c
		st := seqx.Explore(seqx.Config{New: mk(c), MaxDepth: depth, Workers: 16, OutOfTime: r.OutOfTime, Known: r.IsKnown,
			OnViolation: func(tr []string, v seqx.Viol) {
				r.Violation(v.Key, fmt.Sprintf("[%s] after %s: %s", c.Name, strings.Join(tr, " "), v.What), replay{c, tr})
			},
			OnInfra: func(tr []string, err error) {
				r.Violation("infra/hang-or-nondeterminism", fmt.Sprintf("[%s] %v: %v", c.Name, tr, err), replay{c, tr})
			},
			OnState: func(d int, fp string, tr []string) {
				r.Class(c.Name + "|" + fp)
				if d == depth {
					r.Sample(map[string]interface{}{"config": c.Name, "trace": tr})
				}
			}})
		states += st.States
		trans += st.Transitions
		execs += st.Executions
		per[c.Name] = map[string]interface{}{"states": st.States, "transitions": st.Transitions, "depth_completed": st.MaxDepthCompleted, "frontier": st.Frontier, "executions_repeated_after_infra_error": st.Retried}
		if st.Capped {
			r.NotExhaustive("internal time budget hit before the depth bound")
		}
		r.Eval(int(st.Executions))
	}
	r.AddStates(states)
	r.AddTransitions(trans)
	r.AddTraces(execs)
	r.Cov("per_config", per)
	r.Cov("max_depth", depth)
	r.Cov("write_queue_size", queueSize)
	r.Finish()
}
