package main

// The directory cleanup lal schedules when a stream ends (cleanup_mode 1 and 2) is a delayed task of
// the ServerManager: it looks the stream up and removes the directory unless a muxer of that name is
// alive again. Here the real ServerManager runs on the instrumented file system, the delayed tasks are in
// the harness' hands, and every sequence of <= n events over {a publisher of the name arrives and sends
// two fragments, it sends one more fragment, it leaves, the oldest pending cleanup runs} is executed;
// after every event the directory invariant of the live playlist holds: if a live playlist is present
// it is well-formed and every segment it lists exists, and a publisher that has closed a fragment has a
// playlist.

import (
	"fmt"
	"os"
	"path"
	"strings"

	"verif/lib/ref"
	"verif/lib/sw"
	"verif/lib/vk"
	vw "verif/lib/world"
)

type smCase struct {
	Cleanup int      `json:"cleanup_mode"`
	Events  []string `json:"events"` // A (arrive + 2 fragments) | F (one more fragment) | L (leave) | C (run the oldest pending cleanup)
}

func smRun(c smCase) (viol []string, infra error) {
	x := sw.New(vw.Conf{"hls.enable": true, "hls.cleanup_mode": c.Cleanup, "hls.fragment_duration_ms": 1000, "hls.fragment_num": 2, "hls.delete_threshold": 1})
	defer x.Close()
	x.TsStep = 40
	dir := strings.TrimSuffix(x.W.FS.Root, "/") + "/" + x.Stream
	closed := 0 // fragments the live publisher has closed
	// one fragment: a key frame, then, a fragment duration later, an audio frame that is still in the
	// remuxer's audio cache when the next key frame comes 40 ms after it (lal opens a new fragment at a key
	// frame only when audio is pending)
	frag := func() error {
		x.TsStep = 1100
		if _, err := x.Publish("key"); err != nil {
			return err
		}
		x.TsStep = 40
		_, err := x.Publish("aac")
		return err
	}
	for i, ev := range c.Events {
		switch ev {
		case "A":
			if x.PubAlive {
				return nil, nil // not enabled: the sequence is not a case
			}
			if ok, err := x.PubArrive(); err != nil || !ok {
				return nil, fmt.Errorf("publisher: %v", err)
			}
			closed = -1
			for _, k := range []string{"vsh", "ash"} {
				if _, err := x.Publish(k); err != nil {
					return nil, err
				}
			}
			for k := 0; k < 3; k++ {
				if err := frag(); err != nil {
					return nil, err
				}
				closed++
			}
		case "F":
			if !x.PubAlive {
				return nil, nil
			}
			if err := frag(); err != nil {
				return nil, err
			}
			closed++
		case "L":
			if !x.PubAlive {
				return nil, nil
			}
			if err := x.PubLeave(); err != nil {
				return nil, err
			}
		case "C":
			if !x.W.FireDeferred() {
				return nil, nil
			}
			if err := x.W.Settle(); err != nil {
				return nil, err
			}
		}
		files := x.W.FS.Snapshot()
		if os.Getenv("C10_DEBUG") != "" {
			for _, op := range x.W.FS.OpsCopy() {
				fmt.Fprintf(os.Stderr, "C10_DEBUG %s %s\n", op.Kind, op.Path)
			}
			for _, m := range x.Published {
				fmt.Fprintf(os.Stderr, "C10_DEBUG pub %s\n", m)
			}
		}
		who := fmt.Sprintf("cleanup_mode %d, after %v", c.Cleanup, c.Events[:i+1])
		pl, ok := files[dir+"/playlist.m3u8"]
		if !ok {
			if x.PubAlive && closed > 0 {
				viol = append(viol, fmt.Sprintf("sm-cleanup/live-playlist-missing: %s: the live publisher has closed %d fragments but there is no live playlist (files: %v)", who, closed, x.W.FS.List()))
				return
			}
			continue
		}
		p, err := ref.ParseM3u8(pl)
		if err != nil {
			viol = append(viol, fmt.Sprintf("sm-cleanup/playlist-malformed: %s: %v", who, err))
			return
		}
		for _, e := range p.Entries {
			if _, ok := files[dir+"/"+path.Base(e.Uri)]; !ok {
				viol = append(viol, fmt.Sprintf("sm-cleanup/listed-segment-missing: %s: the live playlist lists %s, which does not exist", who, e.Uri))
				return
			}
		}
	}
	return
}

func smCleanupPhase(r *vk.Run) {
	n := 5
	if !r.Quick() {
		n = 7
	}
	var cases []smCase
	var gen func(cur []string)
	gen = func(cur []string) {
		if len(cur) > 0 {
			for _, cm := range []int{1, 2} {
				cases = append(cases, smCase{cm, append([]string{}, cur...)})
			}
		}
		if len(cur) == n {
			return
		}
		for _, e := range []string{"A", "F", "L", "C"} {
			gen(append(cur, e))
		}
	}
	gen(nil)
	type out struct {
		v   []string
		err error
	}
	res := make([]out, len(cases))
	vk.Par(len(cases), 16, func(i int) {
		if r.OutOfTime() {
			return
		}
		v, err := smRun(cases[i])
		res[i] = out{v, err}
	})
	ran := 0
	for i, o := range res {
		rp := replay{Sm: &cases[i]}
		if o.err != nil {
			r.Violation("infra/sm-cleanup", fmt.Sprintf("%+v: %v", cases[i], o.err), rp)
			continue
		}
		ran++
		r.Eval(1)
		for _, v := range o.v {
			r.Violation(v[:strings.IndexByte(v, ':')], v, rp)
		}
	}
	r.Class(fmt.Sprintf("sm-cleanup/cases=%d", ran))
	r.Cov("sm_cleanup_cases", len(cases))
}
