// C10 — HLS playlists and segments are consistent at every instant.
// Family (S)+(F): every frame sequence up to a length over a (kind x timestamp step) alphabet, for
// every ring configuration, drives the real hls.Muxer on an instrumented in-memory file system;
// the directory invariants are evaluated AFTER EVERY SINGLE FILE-SYSTEM OPERATION (every crash
// point / every instant a reader could look) and with the last write torn to half its bytes.
package main

import (
	"bytes"
	"fmt"
	"math"
	"path"
	"strings"
	"sync"
	"sync/atomic"
	"time"

	"github.com/q191201771/lal/pkg/hls"
	"github.com/q191201771/lal/pkg/mpegts"
	"github.com/q191201771/naza/pkg/mock"

	"verif/lib/fsim"
	"verif/lib/lalenv"
	"verif/lib/ref"
	"verif/lib/vk"
)

type cfg struct {
	FragNum   int  `json:"fragment_num"`
	DelThr    int  `json:"delete_threshold"`
	Cleanup   int  `json:"cleanup_mode"`
	AudioOnly bool `json:"audio_only"`
}

type step struct {
	Kind string  `json:"kind"` // vkb (video key boundary) vk (key, not boundary) v  ab (audio boundary) a
	Dt   float64 `json:"dt"`   // timestamp step in units of the fragment duration
}

type replay struct {
	Cfg   cfg    `json:"cfg"`
	Steps []step `json:"steps"`
	Sm    *smCase `json:"sm,omitempty"`
}

const fragMs = 1000

var router = fsim.NewRouter()
var routerOnce sync.Once
var seq int
var seqMu sync.Mutex

type world struct {
	fs       *fsim.FS
	root     string
	dir      string
	m        *hls.Muxer
	c        cfg
	fed      []byte     // every TS packet handed to the muxer while a fragment was open or opening
	versions []ref.M3u8 // successive distinct versions of the live playlist
	lastPl   string
	created  []string          // segment files in creation order
	content  map[string][]byte // last known content of every segment ever created (survives removal)
	viol     []viol
	hasVideo bool
	disposed bool
	ops      int
}

type viol struct{ key, what string }

func (w *world) add(key, f string, a ...interface{}) {
	for _, v := range w.viol {
		if v.key == key {
			return
		}
	}
	w.viol = append(w.viol, viol{key, fmt.Sprintf(f, a...)})
}

// invariants evaluated on the directory state `files` (after op number n).
func (w *world) check(files map[string][]byte, when string) {
	pl, ok := files[w.dir+"/playlist.m3u8"]
	if !ok {
		return
	}
	p, err := ref.ParseM3u8(pl)
	if err != nil {
		w.add("playlist-malformed", "%s: live playlist does not parse: %v\n%s", when, err, pl)
		return
	}
	for _, e := range p.Entries {
		if p.TargetDuration < int(math.Floor(e.Duration+0.5)) {
			w.add("target-duration", "%s: TARGETDURATION %d < round(EXTINF %.3f) for %s\n%s", when, p.TargetDuration, e.Duration, e.Uri, pl)
		}
		seg, ok := files[w.dir+"/"+e.Uri]
		if !ok {
			w.add("listed-segment-missing", "%s: playlist lists %s which does not exist\n%s", when, e.Uri, pl)
			continue
		}
		if len(seg)%188 != 0 {
			w.add("segment-not-whole-packets", "%s: listed segment %s has %d bytes", when, e.Uri, len(seg))
			continue
		}
		pk, err := ref.ParseTs(seg)
		if err != nil {
			w.add("segment-malformed", "%s: listed segment %s: %v", when, e.Uri, err)
			continue
		}
		if len(pk) < 2 || pk[0].PID != 0 || pk[1].PID != 0x1001 {
			w.add("segment-no-patpmt", "%s: listed segment %s does not begin with PAT, PMT", when, e.Uri)
			continue
		}
		if w.hasVideo && !e.Discontinuity {
			for _, q := range pk[2:] {
				if q.PID == 0x100 && q.PUSI {
					if !q.RAI {
						w.add("segment-not-at-keyframe", "%s: listed segment %s (no DISCONTINUITY) starts with a non-key video frame", when, e.Uri)
					}
					break
				}
			}
		}
	}
	// versions: media sequence never decreases; entries of the previous delete_threshold versions still exist
	if string(pl) != w.lastPl {
		w.lastPl = string(pl)
		if n := len(w.versions); n > 0 && p.MediaSequence < w.versions[n-1].MediaSequence {
			w.add("media-sequence-decreased", "%s: MEDIA-SEQUENCE %d after %d", when, p.MediaSequence, w.versions[n-1].MediaSequence)
		}
		w.versions = append(w.versions, p)
	}
	for back := 0; back <= w.c.DelThr && back < len(w.versions); back++ {
		v := w.versions[len(w.versions)-1-back]
		for _, e := range v.Entries {
			if _, ok := files[w.dir+"/"+e.Uri]; !ok {
				w.add("recent-segment-deleted", "%s: %s, listed %d playlist versions ago (delete_threshold %d), no longer exists", when, e.Uri, back, w.c.DelThr)
			}
		}
	}
}

func (w *world) onOp(fs *fsim.FS, op fsim.Op) {
	w.ops++
	files := fs.FilesLocked()
	if op.Kind == "create" && strings.HasSuffix(op.Path, ".ts") {
		w.created = append(w.created, op.Path)
	}
	if (op.Kind == "write") && strings.HasSuffix(op.Path, ".ts") && !op.Err {
		w.content[op.Path] = files[op.Path]
	}
	when := fmt.Sprintf("after fs op %d (%s)", w.ops, op.String())
	w.check(files, when)
	// torn write: the last write landed only half (a crash mid-write)
	if (op.Kind == "write" || op.Kind == "writefile") && !op.Err && op.N > 1 {
		torn := make(map[string][]byte, len(files))
		for k, v := range files {
			torn[k] = v
		}
		full := files[op.Path]
		torn[op.Path] = full[:len(full)-op.N+op.N/2]
		w.check(torn, when+" torn to half")
	}
}

func newWorld(c cfg) *world {
	routerOnce.Do(func() {
		hls.VerifSetFsl(router)
		hls.Clock = mock.NewFakeClock()
	})
	seqMu.Lock()
	seq++
	id := seq
	seqMu.Unlock()
	root := fmt.Sprintf("/vfs/w%d/hls", id)
	w := &world{fs: fsim.New(root), root: root, dir: root + "/s", c: c, content: map[string][]byte{}, hasVideo: !c.AudioOnly}
	w.fs.OnOp = w.onOp
	router.Register(w.fs)
	w.fs.MkdirAll(root, 0o755)
	w.m = hls.NewMuxer("s", &hls.MuxerConfig{OutPath: root + "/", FragmentDurationMs: fragMs, FragmentNum: c.FragNum, DeleteThreshold: c.DelThr, CleanupMode: c.Cleanup}, nil)
	w.m.Start()
	v, a := 7, 10
	if c.AudioOnly {
		v = -1
	}
	w.m.FeedPatPmt(append(mpegts.PackPat(), mpegts.PackPmt(v, a)...))
	return w
}

func (w *world) close() { router.Unregister(w.fs) }

type driver struct {
	w        *world
	ts       uint64 // 90 kHz
	vcc, acc uint8
	n        int
}

func (d *driver) feed(s step) {
	if s.Kind == "R" { // the stream ends and the same name is published again: a new muxer on the same directory
		w := d.w
		w.m.Dispose()
		w.versions = nil // (MEDIA-SEQUENCE monotonicity is per incarnation; the playlist on disk stays the last one seen)
		// segment names carry the wall-clock millisecond of their creation: a re-publish happens later (the
		// fake clock is shared by all executions; it only ever moves forward)
		hls.Clock.Add(7 * time.Millisecond) // (a publisher that comes straight back: the names of the two publishes differ by their millisecond stamp only)
		w.m = hls.NewMuxer("s", &hls.MuxerConfig{OutPath: w.root + "/", FragmentDurationMs: fragMs, FragmentNum: w.c.FragNum, DeleteThreshold: w.c.DelThr, CleanupMode: w.c.Cleanup}, nil)
		w.m.Start()
		v, a := 7, 10
		if w.c.AudioOnly {
			v = -1
		}
		w.m.FeedPatPmt(append(mpegts.PackPat(), mpegts.PackPmt(v, a)...))
		d.ts += 90 * 1000 // the new publisher's clock is unrelated; here one second later
		return
	}
	dt := int64(s.Dt * fragMs * 90)
	if dt < 0 && uint64(-dt) > d.ts {
		d.ts = 0
	} else {
		d.ts = uint64(int64(d.ts) + dt)
	}
	d.n++
	video := strings.HasPrefix(s.Kind, "v")
	f := mpegts.Frame{Pts: d.ts, Dts: d.ts, Key: strings.HasPrefix(s.Kind, "vk"), Raw: bytes.Repeat([]byte{byte(d.n)}, 200+d.n)}
	if video {
		f.Pid, f.Sid, f.Cc = mpegts.PidVideo, mpegts.StreamIdVideo, d.vcc
	} else {
		f.Pid, f.Sid, f.Cc = mpegts.PidAudio, mpegts.StreamIdAudio, d.acc
	}
	pk := f.Pack()
	if video {
		d.vcc = f.Cc
	} else {
		d.acc = f.Cc
	}
	boundary := strings.HasSuffix(s.Kind, "b")
	before := len(d.w.fs.OpsCopy())
	d.w.m.FeedMpegts(pk, &f, boundary)
	// was it written? (the muxer drops packets while no fragment is open)
	for _, op := range d.w.fs.OpsCopy()[before:] {
		if op.Kind == "write" && bytes.Equal(op.Data, pk) {
			d.w.fed = append(d.w.fed, pk...)
		}
	}
}

func runSeq(r *vk.Run, c cfg, steps []step) {
	r.Eval(1)
	w := newWorld(c)
	defer w.close()
	d := &driver{w: w, ts: 90000}
	for _, s := range steps {
		d.feed(s)
	}
	w.m.Dispose()
	w.disposed = true
	files := w.fs.Snapshot()
	// end state
	if len(w.created) > 0 {
		pl, ok := files[w.dir+"/playlist.m3u8"]
		if !ok {
			w.add("final-playlist-missing", "segments were produced but no live playlist exists after Dispose")
		} else if p, err := ref.ParseM3u8(pl); err == nil {
			if !p.EndList {
				w.add("final-no-endlist", "live playlist lacks #EXT-X-ENDLIST after Dispose\n%s", pl)
			}
			last := path.Base(w.created[len(w.created)-1])
			if len(p.Entries) == 0 || p.Entries[len(p.Entries)-1].Uri != last {
				w.add("final-last-segment-unlisted", "the last segment %s is not the last entry of the final playlist\n%s", last, pl)
			}
		}
		if c.Cleanup != hls.CleanupModeAsap {
			rp, ok := files[w.dir+"/record.m3u8"]
			if !ok {
				w.add("record-playlist-missing", "cleanup mode %d: no record playlist after Dispose", c.Cleanup)
			} else if p, err := ref.ParseM3u8(rp); err != nil {
				w.add("record-playlist-malformed", "%v\n%s", err, rp)
			} else {
				var got []string
				for _, e := range p.Entries {
					got = append(got, e.Uri)
				}
				var want []string
				for _, f := range w.created {
					want = append(want, path.Base(f))
				}
				if fmt.Sprint(got) != fmt.Sprint(want) {
					w.add("record-playlist-incomplete", "record playlist lists %v, segments produced: %v", got, want)
				}
				for _, e := range p.Entries {
					if p.TargetDuration < int(math.Floor(e.Duration+0.5)) {
						w.add("record-target-duration", "record playlist TARGETDURATION %d < round(%.3f)", p.TargetDuration, e.Duration)
					}
				}
			}
		}
	}
	// every TS packet handed to the muxer since the first open: exactly once, in order, across segments
	var cat []byte
	for _, f := range w.created {
		b := w.content[f]
		if len(b) >= 376 {
			b = b[376:] // the PAT/PMT pair each segment starts with
		} else {
			b = nil
		}
		cat = append(cat, b...)
	}
	if !bytes.Equal(cat, w.fed) {
		w.add("packets-lost-or-duplicated", "concatenated segments hold %d bytes of media packets, the muxer was handed %d bytes while a fragment was open", len(cat), len(w.fed))
	}
	shape := ""
	for _, s := range steps {
		shape += fmt.Sprintf("%s%.1f,", s.Kind, s.Dt)
	}
	r.Class(fmt.Sprintf("cfg=%d/%d/%d/ao=%v segs=%d versions=%d", c.FragNum, c.DelThr, c.Cleanup, c.AudioOnly, len(w.created), len(w.versions)))
	r.CovAdd("fs_operations_checked", int64(w.ops))
	for _, v := range w.viol {
		r.Violation(v.key, fmt.Sprintf("fragment_num=%d delete_threshold=%d cleanup_mode=%d audio_only=%v frames=[%s]: %s", c.FragNum, c.DelThr, c.Cleanup, c.AudioOnly, shape, v.what), replay{Cfg: c, Steps: steps})
	}
}

func main() {
	r := vk.Start("C10", "fault_enumeration")
	lalenv.Quiet()
	r.Rule("one case = (ring configuration) x (frame sequence over {video key+boundary, video key, video, audio boundary, audio} x timestamp steps {0.4, 1.0, 1.3, 1.6, 9.7, 11, -2} fragment durations) driving the real hls.Muxer; the invariants are evaluated after every file-system operation and with the last write torn to half. distinct_nontrivial = distinct (configuration, number of segments, number of playlist versions)")
	r.Assume("instrumented in-memory IFileSystemLayer (lib/fsim) installed through a verif-tagged setter; each operation is atomic, so 'after every operation' is every instant a reader or a crash can observe",
		"the muxer is driven directly (frames from mpegts.Frame.Pack); the group/remuxer path on top of it is covered by C16/C06",
		"MEDIA-SEQUENCE monotonicity is per muxer incarnation")
	if r.ReplayIn != "" {
		var rp replay
		r.LoadReplay(&rp)
		if rp.Sm != nil {
			vs, err := smRun(*rp.Sm)
			if err != nil {
				r.Violation("infra/sm-cleanup", err.Error(), rp)
			}
			for _, v := range vs {
				r.Violation(v[:strings.IndexByte(v, ':')], v, rp)
			}
			r.Finish()
		}
		runSeq(r, rp.Cfg, rp.Steps)
		r.Finish()
	}
	r.SetBudget(5*time.Minute, 60*time.Minute)
	var cfgs []cfg
	for _, fn := range []int{1, 2, 3} {
		for _, dt := range []int{0, 1, 2} {
			for _, cm := range []int{0, 1, 2} {
				cfgs = append(cfgs, cfg{fn, dt, cm, false})
			}
		}
	}
	cfgs = append(cfgs, cfg{2, 1, 2, true}, cfg{3, 0, 1, true})
	kindsAV := []string{"vkb", "v", "a", "vk"}
	kindsA := []string{"ab", "a"}
	dts := []float64{0.4, 1.0, 1.3, 1.6, 9.7, 11, -2}
	maxLen := 4
	if !r.Quick() {
		maxLen = 5
	}
	type job struct {
		c cfg
		s []step
	}
	// Sequences are enumerated lazily: the prefixes of length <= 3 are the parallel jobs, each worker
	// walks all extensions of its prefix depth-first (the full product does not fit in memory).
	const prefixLen = 3
	kindsOf := func(c cfg) []string {
		if c.AudioOnly {
			return kindsA
		}
		if r.Quick() {
			return kindsAV[:3]
		}
		return kindsAV
	}
	extend := func(c cfg, cur []step, f func(next []step)) {
		for _, k := range kindsOf(c) {
			for _, d := range dts {
				if len(cur) == 0 && d != 1.0 {
					continue // the first frame's absolute time is irrelevant
				}
				if len(cur) >= 4 && (d == 0.4 || d == 11 || d == 9.7) && k != "vkb" && k != "ab" {
					continue // thin out beyond four frames: keep the full product for the first four
				}
				f(append(append([]step{}, cur...), step{k, d}))
			}
		}
	}
	var jobs []job
	for _, c := range cfgs {
		var gen func(cur []step)
		gen = func(cur []step) {
			if len(cur) == prefixLen || len(cur) == maxLen {
				jobs = append(jobs, job{c, cur})
				return
			}
			extend(c, cur, gen)
		}
		gen(nil)
	}
	// re-publishing: every sequence of <= 2 frames, the stream ends, the same name is published again,
	// <= 2 frames (timestamp steps 1.0 and 1.6 only)
	nrep := 0
	for _, c := range cfgs {
		var parts [][]step
		parts = append(parts, nil)
		for _, k1 := range kindsOf(c) {
			parts = append(parts, []step{{k1, 1.0}})
			for _, k2 := range kindsOf(c) {
				for _, d2 := range []float64{1.0, 1.6} {
					parts = append(parts, []step{{k1, 1.0}, {k2, d2}})
				}
			}
		}
		for _, a := range parts {
			for _, b := range parts {
				if len(a) == 0 && len(b) == 0 {
					continue
				}
				seq := append(append(append([]step{}, a...), step{"R", 0}), b...)
				runSeq(r, c, seq)
				nrep++
			}
		}
	}
	r.Cov("republish_sequences", nrep)
	var nseq int64
	var capped int32
	r.Cov("max_sequence_length", maxLen)
	r.Sample(replay{Cfg: jobs[len(jobs)/2].c, Steps: jobs[len(jobs)/2].s})
	vk.Par(len(jobs), 16, func(i int) {
		c := jobs[i].c
		// the prefixes themselves (every shorter sequence is a case too): each is run by the job
		// that is its first extension in enumeration order, i.e. here when the job's tail is all-first
		var walk func(cur []step)
		walk = func(cur []step) {
			if r.OutOfTime() {
				atomic.StoreInt32(&capped, 1)
				return
			}
			runSeq(r, c, cur)
			atomic.AddInt64(&nseq, 1)
			if len(cur) == maxLen {
				return
			}
			extend(c, cur, walk)
		}
		walk(jobs[i].s)
	})
	// sequences shorter than the prefix length
	for _, c := range cfgs {
		var short func(cur []step)
		short = func(cur []step) {
			if len(cur) > 0 && len(cur) < prefixLen && len(cur) < maxLen {
				runSeq(r, c, cur)
				atomic.AddInt64(&nseq, 1)
			}
			if len(cur)+1 < prefixLen && len(cur)+1 < maxLen {
				extend(c, cur, short)
			}
		}
		short(nil)
	}
	r.Cov("sequences", nseq)
	if capped != 0 {
		r.NotExhaustive("internal time budget hit before every sequence of the bound was run")
	}
	// (the worlds of this phase install their own file-system router: it comes after the muxer phase)
	smCleanupPhase(r)
	r.Finish()
}
