package main

// HLS sub-sessions are sessions of a stream too, and they end in one way only: nobody asks for the
// playlist for sub_session_timeout_ms. With the sub-sessions on the world's clock, every sequence of
// <= n events over {the viewer polls the playlist (the first time it follows the redirect that hands it
// its session id), one second passes, the publisher leaves, a publisher arrives} is run and compared
// with a reference model (a session lives at least until its last request is the timeout ago and at most two
// ticks longer): start and stop notifications exactly once per session, the stat API lists exactly
// the live sessions, and a stream with no publisher and no live session is gone two ticks later.

import (
	"fmt"
	"net/url"
	"strings"

	"verif/lib/sw"
	"verif/lib/vk"
	"verif/lib/world"
)

type hlsSubCase struct {
	Events []string `json:"events"` // V (viewer polls) | T (tick) | L (publisher leaves) | A (publisher arrives, one fragment)
}

const hlsSubTimeoutMs = 2000

func hlsSubRun(c hlsSubCase) (viol []string, infra error) {
	x := sw.New(world.Conf{"hls.enable": true, "hls.cleanup_mode": 0, "hls.sub_session_hash_key": "k1", "hls.sub_session_timeout_ms": hlsSubTimeoutMs})
	defer x.Close()
	w := x.W
	w.HlsClock = true
	add := func(key, f string, a ...interface{}) {
		viol = append(viol, fmt.Sprintf("hlssub/%s: after %v: %s", key, c.Events, fmt.Sprintf(f, a...)))
	}
	arrive := func() error {
		if ok, err := x.PubArrive(); err != nil || !ok {
			return fmt.Errorf("publisher: %v", err)
		}
		x.TsStep = 40
		for _, k := range []string{"vsh", "ash", "key", "aac"} {
			if _, err := x.Publish(k); err != nil {
				return err
			}
		}
		return nil
	}
	if err := arrive(); err != nil {
		return nil, err
	}
	sessionURI := ""         // the viewer's playlist URL with its session id, once it has one
	var lastReq int64 = -1   // model: time of the live session's last request (-1: no live session)
	started, stopped := 0, 0 // model: sessions created / expired so far
	idleTicks := 0           // ticks since the stream had neither a publisher nor a live session
	now := func() int64 { return w.Now().UnixMilli() }
	for i, ev := range c.Events {
		switch ev {
		case "V":
			uri := "/hls/" + x.Stream + ".m3u8"
			if sessionURI != "" && lastReq >= 0 {
				uri = sessionURI
			}
			rec := w.HlsGet(uri, "10.2.2.2:9")
			if rec == nil {
				return nil, fmt.Errorf("no response")
			}
			if loc := rec.Header().Get("Location"); loc != "" {
				u, err := url.Parse(loc)
				if err != nil {
					add("redirect", "unparsable redirect %q", loc)
					return
				}
				sessionURI = u.RequestURI()
				if rec2 := w.HlsGet(sessionURI, "10.2.2.2:9"); rec2 == nil || rec2.Header().Get("Location") != "" {
					add("redirect", "the redirect target %s redirects again", sessionURI)
					return
				}
				started++
			} else if lastReq < 0 {
				// asked with a session id the server has forgotten (or none): a new session must have been offered
				add("stale-session-served", "a request without a live session (uri %s) was answered with code %d and no redirect", uri, rec.Code)
				return
			}
			lastReq = now()
		case "T":
			if x.PubAlive { // a live publisher keeps sending (one that is silent is disconnected by the idle check)
				if _, err := x.Publish("aac"); err != nil {
					return nil, err
				}
			}
			if err := w.Tick(); err != nil {
				return nil, err
			}
		case "L":
			if !x.PubAlive {
				return nil, nil
			}
			if err := x.PubLeave(); err != nil {
				return nil, err
			}
		case "A":
			if x.PubAlive {
				return nil, nil
			}
			if err := arrive(); err != nil {
				return nil, err
			}
		}
		if err := w.Settle(); err != nil {
			return nil, err
		}
		// the stat API first: it tells whether the server still has the session. It must have it while the last
		// request is less than the timeout ago, and must have dropped it two ticks after the timeout at the
		// latest (in between the server's own rounding decides)
		g := w.SM.StatGroup(x.Stream)
		live := 0
		if g != nil {
			for _, s := range g.StatSubs {
				if s.Protocol == "HLS" {
					live++
				}
			}
		}
		if lastReq >= 0 {
			age := now() - lastReq
			switch {
			case live > 1:
				add("stat", "event %d (%s): the stat API lists %d HLS sessions of one viewer", i, ev, live)
				return
			case live == 0 && age < hlsSubTimeoutMs:
				add("session-ended-early", "event %d (%s): the session is gone %d ms after its last request (timeout %d ms)", i, ev, age, hlsSubTimeoutMs)
				return
			case live == 1 && age >= hlsSubTimeoutMs+2000:
				add("session-never-expires", "event %d (%s): the session is still listed %d ms after its last request (timeout %d ms)", i, ev, age, hlsSubTimeoutMs)
				return
			case live == 0:
				lastReq = -1
				stopped++
			}
		} else if live != 0 {
			add("stat", "event %d (%s): the stat API lists %d HLS sessions, the viewer has none", i, ev, live)
			return
		}
		// notifications
		ns, np := 0, 0
		for _, e := range w.Notify.Snapshot() {
			if strings.HasPrefix(e, "sub_start HLSSUB") {
				ns++
			}
			if strings.HasPrefix(e, "sub_stop HLSSUB") {
				np++
			}
		}
		if ns != started || np != stopped {
			add("notifications", "event %d (%s): %d start / %d stop notifications for HLS sessions, the model has %d started / %d expired", i, ev, ns, np, started, stopped)
			return
		}
		// removal of the idle stream
		if !x.PubAlive && lastReq < 0 {
			if ev == "T" {
				idleTicks++
			}
			if idleTicks >= 2 && g != nil {
				add("idle-stream-not-removed", "event %d (%s): no publisher and no live session for %d ticks, the stream is still there", i, ev, idleTicks)
				return
			}
		} else {
			idleTicks = 0
			if g == nil {
				add("stream-removed-early", "event %d (%s): the stream has a publisher or a live HLS session but the stat API does not know it", i, ev)
				return
			}
		}
	}
	return
}

func hlsSubPhase(r *vk.Run) {
	n := 6
	if !r.Quick() {
		n = 8
	}
	var cases []hlsSubCase
	var gen func(cur []string)
	gen = func(cur []string) {
		if len(cur) > 0 {
			cases = append(cases, hlsSubCase{append([]string{}, cur...)})
		}
		if len(cur) == n {
			return
		}
		for _, e := range []string{"V", "T", "L", "A"} {
			gen(append(cur, e))
		}
	}
	gen(nil)
	type out struct {
		v   []string
		err error
	}
	res := make([]out, len(cases))
	vk.Par(len(cases), 16, func(i int) {
		if r.OutOfTime() {
			return
		}
		v, err := hlsSubRun(cases[i])
		res[i] = out{v, err}
	})
	for i, o := range res {
		rp := replay{HlsSub: &cases[i]}
		if o.err != nil {
			r.Violation("infra/hlssub", fmt.Sprintf("%+v: %v", cases[i], o.err), rp)
			continue
		}
		r.Eval(1)
		for _, v := range o.v {
			r.Violation(v[:strings.IndexByte(v, ':')], v, rp)
		}
	}
	r.Class(fmt.Sprintf("hlssub/cases=%d", len(cases)))
	r.Cov("hlssub_cases", len(cases))
}
