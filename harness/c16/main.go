// C16 — when an input ends every output is finalised once and the name starts clean.
// Family (S): explicit-state search over publish / end-of-input (peer close, kick, idle timeout,
// server shutdown) / re-publish / subscriber / tick sequences on the real server for combinations
// of enabled outputs (HLS on an instrumented file system, FLV and TS recording, HTTP-TS, stream
// hook); monitors: finalise-once, completeness of the flushed outputs, clean start, liveness in
// ticks, goroutine baseline.
package main

import (
	"bytes"
	"fmt"
	"os"
	"path"
	"runtime"
	"strings"
	"time"

	"github.com/q191201771/lal/pkg/base"
	"github.com/q191201771/lal/pkg/logic"

	"verif/lib/lalenv"
	"verif/lib/netsim"
	"verif/lib/ref"
	"verif/lib/seqx"
	"verif/lib/sw"
	"verif/lib/vk"
	"verif/lib/world"
)

type replay struct {
	Cfg    sw.SysOpts  `json:"cfg"`
	Trace  []string    `json:"trace"`
	Xproto *xpCase     `json:"xproto,omitempty"`
	Xpull  *xpullCase  `json:"xpull,omitempty"`
	HlsSub *hlsSubCase `json:"hlssub,omitempty"`
}

type sys struct {
	*sw.Sys
	ended      []endSnap // one per input end observed
	disposed   bool
	idleTicks  int // ticks since the publisher last sent a byte
	lastEvent  string
	emptyTicks int
	pushOrphan int
	cw         map[int]int // consumer id -> writes seen on its connection
	cage       map[int]int // consumer id -> ticks since the server last wrote to it
}

type endSnap struct {
	inc     int
	flvLen  int
	tsLen   int
	hookMsg int
	hookStp int
	hlsOps  int
}

func newSys(o sw.SysOpts) *sys {
	if on, _ := o.Conf["relay_push.enable"].(bool); on {
		o.Init = func(x *sw.X) { x.W.EnableRelay(nil) } // gated: connection attempts stay pending until D:accept
	}
	return &sys{Sys: sw.NewSys(o, nil), cw: map[int]int{}, cage: map[int]int{}}
}

func (s *sys) Enabled() []string {
	if s.disposed {
		return nil
	}
	ev := s.Sys.Enabled()
	if s.X.PubAlive {
		for _, k := range s.O.Alphabet {
			if k == "Kick" {
				ev = append(ev, k)
			}
		}
	}
	for _, k := range s.O.Alphabet {
		if k == "Dispose" {
			ev = append(ev, k)
		}
	}
	if len(s.X.W.PendingDials()) > 0 {
		ev = append(ev, "D:accept")
	}
	return ev
}

func (s *sys) Apply(ev string) error {
	s.lastEvent = ev
	wasAlive := s.X.PubAlive
	var err error
	switch ev {
	case "Kick":
		g := s.X.W.SM.StatGroup(s.X.Stream)
		if g == nil || g.StatPub.SessionId == "" {
			return fmt.Errorf("kick: no publisher in the stat API although one is attached")
		}
		s.X.W.SM.CtrlKickSession(base.ApiCtrlKickSessionReq{StreamName: s.X.Stream, SessionId: g.StatPub.SessionId})
		err = s.X.W.Settle()
		if s.X.Pub != nil && s.X.Pub.Conn.Closed() {
			s.X.PubAlive = false
			s.X.Pub = nil
		}
		s.X.PumpAll()
	case "D:accept":
		s.X.W.PendingDials()[0].Accept()
		err = s.X.W.Settle()
		s.X.PumpAll()
	case "Dispose":
		s.disposed = true
		s.X.W.Net.Async(func() { s.X.W.SM.Dispose() })
		err = s.X.W.Settle()
		s.X.PubAlive = false
		s.X.PumpAll()
	case "PubArrive":
		s.X.W.Advance(time.Second) // record file names carry the second of the arrival
		err = s.Sys.Apply(ev)
	case "T":
		err = s.Sys.Apply(ev)
		if s.X.Pub != nil && s.X.Pub.Conn.Closed() {
			// disconnected by the idle check
			s.X.PubAlive = false
			s.X.Pub = nil
		}
	default:
		err = s.Sys.Apply(ev)
	}
	// a subscriber that is written nothing is disconnected by the same idle check; keep its age in the state
	for _, c := range s.Live() {
		cn := consConn(c)
		if cn == nil {
			continue
		}
		if w := cn.Writes(); w != s.cw[c.ID] {
			s.cw[c.ID], s.cage[c.ID] = w, 0
		} else if ev == "T" {
			s.cage[c.ID]++
		}
		if cn.Closed() {
			c.Left = true
		}
	}
	if strings.HasPrefix(ev, "P:") || ev == "PubArrive" {
		s.idleTicks = 0
	} else if ev == "T" && wasAlive {
		s.idleTicks++
	}
	// (a push connection attempt still in flight keeps the group until it ends - by its connect timeout
	// in production, by D:accept here - so "eventually removed" is counted from then on)
	if ev == "T" && !s.X.PubAlive && len(s.Live()) == 0 && len(s.X.W.PendingDials())+len(s.X.W.LiveDials()) == 0 {
		s.emptyTicks++
	} else if ev != "T" {
		s.emptyTicks = 0
	}
	if wasAlive && !s.X.PubAlive {
		s.ended = append(s.ended, s.snap())
	}
	return err
}

func (s *sys) snap() endSnap {
	e := endSnap{inc: s.X.Inc}
	_, recs, _ := s.X.RecordFlv()
	for _, r := range recs {
		e.flvLen += len(r)
	}
	_, ts := s.X.RecordTs()
	for _, b := range ts {
		e.tsLen += len(b)
	}
	for _, h := range s.X.W.Hooks {
		m, st := h.Counts()
		e.hookMsg += m
		e.hookStp += st
	}
	if s.X.W.FS != nil {
		for _, op := range s.X.W.FS.OpsCopy() {
			if op.Kind != "readfile" {
				e.hlsOps++
			}
		}
	}
	return e
}

func consConn(c *sw.Consumer) *netsim.Conn {
	if c.Rtmp != nil {
		return c.Rtmp.Conn
	}
	if c.Http != nil {
		return c.Http.Conn
	}
	return nil
}

func confOn(s *sys, k string) bool { v, _ := s.O.Conf[k].(bool); return v }

func (s *sys) Check() []seqx.Viol {
	var vs []seqx.Viol
	add := func(key, f string, a ...interface{}) {
		vs = append(vs, seqx.Viol{Key: key, What: fmt.Sprintf(f, a...)})
	}
	P := s.X.Published
	incEnded := func(inc int) bool { return inc < s.X.Inc || !s.X.PubAlive }
	lastEnd := len(s.ended) > 0 && !s.X.PubAlive
	// ---- hook: one context per incarnation, stopped exactly once when its input ended
	if confOn(s, "_hook") || len(s.X.W.Hooks) > 0 {
		if len(s.X.W.Hooks) != s.X.Inc {
			add("hook/contexts", "%d hook contexts for %d accepted publishers", len(s.X.W.Hooks), s.X.Inc)
		}
		for i, h := range s.X.W.Hooks {
			inc := i + 1
			msgs, stops := h.Counts()
			want := 0
			for _, m := range P {
				if m.Inc == inc && sw.Forwardable(m) {
					want++
				}
			}
			if msgs != want {
				add("hook/messages", "hook of publisher %d saw %d messages, the publisher sent %d", inc, msgs, want)
			}
			wantStop := 0
			if incEnded(inc) {
				wantStop = 1
			}
			if stops != wantStop {
				add("hook/onstop", "hook of publisher %d: OnStop called %d times, want %d (input ended=%v, last event %s)", inc, stops, wantStop, incEnded(inc), s.lastEvent)
			}
		}
	}
	// ---- FLV record: every file parses to the end; one file per incarnation holding all its messages
	if confOn(s, "record.enable_flv") {
		files, recs, errs := s.X.RecordFlv()
		for _, e := range errs {
			add("record-flv/parse", "FLV record does not parse completely: %s", e)
		}
		if len(files) != s.X.Inc {
			add("record-flv/files", "%d FLV record files for %d publishers: %v", len(files), s.X.Inc, files)
		} else {
			for i, rs := range recs {
				var got, want []int
				for _, r := range rs {
					got = append(got, r.Idx)
				}
				for _, m := range P {
					if m.Inc == i+1 && sw.Forwardable(m) {
						want = append(want, m.Idx)
					}
				}
				if fmt.Sprint(got) != fmt.Sprint(want) {
					add("record-flv/content", "FLV record %s of publisher %d holds %v, the publisher sent %v", files[i], i+1, got, want)
				}
			}
		}
	}
	// ---- TS record: whole packets; once an input has ended every AAC frame it sent is there (pending audio flushed)
	if confOn(s, "record.enable_mpegts") {
		files, data := s.X.RecordTs()
		if len(files) != s.X.Inc {
			add("record-ts/files", "%d TS record files for %d publishers: %v", len(files), s.X.Inc, files)
		}
		for i, b := range data {
			vs = append(vs, checkTsAudio(s, "record-ts", files[i], b, i+1, incEnded(i+1))...)
		}
	}
	// ---- HLS: after the input ended the playlist is final, the last segment listed, everything listed exists
	if s.X.W.FS != nil && lastEnd {
		files := s.X.W.FS.Snapshot()
		dir := strings.TrimSuffix(s.X.W.FS.Root, "/") + "/" + s.X.Stream
		var segs []string
		for _, op := range s.X.W.FS.OpsCopy() {
			if op.Kind == "create" && strings.HasSuffix(op.Path, ".ts") {
				segs = append(segs, op.Path)
			}
		}
		if pl, ok := files[dir+"/playlist.m3u8"]; ok {
			p, err := ref.ParseM3u8(pl)
			if err != nil {
				add("hls/playlist", "final live playlist does not parse: %v", err)
			} else {
				if !p.EndList {
					add("hls/no-endlist", "input ended (%s) but the live playlist has no #EXT-X-ENDLIST", s.lastEvent)
				}
				if len(segs) > 0 && (len(p.Entries) == 0 || p.Entries[len(p.Entries)-1].Uri != path.Base(segs[len(segs)-1])) {
					add("hls/last-segment-unlisted", "the last segment %s is not the last playlist entry", path.Base(segs[len(segs)-1]))
				}
				for _, e := range p.Entries {
					if b, ok := files[dir+"/"+e.Uri]; !ok || len(b)%188 != 0 {
						add("hls/listed-segment", "listed segment %s missing or not whole packets", e.Uri)
					}
				}
			}
		} else if len(segs) > 0 {
			add("hls/playlist-missing", "segments were produced but no playlist exists after the input ended")
		}
	}
	// ---- finalise once: nothing of an ended incarnation changes on later, unrelated events
	if n := len(s.ended); n > 0 && !s.X.PubAlive && s.lastEvent != "PubLeave" && s.lastEvent != "Kick" && s.lastEvent != "Dispose" && !(s.lastEvent == "T" && s.ended[n-1].inc == s.X.Inc && s.idleTicks > 0 && false) {
		now := s.snap()
		was := s.ended[n-1]
		if was.inc == s.X.Inc && (now.flvLen != was.flvLen || now.tsLen != was.tsLen || now.hookMsg != was.hookMsg || now.hookStp != was.hookStp || now.hlsOps != was.hlsOps) {
			// the idle-timeout end is observed on the T event itself; compare only from the next event on
			add("finalised-twice", "after the input had ended, event %s changed its outputs again: flv %d->%d ts %d->%d hook msgs %d->%d stops %d->%d hls ops %d->%d", s.lastEvent, was.flvLen, now.flvLen, was.tsLen, now.tsLen, was.hookMsg, now.hookMsg, was.hookStp, now.hookStp, was.hlsOps, now.hlsOps)
		}
	}
	// ---- clean start: the stat API shows no codec info of a predecessor
	if g := s.X.W.SM.StatGroup(s.X.Stream); g != nil {
		hasV, hasA := false, false
		for _, m := range P {
			if m.Inc == s.X.Inc && s.X.PubAlive {
				if m.Kind == "vsh" || m.Kind == "vsh2" {
					hasV = true
				}
				if m.Kind == "ash" {
					hasA = true
				}
			}
		}
		if (g.VideoCodec != "") != hasV || (g.AudioCodec != "") != hasA {
			add("stat/stale-codec", "stat API shows video=%q audio=%q; the current publisher (alive=%v) has sent video header=%v audio header=%v", g.VideoCodec, g.AudioCodec, s.X.PubAlive, hasV, hasA)
		}
		if !s.X.PubAlive && g.StatPub.SessionId != "" {
			add("stat/ghost-publisher", "stat API lists publisher %s after the input ended", g.StatPub.SessionId)
		}
	}
	// ---- relay push (an output too): ends with the publisher, never two connections per target
	if confOn(s, "relay_push.enable") {
		live := s.X.W.LiveDials()
		if n := len(live) + len(s.X.W.PendingDials()); n > 1 {
			add("push/two-connections", "%d relay push connections or attempts to the one target are open", n)
		}
		if !s.X.PubAlive && len(live) > 0 && s.lastEvent != "PubLeave" && s.lastEvent != "Kick" && s.lastEvent != "Dispose" {
			s.pushOrphan++
			if s.pushOrphan >= 2 {
				add("push/not-finalised", "a relay push connection is still open %d events after its publisher has gone", s.pushOrphan)
			}
		} else if s.X.PubAlive || len(live) == 0 {
			s.pushOrphan = 0
		}
	}
	// ---- liveness in ticks
	if s.idleTicks > 3 && s.X.PubAlive {
		add("idle-input-not-disconnected", "the publisher has sent nothing for %d ticks (check interval 1) and is still attached", s.idleTicks)
	}
	if s.emptyTicks >= 2 && !s.disposed {
		if names := logic.VerifGroupNames(s.X.W.SM); len(names) > 0 {
			add("empty-group-not-removed", "no session and no pull for %d ticks but groups %v still exist", s.emptyTicks, names)
		}
	}
	if p := s.X.W.Net.FirstPanic(); p != "" {
		add("panic", "%s", strings.SplitN(p, "\n", 2)[0])
	}
	return vs
}

func checkTsAudio(s *sys, key, name string, b []byte, inc int, ended bool) []seqx.Viol {
	var vs []seqx.Viol
	if len(b)%188 != 0 {
		return []seqx.Viol{{Key: key + "/not-whole-packets", What: fmt.Sprintf("%s has %d bytes", name, len(b))}}
	}
	pk, err := ref.ParseTs(b)
	if err != nil {
		return []seqx.Viol{{Key: key + "/malformed", What: fmt.Sprintf("%s: %v", name, err)}}
	}
	if !ended {
		return nil
	}
	pes, err := ref.DemuxPes(pk, 0x101, -1)
	if err != nil {
		return []seqx.Viol{{Key: key + "/audio-pes", What: fmt.Sprintf("%s: %v", name, err)}}
	}
	got := map[int]int{}
	for _, p := range pes {
		frames, _, err := ref.SplitAdts(p.Payload)
		if err != nil {
			vs = append(vs, seqx.Viol{Key: key + "/adts", What: fmt.Sprintf("%s: %v", name, err)})
			continue
		}
		for _, f := range frames {
			if len(f) >= 2 {
				got[int(f[0])<<8|int(f[1])]++
			}
		}
	}
	// an AAC frame can only be muxed once the TS remuxer knows the stream (it buffers while probing);
	// frames sent after both the audio header and either a video header+frame or enough audio
	sawAsh := false
	for _, m := range s.X.Published {
		if m.Inc != inc {
			continue
		}
		if m.Kind == "ash" {
			sawAsh = true
		}
		if m.Kind == "aac" && sawAsh {
			if got[m.Idx] == 0 {
				vs = append(vs, seqx.Viol{Key: key + "/audio-lost", What: fmt.Sprintf("%s: AAC frame %s of publisher %d is not in the TS output after the input ended (pending audio not flushed)", name, m, inc)})
			} else if got[m.Idx] > 1 {
				vs = append(vs, seqx.Viol{Key: key + "/audio-duplicated", What: fmt.Sprintf("%s: AAC frame %s appears %d times", name, m, got[m.Idx])})
			}
		}
	}
	return vs
}

func (s *sys) Fingerprint() string {
	fp := s.Sys.Fingerprint()
	for _, c := range s.Live() {
		fp += fmt.Sprintf(" age%d=%d", c.ID, minI(s.cage[c.ID], 3))
	}
	fp = strings.ReplaceAll(fp, fmt.Sprintf("w%d-", s.X.W.ID), "w-")
	if confOn(s, "relay_push.enable") {
		fp += fmt.Sprintf(" live=%d pending=%d orphan=%d", len(s.X.W.LiveDials()), len(s.X.W.PendingDials()), minI(s.pushOrphan, 2))
		for _, d := range s.X.W.LiveDials() {
			fp += fmt.Sprintf(" origin[%v started=%v err=%v]", d.Origin.Cmds, d.Origin.Started, d.Origin.DecErr)
		}
	}
	return fmt.Sprintf("%s |ended=%d disposed=%v idle=%d empty=%d hooks=%d", fp, len(s.ended), s.disposed, minI(s.idleTicks, 4), minI(s.emptyTicks, 3), len(s.X.W.Hooks))
}

func minI(a, b int) int {
	if a < b {
		return a
	}
	return b
}

func configs(r *vk.Run) []sw.SysOpts {
	alpha := []string{"P:vsh", "P:key", "P:inter", "P:ash", "P:aac", "J:rtmp", "J:ts", "PubLeave", "Kick", "PubArrive", "T", "Dispose"}
	lean := []string{"P:vsh", "P:key", "P:ash", "P:aac", "J:ts", "PubLeave", "Kick", "PubArrive", "T"}
	var cs []sw.SysOpts
	add := func(name string, al []string, kv ...interface{}) {
		c := world.Conf{}
		for i := 0; i+1 < len(kv); i += 2 {
			c[kv[i].(string)] = kv[i+1]
		}
		cs = append(cs, sw.SysOpts{Name: name, Conf: c, StartPub: true, Alphabet: al, Guarded: true, MaxConsumers: 1, MaxInc: 3})
	}
	add("all", lean, "hls.enable", true, "record.enable_flv", true, "record.enable_mpegts", true, "_hook", true, "rtsp.enable", true)
	add("hls+hook", alpha, "hls.enable", true, "_hook", true)
	add("flv+ts-record", alpha, "record.enable_flv", true, "record.enable_mpegts", true)
	add("hook-only", alpha, "_hook", true)
	add("hls-https-only", lean, "hls.enable", false, "hls.enable_https", true)
	add("push+hook", lean, "relay_push.enable", true, "relay_push.addr_list", []interface{}{"$W-pushA:1935"}, "_hook", true)
	if !r.Quick() {
		add("hls-only", alpha, "hls.enable", true)
		add("ts-record+hook", alpha, "record.enable_mpegts", true, "_hook", true)
		add("all-full", alpha, "hls.enable", true, "record.enable_flv", true, "record.enable_mpegts", true, "_hook", true, "rtsp.enable", true)
		add("hls-cleanup2", lean, "hls.enable", true, "hls.cleanup_mode", 2, "hls.fragment_num", 1, "hls.delete_threshold", 0)
	}
	// non-initial start: audio already buffered in the TS remuxer when the input ends
	for i := range cs {
		if strings.Contains(cs[i].Name, "record") || cs[i].Name == "all" {
			c2 := cs[i]
			c2.Name += "+history"
			c2.Prefix = []string{"P:vsh", "P:ash", "P:key", "P:aac"}
			cs = append(cs, c2)
		}
	}
	return cs
}

// countGoroutines counts the goroutines of the process except naza's delayed-task sleepers (the HLS
// directory cleanup is scheduled that way and ends by itself after its delay).
func countGoroutines() (int, string) {
	buf := make([]byte, 4<<20)
	st := string(buf[:runtime.Stack(buf, true)])
	n := 0
	for _, g := range strings.Split(st, "\n\n") {
		if strings.TrimSpace(g) != "" && !strings.Contains(g, "defertaskthread") {
			n++
		}
	}
	return n, st
}

func goroutineBaseline(r *vk.Run) {
	// sequential phase: goroutine count returns to the baseline once everything is gone
	o := sw.SysOpts{Name: "baseline", Conf: world.Conf{"hls.enable": true, "record.enable_flv": true, "_hook": true}, StartPub: false, Guarded: true}
	target := 0
	stacks := ""
	run := func(trace []string) int {
		s := newSys(o)
		for _, ev := range trace {
			s.Apply(ev)
		}
		for i := 0; i < 3; i++ {
			s.Apply("T")
		}
		for _, c := range s.X.Consumers {
			s.X.Leave(c)
		}
		for i := 0; i < 3; i++ {
			s.Apply("T")
		}
		n := 0
		for i := 0; i < 100; i++ { // goroutines that are on their way out need real time
			n, stacks = countGoroutines()
			if n <= target {
				break
			}
			time.Sleep(10 * time.Millisecond)
		}
		s.Close()
		return n
	}
	time.Sleep(100 * time.Millisecond)
	base0 := run(nil)
	target = base0
	r.Cov("goroutine_baseline", base0)
	for _, tr := range [][]string{
		{"PubArrive", "P:vsh", "P:key", "PubLeave"},
		{"PubArrive", "J:rtmp", "P:vsh", "P:key", "J:flv", "PubLeave", "PubArrive", "P:vsh", "Kick"},
		{"J:ts", "PubArrive", "P:vsh", "P:ash", "P:key", "P:aac", "PubLeave"},
	} {
		r.Eval(1)
		n := run(tr)
		if n > base0 {
			r.Violation("goroutines-not-back-to-baseline", fmt.Sprintf("after %v and all sessions gone: %d goroutines, baseline with an idle server %d\n%s", tr, n, base0, stacks), replay{Cfg: o, Trace: tr})
		}
		r.Class(fmt.Sprintf("baseline/%d", len(tr)))
	}
}

func main() {
	r := vk.Start("C16", "model_checking")
	lalenv.Quiet()
	world.SyncQueues()
	base.LogicCheckSessionAliveIntervalSec = 1
	r.Rule("states = distinct canonical fingerprints reached by event sequences over {P(vsh|key|inter|ash|aac), J(rtmp|ts), L, PubLeave, Kick, PubArrive, T, Dispose} per output configuration; after every event the finalise-once / completeness / clean-start / liveness monitors run. distinct_nontrivial = states")
	r.Assume("pkg/logic's clock is the world's (vgen rewrites time.Now): one second per tick and one second per publisher arrival, so record file names of successive publishers differ; base.LogicCheckSessionAliveIntervalSec = 1",
		"HLS on the instrumented in-memory file system; FLV/TS records on a scratch directory",
		"the delayed HLS directory cleanup task (real-time timer) does not fire within an execution; relay push finalisation is C17's subject",
		"the event search uses an RTMP publisher; the cross-protocol enumeration (xproto.go) re-publishes one name through every sequence of 2-3 (thorough: 4) inputs over {RTMP, RTSP, customize} x {peer close, kick} with a persistent RTMP player and fresh RTSP / RTMP players per incarnation, every frame tagged with its incarnation")
	mk := func(o sw.SysOpts) func() seqx.Sys { return func() seqx.Sys { return newSys(o) } }
	if r.ReplayIn != "" {
		var rp replay
		r.LoadReplay(&rp)
		if rp.Xpull != nil {
			vs, err := xpullRun(*rp.Xpull)
			if err != nil {
				r.Violation("infra/xpull", err.Error(), rp)
			}
			for _, v := range vs {
				r.Violation(v.key, v.what, rp)
			}
			r.Finish()
		}
		if rp.HlsSub != nil {
			vs, err := hlsSubRun(*rp.HlsSub)
			if err != nil {
				r.Violation("infra/hlssub", err.Error(), rp)
			}
			for _, v := range vs {
				r.Violation(v[:strings.IndexByte(v, ':')], v, rp)
			}
			r.Finish()
		}
		if rp.Xproto != nil {
			vs, _, err := xpRun(*rp.Xproto)
			if err != nil {
				r.Violation("infra/xproto", err.Error(), rp)
			}
			for _, v := range vs {
				r.Violation(v.key, v.what, rp)
			}
			r.Finish()
		}
		s, vs, err := seqx.Run(seqx.Config{New: mk(rp.Cfg)}, rp.Trace)
		if err != nil {
			r.Violation("infra/replay", err.Error(), rp)
		}
		for _, v := range vs {
			r.Violation(v.Key, v.What, rp)
		}
		seqx.Close(s)
		r.Finish()
	}
	r.SetBudget(6*time.Minute, 60*time.Minute)
	goroutineBaseline(r)
	depth := 6
	if !r.Quick() {
		depth = 9
	}
	var states, trans, execs int64
	per := map[string]interface{}{}
	for _, c := range configs(r) {
		c := c
		if only := os.Getenv("C16_ONLY"); only != "" && only != c.Name {
			continue
		}
		st := seqx.Explore(seqx.Config{New: mk(c), MaxDepth: depth, Workers: 16, OutOfTime: r.OutOfTime,
			OnViolation: func(tr []string, v seqx.Viol) {
				r.Violation(v.Key, fmt.Sprintf("[%s] after %s: %s", c.Name, strings.Join(append(append([]string{}, c.Prefix...), tr...), " "), v.What), replay{Cfg: c, Trace: tr})
			},
			OnInfra: func(tr []string, err error) {
				r.Violation("infra/hang-or-nondeterminism", fmt.Sprintf("[%s] %v: %v", c.Name, tr, err), replay{Cfg: c, Trace: tr})
			},
			OnState: func(d int, fp string, tr []string) {
				r.Class(c.Name + "|" + fp)
				if d == depth {
					r.Sample(map[string]interface{}{"config": c.Name, "trace": tr})
				}
			}})
		states += st.States
		trans += st.Transitions
		execs += st.Executions
		per[c.Name] = map[string]interface{}{"states": st.States, "transitions": st.Transitions, "depth_completed": st.MaxDepthCompleted, "frontier": st.Frontier, "executions_repeated_after_infra_error": st.Retried}
		if st.Capped {
			r.NotExhaustive("internal time budget hit before the depth bound")
		}
		r.Eval(int(st.Executions))
	}
	r.AddStates(states)
	r.AddTransitions(trans)
	r.AddTraces(execs)
	r.Cov("per_config", per)
	r.Cov("max_depth", depth)
	_ = bytes.Equal
	if os.Getenv("C16_ONLY") == "" || os.Getenv("C16_ONLY") == "xproto" {
		n := xpPhase(r)
		n += xpullPhase(r)
		hlsSubPhase(r)
		r.Eval(n)
		r.AddTraces(int64(n))
	}
	r.Finish()
}
