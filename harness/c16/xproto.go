package main

// Cross-protocol clean start: a stream name is published by a sequence of inputs of different kinds
// (RTMP, RTSP, customize), each ending by peer close or kick before the next arrives, while an RTMP
// player stays attached and a fresh RTSP player and RTMP player join every incarnation. Every frame
// carries its incarnation and index in its payload. Whatever a consumer receives while incarnation k
// is current must derive from incarnation k alone: its frames exactly once and in order, preceded by
// ITS parameter sets, one RTP source per RTSP player - nothing cached or remuxed from a predecessor.

import (
	"bytes"
	"encoding/base64"
	"fmt"
	"strings"

	"github.com/q191201771/lal/pkg/base"
	"github.com/q191201771/lal/pkg/logic"

	"verif/lib/ref"
	"verif/lib/vk"
	"verif/lib/world"
)

type xpCase struct {
	Kinds []string `json:"kinds"` // rtmp | rtsp | cust, one per incarnation
	Ends  []string `json:"ends"`  // close | kick, how each incarnation ends
}

var (
	xpSps = [][]byte{
		ref.WriteAvcSps(ref.AvcSps{Profile: 100, Level: 31, ChromaFormat: 1, PocType: 0, Log2MaxPocLsbM4: 2, MaxNumRefFrames: 3, WidthMbsM1: 19, HeightMapUnitsM1: 14, FrameMbsOnly: true, Direct8x8: true}),
		ref.WriteAvcSps(ref.AvcSps{Profile: 100, Level: 31, ChromaFormat: 1, PocType: 0, Log2MaxPocLsbM4: 2, MaxNumRefFrames: 3, WidthMbsM1: 39, HeightMapUnitsM1: 29, FrameMbsOnly: true, Direct8x8: true}),
		ref.WriteAvcSps(ref.AvcSps{Profile: 100, Level: 31, ChromaFormat: 1, PocType: 0, Log2MaxPocLsbM4: 2, MaxNumRefFrames: 3, WidthMbsM1: 79, HeightMapUnitsM1: 44, FrameMbsOnly: true, Direct8x8: true}),
	}
	xpPps = []byte{0x68, 0xce, 0x3c, 0x80}
	xpAsc = []byte{0x12, 0x10}
)

func xpNal(key bool, inc, idx int) []byte {
	h := byte(0x41)
	if key {
		h = 0x65
	}
	return []byte{h, 0x88, 0xA0 | byte(inc), 0xB0 | byte(idx), 0x99, 0x80 | byte(inc*16+idx)}
}

func xpAu(inc, idx int) []byte { return []byte{0x21, 0xA0 | byte(inc), 0xB0 | byte(idx), 0x77, 0x66} }

// xpTag reads (incarnation, index) back from a slice NAL / an AAC frame.
func xpTag(b []byte) (inc, idx int, ok bool) {
	if len(b) >= 4 && b[2]&0xF0 == 0xA0 && b[3]&0xF0 == 0xB0 {
		return int(b[2] & 0x0F), int(b[3] & 0x0F), true
	}
	return 0, 0, false
}

func xpAuTag(b []byte) (inc, idx int, ok bool) {
	if len(b) >= 3 && b[1]&0xF0 == 0xA0 && b[2]&0xF0 == 0xB0 {
		return int(b[1] & 0x0F), int(b[2] & 0x0F), true
	}
	return 0, 0, false
}

type xpInput struct {
	kind  string
	inc   int
	w     *world.W
	rtmp  *world.RtmpPeer
	rtsp  *world.RtspPeer
	cust  logic.ICustomizePubSessionContext
	vseq  uint16
	aseq  uint16
	ms    uint32
	ended bool
}

func (in *xpInput) arrive() error {
	w := in.w
	sps := xpSps[in.inc%len(xpSps)]
	switch in.kind {
	case "rtmp":
		var err error
		in.rtmp, err = w.RtmpPublisher("live", "s")
		if err != nil {
			return err
		}
		if !in.rtmp.Accepted() {
			return fmt.Errorf("incarnation %d: the RTMP publisher was refused", in.inc)
		}
		vsh := []byte{0x17, 0, 0, 0, 0, 1, sps[1], sps[2], sps[3], 0xff, 0xe1, byte(len(sps) >> 8), byte(len(sps))}
		vsh = append(vsh, sps...)
		vsh = append(vsh, 1, 0, byte(len(xpPps)))
		vsh = append(vsh, xpPps...)
		in.rtmp.SendMsgs(ref.Msg{Csid: 6, Type: 9, Msid: 1, Payload: vsh}, ref.Msg{Csid: 4, Type: 8, Msid: 1, Payload: append([]byte{0xaf, 0}, xpAsc...)})
		return w.Settle()
	case "rtsp":
		b64 := base64.StdEncoding.EncodeToString
		sdp := "v=0\r\no=- 0 0 IN IP4 127.0.0.1\r\ns=x\r\nc=IN IP4 127.0.0.1\r\nt=0 0\r\n" +
			"m=video 0 RTP/AVP 96\r\na=rtpmap:96 H264/90000\r\na=fmtp:96 packetization-mode=1; sprop-parameter-sets=" + b64(sps) + "," + b64(xpPps) + "; profile-level-id=64001F\r\na=control:streamid=0\r\n" +
			fmt.Sprintf("m=audio 0 RTP/AVP 97\r\na=rtpmap:97 MPEG4-GENERIC/44100/2\r\na=fmtp:97 profile-level-id=1;mode=AAC-hbr;sizelength=13;indexlength=3;indexdeltalength=3; config=%x\r\na=control:streamid=1\r\n", xpAsc)
		var err error
		in.rtsp, err = w.RtspPublisher("rtsp://h/live/s", []byte(sdp), []string{"streamid=0", "streamid=1"})
		if err != nil {
			return err
		}
		if !in.rtsp.Accepted() || in.rtsp.LastStatus() != 200 {
			return fmt.Errorf("incarnation %d: the RTSP publisher was refused (status %d)", in.inc, in.rtsp.LastStatus())
		}
		in.vseq, in.aseq = uint16(1000*in.inc+1), uint16(2000*in.inc+1)
		return nil
	default:
		ctx, err := w.SM.AddCustomizePubSession("s")
		if err != nil {
			return fmt.Errorf("incarnation %d: customize publisher refused: %v", in.inc, err)
		}
		ctx.WithOption(func(o *base.AvPacketStreamOption) {
			o.VideoFormat = base.AvPacketStreamVideoFormatAnnexb
			o.AudioFormat = base.AvPacketStreamAudioFormatRawAac
		})
		ctx.FeedAudioSpecificConfig(xpAsc)
		in.cust = ctx
		return nil
	}
}

func (in *xpInput) video(key bool, idx int) error {
	w := in.w
	in.ms += 40
	sps := xpSps[in.inc%len(xpSps)]
	n := xpNal(key, in.inc, idx)
	switch in.kind {
	case "rtmp":
		h := byte(0x27)
		if key {
			h = 0x17
		}
		p := []byte{h, 1, 0, 0, 0, 0, 0, 0, byte(len(n))}
		in.rtmp.SendMsgs(ref.Msg{Csid: 6, Type: 9, Msid: 1, Ts: in.ms, Payload: append(p, n...)})
	case "rtsp":
		nals := [][]byte{n}
		if key {
			nals = [][]byte{sps, xpPps, n}
		}
		for i, x := range nals {
			in.rtsp.SendRtp(0, ref.BuildRtp(ref.Rtp{Marker: i == len(nals)-1, PT: 96, Seq: in.vseq, Ts: in.ms * 90, Ssrc: uint32(0x70 + in.inc), Payload: x}))
			in.vseq++
		}
	default:
		nals := [][]byte{n}
		if key {
			nals = [][]byte{sps, xpPps, n}
		}
		pkt := base.AvPacket{PayloadType: base.AvPacketPtAvc, Timestamp: int64(in.ms), Pts: int64(in.ms), Payload: ref.AnnexB(nals)}
		w.Net.Async(func() { in.cust.FeedAvPacket(pkt) })
	}
	return w.Settle()
}

func (in *xpInput) audio(idx int) error {
	w := in.w
	in.ms += 3
	au := xpAu(in.inc, idx)
	switch in.kind {
	case "rtmp":
		in.rtmp.SendMsgs(ref.Msg{Csid: 4, Type: 8, Msid: 1, Ts: in.ms, Payload: append([]byte{0xaf, 1}, au...)})
	case "rtsp":
		in.rtsp.SendRtp(1, ref.BuildRtp(ref.Rtp{Marker: true, PT: 97, Seq: in.aseq, Ts: in.ms * 441 / 10, Ssrc: uint32(0x80 + in.inc), Payload: ref.PackAacHbr(au)}))
		in.aseq++
	default:
		pkt := base.AvPacket{PayloadType: base.AvPacketPtAac, Timestamp: int64(in.ms), Pts: int64(in.ms), Payload: au}
		w.Net.Async(func() { in.cust.FeedAvPacket(pkt) })
	}
	return w.Settle()
}

func (in *xpInput) end(how string) error {
	w := in.w
	in.ended = true
	if how == "kick" && in.kind != "cust" {
		g := w.SM.StatGroup("s")
		if g == nil || g.StatPub.SessionId == "" {
			return fmt.Errorf("incarnation %d: the stat API lists no publisher to kick", in.inc)
		}
		w.SM.CtrlKickSession(base.ApiCtrlKickSessionReq{StreamName: "s", SessionId: g.StatPub.SessionId})
		if err := w.Settle(); err != nil {
			return err
		}
	}
	switch in.kind {
	case "rtmp":
		in.rtmp.Close()
	case "rtsp":
		in.rtsp.Close()
	default:
		w.SM.DelCustomizePubSession(in.cust)
	}
	return w.Settle()
}

type xpViol struct{ key, what string }

// xpSeqOk: got starts with must and continues only with the tail, in order.
func xpSeqOk(got, must, tail []int) bool {
	if len(got) < len(must) {
		return false
	}
	all := append(append([]int{}, must...), tail...)
	if len(got) > len(all) {
		return false
	}
	for i := range got {
		if got[i] != all[i] {
			return false
		}
	}
	return true
}

func xpRun(c xpCase) (vs []xpViol, frames int, infra error) {
	w := world.New(world.Conf{"rtsp.enable": true})
	defer w.Close()
	add := func(key, f string, a ...interface{}) { vs = append(vs, xpViol{key, fmt.Sprintf(f, a...)}) }
	persistent, err := w.RtmpPlayer("live", "s")
	if err != nil {
		return nil, 0, err
	}
	type rtmpSeen struct {
		inc     int // incarnation current when received
		typ     uint8
		payload []byte
	}
	var pSeen []rtmpSeen
	pumpP := func(inc int) {
		for _, m := range persistent.Pump() {
			if m.Type == 8 || m.Type == 9 {
				pSeen = append(pSeen, rtmpSeen{inc, m.Type, m.Payload})
			}
		}
	}
	for i, kind := range c.Kinds {
		in := &xpInput{kind: kind, inc: i, w: w}
		if err := in.arrive(); err != nil {
			return nil, 0, err
		}
		if err := in.video(true, 0); err != nil {
			return nil, 0, err
		}
		if err := in.audio(0); err != nil {
			return nil, 0, err
		}
		pumpP(i)
		// fresh players of this incarnation
		rp, err := w.RtspPlayer("rtsp://h/live/s", nil)
		if err != nil {
			return nil, 0, err
		}
		mp, err := w.RtmpPlayer("live", "s")
		if err != nil {
			return nil, 0, err
		}
		for _, st := range []struct {
			key bool
			idx int
		}{{true, 1}, {false, 2}} {
			if err := in.video(st.key, st.idx); err != nil {
				return nil, 0, err
			}
		}
		if err := in.audio(1); err != nil {
			return nil, 0, err
		}
		if err := in.video(true, 3); err != nil {
			return nil, 0, err
		}
		if err := in.audio(2); err != nil {
			return nil, 0, err
		}
		// a tail that pushes the frames above through whatever an ingest path still buffers (the RTSP
		// audio / video interleaving queue); how much of the tail itself arrives is not demanded
		if err := in.video(false, 4); err != nil {
			return nil, 0, err
		}
		if err := in.audio(3); err != nil {
			return nil, 0, err
		}
		if err := in.video(false, 5); err != nil {
			return nil, 0, err
		}
		if err := in.audio(4); err != nil {
			return nil, 0, err
		}
		pumpP(i)
		who := fmt.Sprintf("incarnation %d (%s, after %v)", i, kind, c.Kinds[:i])
		// --- the fresh RTSP player
		rp.Pump()
		if rp.Err != nil {
			add("xproto/rtsp-framing", "%s: %v", who, rp.Err)
		} else if len(rp.Tracks) == 0 {
			add("xproto/rtsp-not-described", "%s: the RTSP player was never described although both sequence headers had been published", who)
		} else {
			var vp []ref.Rtp
			ssrc := map[int]map[uint32]bool{0: {}, 2: {}}
			var atags []int
			for _, it := range rp.Items {
				if it.IsMsg || it.Channel%2 == 1 {
					continue
				}
				r, err := ref.ParseRtp(it.Data)
				if err != nil {
					add("xproto/rtsp-rtp", "%s: %v", who, err)
					continue
				}
				if ssrc[it.Channel] != nil {
					ssrc[it.Channel][r.Ssrc] = true
				}
				if it.Channel == 0 {
					vp = append(vp, r)
				} else if us, err := ref.DepackAacHbr([]ref.Rtp{r}); err == nil {
					for _, u := range us {
						if inc, idx, ok := xpAuTag(u.Data); ok {
							if inc != i {
								add("xproto/rtsp-foreign-audio", "%s: the RTSP player received an audio frame of incarnation %d", who, inc)
							}
							atags = append(atags, idx)
						}
					}
				}
			}
			for ch, m := range ssrc {
				if len(m) > 1 {
					add("xproto/rtsp-two-sources", "%s: the RTSP player received RTP of %d different sources on channel %d (one stream has one source per track)", who, len(m), ch)
				}
			}
			var vtags []int
			// packets are single NAL units here (or STAP-A from the remuxer): walk them one by one so that a
			// duplicated sequence number does not confuse the depacketiser
			for _, r := range vp {
				us, err := ref.DepackH264([]ref.Rtp{r})
				if err != nil {
					continue
				}
				for _, u := range us {
					n := u.Data
					if len(n) == 0 {
						continue
					}
					t := n[0] & 0x1f
					if t != 1 && t != 5 {
						continue
					}
					inc, idx, ok := xpTag(n)
					if !ok {
						add("xproto/rtsp-unknown-frame", "%s: the RTSP player received a slice that was never published: % x", who, n)
						continue
					}
					if inc != i {
						add("xproto/rtsp-foreign-video", "%s: the RTSP player received a frame of incarnation %d", who, inc)
					}
					vtags = append(vtags, idx)
				}
			}
			frames += len(vtags) + len(atags)
			if !xpSeqOk(vtags, []int{1, 2, 3}, []int{4, 5}) {
				add("xproto/rtsp-video", "%s: the RTSP player joined after frame 0 and received video frames %v, want [1 2 3] (+ tail), each exactly once, from the next key frame", who, vtags)
			}
			if !xpSeqOk(atags, []int{1, 2}, []int{3, 4}) {
				add("xproto/rtsp-audio", "%s: the RTSP player received audio frames %v, want [1 2]", who, atags)
			}
		}
		// --- the fresh RTMP player
		var mv, ma []int
		var lastVsh []byte
		vshBeforeFirst := true
		for _, m := range mp.Pump() {
			switch {
			case m.Type == 9 && len(m.Payload) > 9 && m.Payload[1] == 1:
				inc, idx, ok := xpTag(m.Payload[9:])
				if !ok || inc != i {
					add("xproto/rtmp-foreign-video", "%s: the fresh RTMP player received a video frame that is not of this incarnation (% x)", who, m.Payload[:minI(len(m.Payload), 16)])
					continue
				}
				if len(mv) == 0 && (lastVsh == nil || !bytes.Contains(lastVsh, xpSps[i%len(xpSps)])) {
					vshBeforeFirst = false
				}
				mv = append(mv, idx)
			case m.Type == 9 && len(m.Payload) > 1 && m.Payload[1] == 0:
				lastVsh = m.Payload
			case m.Type == 8 && len(m.Payload) > 2 && m.Payload[1] == 1:
				inc, idx, ok := xpAuTag(m.Payload[2:])
				if !ok || inc != i {
					add("xproto/rtmp-foreign-audio", "%s: the fresh RTMP player received an audio frame that is not of this incarnation", who)
					continue
				}
				ma = append(ma, idx)
			}
		}
		frames += len(mv) + len(ma)
		if !xpSeqOk(mv, []int{1, 2, 3}, []int{4, 5}) {
			add("xproto/rtmp-video", "%s: the fresh RTMP player received video frames %v, want [1 2 3]", who, mv)
		}
		if !vshBeforeFirst {
			add("xproto/rtmp-stale-header", "%s: the video sequence header the fresh RTMP player got before its first frame does not carry this incarnation's SPS", who)
		}
		if !xpSeqOk(ma, []int{1, 2}, []int{3, 4}) {
			add("xproto/rtmp-audio", "%s: the fresh RTMP player received audio frames %v, want [1 2]", who, ma)
		}
		// the input ends; this incarnation's players leave
		if err := in.end(c.Ends[i]); err != nil {
			return nil, 0, err
		}
		rp.Close()
		mp.Close()
		if err := w.Settle(); err != nil {
			return nil, 0, err
		}
		pumpP(i)
	}
	// --- the persistent RTMP player: per incarnation frames [0 1 2 3], preceded by that incarnation's SPS
	var cur, lastVshInc = -1, -1
	per := map[int][]int{}
	for _, s := range pSeen {
		switch {
		case s.typ == 9 && len(s.payload) > 1 && s.payload[1] == 0:
			lastVshInc = -1
			for k := range c.Kinds {
				if bytes.Contains(s.payload, xpSps[k%len(xpSps)]) {
					lastVshInc = k % len(xpSps)
				}
			}
		case s.typ == 9 && len(s.payload) > 9 && s.payload[1] == 1:
			inc, idx, ok := xpTag(s.payload[9:])
			if !ok {
				continue
			}
			if inc != s.inc {
				add("xproto/persistent-foreign-video", "the persistent RTMP player received a frame of incarnation %d while incarnation %d was current", inc, s.inc)
			}
			if inc != cur {
				cur = inc
				if lastVshInc != inc%len(xpSps) {
					add("xproto/persistent-stale-header", "the persistent RTMP player got the first frame of incarnation %d (%s) under a sequence header that does not carry its SPS", inc, c.Kinds[inc])
				}
			}
			per[inc] = append(per[inc], idx)
		}
	}
	for i := range c.Kinds {
		if !xpSeqOk(per[i], []int{0, 1, 2, 3}, []int{4, 5}) {
			add("xproto/persistent-video", "the persistent RTMP player received video frames %v of incarnation %d (%s after %v), want [0 1 2 3]", per[i], i, c.Kinds[i], c.Kinds[:i])
		}
		frames += len(per[i])
	}
	if p := w.Net.FirstPanic(); p != "" {
		add("xproto/panic", "%s", strings.SplitN(p, "\n", 2)[0])
	}
	return vs, frames, nil
}

func xpCases(quick bool) []xpCase {
	kinds := []string{"rtmp", "rtsp", "cust"}
	var cs []xpCase
	var rec func(cur []string, n int)
	rec = func(cur []string, n int) {
		if len(cur) == n {
			nEnds := 1 << uint(n)
			for e := 0; e < nEnds; e++ {
				ends := make([]string, n)
				for i := range ends {
					ends[i] = "close"
					if e>>uint(i)&1 == 1 {
						ends[i] = "kick"
					}
				}
				if quick && e != 0 && e != nEnds-1 {
					continue
				}
				cs = append(cs, xpCase{append([]string{}, cur...), ends})
			}
			return
		}
		for _, k := range kinds {
			rec(append(cur, k), n)
		}
	}
	rec(nil, 2)
	rec(nil, 3)
	if !quick {
		rec(nil, 4)
	}
	return cs
}

func xpPhase(r *vk.Run) int {
	cs := xpCases(r.Quick())
	type out struct {
		c      xpCase
		vs     []xpViol
		frames int
		err    error
	}
	res := make([]out, len(cs))
	vk.Par(len(cs), 16, func(i int) {
		vs, fr, err := xpRun(cs[i])
		res[i] = out{cs[i], vs, fr, err}
	})
	frames := 0
	for _, o := range res {
		rp := map[string]interface{}{"xproto": o.c}
		if o.err != nil {
			r.Violation("infra/xproto", fmt.Sprintf("%+v: %v", o.c, o.err), rp)
			continue
		}
		frames += o.frames
		r.Class(fmt.Sprintf("xproto|%v|%v|viol=%d", o.c.Kinds, o.c.Ends, len(o.vs)))
		for _, v := range o.vs {
			r.Violation(v.key, fmt.Sprintf("[xproto %v ends %v] %s", o.c.Kinds, o.c.Ends, v.what), rp)
		}
	}
	r.Cov("xproto_cases", len(cs))
	r.Cov("xproto_frames_compared", frames)
	return len(cs)
}
