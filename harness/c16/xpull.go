package main

// Inputs that are not publishers: a relay pull (RTMP origin that sends media) and a GB28181 session feed a
// stream whose HLS output and stream hook are on; the input then ends in every way it can - origin closes,
// stop_relay_pull, kick, server shutdown. Every output must be finalised exactly once, as for a publisher.

import (
	"fmt"
	"path"
	"strings"

	"github.com/q191201771/lal/pkg/base"

	"verif/lib/ref"
	"verif/lib/sw"
	"verif/lib/vk"
	"verif/lib/world"
)

type xpullCase struct {
	Input  string `json:"input"`  // pull
	End    string `json:"end"`    // origin-close | api-stop | kick | dispose
	Frames int    `json:"frames"` // GOPs sent before the end (the last one open)
	Sub    bool   `json:"sub"`    // an RTMP subscriber is attached (otherwise the group has outputs only)
}

type xpullViol struct{ key, what string }

func xpullRun(c xpullCase) (vs []xpullViol, infra error) {
	add := func(key, f string, a ...interface{}) { vs = append(vs, xpullViol{key, fmt.Sprintf(f, a...)}) }
	w := world.New(world.Conf{"hls.enable": true, "hls.cleanup_mode": 0, "_hook": true})
	defer w.Close()
	w.EnableRelay(map[string]string{"origin": "accept"})
	if c.Sub {
		if _, err := w.RtmpPlayer("live", "s"); err != nil {
			return nil, err
		}
	}
	r := w.SM.CtrlStartRelayPull(base.ApiCtrlStartRelayPullReq{Url: "rtmp://" + w.Host("origin") + "/live/s", PullRetryNum: 0, AutoStopPullAfterNoOutMs: -1})
	if r.ErrorCode != base.ErrorCodeSucc {
		return nil, fmt.Errorf("start_relay_pull: %s", r.Desp)
	}
	if err := w.Settle(); err != nil {
		return nil, err
	}
	live := w.LiveDials()
	if len(live) != 1 || live[0].Origin == nil || !live[0].Origin.Started {
		return nil, fmt.Errorf("the pull did not attach (%d live connections)", len(live))
	}
	o := live[0].Origin
	send := func(kind string, idx int, ts uint32) error {
		m := sw.MakeMsg(kind, idx, ts, 64)
		csid := 6
		if m.Type == 8 {
			csid = 4
		}
		o.SendMsgs(ref.Msg{Csid: csid, Type: m.Type, Msid: 1, Ts: ts, Payload: m.Payload})
		return w.Settle()
	}
	idx := 0
	for _, k := range []string{"vsh", "ash"} {
		if err := send(k, idx, 0); err != nil {
			return nil, err
		}
		idx++
	}
	ts := uint32(0)
	for g := 0; g < c.Frames; g++ {
		for _, k := range []string{"key", "aac", "inter", "aac"} {
			if err := send(k, idx, ts); err != nil {
				return nil, err
			}
			idx++
			ts += 900
		}
	}
	if len(w.Hooks) != 1 {
		add("xpull/hook-count", "%d stream-hook contexts for one pull input", len(w.Hooks))
		return
	}
	switch c.End {
	case "origin-close":
		o.Close()
	case "api-stop":
		w.SM.CtrlStopRelayPull("s")
	case "kick":
		g := w.SM.StatGroup("s")
		if g == nil || g.StatPull.SessionId == "" {
			add("xpull/stat", "the stat API does not list the attached pull session")
			return
		}
		w.SM.CtrlKickSession(base.ApiCtrlKickSessionReq{StreamName: "s", SessionId: g.StatPull.SessionId})
	case "dispose":
		w.Net.Async(func() { w.SM.Dispose() })
	}
	if err := w.Settle(); err != nil {
		return nil, err
	}
	if c.End != "dispose" { // the relay goroutine reports the end asynchronously; one tick lets the group notice
		if err := w.Tick(); err != nil {
			return nil, err
		}
	}
	who := fmt.Sprintf("pull input ended by %s after %d GOPs (subscriber attached: %v)", c.End, c.Frames, c.Sub)
	if _, stops := w.Hooks[0].Counts(); stops != 1 {
		add("xpull/hook-stop", "%s: the stream hook was told to stop %d times", who, stops)
	}
	files := w.FS.Snapshot()
	dir := strings.TrimSuffix(w.FS.Root, "/") + "/s"
	var segs []string
	for _, op := range w.FS.OpsCopy() {
		if op.Kind == "create" && strings.HasSuffix(op.Path, ".ts") {
			segs = append(segs, op.Path)
		}
	}
	if len(segs) == 0 {
		add("xpull/no-segments", "%s: no HLS segment was produced", who)
		return
	}
	pl, ok := files[dir+"/playlist.m3u8"]
	if !ok {
		add("xpull/hls-playlist-missing", "%s: segments were produced but there is no live playlist", who)
		return
	}
	p, err := ref.ParseM3u8(pl)
	if err != nil {
		add("xpull/hls-playlist", "%s: the final playlist does not parse: %v", who, err)
		return
	}
	if !p.EndList {
		add("xpull/hls-no-endlist", "%s: the live playlist has no #EXT-X-ENDLIST", who)
	}
	if len(p.Entries) == 0 || p.Entries[len(p.Entries)-1].Uri != path.Base(segs[len(segs)-1]) {
		add("xpull/hls-last-segment-unlisted", "%s: the last segment %s is not the last playlist entry", who, path.Base(segs[len(segs)-1]))
	}
	if rec, ok := files[dir+"/record.m3u8"]; ok {
		for _, sg := range segs {
			if !strings.Contains(string(rec), path.Base(sg)) {
				add("xpull/hls-record-incomplete", "%s: segment %s is not in the record playlist", who, path.Base(sg))
				break
			}
		}
	}
	if pn := w.Net.FirstPanic(); pn != "" {
		add("xpull/panic", "%s", strings.SplitN(pn, "\n", 2)[0])
	}
	return
}

func xpullPhase(r *vk.Run) int {
	var cs []xpullCase
	for _, end := range []string{"origin-close", "api-stop", "kick", "dispose"} {
		for _, n := range []int{1, 2, 5} {
			for _, sub := range []bool{false, true} {
				cs = append(cs, xpullCase{"pull", end, n, sub})
			}
		}
	}
	type out struct {
		vs  []xpullViol
		err error
	}
	res := make([]out, len(cs))
	vk.Par(len(cs), 8, func(i int) {
		vs, err := xpullRun(cs[i])
		res[i] = out{vs, err}
	})
	for i, o := range res {
		rp := map[string]interface{}{"xpull": cs[i]}
		if o.err != nil {
			r.Violation("infra/xpull", fmt.Sprintf("%+v: %v", cs[i], o.err), rp)
			continue
		}
		r.Class(fmt.Sprintf("xpull|%s|%d|%v|viol=%d", cs[i].End, cs[i].Frames, cs[i].Sub, len(o.vs)))
		for _, v := range o.vs {
			r.Violation(v.key, fmt.Sprintf("[xpull %+v] %s", cs[i], v.what), rp)
		}
	}
	r.Cov("xpull_cases", len(cs))
	return len(cs)
}
