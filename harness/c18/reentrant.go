package main

// The writers are methods of one process-wide value (rtmp.Amf0) that every session uses: an encoder that
// keeps its bytes in a package-level scratch area emits another encoder's value when the two overlap.
// Sequentially that overlap is a writer whose Write (lal writes the marker first, the payload after it)
// runs a second encoding of another value before it returns: the first encoding must still come out right.

import (
	"bytes"
	"fmt"

	"github.com/q191201771/lal/pkg/rtmp"

	"verif/lib/ref"
	"verif/lib/vk"
)

type nestingWriter struct {
	buf    bytes.Buffer
	writes int
	inner  func()
}

func (w *nestingWriter) Write(p []byte) (int, error) {
	w.writes++
	if w.inner != nil {
		f := w.inner
		w.inner = nil
		f() // another encoder runs while this one is between two writes
	}
	return w.buf.Write(p)
}

func reentrantWriters(r *vk.Run) {
	nums := []float64{0, 1, -1, 7, 1935, 3.5, 1e300}
	strs := []string{"", "a", "onMetaData", "@setDataFrame"}
	n := 0
	for _, a := range nums {
		for _, b := range nums {
			if a == b {
				continue
			}
			for when := 1; when <= 2; when++ { // the other encoder runs inside the first / the second Write
				r.Eval(1)
				n++
				var other bytes.Buffer
				w := &nestingWriter{}
				rtmp.Amf0.WriteNumber(writerArmedAt(w, when, func() { rtmp.Amf0.WriteNumber(&other, b) }), a)
				want := ref.AEncode(ref.AVal{Kind: ref.ANumber, Num: a})
				if !bytes.Equal(w.buf.Bytes(), want) {
					r.Violation("write/overlapping-encoders/number", fmt.Sprintf("WriteNumber(%v) with WriteNumber(%v) running inside its Write call %d produced %x, want %x", a, b, when, w.buf.Bytes(), want), replay{Kind: "reentrant"})
				}
			}
		}
	}
	for _, a := range strs {
		for _, b := range strs {
			if a == b {
				continue
			}
			for when := 1; when <= 3; when++ {
				r.Eval(1)
				n++
				var other bytes.Buffer
				w := &nestingWriter{}
				rtmp.Amf0.WriteString(writerArmedAt(w, when, func() { rtmp.Amf0.WriteString(&other, b) }), a)
				want := ref.AEncode(ref.AVal{Kind: ref.AString, Str: a})
				if !bytes.Equal(w.buf.Bytes(), want) {
					r.Violation("write/overlapping-encoders/string", fmt.Sprintf("WriteString(%q) with WriteString(%q) running inside its Write call %d produced %x, want %x", a, b, when, w.buf.Bytes(), want), replay{Kind: "reentrant"})
				}
			}
		}
	}
	for _, a := range []bool{false, true} {
		for when := 1; when <= 2; when++ {
			r.Eval(1)
			n++
			var other bytes.Buffer
			w := &nestingWriter{}
			rtmp.Amf0.WriteBoolean(writerArmedAt(w, when, func() { rtmp.Amf0.WriteBoolean(&other, !a) }), a)
			want := ref.AEncode(ref.AVal{Kind: ref.ABoolean, Bool: a})
			if !bytes.Equal(w.buf.Bytes(), want) {
				r.Violation("write/overlapping-encoders/boolean", fmt.Sprintf("WriteBoolean(%v) with WriteBoolean(%v) running inside its Write call %d produced %x, want %x", a, !a, when, w.buf.Bytes(), want), replay{Kind: "reentrant"})
			}
		}
	}
	r.Class(fmt.Sprintf("reentrant/cases=%d", n))
	r.Cov("overlapping_encoder_cases", n)
}

// armedWriter runs f inside its when-th Write call.
type armedWriter struct {
	w    *nestingWriter
	when int
	n    int
	f    func()
}

func (a *armedWriter) Write(p []byte) (int, error) {
	a.n++
	if a.n == a.when && a.f != nil {
		f := a.f
		a.f = nil
		f()
	}
	return a.w.buf.Write(p)
}

func writerArmedAt(w *nestingWriter, when int, f func()) *armedWriter {
	return &armedWriter{w: w, when: when, f: f}
}
