// C18 — AMF0 encode/decode is exact, total and bounded.
// Family (I): exhaustive enumeration of value trees (by node count), of all byte strings up to a
// length over the marker alphabet, of every prefix of every encoding, and of nesting families up
// to the 16 MiB message limit (each deep case in a worker subprocess: a stack overflow is a fatal
// runtime error that no recover() can catch).
package main

import (
	"bytes"
	"fmt"
	"math"
	"os"
	"os/exec"
	"strconv"
	"strings"
	"time"

	"github.com/q191201771/lal/pkg/rtmp"

	"verif/lib/lalenv"
	"verif/lib/ref"
	"verif/lib/vk"
)

type replay struct {
	Kind   string `json:"kind"`
	Reader string `json:"reader,omitempty"`
	Hex    string `json:"hex,omitempty"`
	Tree   string `json:"tree,omitempty"`
	Family string `json:"family,omitempty"`
	Depth  int    `json:"depth,omitempty"`
}

// ---- conversion lal value -> reference tree -------------------------------------------------------

func fromLal(v interface{}, kind ref.AKind) ref.AVal {
	switch x := v.(type) {
	case float64:
		return ref.AVal{Kind: ref.ANumber, Num: x}
	case bool:
		return ref.AVal{Kind: ref.ABoolean, Bool: x}
	case string:
		return ref.AVal{Kind: ref.AString, Str: x}
	case rtmp.ObjectPairArray:
		out := ref.AVal{Kind: kind}
		for _, p := range x {
			out.Pairs = append(out.Pairs, ref.APair{Key: p.Key, Val: fromLal(p.Value, 0xff)})
		}
		return out
	}
	return ref.AVal{Kind: 0xfe}
}

// sameVal compares ignoring (a) which container kind a nested lal value had (lal does not keep it)
// and (b) null/undefined/unsupported members, which lal's readers skip by design.
func sameVal(want, got ref.AVal, top bool) bool {
	switch want.Kind {
	case ref.ANumber:
		return got.Kind == ref.ANumber && math.Float64bits(want.Num) == math.Float64bits(got.Num)
	case ref.ABoolean:
		return got.Kind == ref.ABoolean && want.Bool == got.Bool
	case ref.AString:
		return got.Kind == ref.AString && want.Str == got.Str
	case ref.ANull, ref.AUndefined, ref.AUnsupported:
		return got.Kind == want.Kind
	case ref.AObject, ref.AEcmaArray, ref.AStrictArray:
		if top && got.Kind != want.Kind {
			return false
		}
		var wp []ref.APair
		for _, p := range want.Pairs {
			if p.Val.Kind == ref.ANull || p.Val.Kind == ref.AUndefined || p.Val.Kind == ref.AUnsupported {
				continue
			}
			wp = append(wp, p)
		}
		if len(wp) != len(got.Pairs) {
			return false
		}
		for i := range wp {
			k := wp[i].Key
			if want.Kind == ref.AStrictArray {
				k = ""
			}
			if k != got.Pairs[i].Key || !sameVal(wp[i].Val, got.Pairs[i].Val, false) {
				return false
			}
		}
		return true
	}
	return false
}

func guard(f func()) (p interface{}) {
	defer func() { p = recover() }()
	f()
	return nil
}

// lalDecodeVal decodes one value with the lal reader that matches its first byte.
func lalDecodeVal(b []byte) (v ref.AVal, n int, err error, ok bool) {
	if len(b) == 0 {
		return
	}
	ok = true
	switch b[0] {
	case 0:
		var f float64
		f, n, err = rtmp.Amf0.ReadNumber(b)
		v = ref.AVal{Kind: ref.ANumber, Num: f}
	case 1:
		var x bool
		x, n, err = rtmp.Amf0.ReadBoolean(b)
		v = ref.AVal{Kind: ref.ABoolean, Bool: x}
	case 2, 0x0c:
		var s string
		s, n, err = rtmp.Amf0.ReadString(b)
		v = ref.AVal{Kind: ref.AString, Str: s}
	case 5:
		n, err = rtmp.Amf0.ReadNull(b)
		v = ref.AVal{Kind: ref.ANull}
	case 3:
		var o rtmp.ObjectPairArray
		o, n, err = rtmp.Amf0.ReadObject(b)
		v = fromLal(o, ref.AObject)
	case 8:
		var o rtmp.ObjectPairArray
		o, n, err = rtmp.Amf0.ReadArray(b)
		v = fromLal(o, ref.AEcmaArray)
	case 0x0a:
		var o rtmp.ObjectPairArray
		o, n, err = rtmp.Amf0.ReadStrictArray(b)
		v = fromLal(o, ref.AStrictArray)
	default:
		ok = false
	}
	return
}

// ---- (a1) values lal itself can encode ------------------------------------------------------------

func str(n int) string {
	b := make([]byte, n)
	for i := range b {
		b[i] = byte('a' + i%23)
	}
	return string(b)
}

func lalEncode(v ref.AVal) ([]byte, bool) {
	var buf bytes.Buffer
	switch v.Kind {
	case ref.ANumber:
		rtmp.Amf0.WriteNumber(&buf, v.Num)
	case ref.ABoolean:
		rtmp.Amf0.WriteBoolean(&buf, v.Bool)
	case ref.AString:
		rtmp.Amf0.WriteString(&buf, v.Str)
	case ref.ANull:
		rtmp.Amf0.WriteNull(&buf)
	case ref.AObject:
		var opa rtmp.ObjectPairArray
		for _, p := range v.Pairs {
			switch p.Val.Kind {
			case ref.ANumber:
				opa = append(opa, rtmp.ObjectPair{Key: p.Key, Value: p.Val.Num})
			case ref.ABoolean:
				opa = append(opa, rtmp.ObjectPair{Key: p.Key, Value: p.Val.Bool})
			case ref.AString:
				opa = append(opa, rtmp.ObjectPair{Key: p.Key, Value: p.Val.Str})
			default:
				return nil, false
			}
		}
		rtmp.Amf0.WriteObject(&buf, opa)
	default:
		return nil, false
	}
	return buf.Bytes(), true
}

func leafClass(v ref.AVal) string {
	switch v.Kind {
	case ref.AString:
		switch {
		case len(v.Str) == 0:
			return "s0"
		case len(v.Str) < 65535:
			return "s"
		case len(v.Str) == 65535:
			return "s65535"
		default:
			return "slong"
		}
	case ref.ANumber:
		if math.IsNaN(v.Num) {
			return "nan"
		}
		if math.IsInf(v.Num, 0) {
			return "inf"
		}
		return "n"
	case ref.ABoolean:
		return "b"
	case ref.ANull:
		return "null"
	}
	return "?"
}

func checkEncodable(r *vk.Run, v ref.AVal) {
	r.Eval(1)
	cls := leafClass(v)
	if v.Kind == ref.AObject {
		cls = "obj"
		for _, p := range v.Pairs {
			kc := "k"
			if len(p.Key) == 0 {
				kc = "k0"
			} else if len(p.Key) == 65535 {
				kc = "kmax"
			}
			cls += "/" + kc + ":" + leafClass(p.Val)
		}
	}
	r.Class("enc/" + cls)
	if v.Kind == ref.AObject && strings.Contains(cls, "slong") {
		cls = "obj-with-long-string-value" // one defect class, whatever the other members are
	}
	enc, ok := lalEncode(v)
	if !ok {
		return
	}
	rp := replay{Kind: "encodable", Tree: v.String()}
	// spec reader on lal's bytes
	rv, rn, rerr := ref.ADecode(enc)
	if rerr != nil || rn != len(enc) || !sameStrict(v, rv) {
		r.Violation("roundtrip/spec-reader/"+cls, fmt.Sprintf("lal encoding of %v not read back by the spec reader: n=%d/%d err=%v got=%v", v, rn, len(enc), rerr, rv), rp)
	}
	// lal reader on lal's bytes
	var lv ref.AVal
	var ln int
	var lerr error
	if p := guard(func() { lv, ln, lerr, _ = lalDecodeVal(enc) }); p != nil {
		r.Violation("roundtrip/panic/"+cls, fmt.Sprintf("panic decoding lal's own encoding of %v: %v", v, p), rp)
		return
	}
	if lerr != nil || ln != len(enc) || !sameVal(v, lv, true) {
		r.Violation("roundtrip/lal-reader/"+cls, fmt.Sprintf("lal cannot read back its own encoding of %v: consumed=%d/%d err=%v got=%v", v, ln, len(enc), lerr, lv), rp)
	}
}

func sameStrict(a, b ref.AVal) bool {
	if a.Kind != b.Kind || len(a.Pairs) != len(b.Pairs) || a.Str != b.Str || a.Bool != b.Bool || math.Float64bits(a.Num) != math.Float64bits(b.Num) {
		return false
	}
	for i := range a.Pairs {
		if a.Pairs[i].Key != b.Pairs[i].Key || !sameStrict(a.Pairs[i].Val, b.Pairs[i].Val) {
			return false
		}
	}
	return true
}

func encodableValues(r *vk.Run) []ref.AVal {
	nums := []float64{0, math.Copysign(0, -1), 1.5, math.NaN(), math.Inf(1), math.Inf(-1), 1 << 53, -1}
	strs := []int{0, 1, 13, 65535, 65536, 70000}
	var leaves []ref.AVal
	for _, n := range nums {
		leaves = append(leaves, ref.AVal{Kind: ref.ANumber, Num: n})
	}
	leaves = append(leaves, ref.AVal{Kind: ref.ABoolean, Bool: true}, ref.AVal{Kind: ref.ABoolean, Bool: false})
	for _, l := range strs {
		leaves = append(leaves, ref.AVal{Kind: ref.AString, Str: str(l)})
	}
	out := append([]ref.AVal{}, leaves...)
	out = append(out, ref.AVal{Kind: ref.ANull})
	keys := []string{"", "k", str(65535)}
	var pairs []ref.APair
	for _, k := range keys {
		for _, l := range leaves {
			pairs = append(pairs, ref.APair{Key: k, Val: l})
		}
	}
	out = append(out, ref.AVal{Kind: ref.AObject})
	for _, p := range pairs {
		out = append(out, ref.AVal{Kind: ref.AObject, Pairs: []ref.APair{p}})
	}
	// pairs and triples over a reduced pair alphabet (one representative per leaf class and key class)
	var red []ref.APair
	seen := map[string]bool{}
	for _, p := range pairs {
		c := fmt.Sprint(len(p.Key)) + leafClass(p.Val)
		if !seen[c] {
			seen[c] = true
			red = append(red, p)
		}
	}
	for _, a := range red {
		for _, b := range red {
			out = append(out, ref.AVal{Kind: ref.AObject, Pairs: []ref.APair{a, b}})
		}
	}
	if !r.Quick() {
		var red2 []ref.APair
		for _, p := range red {
			if len(p.Key) <= 1 || leafClass(p.Val) == "n" {
				red2 = append(red2, p)
			}
		}
		for _, a := range red2 {
			for _, b := range red2 {
				for _, c := range red2 {
					out = append(out, ref.AVal{Kind: ref.AObject, Pairs: []ref.APair{a, b, c}})
				}
			}
		}
	}
	return out
}

// ---- (a2) trees from the reference encoder, enumerated by node count ------------------------------

func treesOfSize(n int, memo map[int][]ref.AVal) []ref.AVal {
	if t, ok := memo[n]; ok {
		return t
	}
	var out []ref.AVal
	if n == 1 {
		out = []ref.AVal{
			{Kind: ref.ANumber, Num: 1.5}, {Kind: ref.ABoolean, Bool: true}, {Kind: ref.AString, Str: "a"}, {Kind: ref.AString, Str: ""},
			{Kind: ref.ANull}, {Kind: ref.AUndefined},
			{Kind: ref.AObject}, {Kind: ref.AEcmaArray}, {Kind: ref.AStrictArray},
		}
	} else {
		// children lists: compositions of n-1 into parts, each part a tree of that size
		var lists func(rem int) [][]ref.AVal
		lists = func(rem int) [][]ref.AVal {
			if rem == 0 {
				return [][]ref.AVal{nil}
			}
			var o [][]ref.AVal
			for first := 1; first <= rem; first++ {
				for _, t := range treesOfSize(first, memo) {
					for _, rest := range lists(rem - first) {
						o = append(o, append([]ref.AVal{t}, rest...))
					}
				}
			}
			return o
		}
		for _, cl := range lists(n - 1) {
			for _, kind := range []ref.AKind{ref.AObject, ref.AEcmaArray, ref.AStrictArray} {
				v := ref.AVal{Kind: kind}
				for i, c := range cl {
					k := ""
					if kind != ref.AStrictArray {
						k = string(rune('p' + i)) // non-empty distinct keys
					}
					v.Pairs = append(v.Pairs, ref.APair{Key: k, Val: c})
				}
				out = append(out, v)
			}
		}
	}
	memo[n] = out
	return out
}

func depthOf(v ref.AVal) int {
	d := 0
	for _, p := range v.Pairs {
		if x := depthOf(p.Val); x > d {
			d = x
		}
	}
	if v.Kind == ref.AObject || v.Kind == ref.AEcmaArray || v.Kind == ref.AStrictArray {
		return d + 1
	}
	return 0
}

func checkTree(r *vk.Run, v ref.AVal) {
	enc := ref.AEncode(v)
	r.Eval(1)
	r.Class(fmt.Sprintf("tree/kind=%d/depth=%d/children=%d", v.Kind, depthOf(v), len(v.Pairs)))
	rp := replay{Kind: "tree", Hex: fmt.Sprintf("%x", enc), Tree: v.String()}
	var lv ref.AVal
	var ln int
	var lerr error
	var ok bool
	if p := guard(func() { lv, ln, lerr, ok = lalDecodeVal(enc) }); p != nil {
		r.Violation("tree/panic", fmt.Sprintf("panic decoding %v: %v", v, p), rp)
		return
	}
	if !ok {
		return // undefined at top level: lal has no reader for it
	}
	if lerr != nil || ln != len(enc) || !sameVal(v, lv, true) {
		r.Violation(fmt.Sprintf("tree/decode/kind=%d", v.Kind), fmt.Sprintf("valid AMF0 %v (hex %x): lal consumed=%d/%d err=%v got=%v", v, enc, ln, len(enc), lerr, lv), rp)
	}
	// the same bytes as a metadata body behind a short-form and a long-form @setDataFrame string
	if len(v.Pairs) <= 2 {
		checkBytes(r, append(append([]byte{}, sdf...), enc...), "sdf-prefixed")
		checkBytes(r, append(append([]byte("\x0c\x00\x00\x00\x0d@setDataFrame"), ref.AEncode(ref.AVal{Kind: ref.AString, Str: "onMetaData"})...), enc...), "longsdf-prefixed")
		checkBytes(r, append(append([]byte{}, sdf...), append(ref.AEncode(ref.AVal{Kind: ref.AString, Str: "onMetaData"}), enc...)...), "sdf-meta")
	}
	// every strict prefix: must not panic, must stay in bounds
	for cut := 0; cut < len(enc); cut++ {
		checkBytes(r, enc[:cut], "prefix")
	}
}

// ---- (b) totality on arbitrary bytes ------------------------------------------------------------------

type reader struct {
	name string
	f    func(b []byte) (n int, err error, out []byte)
}

var readers = []reader{
	{"ReadStringWithoutType", func(b []byte) (int, error, []byte) { _, n, e := rtmp.Amf0.ReadStringWithoutType(b); return n, e, nil }},
	{"ReadLongStringWithoutType", func(b []byte) (int, error, []byte) {
		_, n, e := rtmp.Amf0.ReadLongStringWithoutType(b)
		return n, e, nil
	}},
	{"ReadString", func(b []byte) (int, error, []byte) { _, n, e := rtmp.Amf0.ReadString(b); return n, e, nil }},
	{"ReadNumber", func(b []byte) (int, error, []byte) { _, n, e := rtmp.Amf0.ReadNumber(b); return n, e, nil }},
	{"ReadBoolean", func(b []byte) (int, error, []byte) { _, n, e := rtmp.Amf0.ReadBoolean(b); return n, e, nil }},
	{"ReadNull", func(b []byte) (int, error, []byte) { n, e := rtmp.Amf0.ReadNull(b); return n, e, nil }},
	{"ReadUndefinedOrUnsupported", func(b []byte) (int, error, []byte) { n, e := rtmp.Amf0.ReadUndefinedOrUnsupported(b); return n, e, nil }},
	{"ReadObject", func(b []byte) (int, error, []byte) { _, n, e := rtmp.Amf0.ReadObject(b); return n, e, nil }},
	{"ReadArray", func(b []byte) (int, error, []byte) { _, n, e := rtmp.Amf0.ReadArray(b); return n, e, nil }},
	{"ReadStrictArray", func(b []byte) (int, error, []byte) { _, n, e := rtmp.Amf0.ReadStrictArray(b); return n, e, nil }},
	{"ReadObjectOrArray", func(b []byte) (int, error, []byte) { _, n, e := rtmp.Amf0.ReadObjectOrArray(b); return n, e, nil }},
	{"ParseMetadata", func(b []byte) (int, error, []byte) { _, e := rtmp.ParseMetadata(b); return 0, e, nil }},
	{"MetadataEnsureWithSdf", func(b []byte) (int, error, []byte) { o, e := rtmp.MetadataEnsureWithSdf(b); return 0, e, o }},
	{"MetadataEnsureWithoutSdf", func(b []byte) (int, error, []byte) { o, e := rtmp.MetadataEnsureWithoutSdf(b); return 0, e, o }},
}

var sdf = []byte("\x02\x00\x0d@setDataFrame")

// otherMetas: metadata of other streams (small and ordinary, without and with the prefix) converted after a
// result has been handed out.
var otherMetas = func() [][]byte {
	small := append([]byte("\x02\x00\x0aonMetaData\x03"), []byte("\x00\x01z\x00\x40\x59\x00\x00\x00\x00\x00\x00\x00\x00\x09")...)
	big := append([]byte("\x02\x00\x0aonMetaData\x03"), bytes.Repeat([]byte("\x00\x02yy\x02\x00\x04qqqq"), 12)...)
	big = append(big, 0, 0, 9)
	return [][]byte{small, big, append(append([]byte{}, sdf...), small...)}
}()

func checkBytes(r *vk.Run, b []byte, origin string) {
	in := append([]byte{}, b...)
	for _, rd := range readers {
		r.Eval(1)
		var n int
		var err error
		var out []byte
		rp := replay{Kind: "bytes", Reader: rd.name, Hex: fmt.Sprintf("%x", b)}
		if p := guard(func() { n, err, out = rd.f(in) }); p != nil {
			r.Violation("total/panic/"+rd.name, fmt.Sprintf("%s panics on %x: %v", rd.name, b, p), rp)
			continue
		}
		if !bytes.Equal(in, b) {
			r.Violation("total/mutates-input/"+rd.name, fmt.Sprintf("%s modified its input %x", rd.name, b), rp)
			in = append([]byte{}, b...)
		}
		if n < 0 || n > len(b) {
			r.Violation("total/consumed-out-of-range/"+rd.name, fmt.Sprintf("%s on %x (len %d) reports consumed=%d err=%v", rd.name, b, len(b), n, err), rp)
		}
		res := "err"
		if err == nil {
			res = "ok"
		}
		r.Class("bytes/" + origin + "/" + rd.name + "/" + res)
		// @setDataFrame handling preserves the remaining bytes exactly
		switch rd.name {
		case "MetadataEnsureWithSdf":
			want := b
			if err == nil && !bytes.HasPrefix(b, sdf) && !isLongSdf(b) {
				want = append(append([]byte{}, sdf...), b...)
			}
			if !bytes.Equal(out, want) {
				r.Violation("sdf/with", fmt.Sprintf("MetadataEnsureWithSdf(%x) = %x, want %x (err=%v)", b, out, want, err), rp)
			}
			// the result is kept by the caller (a group caches it for later joiners): converting another
			// stream's metadata must not change it
			if err == nil && len(out) > 0 {
				held := append([]byte{}, out...)
				for _, other := range otherMetas {
					rtmp.MetadataEnsureWithSdf(other)
					rtmp.MetadataEnsureWithoutSdf(other)
				}
				if !bytes.Equal(out, held) {
					r.Violation("sdf/held-result-changed", fmt.Sprintf("the result of MetadataEnsureWithSdf(%x) changed when other metadata was converted afterwards: %x, was %x", b, out, held), rp)
				}
			}
			if err == nil {
				back, e2 := rtmp.MetadataEnsureWithoutSdf(out)
				wantBack := b
				if bytes.HasPrefix(b, sdf) {
					wantBack = b[len(sdf):]
				} else if isLongSdf(b) {
					wantBack = b[5+13:]
				}
				if e2 != nil || !bytes.Equal(back, wantBack) {
					r.Violation("sdf/roundtrip", fmt.Sprintf("WithoutSdf(WithSdf(%x)) = %x err=%v, want %x", b, back, e2, wantBack), rp)
				}
			}
		case "MetadataEnsureWithoutSdf":
			want := b
			if err == nil && bytes.HasPrefix(b, sdf) {
				want = b[len(sdf):]
			} else if err == nil && isLongSdf(b) {
				want = b[5+13:]
			}
			if !bytes.Equal(out, want) {
				r.Violation("sdf/without", fmt.Sprintf("MetadataEnsureWithoutSdf(%x) = %x, want %x (err=%v)", b, out, want, err), rp)
			}
		}
	}
	// canonical inputs (strictly valid, re-encode to themselves): lal must agree with the spec reader
	if rv, rn, rerr := ref.ADecode(b); rerr == nil && bytes.Equal(ref.AEncode(rv), b[:rn]) {
		var lv ref.AVal
		var ln int
		var lerr error
		var ok bool
		if p := guard(func() { lv, ln, lerr, ok = lalDecodeVal(b) }); p == nil && ok {
			if lerr != nil || ln != rn || !sameVal(rv, lv, true) {
				r.Violation(fmt.Sprintf("canonical/kind=%d", rv.Kind), fmt.Sprintf("canonical AMF0 %x = %v: lal consumed=%d (spec %d) err=%v got=%v", b, rv, ln, rn, lerr, lv), replay{Kind: "bytes", Reader: "value", Hex: fmt.Sprintf("%x", b)})
			}
		}
	}
}

func isLongSdf(b []byte) bool {
	return bytes.HasPrefix(b, []byte("\x0c\x00\x00\x00\x0d@setDataFrame"))
}

func allBytes(r *vk.Run, maxLen int) {
	alpha := []byte{0x00, 0x01, 0x02, 0x03, 0x05, 0x06, 0x08, 0x09, 0x0a, 0x0c, 0x0d, 0xff}
	// shard on the first two symbols
	type shard struct{ a, b int }
	var shards []shard
	for i := range alpha {
		for j := range alpha {
			shards = append(shards, shard{i, j})
		}
	}
	checkBytes(r, nil, "all")
	for i := range alpha {
		checkBytes(r, []byte{alpha[i]}, "all")
	}
	vk.Par(len(shards), 16, func(si int) {
		s := shards[si]
		buf := make([]byte, 0, maxLen)
		var rec func(cur []byte)
		rec = func(cur []byte) {
			checkBytes(r, cur, "all")
			if len(cur) == maxLen {
				return
			}
			for _, c := range alpha {
				rec(append(cur, c))
			}
		}
		rec(append(buf, alpha[s.a], alpha[s.b]))
	})
}

// mutated length / count fields of valid encodings
func mutatedFields(r *vk.Run) {
	obj := ref.AVal{Kind: ref.AObject, Pairs: []ref.APair{{"ab", ref.AVal{Kind: ref.AString, Str: "xyz"}}, {"c", ref.AVal{Kind: ref.ANumber, Num: 2}}}}
	bases := [][]byte{
		ref.AEncode(obj),
		ref.AEncode(ref.AVal{Kind: ref.AEcmaArray, Pairs: obj.Pairs}),
		ref.AEncode(ref.AVal{Kind: ref.AStrictArray, Pairs: obj.Pairs}),
		ref.AEncode(ref.AVal{Kind: ref.AString, Str: "hello"}),
		append([]byte{0x0c, 0, 0, 0, 5}, "hello"...),
		append(append([]byte{}, sdf...), ref.AEncode(ref.AVal{Kind: ref.AString, Str: "onMetaData"})...),
	}
	bases = append(bases, append(append([]byte{}, bases[5]...), bases[1]...))
	vals16 := [][]byte{{0, 0}, {0, 1}, {0xff, 0xfe}, {0xff, 0xff}}
	vals32 := [][]byte{{0, 0, 0, 0}, {0, 0, 0, 1}, {0, 0, 0xff, 0xff}, {0x7f, 0xff, 0xff, 0xff}, {0x80, 0, 0, 0}, {0xff, 0xff, 0xff, 0xff}}
	for _, b := range bases {
		for off := 0; off < len(b); off++ {
			for _, v := range vals16 {
				if off+2 <= len(b) {
					m := append([]byte{}, b...)
					copy(m[off:], v)
					checkBytes(r, m, "mutated")
				}
			}
			for _, v := range vals32 {
				if off+4 <= len(b) {
					m := append([]byte{}, b...)
					copy(m[off:], v)
					checkBytes(r, m, "mutated")
				}
			}
		}
	}
}

// ---- (c) nesting families, each in a worker process ---------------------------------------------------

func nestInput(family string, depth int) []byte {
	var b []byte
	unit := map[string][]byte{
		"object": {3, 0, 0},                   // object marker, empty key, then the nested value
		"ecma":   {8, 0, 0, 0, 1, 0, 0},       // ecma marker, count 1, empty key
		"strict": {0x0a, 0, 0, 0, 1},          // strict array of one element
		"alt":    {3, 0, 0, 0x0a, 0, 0, 0, 1}, // object containing strict array containing object ...
	}[strings.TrimPrefix(family, "meta-")]
	if strings.HasPrefix(family, "meta-") {
		b = append(b, ref.AEncode(ref.AVal{Kind: ref.AString, Str: "onMetaData"})...)
	}
	for i := 0; i < depth; i++ {
		b = append(b, unit...)
	}
	return b
}

func unitLen(family string) int { return len(nestInput(strings.TrimPrefix(family, "meta-"), 1)) }

func worker(args []string) {
	lalenv.Quiet()
	family := args[0]
	depth, _ := strconv.Atoi(args[1])
	b := nestInput(family, depth)
	var n int
	switch {
	case strings.HasPrefix(family, "meta-"):
		rtmp.ParseMetadata(b)
	case family == "ecma":
		_, n, _ = rtmp.Amf0.ReadArray(b)
	case family == "strict":
		_, n, _ = rtmp.Amf0.ReadStrictArray(b)
	default:
		_, n, _ = rtmp.Amf0.ReadObject(b)
	}
	if n < 0 || n > len(b) {
		fmt.Println("BOUNDS")
		os.Exit(3)
	}
	fmt.Println("RETURNED")
	os.Exit(0)
}

func nesting(r *vk.Run) {
	const msgLimit = 16*1024*1024 - 1
	families := []string{"object", "ecma", "strict", "alt", "meta-object", "meta-ecma"}
	type job struct {
		fam   string
		depth int
	}
	var jobs []job
	for _, f := range families {
		ds := []int{1, 2, 3, 4, 5, 6, 7, 8, 1000, 100000}
		if !r.Quick() {
			ds = append(ds, 1000000)
		}
		ds = append(ds, msgLimit/unitLen(f))
		for _, d := range ds {
			jobs = append(jobs, job{f, d})
		}
	}
	self, _ := os.Executable()
	vk.Par(len(jobs), 4, func(i int) {
		j := jobs[i]
		r.Eval(1)
		cmd := exec.Command(self, "worker", j.fam, strconv.Itoa(j.depth))
		var out bytes.Buffer
		cmd.Stdout = &out
		cmd.Stderr = &out
		done := make(chan error, 1)
		cmd.Start()
		go func() { done <- cmd.Wait() }()
		var err error
		timedOut := false
		select {
		case err = <-done:
		case <-time.After(10 * time.Minute):
			cmd.Process.Kill()
			<-done
			timedOut = true
		}
		s := out.String()
		dc := "small"
		if j.depth >= 1000 {
			dc = "1e3+"
		}
		if j.depth >= 1000000 {
			dc = "1e6+"
		}
		res := "returned"
		switch {
		case timedOut:
			res = "timeout"
		case strings.Contains(s, "stack overflow") || strings.Contains(s, "stack exceeds"):
			res = "stack-overflow"
		case err != nil || !strings.Contains(s, "RETURNED"):
			res = "died"
		}
		r.Class("nest/" + j.fam + "/" + dc + "/" + res)
		if res != "returned" {
			if len(s) > 300 {
				s = s[:300]
			}
			// the deep-nesting finding is one defect (unbounded mutual recursion of the container
			// readers); the key names the failure mode, the family is in the message
			r.Violation("nest/"+res, fmt.Sprintf("family=%s depth=%d (%d bytes, below the 16 MiB message limit): worker %s: %s", j.fam, j.depth, j.depth*unitLen(j.fam), res, strings.ReplaceAll(s, "\n", " | ")),
				replay{Kind: "nest", Family: j.fam, Depth: j.depth})
		}
	})
}

// ---- (d) BuildMetadata ----------------------------------------------------------------------------------

func buildMetadata(r *vk.Run) {
	ws := []int{-1, 0, 1, 1920, math.MaxInt32}
	cs := []int{-1, 7, 10, 12}
	for _, w := range ws {
		for _, h := range ws {
			for _, a := range cs {
				for _, v := range cs {
					r.Eval(1)
					rp := replay{Kind: "buildmeta", Tree: fmt.Sprint(w, h, a, v)}
					b, err := rtmp.BuildMetadata(w, h, a, v)
					if err != nil {
						r.Violation("buildmeta/err", fmt.Sprintf("BuildMetadata(%d,%d,%d,%d): %v", w, h, a, v, err), rp)
						continue
					}
					opa, err := rtmp.ParseMetadata(b)
					if err != nil {
						r.Violation("buildmeta/parse", fmt.Sprintf("ParseMetadata(BuildMetadata(%d,%d,%d,%d)): %v", w, h, a, v, err), rp)
						continue
					}
					for _, f := range []struct {
						k string
						v int
					}{{"width", w}, {"height", h}, {"audiocodecid", a}, {"videocodecid", v}} {
						got, e := opa.FindNumber(f.k)
						if f.v == -1 {
							if e == nil {
								r.Violation("buildmeta/extra-field", fmt.Sprintf("field %s present though built with -1", f.k), rp)
							}
						} else if e != nil || got != f.v {
							r.Violation("buildmeta/field", fmt.Sprintf("BuildMetadata(%d,%d,%d,%d): field %s reads back %d err=%v", w, h, a, v, f.k, got, e), rp)
						}
					}
					// and the spec reader sees string "onMetaData" followed by one object
					s, n, e1 := ref.ADecode(b)
					o, m, e2 := ref.ADecode(b[n:])
					if e1 != nil || e2 != nil || s.Str != "onMetaData" || o.Kind != ref.AObject || n+m != len(b) {
						r.Violation("buildmeta/spec", fmt.Sprintf("BuildMetadata(%d,%d,%d,%d) is not string+object for the spec reader", w, h, a, v), rp)
					}
					r.Class(fmt.Sprintf("buildmeta/w%v/h%v/a%v/v%v", w == -1, h == -1, a == -1, v == -1))
				}
			}
		}
	}
}

func main() {
	if len(os.Args) > 1 && os.Args[1] == "worker" {
		worker(os.Args[2:])
	}
	r := vk.Start("C18", "exploration")
	lalenv.Quiet()
	r.Rule("cases: (a1) every value lal's writers can encode over the leaf/key alphabets, flat objects of <=2 (quick) / <=3 pairs; (a2) every AMF0 tree with <= N nodes over 6 leaf kinds x 3 container kinds from the reference encoder, plus every strict prefix of each; (b) every byte string of length <= L over the 12-symbol marker alphabet and every 16/32-bit field mutation of 7 valid encodings, through all 14 exported readers; (c) 6 nesting families x depths up to the 16 MiB message limit, each in a worker process; (d) BuildMetadata over 5x5x4x4 arguments. distinct_nontrivial = distinct (origin, reader, ok/err) triples + tree shapes (kind, depth, children) + encodable classes + nesting (family, depth class, outcome)")
	r.Assume("reference AMF0 codec lib/ref/amf0.go written from the AMF0 specification",
		"lal's readers skip null/undefined/unsupported members by design; equality is modulo those members and modulo the container kind of nested values (not retained by ObjectPairArray)",
		"agreement with the spec reader is demanded only on canonical inputs (strictly valid and re-encoding to themselves)")
	if r.ReplayIn != "" {
		var rp replay
		r.LoadReplay(&rp)
		switch rp.Kind {
		case "bytes", "tree":
			b := unhex(rp.Hex)
			checkBytes(r, b, "replay")
			if v, _, err := ref.ADecode(b); err == nil && rp.Kind == "tree" {
				checkTree(r, v)
			}
		case "reentrant":
			reentrantWriters(r)
		case "nest":
			self, _ := os.Executable()
			out, err := exec.Command(self, "worker", rp.Family, strconv.Itoa(rp.Depth)).CombinedOutput()
			if err != nil || !strings.Contains(string(out), "RETURNED") {
				s := string(out)
				if len(s) > 300 {
					s = s[:300]
				}
				res := "died"
				if strings.Contains(s, "stack") {
					res = "stack-overflow"
				}
				r.Violation("nest/"+res, fmt.Sprintf("family=%s depth=%d: %s", rp.Family, rp.Depth, s), rp)
			}
		default:
			for _, v := range encodableValues(r) {
				checkEncodable(r, v)
			}
			buildMetadata(r)
		}
		r.Finish()
	}
	r.SetBudget(4*time.Minute, 60*time.Minute)

	vals := encodableValues(r)
	r.Cov("encodable_values", len(vals))
	vk.Par(len(vals), 16, func(i int) { checkEncodable(r, vals[i]) })
	r.Sample(map[string]string{"encodable": vals[len(vals)/2].String()})

	maxNodes := 4
	maxLen := 4
	if !r.Quick() {
		maxNodes = 5
		maxLen = 6
	}
	memo := map[int][]ref.AVal{}
	total := 0
	for n := 1; n <= maxNodes; n++ {
		ts := treesOfSize(n, memo)
		total += len(ts)
		vk.Par(len(ts), 16, func(i int) { checkTree(r, ts[i]) })
		if n == maxNodes {
			r.Sample(map[string]string{"tree": ts[len(ts)/2].String(), "hex": fmt.Sprintf("%x", ref.AEncode(ts[len(ts)/2]))})
		}
	}
	r.Cov("trees", total)
	r.Cov("max_tree_nodes", maxNodes)

	allBytes(r, maxLen)
	r.Cov("byte_string_max_len", maxLen)
	r.Sample(map[string]string{"bytes": "all strings of length <= " + strconv.Itoa(maxLen) + " over {00,01,02,03,05,06,08,09,0a,0c,0d,ff}"})
	mutatedFields(r)
	buildMetadata(r)
	reentrantWriters(r)
	nesting(r)
	r.Sample(map[string]interface{}{"nest": "family=object depth=5592405 (16 MiB)"})
	r.Finish()
}

func unhex(s string) []byte {
	b := make([]byte, len(s)/2)
	for i := range b {
		x, _ := strconv.ParseUint(s[2*i:2*i+2], 16, 8)
		b[i] = byte(x)
	}
	return b
}
