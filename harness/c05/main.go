// C05 — no published media payload can terminate or stall the server.
// Family (I)+(S): an accepted publisher sends sequences of <= 3 well-framed messages drawn from an
// exhaustive payload-shape alphabet (type x first bytes x length x tail x timestamp), with every
// output enabled, subscribers of each protocol present and joining later, and a second healthy
// stream; each case runs in a worker subprocess. Oracle: no panic / death / hang, bounded work per
// message, the healthy stream keeps flowing.
package main

import (
	"encoding/hex"
	"encoding/json"
	"fmt"
	"github.com/q191201771/lal/pkg/remux"
	"os"
	"strings"
	"sync"
	"time"

	"verif/lib/lalenv"
	"verif/lib/protox"
	"verif/lib/ref"
	"verif/lib/sw"
	"verif/lib/vk"
	"verif/lib/world"
)

type msg struct {
	Type uint8  `json:"type"`
	Ts   uint32 `json:"ts"`
	Hex  string `json:"hex"`
}

type caseData struct {
	Prefix string `json:"prefix"` // none | headers | headers+key
	Conf   string `json:"conf"`   // all | all+dummy | rtmp | flv | ts | hls | rtsp | record | dummy
	Via    string `json:"via"`    // rtmp | customize
	Msgs   []msg  `json:"msgs"`
}

func confOf(name string) world.Conf {
	// "+spspps": the package option remux.RtspRemuxerAddSpsPps2KeyFrameFlag is on for the case (set by the runner)
	name = strings.TrimSuffix(name, "+spspps")
	dir := os.Getenv("VERIF_SCRATCH")
	if dir == "" {
		dir = os.TempDir()
	}
	all := world.Conf{"hls.enable": true, "rtsp.enable": true, "record.enable_flv": true, "record.enable_mpegts": true,
		"record.flv_out_path": dir + "/flv/", "record.mpegts_out_path": dir + "/ts/", "_hook": true,
		"rtmp.gop_num": 1, "httpflv.gop_num": 1, "httpts.gop_num": 1}
	switch name {
	case "all":
		return all
	case "all+dummy":
		all["in_session.add_dummy_audio_enable"] = true
		return all
	case "rtmp":
		return world.Conf{"httpflv.enable": false, "httpts.enable": false, "rtmp.gop_num": 2}
	case "flv":
		return world.Conf{"httpts.enable": false, "httpflv.gop_num": 2}
	case "ts":
		return world.Conf{"httpflv.enable": false, "httpts.gop_num": 1}
	case "hls":
		return world.Conf{"httpflv.enable": false, "httpts.enable": false, "hls.enable": true}
	case "rtsp":
		return world.Conf{"httpflv.enable": false, "httpts.enable": false, "rtsp.enable": true}
	case "record":
		return world.Conf{"record.enable_flv": true, "record.enable_mpegts": true, "record.flv_out_path": dir + "/flv/", "record.mpegts_out_path": dir + "/ts/"}
	case "dummy":
		return world.Conf{"in_session.add_dummy_audio_enable": true}
	}
	panic(name)
}

// slowMessage: a single message of a few bytes is processed in well under a millisecond; one that
// keeps a 16-worker machine busy for this long is a candidate for "not bounded by its size". A
// candidate is only reported if it is as slow again, twice, when it is run alone afterwards.
const slowMessage = 2 * time.Second

var (
	slowMu    sync.Mutex
	slowCases []protox.Case
)

func runCase(c protox.Case) (res protox.Result) {
	var d caseData
	json.Unmarshal(c.Data, &d)
	conf := confOf(d.Conf)
	remux.RtspRemuxerAddSpsPps2KeyFrameFlag = strings.HasSuffix(d.Conf, "+spspps") // (cases of a worker run one after the other)
	w := world.New(conf)
	w.Net.QuiesceTimeout = 30 * time.Second
	defer w.Close()
	fail := func(err error, where string) bool {
		if err != nil {
			res.Hang = where + ": " + err.Error()
			return true
		}
		return false
	}
	// healthy second stream
	hp, err := w.RtmpPublisher("live", "healthy")
	if fail(err, "healthy publisher") {
		return
	}
	hs, err := w.RtmpPlayer("live", "healthy")
	if fail(err, "healthy player") {
		return
	}
	// subscribers present from the start
	httpOn := func(k string) bool { v, ok := conf[k].(bool); return !ok || v }
	var subs []*world.HttpPeer
	var rsub *world.RtmpPeer
	rsub, err = w.RtmpPlayer("live", "victim")
	if fail(err, "rtmp sub") {
		return
	}
	if httpOn("httpflv.enable") {
		p, err := w.HttpSub("/live/victim.flv", false)
		if fail(err, "flv sub") {
			return
		}
		subs = append(subs, p)
	}
	if httpOn("httpts.enable") {
		p, err := w.HttpSub("/live/victim.ts", false)
		if fail(err, "ts sub") {
			return
		}
		subs = append(subs, p)
	}
	var feed func(m ref.Msg) error
	var closePub func()
	if d.Via == "customize" {
		ctx, err := w.SM.AddCustomizePubSession("victim")
		if err != nil {
			res.Other, res.OtherK = "customize pub refused: "+err.Error(), "harness"
			return
		}
		feed = func(m ref.Msg) error {
			w.Net.Async(func() { ctx.FeedRtmpMsg(world.BaseRtmpMsg(m)) })
			return w.Settle()
		}
		closePub = func() { w.SM.DelCustomizePubSession(ctx) }
	} else {
		pub, err := w.RtmpPublisher("live", "victim")
		if fail(err, "victim publisher") {
			return
		}
		feed = func(m ref.Msg) error {
			pub.SendMsgs(m)
			return w.Settle()
		}
		closePub = func() { pub.Close() }
	}
	var rtspSubConn func() int
	writesAll := func() int {
		n := rsub.Conn.Writes()
		if rtspSubConn != nil {
			n += rtspSubConn()
		}
		for _, s := range subs {
			n += s.Conn.Writes()
		}
		return n
	}
	send := func(typ uint8, ts uint32, p []byte, label string) bool {
		csid := 6
		if typ == 8 {
			csid = 4
		}
		before := writesAll()
		t0 := time.Now()
		if fail(feed(ref.Msg{Csid: csid, Type: typ, Msid: 1, Ts: ts, Payload: p}), label) {
			return false
		}
		el := time.Since(t0)
		if p := w.Net.FirstPanic(); p != "" {
			res.Panic = p
			return false
		}
		if el > slowMessage && res.OtherK == "" {
			// not believed yet: the parent repeats the case alone before it reports anything
			res.Other = fmt.Sprintf("%s (type %d, %d bytes, ts %d) took %s to process", label, typ, len(p), ts, el.Round(time.Millisecond))
			res.OtherK = "slow-message"
		}
		wr := writesAll() - before
		// bounded work: a message is relayed with a number of writes proportional to its size
		// (chunks / TS packets / RTP packets), never to its timestamp
		if wr > 400+len(p)/20 {
			res.Other = fmt.Sprintf("%s (type %d, %d bytes, ts %d) caused %d socket writes (%s)", label, typ, len(p), ts, wr, el)
			res.OtherK = "unbounded-work"
			return false
		}
		return true
	}
	var rtspSub *world.RtspPeer
	joinRtsp := func() bool {
		if on, _ := conf["rtsp.enable"].(bool); !on {
			return true
		}
		// an RTSP player (it can only be described once the sequence headers are known); without a key
		// frame in the prefix it is playing and still waiting for one when the hostile message arrives
		rtspSub, err = w.RtspPlayer("rtsp://h/live/victim", nil)
		if fail(err, "rtsp player") {
			return false
		}
		rtspSubConn = func() int { return rtspSub.Conn.Writes() }
		return true
	}
	switch d.Prefix {
	case "headers", "headers+key":
		if !send(18, 0, sw.MakeMsg("metasdf", 0, 0, 0).Payload, "prefix metadata") || !send(9, 0, sw.MakeMsg("vsh", 1, 0, 0).Payload, "prefix vsh") || !send(8, 0, sw.MakeMsg("ash", 2, 0, 0).Payload, "prefix ash") {
			return
		}
		if !joinRtsp() {
			return
		}
		if d.Prefix == "headers+key" {
			if !send(9, 40, sw.MakeMsg("key", 3, 40, 64).Payload, "prefix key") || !send(8, 40, sw.MakeMsg("aac", 4, 40, 32).Payload, "prefix aac") || !send(9, 400, sw.MakeMsg("inter", 5, 400, 64).Payload, "prefix inter") {
				return
			}
		}
	case "eheaders", "eheaders+key": // H.265 in enhanced-RTMP form (fourcc hvc1)
		eh := append([]byte{0x90, 'h', 'v', 'c', '1'}, hevcSeqHeader()[5:]...)
		if !send(9, 0, eh, "prefix enhanced hevc vsh") || !send(8, 0, sw.MakeMsg("ash", 2, 0, 0).Payload, "prefix ash") {
			return
		}
		if !joinRtsp() {
			return
		}
		if d.Prefix == "eheaders+key" {
			if !send(9, 40, enhFrame(0x91, hevcFrame(0x1c, 19<<1, 64)[5:]), "prefix enhanced hevc key") || !send(8, 40, sw.MakeMsg("aac", 4, 40, 32).Payload, "prefix aac") || !send(9, 400, enhFrame(0xa1, hevcFrame(0x2c, 1<<1, 64)[5:]), "prefix enhanced hevc inter") {
				return
			}
		}
	case "hheaders", "hheaders+key": // the same with an H.265 stream
		if !send(9, 0, hevcSeqHeader(), "prefix hevc vsh") || !send(8, 0, sw.MakeMsg("ash", 2, 0, 0).Payload, "prefix ash") {
			return
		}
		if !joinRtsp() {
			return
		}
		if d.Prefix == "hheaders+key" {
			if !send(9, 40, hevcFrame(0x1c, 19<<1, 64), "prefix hevc key") || !send(8, 40, sw.MakeMsg("aac", 4, 40, 32).Payload, "prefix aac") || !send(9, 400, hevcFrame(0x2c, 1<<1, 64), "prefix hevc inter") {
				return
			}
		}
	}
	for i, m := range d.Msgs {
		p, _ := hex.DecodeString(m.Hex)
		if !send(m.Type, m.Ts, p, fmt.Sprintf("hostile message %d", i)) {
			return
		}
	}
	// a subscriber joining after the hostile messages, and one more (healthy-shaped) message
	late, err := w.RtmpPlayer("live", "victim")
	if fail(err, "late rtmp sub") {
		return
	}
	_ = late
	if httpOn("httpflv.enable") {
		if _, err := w.HttpSub("/live/victim.flv", false); fail(err, "late flv sub") {
			return
		}
	}
	if httpOn("httpts.enable") {
		if _, err := w.HttpSub("/live/victim.ts", false); fail(err, "late ts sub") {
			return
		}
	}
	lastTs := uint32(1000)
	if len(d.Msgs) > 0 {
		lastTs = d.Msgs[len(d.Msgs)-1].Ts + 40
	}
	followUp := sw.MakeMsg("key", 9, lastTs, 64).Payload
	if strings.HasPrefix(d.Prefix, "hheaders") {
		followUp = hevcFrame(0x1c, 19<<1, 64)
	}
	if strings.HasPrefix(d.Prefix, "eheaders") {
		followUp = enhFrame(0x91, hevcFrame(0x1c, 19<<1, 64)[5:])
	}
	if !send(9, lastTs, followUp, "follow-up key frame") {
		return
	}
	if fail(w.Tick(), "tick") {
		return
	}
	// the healthy stream still flows
	hm := sw.MakeMsg("aac", 77, 5, 16)
	hp.SendMsgs(ref.Msg{Csid: 4, Type: 8, Msid: 1, Ts: 5, Payload: hm.Payload})
	if fail(w.Settle(), "healthy publish") {
		return
	}
	ok := false
	for _, x := range hs.Pump() {
		if x.Type == 8 && string(x.Payload) == string(hm.Payload) {
			ok = true
		}
	}
	if !ok {
		res.Probe = "the healthy stream's subscriber did not receive its message"
	}
	closePub()
	if fail(w.Settle(), "publisher leaves") {
		return
	}
	if p := w.Net.FirstPanic(); p != "" {
		res.Panic = p
	}
	res.Class = "ok"
	return
}

func pay(first byte, second int, length int, tail string) []byte {
	p := make([]byte, length)
	if length > 0 {
		p[0] = first
	}
	if length > 1 && second >= 0 {
		p[1] = byte(second)
	}
	// bytes 2..4 composition time / fourcc; from 5 on: NAL length field etc.
	put := func(off int, b ...byte) {
		for i, x := range b {
			if off+i < length {
				p[off+i] = x
			}
		}
	}
	switch tail {
	case "zeros":
	case "nal0":
		put(5, 0, 0, 0, 0)
	case "nal1":
		put(5, 0, 0, 0, 1, 0x65)
	case "nal-exact":
		if length > 9 {
			n := length - 9
			put(5, byte(n>>24), byte(n>>16), byte(n>>8), byte(n), 0x65)
		}
	case "nal-over":
		n := length
		put(5, byte(n>>24), byte(n>>16), byte(n>>8), byte(n), 0x65)
	case "nal-max":
		put(5, 0x7f, 0xff, 0xff, 0xff, 0x65)
	case "nal-ff":
		put(5, 0xff, 0xff, 0xff, 0xff, 0x65)
	case "hvc1":
		put(1, 'h', 'v', 'c', '1')
		put(5, 0, 0, 0, 0, 0, 1, 0x26)
	case "av01":
		put(1, 'a', 'v', '0', '1')
	case "ones":
		for i := 2; i < length; i++ {
			p[i] = 0xff
		}
	}
	return p
}

func mk(prefix, conf, via string, ms ...msg) protox.Case {
	d, _ := json.Marshal(caseData{Prefix: prefix, Conf: conf, Via: via, Msgs: ms})
	k := prefix + "/" + conf + "/" + via
	for _, m := range ms {
		h := m.Hex
		if len(h) > 4 {
			h = h[:4]
		}
		k += fmt.Sprintf("/t%d:%s:len%d", m.Type, h[:minI(2, len(h))], len(m.Hex)/2)
	}
	return protox.Case{Key: k, Data: d}
}

func minI(a, b int) int {
	if a < b {
		return a
	}
	return b
}

func buildCases(r *vk.Run) []protox.Case {
	var cs []protox.Case
	quick := r.Quick()
	lengths := []int{1, 2, 3, 4, 5, 6, 8, 9, 10, 12, 16}
	seconds := []int{0, 1, 2, 3, 0xff}
	tails := []string{"zeros", "nal0", "nal1", "nal-exact", "nal-over", "nal-max", "nal-ff", "hvc1", "av01", "ones"}
	tss := []uint32{0, 40, 0xFFFFFF, 0x7FFFFFFF, 0xFFFFFFFF}
	prefixes := []string{"none", "headers", "headers+key"}
	// depth 1: type x payload[0] x payload[1] x length x tail, for the all-outputs config
	for _, typ := range []uint8{8, 9, 18} {
		for f := 0; f < 256; f++ {
			if quick && typ != 9 && f%8 != 0 && f != 0xaf && f != 0x72 && f != 0x82 {
				continue
			}
			for _, sec := range seconds {
				for _, l := range lengths {
					if quick && (l == 3 || l == 4 || l == 10 || l == 12) {
						continue
					}
					for ti, tail := range tails {
						if l < 6 && ti > 0 && tail != "hvc1" && tail != "av01" && tail != "ones" {
							continue // NAL-length tails need at least 6 bytes
						}
						if typ != 9 && ti > 0 && tail != "ones" {
							continue
						}
						if quick && f != 0x17 && f != 0x27 && f != 0x1c && f != 0x2c && f&0x80 == 0 && ti > 0 {
							continue
						}
						p := pay(byte(f), sec, l, tail)
						for pi, pre := range prefixes {
							if quick && pi == 1 {
								continue
							}
							cs = append(cs, mk(pre, "all", "rtmp", msg{typ, 40, hex.EncodeToString(p)}))
						}
					}
				}
			}
		}
	}
	// truncated sequence headers / metadata at every offset, real frames with lying NAL lengths
	vsh := sw.MakeMsg("vsh", 1, 0, 0).Payload
	ash := sw.MakeMsg("ash", 1, 0, 0).Payload
	meta := sw.MakeMsg("metasdf", 1, 0, 0).Payload
	hvsh := hevcSeqHeader()
	for _, conf := range []string{"all", "all+dummy"} {
		for _, pre := range []string{"none", "headers+key"} {
			for cut := 0; cut <= len(vsh); cut++ {
				cs = append(cs, mk(pre, conf, "rtmp", msg{9, 40, hex.EncodeToString(vsh[:cut])}))
			}
			for cut := 0; cut <= len(hvsh); cut++ {
				cs = append(cs, mk(pre, conf, "rtmp", msg{9, 40, hex.EncodeToString(hvsh[:cut])}))
				e := append([]byte{0x90, 'h', 'v', 'c', '1'}, hvsh[5:]...)
				if cut <= len(e) {
					cs = append(cs, mk(pre, conf, "rtmp", msg{9, 40, hex.EncodeToString(e[:cut])}))
				}
			}
			for cut := 0; cut <= len(ash); cut++ {
				cs = append(cs, mk(pre, conf, "rtmp", msg{8, 40, hex.EncodeToString(ash[:cut])}))
			}
			for cut := 0; cut <= len(meta); cut++ {
				cs = append(cs, mk(pre, conf, "rtmp", msg{18, 40, hex.EncodeToString(meta[:cut])}))
			}
		}
	}
	// sequence headers whose SPS is a 4-byte prefix + every string of <= 2 bytes over a bit-pattern
	// alphabet (exp-Golomb codes ending exactly at the buffer end, runs of zeros, ...)
	bits := []byte{0x00, 0x01, 0x02, 0x04, 0x08, 0x10, 0x20, 0x40, 0x80, 0xc0, 0xe0, 0xf0, 0xf8, 0xfc, 0xfe, 0xff}
	var tails2 [][]byte
	tails2 = append(tails2, nil)
	for _, a := range bits {
		tails2 = append(tails2, []byte{a})
		for _, b := range bits {
			tails2 = append(tails2, []byte{a, b})
		}
	}
	for _, prof := range []byte{66, 100} {
		for _, t := range tails2 {
			sps := append([]byte{0x67, prof, 0x00, 0x1f}, t...)
			h := []byte{0x17, 0, 0, 0, 0, 1, prof, 0, 0x1f, 0xff, 0xe1, 0, byte(len(sps))}
			h = append(append(h, sps...), 1, 0, 4, 0x68, 0xce, 0x3c, 0x80)
			cs = append(cs, mk("none", "all", "rtmp", msg{9, 0, hex.EncodeToString(h)}))
		}
	}
	// timestamps: jumps forward / backward / wrap, with dummy audio on and off, every single-output config
	key := sw.MakeMsg("key", 1, 0, 64).Payload
	inter := sw.MakeMsg("inter", 2, 0, 64).Payload
	aac := sw.MakeMsg("aac", 3, 0, 32).Payload
	confs := []string{"all", "all+dummy", "dummy", "rtmp", "flv", "ts", "hls", "rtsp", "record"}
	for _, conf := range confs {
		for _, t1 := range tss {
			for _, t2 := range tss {
				for _, kind := range [][]byte{key, inter, aac} {
					typ := uint8(9)
					if kind[0] == 0xaf {
						typ = 8
					}
					cs = append(cs, mk("headers+key", conf, "rtmp", msg{typ, t1, hex.EncodeToString(kind)}, msg{9, t2, hex.EncodeToString(inter)}))
				}
			}
		}
		// video only (no audio at all): the dummy-audio generator takes over
		for _, t2 := range tss {
			cs = append(cs, mk("none", conf, "rtmp", msg{9, 0, hex.EncodeToString(vsh)}, msg{9, 0, hex.EncodeToString(key)}, msg{9, 200, hex.EncodeToString(inter)}, msg{9, t2, hex.EncodeToString(inter)}))
		}
	}
	// depth 2-3 over a representative subset, each single-output config, and through customize pub
	var rep []msg
	for _, f := range []byte{0x17, 0x27, 0x1c, 0x2c, 0x90, 0xa1, 0xaf, 0x72, 0xd2, 0x00, 0xff} {
		for _, l := range []int{1, 2, 5, 9} {
			typ := uint8(9)
			if f == 0xaf || f == 0x72 || f == 0xd2 {
				typ = 8
			}
			rep = append(rep, msg{typ, 40, hex.EncodeToString(pay(f, 1, l, "nal-over"))})
			rep = append(rep, msg{typ, 40, hex.EncodeToString(pay(f, 0, l, "zeros"))})
		}
	}
	rep = append(rep, msg{18, 40, ""}, msg{18, 40, "02"}, msg{9, 40, hex.EncodeToString(vsh[:12])}, msg{8, 40, hex.EncodeToString(ash[:3])})
	for _, conf := range confs {
		for _, a := range rep {
			cs = append(cs, mk("none", conf, "rtmp", a))
			cs = append(cs, mk("headers+key", conf, "customize", a))
			if quick && conf != "all" && conf != "all+dummy" {
				continue
			}
			for _, b := range rep {
				cs = append(cs, mk("headers", conf, "rtmp", a, b))
				if !quick && conf == "all" {
					for _, c := range rep[:20] {
						cs = append(cs, mk("none", conf, "rtmp", a, b, c))
					}
				}
			}
		}
	}
	// short NAL units: every value of the NAL header byte (all NAL types incl. the RTP aggregation /
	// fragmentation types 24-29 and 48-49, which the RTP packer and the key-frame gate of RTSP
	// subscribers look into) x NAL lengths 1-3 x second byte, AVC and HEVC, with and without a key
	// frame before (an RTSP player that is playing and still waiting for one, or already fed)
	for _, codec := range []struct {
		pre   string
		first []byte
	}{{"headers", []byte{0x17, 0x27}}, {"hheaders", []byte{0x1c, 0x2c}}} {
		for _, pre := range []string{codec.pre, codec.pre + "+key"} {
			for _, first := range codec.first {
				for h := 0; h < 256; h++ {
					for _, rest := range [][]byte{{}, {0x00}, {0x80}, {0xff}, {0x01, 0x80}, {0x00, 0x01, 0x65}} {
						if quick && first&0xf0 == 0x10 && len(rest) > 1 {
							continue
						}
						nal := append([]byte{byte(h)}, rest...)
						p := []byte{first, 1, 0, 0, 0, 0, 0, 0, byte(len(nal))}
						p = append(p, nal...)
						cs = append(cs, mk(pre, "all", "rtmp", msg{9, 440, hex.EncodeToString(p)}))
						if !quick || h%16 == 8 || h%16 == 12 {
							// two such NALs in one message
							q := append(append([]byte{}, p...), 0, 0, 0, byte(len(nal)))
							q = append(q, nal...)
							cs = append(cs, mk(pre, "all", "rtmp", msg{9, 440, hex.EncodeToString(q)}))
						}
					}
				}
			}
		}
	}
	// the same short units with the package option that makes the RTSP remuxer prepend the parameter sets
	// to key frames, and enhanced-RTMP H.265 messages (packet types 0-15, key and inter) with every body of
	// <= 8 bytes over a length-field alphabet, with the option off and on
	for _, codec := range []struct {
		pre   string
		first []byte
	}{{"headers", []byte{0x17, 0x27}}, {"hheaders", []byte{0x1c, 0x2c}}} {
		for _, pre := range []string{codec.pre, codec.pre + "+key"} {
			for _, first := range codec.first {
				for h := 0; h < 256; h++ {
					if quick && h%4 != 0 && h != 0x65 && h != 0x67 && h != 0x26 && h != 0x27 {
						continue
					}
					for _, rest := range [][]byte{{}, {0x80}} {
						nal := append([]byte{byte(h)}, rest...)
						p := append([]byte{first, 1, 0, 0, 0, 0, 0, 0, byte(len(nal))}, nal...)
						cs = append(cs, mk(pre, "all+spspps", "rtmp", msg{9, 440, hex.EncodeToString(p)}))
					}
				}
			}
		}
	}
	var bodies [][]byte
	for l := 0; l <= 8; l++ {
		for _, pat := range [][]byte{{0, 0, 0, 1, 0x26, 0x01, 0x80, 0x80}, {0, 0, 0, 0, 0, 0, 0, 0}, {0xff, 0xff, 0xff, 0xff, 0xff, 0xff, 0xff, 0xff}, {0, 0, 0, 2, 0x26, 0x01, 0, 0}, {0, 0, 0, 4, 0x02, 0x01, 0x80, 0x80}} {
			bodies = append(bodies, pat[:l])
		}
	}
	for _, conf := range []string{"all", "all+spspps"} {
		for _, pre := range []string{"none", "eheaders", "eheaders+key"} {
			for _, ft := range []byte{0x90, 0xa0, 0xd0} {
				for pt := byte(0); pt < 16; pt++ {
					if quick && pt > 5 && pt != 15 {
						continue
					}
					for _, b := range bodies {
						p := append([]byte{ft | pt, 'h', 'v', 'c', '1'}, b...)
						cs = append(cs, mk(pre, conf, "rtmp", msg{9, 440, hex.EncodeToString(p)}))
					}
				}
			}
			// and the fourcc itself cut short / unknown
			for _, p := range [][]byte{{0x91}, {0x91, 'h'}, {0x91, 'h', 'v', 'c'}, {0x91, 'a', 'v', '0', '1', 0, 0, 0, 0}, {0x91, 'x', 'x', 'x', 'x', 0, 0, 0, 0, 0, 0, 0, 1, 0x26}} {
				cs = append(cs, mk(pre, conf, "rtmp", msg{9, 440, hex.EncodeToString(p)}))
			}
		}
	}
	// H.264 sequence headers whose SPS announces more than it holds: for every ue / se element of two
	// SPS templates (baseline with pic_order_cnt_type 1; high profile with scaling matrix, cropping and
	// VUI), the elements before it as in the template, that element set to a huge value, and the SPS
	// ending right there (emulation-prevention bytes inserted as the syntax demands). A parser that loops
	// over a count it has just read must stop when the data does.
	for _, sps := range lyingSps() {
		h := []byte{0x17, 0, 0, 0, 0, 1, sps[1], sps[2], sps[3], 0xff, 0xe1, byte(len(sps) >> 8), byte(len(sps))}
		h = append(append(h, sps...), 1, 0, 4, 0x68, 0xce, 0x3c, 0x80)
		cs = append(cs, mk("none", "all", "rtmp", msg{9, 0, hex.EncodeToString(h)}))
		cs = append(cs, mk("headers+key", "all", "rtmp", msg{9, 440, hex.EncodeToString(h)}))
	}
	// H.265 sequence headers that are not a decoder configuration record: lal then looks for Annex-B
	// start codes in them. Every string of <= 4 (quick) / 5 (thorough) segments over {4-byte start code,
	// 3-byte start code, VPS / SPS / PPS NAL header, a payload byte, a zero byte} after the 5-byte tag
	// header, padded in front to both sides of the 33-byte length guard
	segs := [][]byte{{0, 0, 0, 1}, {0, 0, 1}, {0x40, 0x01}, {0x42, 0x01}, {0x44, 0x01}, {0xaa}, {0x00}}
	maxSeg := 4
	if !quick {
		maxSeg = 5
	}
	var gen func(cur []byte, n int)
	gen = func(cur []byte, n int) {
		for _, pad := range []int{0, 12, 28, 40} {
			b := []byte{0x1c, 0, 0, 0, 0}
			for i := 0; i < pad; i++ {
				b = append(b, 0xaa)
			}
			b = append(b, cur...)
			for _, pre := range []string{"none", "hheaders+key"} {
				if quick && pre != "none" && pad != 28 {
					continue
				}
				cs = append(cs, mk(pre, "all", "rtmp", msg{9, 440, hex.EncodeToString(b)}))
			}
		}
		if n == maxSeg {
			return
		}
		for _, sg := range segs {
			gen(append(append([]byte{}, cur...), sg...), n+1)
		}
	}
	gen(nil, 0)
	return cs
}

// enhFrame: an enhanced-RTMP hvc1 message: first byte (0x80 | frame type << 4 | packet type), the fourcc,
// a 3-byte composition time when the packet type is 1 (CodedFrames), then the body.
func enhFrame(first byte, body []byte) []byte {
	p := []byte{first, 'h', 'v', 'c', '1'}
	if first&0x0f == 1 {
		p = append(p, 0, 0, 0)
	}
	return append(p, body...)
}

// hevcFrame: one AVCC-framed NAL of the given first header byte.
func hevcFrame(first byte, nalHdr0 byte, size int) []byte {
	n := size
	p := []byte{first, 1, 0, 0, 0, byte(n >> 24), byte(n >> 16), byte(n >> 8), byte(n), nalHdr0, 1}
	for i := 2; i < n; i++ {
		p = append(p, byte(0x80|i))
	}
	return p
}

func hevcSeqHeader() []byte {
	ptl := ref.HevcPtl{ProfileIdc: 1, Compat: 0x60000000, Constraint: 0x900000000000, Level: 93}
	vps := ref.WriteHevcVps(0, ptl)
	sps := ref.WriteHevcSps(ref.HevcSps{Ptl: ptl, ChromaFormat: 1, Width: 320, Height: 240})
	pps := []byte{0x44, 0x01, 0xc1, 0x72, 0xb4, 0x62, 0x40}
	b := []byte{0x1c, 0, 0, 0, 0}
	rec := make([]byte, 23)
	rec[0], rec[1], rec[21], rec[22] = 1, 1, 0x0f, 3
	b = append(b, rec...)
	for _, a := range []struct {
		t byte
		d []byte
	}{{32, vps}, {33, sps}, {34, pps}} {
		b = append(b, 0x80|a.t, 0, 1, byte(len(a.d)>>8), byte(len(a.d)))
		b = append(b, a.d...)
	}
	return b
}

func main() {
	if len(os.Args) > 1 && os.Args[1] == "worker" {
		lalenv.Quiet()
		world.SyncQueues()
		protox.WorkerMain(runCase)
	}
	r := vk.Start("C05", "exploration")
	r.Rule("one case = (well-formed prefix) x (output configuration) x (ingest path) x (1-3 hostile media messages from the payload-shape alphabet); each runs on a fresh real server in a worker process with subscribers present and joining later and a healthy second stream. distinct_nontrivial = distinct (prefix, config, path, first-message shape, outcome)")
	r.Assume("messages are well framed (the reference chunk encoder); payload bytes, lengths and timestamps are arbitrary",
		"bounded work is measured as the number of socket writes caused by one message (<= 400 + len/20), a 120 s per-case deadline, and 2 s per message - the latter reported only if the case is that slow twice more when run alone afterwards",
		"an RTSP player joins as soon as the prefix has given the stream its sequence headers (without a key frame in the prefix it is playing and still waiting for one when the hostile message arrives)")
	if r.ReplayIn != "" {
		var c protox.Case
		r.LoadReplay(&c)
		protox.Run([]protox.Case{c}, 1, 120*time.Second, nil, nil, func(o protox.Outcome) { report(r, o) })
		r.Finish()
	}
	r.SetBudget(6*time.Minute, 90*time.Minute)
	cases := buildCases(r)
	r.Cov("cases", len(cases))
	n := protox.Run(cases, 16, 120*time.Second, nil, r.OutOfTime, func(o protox.Outcome) { report(r, o) })
	r.Eval(n)
	// slow candidates: each is run alone, twice more; it is reported only if it is slow every time
	confirmed := 0
	for _, c := range slowCases {
		slow := 0
		for k := 0; k < 2; k++ {
			protox.Run([]protox.Case{c}, 1, 120*time.Second, nil, nil, func(o protox.Outcome) {
				if o.Res.OtherK == "slow-message" || o.Killed {
					slow++
				}
			})
		}
		if slow == 2 {
			confirmed++
			confirming = true
			protox.Run([]protox.Case{c}, 1, 120*time.Second, nil, nil, func(o protox.Outcome) {
				if o.Res.OtherK == "slow-message" {
					o.Res.OtherK = "unbounded-work/time"
				}
				report(r, o)
			})
			confirming = false
		}
	}
	r.Cov("slow_candidates", len(slowCases))
	r.Cov("slow_confirmed", confirmed)
	if n < len(cases) {
		r.NotExhaustive(fmt.Sprintf("time budget: %d of %d cases executed", n, len(cases)))
	}
	r.Sample(map[string]interface{}{"key": cases[len(cases)/2].Key, "data": json.RawMessage(cases[len(cases)/2].Data)})
	r.Finish()
}

var confirming bool

func report(r *vk.Run, o protox.Outcome) {
	var d caseData
	json.Unmarshal(o.Case.Data, &d)
	what := fmt.Sprintf("prefix=%s conf=%s via=%s msgs=%+v", d.Prefix, d.Conf, d.Via, d.Msgs)
	if len(what) > 400 {
		what = what[:400]
	}
	cls := o.Res.Class
	switch {
	case o.Killed:
		cls = "hang-killed"
		r.Violation("hang/"+d.Conf, "no progress within the deadline (server stalled): "+what, o.Case)
	case o.Death != "":
		k := protox.DeathKey(o.Death)
		cls = k
		r.Violation(k+"/"+d.Conf, fmt.Sprintf("the server process died (%s): %s :: %s", k, what, firstLines(o.Death, 8)), o.Case)
	case o.Res.Panic != "":
		cls = "panic"
		r.Violation("panic/"+protox.PanicKey(o.Res.Panic), fmt.Sprintf("panic in a lal goroutine: %s :: %s", what, firstLines(o.Res.Panic, 12)), o.Case)
	case o.Res.Hang != "":
		cls = "hang"
		r.Violation("hang/"+d.Conf, o.Res.Hang+" :: "+what, o.Case)
	case o.Res.Probe != "":
		cls = "probe"
		r.Violation("other-stream-affected/"+d.Conf, o.Res.Probe+" :: "+what, o.Case)
	case o.Res.OtherK == "slow-message" && !confirming:
		cls = "slow-candidate"
		slowMu.Lock()
		slowCases = append(slowCases, o.Case)
		slowMu.Unlock()
	case o.Res.Other != "":
		cls = o.Res.OtherK
		r.Violation(o.Res.OtherK+"/"+d.Conf, o.Res.Other+" :: "+what, o.Case)
	}
	shape := ""
	if len(d.Msgs) > 0 {
		h := d.Msgs[0].Hex
		shape = fmt.Sprintf("t%d:%s:l%d", d.Msgs[0].Type, h[:minI(2, len(h))], len(h)/2)
	}
	r.Class(d.Prefix + "/" + d.Conf + "/" + d.Via + "/" + shape + "/" + cls)
}

func firstLines(s string, n int) string {
	l := strings.Split(s, "\n")
	var keep []string
	for _, x := range l {
		if strings.Contains(x, "lal/pkg") || strings.Contains(x, "naza/pkg") || strings.Contains(x, "panic") || strings.Contains(x, "fatal") || strings.Contains(x, "runtime error") || len(keep) == 0 {
			keep = append(keep, strings.TrimSpace(x))
		}
		if len(keep) >= n {
			break
		}
	}
	return strings.Join(keep, " | ")
}

// ---- SPS with lying counts -------------------------------------------------------------------------------------------

type spsField struct {
	kind string // u (fixed bits), ue, se
	bits int
	val  uint64
}

type bitW struct {
	b    []byte
	nbit int
}

func (w *bitW) put(v uint64, n int) {
	for i := n - 1; i >= 0; i-- {
		if w.nbit%8 == 0 {
			w.b = append(w.b, 0)
		}
		if v>>uint(i)&1 == 1 {
			w.b[len(w.b)-1] |= 0x80 >> uint(w.nbit%8)
		}
		w.nbit++
	}
}

func (w *bitW) ue(v uint64) {
	n := 0
	for (v+1)>>uint(n+1) != 0 {
		n++
	}
	w.put(0, n)
	w.put(v+1, n+1)
}

// escape inserts emulation-prevention bytes (H.264 7.4.1).
func escape(rbsp []byte) []byte {
	var out []byte
	z := 0
	for _, x := range rbsp {
		if z >= 2 && x <= 3 {
			out = append(out, 3)
			z = 0
		}
		out = append(out, x)
		if x == 0 {
			z++
		} else {
			z = 0
		}
	}
	return out
}

func lyingSps() [][]byte {
	u := func(bits int, v uint64) spsField { return spsField{"u", bits, v} }
	ue := func(v uint64) spsField { return spsField{"ue", 0, v} }
	templates := [][]spsField{
		// baseline, pic_order_cnt_type 1
		{u(8, 66), u(8, 0), u(8, 31), ue(0), ue(0), ue(1), u(1, 0), ue(0), ue(0), ue(2), ue(0), ue(0), ue(3), u(1, 0), ue(19), ue(14), u(1, 1), u(1, 1), u(1, 1), ue(0), ue(0), ue(0), ue(1), u(1, 0)},
		// high profile: chroma 1, bit depths, scaling matrix absent, poc type 0, cropping, VUI with timing
		{u(8, 100), u(8, 0), u(8, 31), ue(0), ue(1), ue(0), ue(0), u(1, 0), u(1, 0), ue(0), ue(0), ue(2), ue(3), u(1, 0), ue(19), ue(14), u(1, 1), u(1, 1), u(1, 1), ue(0), ue(0), ue(0), ue(1), u(1, 1),
			u(1, 0), u(1, 0), u(1, 0), u(1, 0), u(1, 1), u(32, 1), u(32, 50), u(1, 1), u(1, 1), ue(0), u(4, 0), u(4, 0), ue(1), ue(1), u(1, 0)},
		// high profile with a scaling matrix announced (8 list flags follow)
		{u(8, 100), u(8, 0), u(8, 31), ue(0), ue(1), ue(0), ue(0), u(1, 0), u(1, 1), u(1, 0), u(1, 0), u(1, 0), u(1, 0), u(1, 0), u(1, 0), u(1, 0), u(1, 0), ue(0), ue(2), ue(0)},
	}
	huge := []uint64{255, 65535, 1 << 24, 1<<32 - 2}
	var out [][]byte
	for _, t := range templates {
		for i, f := range t {
			if f.kind != "ue" {
				continue
			}
			for _, hv := range huge {
				w := &bitW{}
				for _, g := range t[:i] {
					if g.kind == "ue" {
						w.ue(g.val)
					} else {
						w.put(g.val, g.bits)
					}
				}
				w.ue(hv)
				out = append(out, append([]byte{0x67}, escape(w.b)...))
				// and with the stop bit, as a whole (short) RBSP
				w.put(1, 1)
				out = append(out, append([]byte{0x67}, escape(w.b)...))
			}
		}
	}
	return out
}
