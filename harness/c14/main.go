// C14 — access control admits exactly the authorised requests.
// Family (I)+(S): exhaustive enumeration of simple-auth flag combinations x protocol/direction x
// secret forms through the real session paths; RTSP auth methods x credential forms; every request
// path of <= 3 segments over a traversal alphabet through a real http.ServeMux + the HLS handler on
// an instrumented file system; client-chosen stream names x ingest paths with every file output on.
// Oracle: the specification function "admitted <=> ..." and file-system confinement.
package main

import (
	"bufio"
	"bytes"
	"crypto/md5"
	"encoding/base64"
	"encoding/hex"
	"fmt"
	"net/http"
	"net/http/httptest"
	"net/url"
	"os"
	"path/filepath"
	"strings"
	"sync/atomic"
	"time"

	"github.com/q191201771/lal/pkg/base"
	"github.com/q191201771/lal/pkg/logic"

	"verif/lib/lalenv"
	"verif/lib/ref"
	"verif/lib/sw"
	"verif/lib/vk"
	"verif/lib/world"
)

const key = "k3y"
const override = "over-ride"

func md5hex(s string) string { h := md5.Sum([]byte(s)); return hex.EncodeToString(h[:]) }

var flagNames = []string{"pub_rtmp_enable", "sub_rtmp_enable", "sub_httpflv_enable", "sub_httpts_enable", "pub_rtsp_enable", "sub_rtsp_enable", "hls_m3u8_enable"}

type authCase struct {
	Flags    int    `json:"flags"` // bit i = flagNames[i]
	Override bool   `json:"override"`
	Kind     string `json:"kind"`
	Form     string `json:"form"`
}

var kinds = []string{"rtmp-pub", "rtsp-pub", "rtmp-sub", "flv-sub", "wsflv-sub", "ts-sub", "rtsp-sub", "hls-m3u8-a", "hls-m3u8-b", "hls-m3u8-c", "hls-ts"}
var forms = []string{"absent", "empty", "wrong", "right", "right-upper", "other-stream", "override", "override-upper", "dup-right-wrong", "dup-wrong-right", "malformed", "semicolon", "second-q", "extra-param"}

func flagFor(kind string) int {
	switch kind {
	case "rtmp-pub":
		return 0
	case "rtmp-sub":
		return 1
	case "flv-sub", "wsflv-sub":
		return 2
	case "ts-sub":
		return 3
	case "rtsp-pub":
		return 4
	case "rtsp-sub":
		return 5
	case "hls-m3u8-a", "hls-m3u8-b", "hls-m3u8-c":
		return 6
	}
	return -1
}

func query(form, stream string) (q string, valid func(override bool) bool) {
	right := md5hex(key + stream)
	no := func(bool) bool { return false }
	yes := func(bool) bool { return true }
	switch form {
	case "absent":
		return "", no
	case "empty":
		return "lal_secret=", no
	case "wrong":
		return "lal_secret=0123456789abcdef0123456789abcdef", no
	case "right":
		return "lal_secret=" + right, yes
	case "right-upper":
		return "lal_secret=" + strings.ToUpper(right), yes
	case "other-stream":
		return "lal_secret=" + md5hex(key+"other"), no
	case "override":
		return "lal_secret=" + override, func(o bool) bool { return o }
	case "override-upper":
		return "lal_secret=" + strings.ToUpper(override), func(o bool) bool { return o }
	case "dup-right-wrong":
		return "lal_secret=" + right + "&lal_secret=bad", yes
	case "dup-wrong-right":
		return "lal_secret=bad&lal_secret=" + right, no
	case "malformed":
		return "lal_secret=" + right + "&x=%zz", no
	case "semicolon":
		return "lal_secret=" + right + ";x=1", no
	case "second-q":
		return "a=1?lal_secret=" + right, no
	case "extra-param":
		return "x=1&lal_secret=" + right, yes
	}
	panic(form)
}

const playlist = "#EXTM3U\n#EXT-X-VERSION:3\n#EXT-X-TARGETDURATION:1\n#EXT-X-MEDIA-SEQUENCE:0\n#EXTINF:1.000,\ns-1-0.ts\n"

func sdpOf(track string) []byte {
	return []byte("v=0\r\no=- 0 0 IN IP4 127.0.0.1\r\ns=x\r\nc=IN IP4 127.0.0.1\r\nt=0 0\r\nm=audio 0 RTP/AVP 97\r\na=rtpmap:97 MPEG4-GENERIC/44100/2\r\na=fmtp:97 profile-level-id=1;mode=AAC-hbr;sizelength=13;indexlength=3;indexdeltalength=3; config=1210\r\na=control:" + track + "\r\n")
}

func hlsGet(w *world.W, uri string, remote string) *httptest.ResponseRecorder {
	req, _ := http.ReadRequest(bufio.NewReader(strings.NewReader("GET " + uri + " HTTP/1.1\r\nHost: h\r\n\r\n")))
	if req == nil {
		return nil
	}
	req.RemoteAddr = remote
	rec := httptest.NewRecorder()
	mux := http.NewServeMux()
	mux.HandleFunc("/hls/", func(rw http.ResponseWriter, r *http.Request) { logic.VerifServeHls(w.SM, rw, r) })
	mux.ServeHTTP(rec, req)
	return rec
}

func runAuth(r *vk.Run, c authCase) {
	r.Eval(1)
	conf := world.Conf{"simple_auth.key": key, "rtsp.enable": true, "hls.enable": true}
	for i, n := range flagNames {
		conf["simple_auth."+n] = c.Flags>>uint(i)&1 == 1
	}
	if c.Override {
		conf["simple_auth.dangerous_lal_secret"] = override
	}
	w := world.New(conf)
	defer w.Close()
	stream := "s"
	q, validF := query(c.Form, stream)
	valid := validF(c.Override)
	fi := flagFor(c.Kind)
	want := fi < 0 || c.Flags>>uint(fi)&1 == 0 || valid
	withQ := func(s string) string {
		if q == "" {
			return s
		}
		return s + "?" + q
	}
	rp := c
	fail := func(key, f string, a ...interface{}) {
		r.Violation("auth/"+key+"/"+c.Kind, fmt.Sprintf("flags=%07b override=%v kind=%s secret-form=%s (query %q): %s", c.Flags, c.Override, c.Kind, c.Form, q, fmt.Sprintf(f, a...)), rp)
	}
	infra := func(err error) bool {
		if err != nil {
			r.Violation("infra/hang", fmt.Sprintf("%+v: %v", c, err), rp)
			return true
		}
		return false
	}
	// helper publisher for the subscriber kinds (always carries the right secret)
	var pub *world.RtmpPeer
	needPub := strings.HasSuffix(c.Kind, "-sub")
	if needPub {
		var err error
		pub, err = w.RtmpPublisher("live", stream+"?lal_secret="+md5hex(key+stream))
		if infra(err) {
			return
		}
		if !pub.Accepted() {
			fail("helper", "helper publisher with the right secret was refused")
			return
		}
		for i, k := range []string{"vsh", "ash", "key", "aac"} {
			m := sw.MakeMsg(k, i, uint32(i*40), 32)
			pub.SendMsgs(ref.Msg{Csid: 6, Type: m.Type, Msid: 1, Ts: m.Ts, Payload: m.Payload})
		}
		if infra(w.Settle()) {
			return
		}
	}
	pushMore := func() {
		m := sw.MakeMsg("key", 9, 400, 32)
		pub.SendMsgs(ref.Msg{Csid: 6, Type: 9, Msid: 1, Ts: 400, Payload: m.Payload})
		w.Settle()
	}
	statHas := func(pred func(g base.StatGroup) bool) bool {
		for _, g := range w.SM.StatAllGroup() {
			if g.StreamName == stream && pred(g) {
				return true
			}
		}
		return false
	}
	notified := func(prefix string, n int) bool {
		cnt := 0
		for _, e := range w.Notify.Snapshot() {
			if strings.HasPrefix(e, prefix) {
				cnt++
			}
		}
		return cnt >= n
	}
	admitted := false
	switch c.Kind {
	case "rtmp-pub":
		p, err := w.RtmpPublisher("live", withQ(stream))
		if infra(err) {
			return
		}
		admitted = p.Accepted()
		listed := statHas(func(g base.StatGroup) bool { return g.StatPub.SessionId != "" })
		if admitted != listed || admitted != notified("pub_start", 1) {
			fail("inconsistent", "connection kept=%v, publisher listed=%v, pub_start notified=%v", admitted, listed, notified("pub_start", 1))
		}
	case "rtsp-pub":
		p, err := w.RtspPublisher(withQ("rtsp://h/live/"+stream), sdpOf("streamid=0"), []string{"streamid=0"})
		if infra(err) {
			return
		}
		admitted = p.Accepted() && p.LastStatus() == 200
		listed := statHas(func(g base.StatGroup) bool { return g.StatPub.SessionId != "" })
		if admitted != listed || admitted != notified("pub_start", 1) {
			fail("inconsistent", "announce accepted=%v, publisher listed=%v, pub_start notified=%v", admitted, listed, notified("pub_start", 1))
		}
	case "rtmp-sub":
		p, err := w.RtmpPlayer("live", withQ(stream))
		if infra(err) {
			return
		}
		pushMore()
		media := 0
		for _, m := range p.Pump() {
			if m.Type == 8 || m.Type == 9 || m.Type == 18 {
				media++
			}
		}
		for _, m := range p.Msgs {
			if m.Type == 8 || m.Type == 9 {
				media++
			}
		}
		admitted = p.Accepted()
		if admitted != (media > 0) {
			fail("inconsistent", "connection kept=%v but %d media messages received", admitted, media)
		}
		listed := statHas(func(g base.StatGroup) bool { return len(g.StatSubs) > 0 })
		if admitted != listed || admitted != notified("sub_start", 1) {
			fail("inconsistent", "admitted=%v, subscriber listed=%v, sub_start notified=%v", admitted, listed, notified("sub_start", 1))
		}
	case "flv-sub", "wsflv-sub", "ts-sub":
		ext := ".flv"
		if c.Kind == "ts-sub" {
			ext = ".ts"
		}
		p, err := w.HttpSub(withQ("/live/"+stream+ext), c.Kind == "wsflv-sub")
		if infra(err) {
			return
		}
		pushMore()
		p.Pump()
		admitted = p.Accepted()
		if admitted != (len(p.Body) > 0) {
			fail("inconsistent", "connection kept=%v but %d body bytes received", admitted, len(p.Body))
		}
		listed := statHas(func(g base.StatGroup) bool { return len(g.StatSubs) > 0 })
		if admitted != listed || admitted != notified("sub_start", 1) {
			fail("inconsistent", "admitted=%v, subscriber listed=%v, sub_start notified=%v", admitted, listed, notified("sub_start", 1))
		}
	case "rtsp-sub":
		p, err := w.RtspPlayer(withQ("rtsp://h/live/"+stream), nil)
		if infra(err) {
			return
		}
		gotSdp := false
		for _, it := range p.Items {
			if it.IsMsg && it.Status == 200 && bytes.Contains(it.Body, []byte("m=")) {
				gotSdp = true
			}
		}
		admitted = gotSdp
		listed := statHas(func(g base.StatGroup) bool { return len(g.StatSubs) > 0 })
		if admitted != listed || admitted != notified("sub_start", 1) {
			fail("inconsistent", "SDP returned=%v, subscriber listed=%v, sub_start notified=%v", admitted, listed, notified("sub_start", 1))
		}
	default: // HLS
		root := strings.TrimSuffix(w.FS.Root, "/")
		w.FS.MkdirAll(root+"/"+stream, 0o755)
		w.FS.WriteFile(root+"/"+stream+"/playlist.m3u8", []byte(playlist), 0o644)
		w.FS.WriteFile(root+"/"+stream+"/record.m3u8", []byte(playlist), 0o644)
		w.FS.WriteFile(root+"/"+stream+"/s-1-0.ts", []byte("TSDATA"), 0o644)
		uri := map[string]string{"hls-m3u8-a": "/hls/s.m3u8", "hls-m3u8-b": "/hls/s/playlist.m3u8", "hls-m3u8-c": "/hls/s/record.m3u8", "hls-ts": "/hls/s-1-0.ts"}[c.Kind]
		rec := hlsGet(w, withQ(uri), "10.9.9.9:1234")
		if rec == nil {
			// the HTTP layer itself cannot parse the request line (e.g. '%zz'): nothing is delivered
			admitted = false
			want = false
		} else {
			body := rec.Body.String()
			admitted = rec.Code == 200 && (body == playlist || body == "TSDATA")
			if !admitted && (strings.Contains(body, "#EXTM3U") || strings.Contains(body, "TSDATA")) {
				fail("leak", "request not admitted (status %d) but content returned", rec.Code)
			}
		}
	}
	r.Class(fmt.Sprintf("auth/%s/%s/flag=%v/valid=%v/admitted=%v", c.Kind, c.Form, fi >= 0 && c.Flags>>uint(fi)&1 == 1, valid, admitted))
	if admitted != want {
		fail(map[bool]string{true: "admitted-unauthorised", false: "rejected-authorised"}[admitted], "admitted=%v but the rule says %v (flag for this request on=%v, secret valid=%v)", admitted, want, fi >= 0 && c.Flags>>uint(fi)&1 == 1, valid)
	}
	if p := w.Net.FirstPanic(); p != "" {
		fail("panic", "%s", strings.SplitN(p, "\n", 2)[0])
	}
}

// ---- (b) RTSP authentication ------------------------------------------------------------------------------

type rtspCase struct {
	Method int    `json:"method"` // 0 Basic, 1 Digest
	Cred   string `json:"cred"`
	Pass   string `json:"pass"`
	Query  string `json:"query"` // appended to the request URL ("" = none)
	Sep    string `json:"sep,omitempty"`  // Digest: what separates the header's parameters ("" = comma and one space)
	User   string `json:"user,omitempty"` // the configured user name ("" = user1)
}

func digestHeader(user, pass, realm, nonce, method, uri string) string {
	ha1 := md5hex(user + ":" + realm + ":" + pass)
	ha2 := md5hex(method + ":" + uri)
	resp := md5hex(ha1 + ":" + nonce + ":" + ha2)
	return fmt.Sprintf(`Digest username="%s", realm="%s", nonce="%s", uri="%s", response="%s"`, user, realm, nonce, uri, resp)
}

func between(s, a, b string) string {
	i := strings.Index(s, a)
	if i < 0 {
		return ""
	}
	s = s[i+len(a):]
	j := strings.Index(s, b)
	if j < 0 {
		return ""
	}
	return s[:j]
}

func runRtspAuth(r *vk.Run, c rtspCase) {
	r.Eval(1)
	user := "user1"
	if c.User != "" {
		user = c.User
	}
	w := world.New(world.Conf{"rtsp.enable": true, "rtsp.auth_enable": true, "rtsp.auth_method": c.Method, "rtsp.username": user, "rtsp.password": c.Pass})
	defer w.Close()
	fail := func(key, f string, a ...interface{}) {
		r.Violation("rtsp-auth/"+key, fmt.Sprintf("method=%s password=%q credentials=%s query=%q: %s", []string{"Basic", "Digest"}[c.Method], c.Pass, c.Cred, c.Query, fmt.Sprintf(f, a...)), c)
	}
	pub, err := w.RtmpPublisher("live", "s")
	if err != nil || !pub.Accepted() {
		fail("infra", "publisher: %v", err)
		return
	}
	for i, k := range []string{"vsh", "ash", "key", "aac", "inter", "aac"} {
		m := sw.MakeMsg(k, i, uint32(i*40), 32)
		pub.SendMsgs(ref.Msg{Csid: 6, Type: m.Type, Msid: 1, Ts: m.Ts, Payload: m.Payload})
	}
	if err := w.Settle(); err != nil {
		fail("infra", "%v", err)
		return
	}
	uri := "rtsp://h/live/s" + c.Query
	describe := func(auth string) (status int, sdp bool, wwwAuth string, closed bool) {
		p := w.NewRtspPeer(uri)
		h := map[string]string{"Accept": "application/sdp"}
		if auth != "" {
			h["Authorization"] = auth
		}
		p.Request("DESCRIBE", uri, h, nil)
		if err := w.Settle(); err != nil {
			fail("infra", "%v", err)
		}
		p.Pump()
		for _, it := range p.Items {
			if it.IsMsg {
				status = it.Status
				wwwAuth = it.Headers["www-authenticate"]
				if it.Status == 200 && bytes.Contains(it.Body, []byte("m=")) {
					sdp = true
				}
			}
		}
		closed = p.Conn.Closed()
		p.Close()
		w.Settle()
		return
	}
	basic := func(u, p string) string { return "Basic " + base64.StdEncoding.EncodeToString([]byte(u+":"+p)) }
	// the challenge
	st, sdp, www, _ := describe("")
	wantScheme := []string{"Basic", "Digest"}[c.Method]
	if sdp || st != 401 || !strings.HasPrefix(www, wantScheme) {
		fail("challenge", "DESCRIBE without credentials: status %d, sdp=%v, WWW-Authenticate=%q (want 401 and a %s challenge)", st, sdp, www, wantScheme)
	}
	realm, nonce := between(www, `realm="`, `"`), between(www, `nonce="`, `"`)
	var hdr string
	want := false
	switch c.Cred {
	case "right":
		if c.Method == 0 {
			hdr = basic(user, c.Pass)
		} else {
			hdr = digestHeader(user, c.Pass, realm, nonce, "DESCRIBE", uri)
		}
		want = true
	case "wrong-password":
		if c.Method == 0 {
			hdr = basic(user, c.Pass+"x")
		} else {
			hdr = digestHeader(user, c.Pass+"x", realm, nonce, "DESCRIBE", uri)
		}
	case "wrong-user":
		if c.Method == 0 {
			hdr = basic(user+"x", c.Pass)
		} else {
			hdr = digestHeader(user+"x", c.Pass, realm, nonce, "DESCRIBE", uri)
		}
	case "other-method":
		if c.Method == 1 {
			hdr = basic(user, c.Pass)
		} else {
			hdr = digestHeader(user, c.Pass, "lal", "00000000000000000000000000000000", "DESCRIBE", uri)
		}
	case "garbled":
		hdr = "Digest =,=\"\"\","
	case "garbled-basic":
		hdr = "Basic !!!notbase64"
	case "empty-scheme":
		hdr = "Bearer abc"
	case "digest-wrong-uri-in-response":
		if c.Method == 1 {
			h := digestHeader(user, c.Pass, realm, nonce, "DESCRIBE", "rtsp://h/live/other")
			hdr = strings.Replace(h, `uri="rtsp://h/live/other"`, `uri="`+uri+`"`, 1)
		} else {
			hdr = basic(user, c.Pass+"y")
		}
	}
	if c.Sep != "" && strings.HasPrefix(hdr, "Digest ") {
		hdr = "Digest " + strings.ReplaceAll(strings.TrimPrefix(hdr, "Digest "), ", ", c.Sep) // (RFC 7235: a comma with optional white space on either side)
	}
	st, sdp, _, _ = describe(hdr)
	r.Class(fmt.Sprintf("rtsp-auth/m%d/%s/sdp=%v/pass-colon=%v", c.Method, c.Cred, sdp, strings.Contains(c.Pass, ":")))
	if sdp != want {
		fail(map[bool]string{true: "sdp-without-valid-credentials", false: "valid-credentials-rejected"}[sdp], "DESCRIBE with %q: status %d, SDP returned=%v, want %v", hdr, st, sdp, want)
	}
	if p := w.Net.FirstPanic(); p != "" {
		fail("panic", "%s", strings.SplitN(p, "\n", 2)[0])
	}
}

// ---- (d) HLS request paths --------------------------------------------------------------------------------

func runHlsPath(r *vk.Run, segs []string) {
	r.Eval(1)
	w := world.New(world.Conf{"hls.enable": true})
	defer w.Close()
	root := strings.TrimSuffix(w.FS.Root, "/") // /vfs/wN/hls
	baseDir := filepath.Dir(root)              // /vfs/wN
	// files inside the root
	w.FS.MkdirAll(root+"/a", 0o755)
	w.FS.WriteFile(root+"/a/playlist.m3u8", []byte("INSIDE-PLAYLIST"), 0o644)
	w.FS.WriteFile(root+"/a/record.m3u8", []byte("INSIDE-RECORD"), 0o644)
	w.FS.WriteFile(root+"/a/a-1-2.ts", []byte("INSIDE-TS"), 0o644)
	// secrets outside the root, at every place a traversal could land
	w.FS.MkdirAll(baseDir+"/a", 0o755)
	for _, p := range []string{"/playlist.m3u8", "/record.m3u8", "/..-1-2.ts", "/a-1-2.ts", "/a/playlist.m3u8", "/a.m3u8", "/hls.m3u8"} {
		w.FS.WriteFile(baseDir+p, []byte("OUTSIDE-SECRET"), 0o644)
	}
	w.FS.MkdirAll("/vfs", 0o755)
	uri := "/hls/" + strings.Join(segs, "/")
	before := len(w.FS.OpsCopy())
	rec := hlsGet(w, uri, "10.9.9.9:1")
	cls := "unparsable"
	if rec != nil {
		cls = fmt.Sprint(rec.Code)
		if strings.Contains(rec.Body.String(), "OUTSIDE-SECRET") {
			r.Violation("hls-path/served-outside-root", fmt.Sprintf("GET %s returned a file outside the HLS root %s (status %d)", uri, root, rec.Code), segs)
		}
	}
	for _, op := range w.FS.OpsCopy()[before:] {
		if op.Kind == "readfile" && !(strings.HasPrefix(op.Path, root+"/")) {
			r.Violation("hls-path/read-outside-root", fmt.Sprintf("GET %s made the handler open %s, outside the HLS root %s", uri, op.Path, root), segs)
		}
	}
	r.Class("hls-path/" + cls + "/" + fmt.Sprint(len(segs)))
}

// ---- (e) stream names --------------------------------------------------------------------------------------

func runStreamName(r *vk.Run, via, name string) {
	r.Eval(1)
	scratch := world.Scratch()
	top, err := os.MkdirTemp(scratch, "c14e")
	if err != nil {
		r.Infra("%v", err)
	}
	defer os.RemoveAll(top)
	flvDir := filepath.Join(top, "l1", "l2", "l3", "flv")
	tsDir := filepath.Join(top, "l1", "l2", "l3", "ts")
	w := world.New(world.Conf{"hls.enable": true, "record.enable_flv": true, "record.enable_mpegts": true, "record.flv_out_path": flvDir + "/", "record.mpegts_out_path": tsDir + "/", "rtsp.enable": true})
	defer w.Close()
	root := strings.TrimSuffix(w.FS.Root, "/")
	desc := fmt.Sprintf("stream name %q via %s", name, via)
	accepted := false
	msgs := []string{"vsh", "ash", "key", "aac", "inter", "key", "inter"}
	switch via {
	case "rtmp":
		p, err := w.RtmpPublisher("live", name)
		if err != nil {
			r.Violation("infra/hang", desc+": "+err.Error(), []string{via, name})
			return
		}
		accepted = p.Accepted()
		if accepted {
			for i, k := range msgs {
				m := sw.MakeMsg(k, i, uint32(i*700), 32)
				p.SendMsgs(ref.Msg{Csid: 6, Type: m.Type, Msid: 1, Ts: m.Ts, Payload: m.Payload})
			}
			w.Settle()
			p.Close()
			w.Settle()
		}
	case "customize":
		ctx, err := w.SM.AddCustomizePubSession(name)
		accepted = err == nil
		if accepted {
			for i, k := range msgs {
				m := sw.MakeMsg(k, i, uint32(i*700), 32)
				ctx.FeedRtmpMsg(world.BaseRtmpMsg(ref.Msg{Csid: 6, Type: m.Type, Msid: 1, Ts: m.Ts, Payload: m.Payload}))
			}
			w.SM.DelCustomizePubSession(ctx)
		}
	case "api-pull", "api-pull-named":
		// start_relay_pull: the stream name comes from the request, or (when absent) from the last item of
		// the pull URL's path; the origin accepts and delivers media
		w.EnableRelay(map[string]string{"origin": "accept"})
		req := base.ApiCtrlStartRelayPullReq{Url: "rtmp://" + w.Host("origin") + "/live/" + name, PullRetryNum: 0, AutoStopPullAfterNoOutMs: -1}
		if via == "api-pull-named" {
			req = base.ApiCtrlStartRelayPullReq{Url: "rtmp://" + w.Host("origin") + "/live/x", StreamName: name, PullRetryNum: 0, AutoStopPullAfterNoOutMs: -1}
		}
		resp := w.SM.CtrlStartRelayPull(req)
		if err := w.Settle(); err != nil {
			r.Violation("infra/hang", desc+": "+err.Error(), []string{via, name})
			return
		}
		accepted = resp.ErrorCode == base.ErrorCodeSucc
		for _, d := range w.LiveDials() {
			if d.Origin != nil && d.Origin.Started {
				for i, k := range msgs {
					m := sw.MakeMsg(k, i, uint32(i*700), 32)
					d.Origin.SendMsgs(ref.Msg{Csid: 6, Type: m.Type, Msid: 1, Ts: m.Ts, Payload: m.Payload})
				}
				w.Settle()
				d.Origin.Close()
				w.Settle()
			}
		}
	case "rtsp":
		p, err := w.RtspPublisher("rtsp://h/live/"+name, sdpOf("streamid=0"), []string{"streamid=0"})
		if err != nil {
			r.Violation("infra/hang", desc+": "+err.Error(), []string{via, name})
			return
		}
		accepted = p.Accepted() && p.LastStatus() == 200
		if accepted {
			for i := 0; i < 6; i++ {
				pkt := ref.BuildRtp(ref.Rtp{Marker: true, PT: 97, Seq: uint16(i), Ts: uint32(i * 1024), Ssrc: 7, Payload: ref.PackAacHbr([]byte{1, 2, 3, 4, byte(i)})})
				p.SendRtp(0, pkt)
			}
			w.Settle()
			p.Close()
			w.Settle()
		}
	}
	// HLS writes (instrumented layer): every path must be inside the configured root
	for _, op := range w.FS.OpsCopy() {
		if op.Kind == "readfile" {
			continue
		}
		for _, p := range []string{op.Path, op.To} {
			if p != "" && p != root && !strings.HasPrefix(p, root+"/") {
				r.Violation("stream-name/hls-write-outside-root", fmt.Sprintf("%s: HLS %s on %s, outside the configured root %s", desc, op.Kind, p, root), []string{via, name})
			}
		}
	}
	for _, op := range world.FsRouter().Stray {
		_ = op
	}
	// recorders use the real file system: scan the sacrificial tree
	filepath.Walk(top, func(p string, info os.FileInfo, err error) error {
		if err != nil || info.IsDir() {
			return nil
		}
		if !strings.HasPrefix(p, flvDir+"/") && !strings.HasPrefix(p, tsDir+"/") {
			r.Violation("stream-name/record-outside-dir", fmt.Sprintf("%s: file %s created outside the recording directories %s , %s", desc, strings.TrimPrefix(p, top), strings.TrimPrefix(flvDir, top), strings.TrimPrefix(tsDir, top)), []string{via, name})
		}
		return nil
	})
	if p := w.Net.FirstPanic(); p != "" {
		r.Violation("stream-name/panic", desc+": "+strings.SplitN(p, "\n", 2)[0], []string{via, name})
	}
	r.Class(fmt.Sprintf("stream-name/%s/accepted=%v/%s", via, accepted, nameClass(name)))
}

func nameClass(n string) string {
	switch {
	case strings.Contains(n, ".."):
		return "dotdot"
	case strings.Contains(n, "/") || strings.Contains(n, "\\"):
		return "separator"
	case len(n) > 100:
		return "long"
	}
	return "plain"
}

func main() {
	r := vk.Start("C14", "model_checking")
	lalenv.Quiet()
	world.SyncQueues()
	r.Rule("(a) every simple-auth flag combination (quick: 16 representative, thorough: all 128) x override secret on/off x 11 request kinds x 14 secret forms through the real session paths; (b) 2 RTSP auth methods x 3 passwords x 9 credential forms; (c) kick of each session kind, black-list; (d) every HLS request path of <= 3 segments over an 11-element traversal alphabet through http.ServeMux + serveHls on the instrumented file system; (e) 9 client-chosen stream names x 3 ingest paths with HLS + FLV + TS recording on. distinct_nontrivial = distinct (kind, form, flag on, secret valid, admitted) + rtsp-auth classes + path outcome classes + stream-name classes")
	r.Assume("the specification function: admitted <=> flag for that protocol/direction off OR lower(first lal_secret value) in {md5(key+stream), override}; a query the URL parser rejects carries no secret",
		"RTSP Digest validity = response matches the header's own nonce/uri under the configured password (nonce freshness is not demanded)",
		"recorders write through package os: their confinement is checked by scanning a sacrificial directory tree four levels deep",
		"states/transitions are reported as evaluated request scenarios (each is a short event sequence on a fresh server)")
	if r.ReplayIn != "" {
		var ac authCase
		r.LoadReplay(&ac)
		if ac.Kind != "" {
			runAuth(r, ac)
		}
		r.Finish()
	}
	r.SetBudget(6*time.Minute, 60*time.Minute)
	// (a)
	var flagSets []int
	if r.Quick() {
		flagSets = append(flagSets, 0, 127)
		for i := 0; i < 7; i++ {
			flagSets = append(flagSets, 1<<uint(i), 127&^(1<<uint(i)))
		}
	} else {
		for f := 0; f < 128; f++ {
			flagSets = append(flagSets, f)
		}
	}
	var acs []authCase
	for _, f := range flagSets {
		for _, o := range []bool{false, true} {
			for _, k := range kinds {
				for _, fm := range forms {
					acs = append(acs, authCase{f, o, k, fm})
				}
			}
		}
	}
	r.Cov("auth_cases", len(acs))
	vk.Par(len(acs), 16, func(i int) {
		if !r.OutOfTime() {
			runAuth(r, acs[i])
		}
	})
	r.Sample(acs[len(acs)/2])
	// (b)
	var rcs []rtspCase
	for m := 0; m <= 1; m++ {
		for _, pass := range []string{"p4ss", "pa:ss", ""} {
			for _, cr := range []string{"right", "wrong-password", "wrong-user", "other-method", "garbled", "garbled-basic", "empty-scheme", "digest-wrong-uri-in-response"} {
				// the request URL with and without a query string (simple-auth's secret travels there; '=',
				// '&' and ',' then appear inside the quoted uri of a Digest header)
				for _, q := range []string{"", "?lal_secret=0123456789abcdef0123456789abcdef", "?a=1&b=2", "?x=1,2"} {
					rcs = append(rcs, rtspCase{Method: m, Cred: cr, Pass: pass, Query: q})
				}
			}
		}
	}
	// user names: every printable first character (the first character of the base64 credentials of Basic
	// and the first of the quoted user name of Digest range over everything a header parser might strip)
	for m := 0; m <= 1; m++ {
		for b := byte(0x21); b < 0x7f; b++ {
			if b == '"' || b == ':' || b == '\\' {
				continue
			}
			for _, cr := range []string{"right", "wrong-password"} {
				rcs = append(rcs, rtspCase{Method: m, Cred: cr, Pass: "p4ss", User: string([]byte{b}) + "ser"})
			}
		}
		if m == 1 {
			for _, sep := range []string{",", ",\t", ",  ", " , ", " ,"} {
				for _, cr := range []string{"right", "wrong-password", "digest-wrong-uri-in-response"} {
					rcs = append(rcs, rtspCase{Method: 1, Cred: cr, Pass: "p4ss", Sep: sep})
				}
			}
		}
		for _, u := range []string{"Basic", "Digest", "a", "B", "admin", "root", "service", "caiss", " lead"} {
			rcs = append(rcs, rtspCase{Method: m, Cred: "right", Pass: "p4ss", User: u})
		}
	}
	vk.Par(len(rcs), 8, func(i int) { runRtspAuth(r, rcs[i]) })
	r.Cov("rtsp_auth_cases", len(rcs))
	// (d)
	alpha := []string{"a", "..", ".", "%2e%2e", "%2f", "playlist.m3u8", "record.m3u8", "a.m3u8", "a-1-2.ts", "..-1-2.ts", "...m3u8", "a/..-1-2.ts"}
	var paths [][]string
	var rec func(cur []string)
	rec = func(cur []string) {
		if len(cur) > 0 {
			paths = append(paths, append([]string{}, cur...))
		}
		if len(cur) == 3 {
			return
		}
		for _, a := range alpha {
			rec(append(cur, a))
		}
	}
	rec(nil)
	vk.Par(len(paths), 16, func(i int) { runHlsPath(r, paths[i]) })
	r.Cov("hls_paths", len(paths))
	// (e)
	names := []string{"a", "..", ".", "../x", "a/../../b", "/abs", "a/b", "..\\x", strings.Repeat("a", 300), "/../x", "//../../x", "/a/../../x", "a/./b", "/.."}
	for _, via := range []string{"rtmp", "customize", "rtsp", "api-pull", "api-pull-named"} {
		for _, n := range names {
			runStreamName(r, via, n)
		}
	}
	// (c) kick
	runKick(r)
	// (f) HLS sub-session mode: a session id obtained for one stream is not a credential for anything
	nsub := 0
	for _, override := range []bool{false, true} {
		for _, first := range []string{"/hls/a.m3u8", "/hls/a/playlist.m3u8"} {
			nsub += runHlsSubSession(r, override, first)
		}
	}
	r.Cov("hls_sub_session_requests", nsub)
	r.AddStates(int64(len(acs) + len(rcs) + len(paths)))
	r.AddTransitions(int64(len(acs)*3 + len(rcs)*4 + len(paths)))
	r.AddTraces(int64(len(acs) + len(rcs) + len(paths)))
	r.Finish()
}

func runKick(r *vk.Run) {
	w := world.New(world.Conf{"rtsp.enable": true, "hls.enable": true})
	defer w.Close()
	pub, _ := w.RtmpPublisher("live", "s")
	rs, _ := w.RtmpPlayer("live", "s")
	fs, _ := w.HttpSub("/live/s.flv", false)
	ts, _ := w.HttpSub("/live/s.ts", false)
	type sess struct {
		name   string
		closed func() bool
	}
	g := w.SM.StatGroup("s")
	if g == nil {
		r.Violation("kick/stat", "StatGroup(s) is nil with a publisher and three subscribers", "kick")
		return
	}
	ids := map[string]func() bool{g.StatPub.SessionId: pub.Conn.Closed}
	for _, s := range g.StatSubs {
		switch s.Protocol {
		case "RTMP":
			ids[s.SessionId] = rs.Conn.Closed
		case "FLV":
			ids[s.SessionId] = fs.Conn.Closed
		case "TS":
			ids[s.SessionId] = ts.Conn.Closed
		}
	}
	if len(ids) != 4 {
		r.Violation("kick/stat", fmt.Sprintf("stat lists %d distinct sessions, want 4: %+v", len(ids), g), "kick")
	}
	for id, closed := range ids {
		r.Eval(1)
		resp := w.SM.CtrlKickSession(base.ApiCtrlKickSessionReq{StreamName: "s", SessionId: id})
		w.Settle()
		if resp.ErrorCode != base.ErrorCodeSucc || !closed() {
			r.Violation("kick/not-disconnected", fmt.Sprintf("kick %s: error code %d, connection closed=%v", id, resp.ErrorCode, closed()), "kick")
		}
		r.Class("kick/" + strings.TrimRight(id, "0123456789"))
	}
	// black list: no HLS content for a listed address
	root := strings.TrimSuffix(w.FS.Root, "/")
	w.FS.MkdirAll(root+"/b", 0o755)
	w.FS.WriteFile(root+"/b/playlist.m3u8", []byte(playlist), 0o644)
	if rec := hlsGet(w, "/hls/b.m3u8", "10.1.2.3:5"); rec == nil || rec.Body.String() != playlist {
		r.Violation("blacklist/baseline", "playlist not served to an address that is not listed", "blacklist")
	}
	w.FS.WriteFile(root+"/b/record.m3u8", []byte(playlist), 0o644)
	w.FS.WriteFile(root+"/b/b-1-0.ts", []byte("TSDATA"), 0o644)
	// every kind of HLS content, in every URL form the handler understands
	content := []string{"/hls/b.m3u8", "/hls/b/playlist.m3u8", "/hls/b/record.m3u8", "/hls/b-1-0.ts", "/hls/b/b-1-0.ts"}
	for _, u := range content {
		if rec := hlsGet(w, u, "10.1.2.3:5"); rec == nil || rec.Code != 200 || !(rec.Body.String() == playlist || rec.Body.String() == "TSDATA") {
			r.Violation("blacklist/baseline", "GET "+u+" is not served to an address that is not listed", "blacklist")
		}
	}
	w.SM.CtrlAddIpBlacklist(base.ApiCtrlAddIpBlacklistReq{Ip: "10.1.2.3", DurationSec: 3600})
	for _, u := range content {
		if rec := hlsGet(w, u, "10.1.2.3:5"); rec == nil || strings.Contains(rec.Body.String(), "#EXTM3U") || strings.Contains(rec.Body.String(), "TSDATA") || rec.Code == 200 {
			r.Violation("blacklist/served", "black-listed address still got "+u, "blacklist")
		}
		r.Class("blacklist" + u)
	}
	// an entry that has expired no longer bans
	w.SM.CtrlAddIpBlacklist(base.ApiCtrlAddIpBlacklistReq{Ip: "10.1.2.9", DurationSec: -1})
	for _, u := range content {
		if rec := hlsGet(w, u, "10.1.2.9:5"); rec == nil || rec.Code != 200 {
			r.Violation("blacklist/expired-entry-bans", "GET "+u+" refused to an address whose black-list entry has expired", "blacklist")
		}
	}
	if rec := hlsGet(w, "/hls/b.m3u8", "10.1.2.4:5"); rec == nil || rec.Body.String() != playlist {
		r.Violation("blacklist/other-address", "another address lost access", "blacklist")
	}
	r.Class("blacklist")
	// the ban lasts as long as it was asked for: with the clock of the black list in our hands (its only use
	// of time.Now goes through a hook), an entry of N seconds added at every sub-second phase refuses at
	// every instant less than N seconds later and serves again from N+1 seconds on (in between the
	// one-second resolution of the list decides)
	var nowMs int64 = 1700000000000
	logic.VerifNowFn = func() time.Time { return time.UnixMilli(atomic.LoadInt64(&nowMs)) }
	defer func() { logic.VerifNowFn = nil }()
	ipn := 0
	for _, phase := range []int64{0, 1, 100, 500, 900, 999} {
		for _, n := range []int{1, 2, 5} {
			for _, e := range []int64{0, 1, 500, int64(n)*1000 - 1000, int64(n)*1000 - 600, int64(n)*1000 - 100, int64(n)*1000 - 1, int64(n)*1000 + 1000, int64(n)*1000 + 1500, int64(n)*1000 + 5000} {
				if e < 0 {
					continue
				}
				r.Eval(1)
				ipn++
				ip := fmt.Sprintf("10.9.%d.%d", ipn/250, ipn%250+1)
				t0 := int64(1700000000000) + int64(ipn)*7000 + phase
				atomic.StoreInt64(&nowMs, t0)
				w.SM.CtrlAddIpBlacklist(base.ApiCtrlAddIpBlacklistReq{Ip: ip, DurationSec: n})
				atomic.StoreInt64(&nowMs, t0+e)
				rec := hlsGet(w, "/hls/b.m3u8", ip+":5")
				served := rec != nil && rec.Code == 200 && rec.Body.String() == playlist
				what := fmt.Sprintf("entry of %d s added %d ms into a second, request %d ms later", n, phase, e)
				if e < int64(n)*1000 && served {
					r.Violation("blacklist/ban-ends-early", what+": the playlist was served", "blacklist")
				}
				if e >= int64(n)*1000+1000 && !served {
					r.Violation("blacklist/ban-outlasts-expiry", what+": still refused", "blacklist")
				}
				r.Class(fmt.Sprintf("blacklist/expiry/before=%v", e < int64(n)*1000))
			}
		}
	}
}

// runHlsSubSession: with hls.sub_session_hash_key set, the first authorised playlist request of a client
// is answered with a redirect that carries a session_id; later requests carry it. Whatever session_id a
// request carries, a playlist is returned if and only if the request's URL carries the right secret
// for THAT stream.
func runHlsSubSession(r *vk.Run, override bool, first string) int {
	r.Eval(1)
	conf := world.Conf{"simple_auth.key": key, "hls.enable": true, "hls.sub_session_hash_key": "k1", "simple_auth.hls_m3u8_enable": true}
	if override {
		conf["simple_auth.dangerous_lal_secret"] = "0v3rr1d3"
	}
	w := world.New(conf)
	defer w.Close()
	root := strings.TrimSuffix(w.FS.Root, "/")
	for _, st := range []string{"a", "b"} {
		w.FS.MkdirAll(root+"/"+st, 0o755)
		w.FS.WriteFile(root+"/"+st+"/playlist.m3u8", []byte(playlist), 0o644)
	}
	fail := func(k, f string, a ...interface{}) {
		r.Violation("hls-subsession/"+k, fmt.Sprintf("[override=%v first=%s] ", override, first)+fmt.Sprintf(f, a...), map[string]interface{}{"override": override, "first": first})
	}
	n := 0
	get := func(uri string) *httptest.ResponseRecorder { n++; return hlsGet(w, uri, "10.9.9.9:1234") }
	secret := func(st string) string { return md5hex(key + st) }
	// 1. the authorised first request is redirected to a URL carrying a session_id
	rec := get(first + "?lal_secret=" + secret("a"))
	if rec == nil || rec.Code != http.StatusFound {
		fail("no-redirect", "the authorised first request was answered %v, not with a redirect", rec)
		return n
	}
	loc := rec.Header().Get("Location")
	u, err := url.Parse(loc)
	if err != nil || u.Query().Get("session_id") == "" {
		fail("no-session-id", "redirect target %q carries no session_id", loc)
		return n
	}
	sid := u.Query().Get("session_id")
	// 2. following the redirect returns the playlist
	// (in this mode lal appends the session_id to the segment URIs of the playlist it returns)
	isPlaylist := func(rec *httptest.ResponseRecorder) bool {
		return rec != nil && rec.Code == 200 && strings.HasPrefix(rec.Body.String(), "#EXTM3U") && strings.Contains(rec.Body.String(), "s-1-0.ts")
	}
	if rec := get(loc); !isPlaylist(rec) {
		fail("rejected-authorised", "following the redirect (%s) did not return the playlist (status %d)", loc, rec.Code)
	}
	// 3. the session id with every form of secret, on the same and on another stream
	for _, st := range []string{"a", "b"} {
		for _, path := range []string{"/hls/" + st + ".m3u8", "/hls/" + st + "/playlist.m3u8"} {
			forms := map[string]string{"absent": "", "empty": "&lal_secret=", "wrong": "&lal_secret=0123456789abcdef0123456789abcdef", "other-stream": "&lal_secret=" + secret(map[string]string{"a": "b", "b": "a"}[st]), "right": "&lal_secret=" + secret(st), "right-upper": "&lal_secret=" + strings.ToUpper(secret(st))}
			if override {
				forms["override"] = "&lal_secret=0v3rr1d3"
			}
			for name, q := range forms {
				want := name == "right" || name == "right-upper" || name == "override"
				rec := get(path + "?session_id=" + sid + q)
				got := isPlaylist(rec)
				r.Class(fmt.Sprintf("hls-subsession/%s/%s/admitted=%v", map[bool]string{true: "same-stream", false: "other-stream"}[st == "a"], name, got))
				if got && !want {
					fail("admitted-unauthorised", "GET %s?session_id=<id of a session on stream a>%s returned stream %s's playlist", path, q, st)
				}
				if !got && want {
					fail("rejected-authorised", "GET %s?session_id=<id>%s (right secret for stream %s) was refused with status %d", path, q, st, rec.Code)
				}
				if !got && rec != nil && strings.Contains(rec.Body.String(), "#EXTM3U") {
					fail("leak", "GET %s refused (status %d) but the playlist is in the body", path, rec.Code)
				}
			}
		}
	}
	return n
}
