// C02 — every consumer starts decodable: headers, then a key frame, bounded GOP replay.
// Family (S): explicit-state search over publish / join / leave / re-publish sequences (well-formed
// publishers) on the real server for a set of GOP-cache configurations; the oracle is a reference
// model of "what a joiner must get" (plain Go lists) evaluated on independently decoded bytes.
package main

import (
	"bytes"
	"fmt"
	"strings"
	"time"

	"verif/lib/lalenv"
	"verif/lib/ref"
	"verif/lib/seqx"
	"verif/lib/sw"
	"verif/lib/vk"
	"verif/lib/world"
)

type replay struct {
	Cfg     sw.SysOpts `json:"cfg"`
	Trace   []string   `json:"trace"`
	RtspSub *rsCase    `json:"rtsp_sub,omitempty"`
}

func isFrame(k string) bool { return k == "key" || k == "inter" || k == "aac" || k == "g711" }
func isVideo(k string) bool { return k == "key" || k == "inter" }
func hdrClass(k string) string {
	switch k {
	case "meta", "metasdf":
		return "meta"
	case "vsh", "vsh2":
		return "vsh"
	case "ash":
		return "ash"
	}
	return ""
}

func confInt(s *sw.Sys, key string) int {
	switch v := s.O.Conf[key].(type) {
	case int:
		return v
	case float64:
		return int(v)
	}
	return 0
}

// refGops: the reference GOP model for messages P[lo:hi) of one incarnation.
//
// A sequence header whose content differs from its predecessor empties the model's cache: the GOPs
// before it were coded under other parameter sets and clause (b) forbids replaying them under the new
// header (replaying them under their own header would need the old header to be resent, which no
// clause asks for).
func refGops(P []sw.PubMsg, inc, hi int) [][]int {
	var gops [][]int
	lastHdr := map[string][]byte{}
	for i := 0; i < hi; i++ {
		m := P[i]
		if m.Inc != inc || !sw.Forwardable(m) {
			continue
		}
		if hc := hdrClass(m.Kind); hc != "" {
			if hc != "meta" {
				if prev, ok := lastHdr[hc]; ok && !bytes.Equal(prev, m.Payload) {
					gops = nil
				}
				lastHdr[hc] = m.Payload
			}
			continue
		}
		if m.Kind == "key" {
			gops = append(gops, []int{i})
		} else if len(gops) > 0 {
			gops[len(gops)-1] = append(gops[len(gops)-1], i)
		}
	}
	return gops
}

func check(s *sw.Sys) []seqx.Viol {
	var vs []seqx.Viol
	P := s.X.Published
	for _, c := range s.X.Consumers {
		who := fmt.Sprintf("consumer %d (%s, joined at #%d)", c.ID, c.Kind, c.Join)
		add := func(key, f string, a ...interface{}) {
			vs = append(vs, seqx.Viol{Key: key + "/" + c.Kind, What: who + ": " + fmt.Sprintf(f, a...)})
		}
		if c.Kind == "ts" {
			vs = append(vs, checkTs(s, c, who)...)
			continue
		}
		if c.Err != "" {
			add("framing", "%s", c.Err)
			continue
		}
		R := c.Recv
		// with merge-write, RTMP delivery lags the publisher: the clauses that reason about the
		// delivery instant (a: latest headers at that instant, d: what counts as replay) do not
		// apply; the order-based clauses (b, c, f) do
		lagged := c.Kind == "rtmp" && s.Merge > 0
		firstFrame := -1
		firstVideo := -1
		lastHdr := map[string]int{} // class -> index in P of the most recent header RECEIVED
		for p, r := range R {
			if !r.Known || r.Idx >= len(P) {
				add("unknown-message", "received message %d is not one the publisher sent", p)
				break
			}
			m := P[r.Idx]
			// (f) nothing of a previous publisher once another one is current
			if m.Inc != r.AtInc {
				add("stale-incarnation", "received %s of publisher %d while publisher %d was current", m, m.Inc, r.AtInc)
			}
			if hc := hdrClass(m.Kind); hc != "" {
				lastHdr[hc] = r.Idx
				continue
			}
			if !isFrame(m.Kind) {
				continue
			}
			d := r.AtPub - 1 // message being broadcast when this frame was delivered
			if firstFrame < 0 && lagged {
				firstFrame = p
			}
			if firstFrame < 0 {
				firstFrame = p
				// (a) the latest headers published before that instant must already have been received
				for _, hc := range []string{"meta", "vsh", "ash"} {
					latest := -1
					for i := 0; i < d && i < len(P); i++ {
						if P[i].Inc == m.Inc && hdrClass(P[i].Kind) == hc {
							latest = i
						}
					}
					if latest >= 0 {
						got, ok := lastHdr[hc]
						if !ok {
							add("missing-header/"+hc, "first media frame %s arrives before any %s header although %s was published", m, hc, P[latest])
						} else if !bytes.Equal(sw.StripSdf(P[got].Payload), sw.StripSdf(P[latest].Payload)) {
							add("old-header/"+hc, "first media frame %s is preceded by %s, the latest %s header published is %s", m, P[got], hc, P[latest])
						}
					}
				}
			}
			// (b) the header in force when the frame was published == the one most recently received
			hc := ""
			if isVideo(m.Kind) {
				hc = "vsh"
			} else if m.Kind == "aac" {
				hc = "ash"
			}
			if hc != "" {
				inForce := -1
				for i := 0; i < r.Idx; i++ {
					if P[i].Inc == m.Inc && hdrClass(P[i].Kind) == hc {
						inForce = i
					}
				}
				if inForce >= 0 {
					got, ok := lastHdr[hc]
					if !ok {
						add("frame-without-header/"+hc, "frame %s received without a preceding %s header", m, hc)
					} else if !bytes.Equal(P[got].Payload, P[inForce].Payload) {
						add("frame-under-wrong-header/"+hc, "frame %s was published under %s but the consumer last received %s", m, P[inForce], P[got])
					}
				}
			}
			// (c) first video frame is a key frame
			if isVideo(m.Kind) && firstVideo < 0 {
				firstVideo = p
				if m.Kind != "key" {
					add("first-video-not-key", "first video frame received is %s", m)
				}
			}
		}
		// (d) GOP replay: frames older than the message being broadcast at prologue time
		if len(R) > 0 && !lagged {
			d0 := R[0].AtPub - 1
			if d0 >= 0 && d0 < len(P) {
				inc := P[d0].Inc
				var replayed []int
				for _, r := range R {
					if r.Known && r.Idx < d0 && isFrame(P[r.Idx].Kind) && r.AtPub-1 == d0 {
						replayed = append(replayed, r.Idx)
					}
				}
				gopNum := confInt(s, "rtmp.gop_num")
				capN := confInt(s, "rtmp.single_gop_max_frame_num")
				if c.Kind != "rtmp" {
					gopNum = confInt(s, "httpflv.gop_num")
					capN = confInt(s, "httpflv.single_gop_max_frame_num")
				}
				gops := refGops(P, inc, d0)
				if len(gops) > gopNum {
					gops = gops[len(gops)-gopNum:]
				}
				// with a cap, a GOP longer than the cap is a prefix of the true GOP of length cap or cap+1
				okReplay := func(capLen int) bool {
					var want []int
					for _, g := range gops {
						if capN > 0 && len(g) > capLen {
							g = g[:capLen]
						}
						want = append(want, g...)
					}
					return fmt.Sprint(want) == fmt.Sprint(replayed)
				}
				if !(okReplay(capN) || okReplay(capN+1)) {
					add("gop-replay", "replayed frames %v; the last %d cached GOPs (cap %d) of the reference model are %v", replayed, gopNum, capN, gops)
				}
				// "otherwise contiguous with the live data": if something was replayed and no GOP
				// was cut by the cap, live data starts at d0
				if len(replayed) > 0 && capN == 0 {
					for _, r := range R {
						if r.Known && r.Idx >= d0 && isFrame(P[r.Idx].Kind) {
							first := r.Idx
							wantFirst := -1
							for i := d0; i < len(P); i++ {
								if isFrame(P[i].Kind) && sw.Forwardable(P[i]) {
									wantFirst = i
									break
								}
							}
							if first != wantFirst {
								add("replay-live-gap", "replay ends at #%d, live frames start at #%d although #%d was published in between", replayed[len(replayed)-1], first, wantFirst)
							}
							break
						}
					}
				}
			}
		}
		// (e) a stream without video never holds the consumer back (with merge-write the message may
		// still sit in the merge buffer: C01 bounds that lag)
		if !c.Left && !(c.Kind == "rtmp" && s.Merge > 0) {
			// videoSeen[inc]: publisher inc has sent a video sequence header or frame before message i
			videoSeen := map[int]bool{}
			for i := 0; i < len(P); i++ {
				isV := hdrClass(P[i].Kind) == "vsh" || isVideo(P[i].Kind)
				if i >= c.Join && !isV && !videoSeen[P[i].Inc] && sw.Forwardable(P[i]) {
					found := false
					for _, r := range R {
						if r.Known && r.Idx == i {
							found = true
						}
					}
					if !found {
						if P[i].Inc == c.JoinInc || c.JoinInc == 0 {
							add("held-back-without-video", "joined a stream with no video (publisher %d), but the message %s was not delivered", c.JoinInc, P[i])
						} else {
							add("held-back-without-video-after-republish", "joined under publisher %d; publisher %d has sent no video, but its message %s was not delivered", c.JoinInc, P[i].Inc, P[i])
						}
						break
					}
				}
				if isV {
					videoSeen[P[i].Inc] = true
				}
			}
		}
	}
	return vs
}

func checkTs(s *sw.Sys, c *sw.Consumer, who string) []seqx.Viol {
	var vs []seqx.Viol
	add := func(key, f string, a ...interface{}) {
		vs = append(vs, seqx.Viol{Key: key + "/ts", What: who + ": " + fmt.Sprintf(f, a...)})
	}
	b := c.TsBytes
	if len(b) == 0 {
		return nil
	}
	pk, err := ref.ParseTs(b)
	if err != nil {
		add("framing", "%v", err)
		return vs
	}
	if len(pk) < 2 || pk[0].PID != 0 {
		add("no-pat-first", "first packet has PID %#x", pk[0].PID)
		return vs
	}
	pat, err := ref.ParsePat(pk[0])
	if err != nil || len(pat) != 1 || pk[1].PID != pat[0].PID {
		add("no-pmt-second", "PAT=%v err=%v second PID %#x", pat, err, pk[1].PID)
		return vs
	}
	pmt, err := ref.ParsePmt(pk[1])
	if err != nil {
		add("bad-pmt", "%v", err)
		return vs
	}
	vpid := uint16(0)
	for _, st := range pmt.Streams {
		if st.Type == 0x1B || st.Type == 0x24 {
			vpid = st.PID
		}
	}
	if vpid != 0 {
		for _, p := range pk[2:] {
			if p.PID == vpid && p.PUSI {
				if !p.RAI {
					add("first-video-not-key", "first video PES does not start at a random access point")
				}
				break
			}
		}
		// the frames themselves: every slice NAL names the message it was published in (sw.MakeMsg writes
		// the message index into the NAL body). A consumer that joined under publisher J never gets a frame
		// of an earlier publisher (the TS cache is the cache of the current publisher), and no frame twice.
		// (the payloads of the video PID are scanned as one byte string: continuity counters restart with
		// every publisher, which a strict demultiplexer rejects; PES headers look like NAL type 0 and are skipped)
		var es []byte
		for _, p := range pk[2:] {
			if p.PID == vpid {
				es = append(es, p.Payload...)
			}
		}
		{
			P := s.X.Published
			seen := map[int]bool{}
			{
				for _, nal := range ref.SplitAnnexB(es) {
					if len(nal) < 4 || !(nal[0]&0x1f == 5 || nal[0]&0x1f == 1) {
						continue
					}
					idx := int(nal[2])<<8 | int(nal[3])
					if idx >= len(P) || !(P[idx].Kind == "key" || P[idx].Kind == "inter") {
						add("unknown-frame", "a video frame that names message #%d, which is not a published frame", idx)
						return vs
					}
					if c.JoinInc != 0 && P[idx].Inc < c.JoinInc {
						add("stale-incarnation", "joined under publisher %d and received %s of publisher %d", c.JoinInc, P[idx], P[idx].Inc)
						return vs
					}
					if seen[idx] {
						add("duplicate", "frame %s delivered twice", P[idx])
						return vs
					}
					seen[idx] = true
				}
			}
		}
	}
	return vs
}

func configs(r *vk.Run) []sw.SysOpts {
	full := []string{"P:metasdf", "P:vsh", "P:vsh2", "P:key", "P:inter", "P:ash", "P:aac", "J:rtmp", "J:flv", "J:ts", "PubLeave", "PubArrive"}
	av := []string{"P:metasdf", "P:vsh", "P:vsh2", "P:key", "P:inter", "P:ash", "P:aac", "J:rtmp", "J:flv", "PubLeave", "PubArrive"}
	lean := []string{"P:vsh", "P:vsh2", "P:key", "P:inter", "P:aac", "J:rtmp", "J:flv", "PubLeave", "PubArrive"}
	leanTs0 := append(append([]string{}, lean...), "J:ts")
	var cs []sw.SysOpts
	add := func(name string, alpha []string, start bool, kv ...interface{}) {
		c := world.Conf{}
		for i := 0; i+1 < len(kv); i += 2 {
			c[kv[i].(string)] = kv[i+1]
		}
		cs = append(cs, sw.SysOpts{Name: name, Conf: c, StartPub: start, Alphabet: alpha, Guarded: true, MaxConsumers: 2})
	}
	add("gop0", full, true)
	add("gop1", av, true, "rtmp.gop_num", 1, "httpflv.gop_num", 1, "httpts.gop_num", 1)
	add("gop2", lean, true, "rtmp.gop_num", 2, "httpflv.gop_num", 2)
	// the caches of the protocols have sizes of their own
	add("gop-rtmp1-flv2-ts0", leanTs0, true, "rtmp.gop_num", 1, "httpflv.gop_num", 2, "httpts.gop_num", 0)
	add("gop-rtmp2-flv1-ts2", leanTs0, true, "rtmp.gop_num", 2, "httpflv.gop_num", 1, "httpts.gop_num", 2)
	add("gop1cap1", lean, true, "rtmp.gop_num", 1, "httpflv.gop_num", 1, "rtmp.single_gop_max_frame_num", 1, "httpflv.single_gop_max_frame_num", 1)
	add("gop2cap2", lean, true, "rtmp.gop_num", 2, "httpflv.gop_num", 2, "rtmp.single_gop_max_frame_num", 2, "httpflv.single_gop_max_frame_num", 2)
	add("nopub-start", av, false, "rtmp.gop_num", 1, "httpflv.gop_num", 1)
	// HTTP-FLV / HTTP-TS served over https only (the sub-session code is the same; the plain listener is off)
	add("gop1+https-only", av, true, "rtmp.gop_num", 1, "httpflv.gop_num", 1, "httpts.gop_num", 1, "httpflv.enable", false, "httpflv.enable_https", true, "httpts.enable", false, "httpts.enable_https", true)
	cs[len(cs)-1].Alphabet = append(append([]string{}, av...), "J:ts")
	// merge-write: buffered residue of the previous GOP must not reach a joiner that waits for a key frame
	add("gop0+merge", lean, true, "rtmp.merge_write_size", 130)
	add("gop1+merge", lean, true, "rtmp.merge_write_size", 130, "rtmp.gop_num", 1, "httpflv.gop_num", 1)
	// non-initial start states: a previous publisher has already filled (and wrapped) the GOP rings
	hist := [][]string{
		{"P:vsh", "P:key", "P:inter", "PubLeave", "PubArrive"},
		{"P:vsh", "P:key", "P:key", "P:inter", "PubLeave", "PubArrive"},
		{"P:vsh", "P:key", "P:inter", "P:key", "P:key", "PubLeave", "PubArrive"},
	}
	leanTs := append(append([]string{}, lean...), "J:ts")
	for i, h := range hist {
		for _, g := range []int{1, 2} {
			add(fmt.Sprintf("gop%d-after-history%d", g, i), leanTs, true, "rtmp.gop_num", g, "httpflv.gop_num", g, "httpts.gop_num", g)
			cs[len(cs)-1].Prefix = h
			cs[len(cs)-1].MaxInc = 3
		}
	}
	// the same for HTTP-TS, whose remuxer starts only once both tracks are known: audio + video histories,
	// the second publisher has announced both tracks, then frames and joiners in every order
	for _, g := range []int{1, 2} {
		add(fmt.Sprintf("ts-gop%d-after-av-history", g), []string{"P:key", "P:inter", "P:aac", "J:ts", "J:flv"}, true, "rtmp.gop_num", g, "httpflv.gop_num", g, "httpts.gop_num", g)
		cs[len(cs)-1].Prefix = []string{"P:vsh", "P:ash", "P:key", "P:aac", "P:inter", "P:key", "P:aac", "P:key", "P:aac", "PubLeave", "PubArrive", "P:vsh", "P:ash"}
		cs[len(cs)-1].MaxInc = 3
	}
	// merge-write with a subscriber that stays while the publisher changes: what the merge buffer still
	// holds of the first publisher must not surface under the second
	add("gop0+merge-republish", lean, true, "rtmp.merge_write_size", 130)
	cs[len(cs)-1].Prefix = []string{"J:rtmp", "P:vsh", "PubLeave", "PubArrive"}
	cs[len(cs)-1].MaxInc = 3
	// merge-write with a cached GOP and an older subscriber: a joiner is served from the cache while the
	// merge buffer still holds part of what the cache replays
	add("gop1+merge-join", lean, true, "rtmp.merge_write_size", 130, "rtmp.gop_num", 1, "httpflv.gop_num", 1)
	cs[len(cs)-1].Prefix = []string{"J:rtmp", "P:vsh", "P:key", "P:inter"}
	add("gop0+merge-audio-join", []string{"P:ash", "P:aac", "J:rtmp", "J:flv", "PubLeave", "PubArrive"}, true, "rtmp.merge_write_size", 130)
	cs[len(cs)-1].Prefix = []string{"J:rtmp", "P:ash", "P:aac"}
	// a consumer that joins in the gap between two publishers, the second with other tracks (audio only
	// after audio + video, video only after audio)
	gap := []string{"P:vsh", "P:key", "P:ash", "P:aac", "J:rtmp", "J:flv", "J:ts", "PubArrive", "PubLeave"}
	for i, h := range [][]string{{"P:vsh", "P:key", "P:inter", "PubLeave"}, {"P:vsh", "P:ash", "P:key", "P:aac", "PubLeave"}, {"P:ash", "P:aac", "PubLeave"}} {
		for _, g := range []int{0, 1} {
			add(fmt.Sprintf("gop%d-join-in-gap%d", g, i), gap, true, "rtmp.gop_num", g, "httpflv.gop_num", g, "httpts.gop_num", g)
			cs[len(cs)-1].Prefix = h
			cs[len(cs)-1].MaxInc = 3
		}
	}
	// consumers that joined mid-GOP and are still waiting for a key frame when their publisher leaves; the
	// name is then re-published with other tracks (audio only: nothing may hold them back any longer)
	for i, h := range [][]string{{"P:vsh", "P:key", "P:inter", "J:rtmp", "J:flv"}, {"P:vsh", "P:key", "P:inter", "J:ts", "J:rtmp"}, {"P:vsh", "P:ash", "P:key", "P:aac", "J:flv", "J:ts"}} {
		add(fmt.Sprintf("gop0-waiting-across-republish%d", i), []string{"P:vsh", "P:key", "P:inter", "P:ash", "P:aac", "PubArrive", "PubLeave"}, true)
		cs[len(cs)-1].Prefix = h
		cs[len(cs)-1].MaxInc = 3
	}
	if !r.Quick() {
		add("gop3", av, true, "rtmp.gop_num", 3, "httpflv.gop_num", 3, "httpts.gop_num", 2)
		add("gop1-full", full, true, "rtmp.gop_num", 1, "httpflv.gop_num", 2, "httpts.gop_num", 1)
		add("gop3cap1", lean, true, "rtmp.gop_num", 3, "httpflv.gop_num", 3, "rtmp.single_gop_max_frame_num", 1, "httpflv.single_gop_max_frame_num", 1)
	}
	return cs
}

func main() {
	r := vk.Start("C02", "model_checking")
	lalenv.Quiet()
	world.SyncQueues()
	r.Rule("states = distinct canonical fingerprints reached by event sequences over {P(metasdf|vsh|vsh2|key|inter|ash|aac), J(rtmp|flv|ts), L, PubLeave, PubArrive} with a well-formed publisher, per GOP-cache configuration; every transition replays its prefix on a fresh server; the oracle is the reference prologue/GOP model; plus the RTSP-consumer join-point enumeration. distinct_nontrivial = states")
	r.Assume("publishers are well formed: frames only after their sequence header, inter frames only after a key frame of the same publisher (lal's stated assumption for streams that start without a key frame)",
		"subscriber write queues forced to 0; merge-write off (C01 covers it)",
		"a GOP cut by the per-GOP cap may keep cap or cap+1 entries (the statement does not say whether the key frame counts)",
		"RTSP consumers: a separate enumeration (rtspsub.go) joins an interleaved RTSP player at every instant of a fixed two-GOP script of an RTSP publisher (between any two RTP packets, also inside a fragmented key frame) and of an RTMP publisher, AVC / HEVC / audio-only, and demands SDP before media, a first video packet that begins a key frame, video starting at the next key frame, and no holding back without video")
	mk := func(o sw.SysOpts) func() seqx.Sys { return func() seqx.Sys { return sw.NewSys(o, check) } }
	if r.ReplayIn != "" {
		var rp replay
		r.LoadReplay(&rp)
		if rp.RtspSub != nil {
			vs, err := rsRun(*rp.RtspSub)
			if err != nil {
				r.Violation("infra/rtsp-sub", err.Error(), rp)
			}
			for _, v := range vs {
				r.Violation(v.key, v.what, rp)
			}
			r.Finish()
		}
		s, vs, err := seqx.Run(seqx.Config{New: mk(rp.Cfg)}, rp.Trace)
		if err != nil {
			r.Violation("infra/replay", err.Error(), rp)
		}
		for _, v := range vs {
			r.Violation(v.Key, v.What, rp)
		}
		seqx.Close(s)
		r.Finish()
	}
	r.SetBudget(5*time.Minute, 60*time.Minute)
	depth := 5
	if !r.Quick() {
		depth = 9
	}
	var states, trans, execs int64
	per := map[string]interface{}{}
	for _, c := range configs(r) {
		c := c
		st := seqx.Explore(seqx.Config{New: mk(c), MaxDepth: depth, Workers: 16, OutOfTime: r.OutOfTime,
			OnViolation: func(tr []string, v seqx.Viol) {
				r.Violation(v.Key, fmt.Sprintf("[%s] after %s: %s", c.Name, strings.Join(tr, " "), v.What), replay{Cfg: c, Trace: tr})
			},
			OnInfra: func(tr []string, err error) {
				r.Violation("infra/hang-or-nondeterminism", fmt.Sprintf("[%s] %v: %v", c.Name, tr, err), replay{Cfg: c, Trace: tr})
			},
			OnState: func(d int, fp string, tr []string) {
				r.Class(c.Name + "|" + fp)
				if d == depth {
					r.Sample(map[string]interface{}{"config": c.Name, "trace": tr})
				}
			}})
		states += st.States
		trans += st.Transitions
		execs += st.Executions
		per[c.Name] = map[string]interface{}{"states": st.States, "transitions": st.Transitions, "depth_completed": st.MaxDepthCompleted, "frontier": st.Frontier, "executions_repeated_after_infra_error": st.Retried}
		if st.Capped {
			r.NotExhaustive("internal time budget hit before the depth bound")
		}
		r.Eval(int(st.Executions))
	}
	r.AddStates(states)
	r.AddTransitions(trans)
	r.AddTraces(execs)
	r.Cov("per_config", per)
	r.Cov("max_depth", depth)
	if !r.OutOfTime() {
		n := rsPhase(r)
		r.Eval(n)
		r.AddTraces(int64(n))
		r.Cov("rtsp_sub_cases", n)
	} else {
		r.NotExhaustive("the RTSP-consumer enumeration was not run (time budget)")
	}
	r.Finish()
}
