package main

// RTSP consumers of C02: an RTSP player joins at every instant of a fixed publish script (before the
// publisher, between any two RTP packets of an RTSP publisher - also between the fragments of a key
// frame -, between any two messages of an RTMP publisher). What it receives must start decodable: the
// SDP (DESCRIBE answer) before any media, the first video packet the beginning of a key frame
// (parameter set, IRAP NAL, aggregation packet starting with one, or the START fragment of an IRAP
// NAL), video arriving at all once a later key frame has been published, and with a stream without
// video audio must flow at once.

import (
	"encoding/base64"
	"fmt"

	"verif/lib/ref"
	"verif/lib/sw"
	"verif/lib/vk"
	"verif/lib/world"
)

type rsCase struct {
	Pub       string `json:"pub"`   // rtsp | rtmp
	Video     string `json:"video"` // avc | hevc | ""
	Audio     bool   `json:"audio"`
	Aggr      bool   `json:"aggregate"`            // parameter sets in one aggregation packet (RTSP publisher)
	Join      int    `json:"join"`                 // the player joins before step Join (-1: before the publisher arrives)
	Join2     int    `json:"join2"`                // a second player (-2: none)
	LateVideo bool   `json:"late_video,omitempty"` // RTMP publisher, audio only for 20 messages, then a video sequence header and frames (the description stays audio-only)
	ACodec    string `json:"acodec,omitempty"`     // RTMP publisher's audio: "" AAC | pcmu | pcma | opus (no sequence header)
}

var (
	rsAvcSps = ref.WriteAvcSps(ref.AvcSps{Profile: 100, Level: 31, ChromaFormat: 1, PocType: 0, Log2MaxPocLsbM4: 2, MaxNumRefFrames: 3, WidthMbsM1: 19, HeightMapUnitsM1: 14, FrameMbsOnly: true, Direct8x8: true})
	rsAvcPps = []byte{0x68, 0xce, 0x3c, 0x80}
	rsPtl    = ref.HevcPtl{ProfileIdc: 1, Compat: 0x60000000, Constraint: 0x900000000000, Level: 93}
	rsVps    = ref.WriteHevcVps(0, rsPtl)
	rsHSps   = ref.WriteHevcSps(ref.HevcSps{Ptl: rsPtl, ChromaFormat: 1, Width: 320, Height: 240})
	rsHPps   = []byte{0x44, 0x01, 0xc1, 0x72, 0xb4, 0x62, 0x40}
	rsAsc    = []byte{0x12, 0x10}
)

func rsNal(video string, key bool, size, tag int) []byte {
	var n []byte
	if video == "avc" {
		if key {
			n = []byte{0x65, 0x88}
		} else {
			n = []byte{0x41, 0x9a}
		}
	} else {
		if key {
			n = []byte{19 << 1, 1, 0xaf}
		} else {
			n = []byte{1 << 1, 1, 0xd0}
		}
	}
	for len(n) < size {
		n = append(n, byte(0x80|(len(n)*7+tag)&0x7f))
	}
	return n
}

func rsSdp(c rsCase) ([]byte, []string) {
	s := "v=0\r\no=- 0 0 IN IP4 127.0.0.1\r\ns=x\r\nc=IN IP4 127.0.0.1\r\nt=0 0\r\n"
	var ctl []string
	b64 := base64.StdEncoding.EncodeToString
	if c.Video == "avc" {
		s += "m=video 0 RTP/AVP 96\r\na=rtpmap:96 H264/90000\r\na=fmtp:96 packetization-mode=1; sprop-parameter-sets=" + b64(rsAvcSps) + "," + b64(rsAvcPps) + "; profile-level-id=64001F\r\n" + fmt.Sprintf("a=control:streamid=%d\r\n", len(ctl))
		ctl = append(ctl, fmt.Sprintf("streamid=%d", len(ctl)))
	} else if c.Video == "hevc" {
		s += "m=video 0 RTP/AVP 98\r\na=rtpmap:98 H265/90000\r\na=fmtp:98 sprop-vps=" + b64(rsVps) + "; sprop-sps=" + b64(rsHSps) + "; sprop-pps=" + b64(rsHPps) + "\r\n" + fmt.Sprintf("a=control:streamid=%d\r\n", len(ctl))
		ctl = append(ctl, fmt.Sprintf("streamid=%d", len(ctl)))
	}
	if c.Audio {
		s += fmt.Sprintf("m=audio 0 RTP/AVP 97\r\na=rtpmap:97 MPEG4-GENERIC/44100/2\r\na=fmtp:97 profile-level-id=1;mode=AAC-hbr;sizelength=13;indexlength=3;indexdeltalength=3; config=%x\r\na=control:streamid=%d\r\n", rsAsc, len(ctl))
		ctl = append(ctl, fmt.Sprintf("streamid=%d", len(ctl)))
	}
	return []byte(s), ctl
}

// one step of the publish script
type rsStep struct {
	video    bool
	keyStart bool // (RTSP publisher) this packet begins a key frame's access unit; (RTMP) the message is a key frame
	rtp      []byte
	msg      ref.Msg
}

// rsKnown: index of the step after which lal can know the stream's tracks (and so answer DESCRIBE). An
// RTMP stream with one track only is announced after 16 audio / video messages (the remuxer waits that
// long for the other track's sequence header).
func rsKnown(c rsCase) int {
	if c.Pub != "rtmp" {
		return 0
	}
	if c.Video != "" && c.Audio {
		return 2
	}
	return 16
}

func rsScript(c rsCase) []rsStep {
	var st []rsStep
	rsFrames := 2 // GOPs in the script
	if rsKnown(c) == 16 {
		rsFrames = 8
		if c.Video == "" {
			rsFrames = 12 // (two audio messages per round: the stream is described after the first eight rounds)
		}
	}
	if c.Pub == "rtsp" {
		vseq, aseq := uint16(65534), uint16(10)
		pt := uint8(96)
		if c.Video == "hevc" {
			pt = 98
		}
		addV := func(ts uint32, nals [][]byte, aggr, key bool) {
			var pl [][]byte
			if c.Video == "avc" {
				pl = ref.PackH264(nals, ref.PackOpt{Limit: 300, Aggregate: aggr})
			} else {
				pl = ref.PackH265(nals, ref.PackOpt{Limit: 300, Aggregate: aggr})
			}
			for i, x := range pl {
				st = append(st, rsStep{video: true, keyStart: key && i == 0, rtp: ref.BuildRtp(ref.Rtp{Marker: i == len(pl)-1, PT: pt, Seq: vseq, Ts: ts, Ssrc: 7, Payload: x})})
				vseq++
			}
		}
		addA := func(ts uint32, tag int) {
			au := []byte{0x21, byte(tag), 0x55, 0x66, 0x77}
			st = append(st, rsStep{rtp: ref.BuildRtp(ref.Rtp{Marker: true, PT: 97, Seq: aseq, Ts: ts, Ssrc: 8, Payload: ref.PackAacHbr(au)})})
			aseq++
		}
		for g := 0; g < rsFrames; g++ {
			base := uint32(g * 2000)
			if c.Video != "" {
				var ps [][]byte
				if c.Video == "avc" {
					ps = [][]byte{rsAvcSps, rsAvcPps}
				} else {
					ps = [][]byte{rsVps, rsHSps, rsHPps}
				}
				// parameter sets (aggregated or one packet each), then the key frame in 4 fragments
				addV(base*90, append(ps, rsNal(c.Video, true, 1000, g)), c.Aggr, true)
			}
			if c.Audio {
				addA(base*44100/1000, 2*g)
			}
			if c.Video != "" {
				addV((base+40)*90, [][]byte{rsNal(c.Video, false, 60, g)}, false, false)
				addV((base+80)*90, [][]byte{rsNal(c.Video, false, 700, g)}, false, false) // 3 fragments
			}
			if c.Audio {
				addA((base+80)*44100/1000, 2*g+1)
			}
		}
		return st
	}
	// RTMP publisher
	addM := func(typ uint8, ts uint32, p []byte, video, key bool) {
		csid := 6
		if typ == 8 {
			csid = 4
		}
		st = append(st, rsStep{video: video, keyStart: key, msg: ref.Msg{Csid: csid, Type: typ, Msid: 1, Ts: ts, Payload: p}})
	}
	frame := func(first byte, nal []byte) []byte {
		p := []byte{first, 1, 0, 0, 0, byte(len(nal) >> 24), byte(len(nal) >> 16), byte(len(nal) >> 8), byte(len(nal))}
		return append(p, nal...)
	}
	if c.Video == "avc" {
		addM(9, 0, sw.MakeMsg("vsh", 1, 0, 0).Payload, false, false)
	} else if c.Video == "hevc" {
		b := []byte{0x1c, 0, 0, 0, 0}
		rec := make([]byte, 23)
		rec[0], rec[1], rec[21], rec[22] = 1, 1, 0x0f, 3
		b = append(b, rec...)
		for _, a := range []struct {
			t byte
			d []byte
		}{{32, rsVps}, {33, rsHSps}, {34, rsHPps}} {
			b = append(b, 0x80|a.t, 0, 1, byte(len(a.d)>>8), byte(len(a.d)))
			b = append(b, a.d...)
		}
		addM(9, 0, b, false, false)
	}
	if c.Audio && c.ACodec == "" {
		addM(8, 0, []byte{0xaf, 0, rsAsc[0], rsAsc[1]}, false, false)
	}
	aframe := func(n int) []byte {
		switch c.ACodec {
		case "pcmu":
			return []byte{0x82, 0x21, byte(n), 0x55, 0x66, 0x77}
		case "pcma":
			return []byte{0x72, 0x21, byte(n), 0x55, 0x66, 0x77}
		case "opus":
			return []byte{0xdf, 0x21, byte(n), 0x55, 0x66, 0x77}
		}
		return []byte{0xaf, 1, 0x21, byte(n), 0x55, 0x66}
	}
	kf, inf := byte(0x17), byte(0x27)
	if c.Video == "hevc" {
		kf, inf = 0x1c, 0x2c
	}
	for g := 0; g < rsFrames; g++ {
		base := uint32(g * 2000)
		if c.Video != "" {
			addM(9, base, frame(kf, rsNal(c.Video, true, 4000, g)), true, true)
		}
		if c.Audio {
			addM(8, base, aframe(2*g), false, false)
		}
		if c.Video != "" {
			addM(9, base+40, frame(inf, rsNal(c.Video, false, 60, g)), true, false)
			addM(9, base+80, frame(inf, rsNal(c.Video, false, 3000, g)), true, false)
		}
		if c.Audio {
			addM(8, base+80, aframe(2*g+1), false, false)
		}
	}
	if c.LateVideo {
		// the camera is switched on after the microphone: a video sequence header and frames from message 20 on
		var out []rsStep
		for i, x := range st {
			if i == 20 {
				v := sw.MakeMsg("vsh", 1, 0, 0)
				out = append(out, rsStep{msg: ref.Msg{Csid: 6, Type: 9, Msid: 1, Ts: x.msg.Ts, Payload: v.Payload}})
			}
			if i >= 20 && i%2 == 0 {
				k := sw.MakeMsg("inter", i, x.msg.Ts, 64)
				if i%6 == 2 {
					k = sw.MakeMsg("key", i, x.msg.Ts, 64)
				}
				out = append(out, rsStep{msg: ref.Msg{Csid: 6, Type: 9, Msid: 1, Ts: x.msg.Ts, Payload: k.Payload}})
			}
			out = append(out, x)
		}
		st = out
	}
	return st
}

// rsStartsKey: does this RTP payload begin a key frame (or its parameter sets)?
func rsStartsKey(video string, p []byte) (bool, string) {
	if video == "avc" {
		if len(p) < 1 {
			return false, "empty payload"
		}
		isK := func(t byte) bool { return t == 5 || t == 7 || t == 8 }
		t := p[0] & 0x1f
		switch {
		case t == 24 && len(p) > 3:
			return isK(p[3] & 0x1f), fmt.Sprintf("STAP-A whose first NAL has type %d", p[3]&0x1f)
		case t == 28 && len(p) > 1:
			return isK(p[1]&0x1f) && p[1]&0x80 != 0, fmt.Sprintf("FU-A of NAL type %d, start bit %d", p[1]&0x1f, p[1]>>7)
		}
		return isK(t), fmt.Sprintf("NAL type %d", t)
	}
	if len(p) < 2 {
		return false, "short payload"
	}
	isK := func(t byte) bool { return (t >= 16 && t <= 23) || (t >= 32 && t <= 34) }
	t := p[0] >> 1 & 0x3f
	switch {
	case t == 48 && len(p) > 4:
		return isK(p[4] >> 1 & 0x3f), fmt.Sprintf("AP whose first NAL has type %d", p[4]>>1&0x3f)
	case t == 49 && len(p) > 2:
		return isK(p[2]&0x3f) && p[2]&0x80 != 0, fmt.Sprintf("FU of NAL type %d, start bit %d", p[2]&0x3f, p[2]>>7)
	}
	return isK(t), fmt.Sprintf("NAL type %d", t)
}

type rsViol struct{ key, what string }

type rsStat struct{ described, video, audio int }

func rsRun(c rsCase) (vs []rsViol, infra error) {
	vs, _, infra = rsRunStat(c)
	return
}

func rsRunStat(c rsCase) (vs []rsViol, stat rsStat, infra error) {
	w := world.New(world.Conf{"rtsp.enable": true})
	defer w.Close()
	const uri = "rtsp://h/live/s"
	script := rsScript(c)
	type player struct {
		p        *world.RtspPeer
		join     int
		video    [][]byte // RTP payloads on the video channel, in order
		audio    int
		sdpFirst bool
		audioAt  map[int]int // step -> audio packets received so far
	}
	var players []*player
	vch, ach := -1, -1
	if c.Video != "" {
		vch = 0
		if c.Audio {
			ach = 2
		}
	} else {
		ach = 0
	}
	pump := func(step int) {
		for _, pl := range players {
			if pl.p == nil {
				continue
			}
			pl.p.Continue()
			for _, it := range pl.p.Pump() {
				if it.IsMsg {
					continue
				}
				r, err := ref.ParseRtp(it.Data)
				if err != nil {
					continue
				}
				switch it.Channel {
				case vch:
					pl.video = append(pl.video, r.Payload)
				case ach:
					pl.audio++
				}
			}
			pl.audioAt[step] = pl.audio
		}
	}
	join := func(at int) error {
		pl := &player{join: at, audioAt: map[int]int{}}
		players = append(players, pl)
		var err error
		pl.p, err = w.RtspPlayer(uri, nil)
		return err
	}
	joins := []int{c.Join}
	if c.Join2 > -2 {
		joins = append(joins, c.Join2)
	}
	for _, j := range joins {
		if j == -1 {
			if err := join(-1); err != nil {
				return nil, stat, err
			}
		}
	}
	var rpub *world.RtspPeer
	var mpub *world.RtmpPeer
	var err error
	if c.Pub == "rtsp" {
		sdp, ctl := rsSdp(c)
		rpub, err = w.RtspPublisher(uri, sdp, ctl)
		if err != nil {
			return nil, stat, err
		}
		if !rpub.Accepted() || rpub.LastStatus() != 200 {
			return nil, stat, fmt.Errorf("the reference RTSP publisher was refused (status %d)", rpub.LastStatus())
		}
	} else {
		mpub, err = w.RtmpPublisher("live", "s")
		if err != nil {
			return nil, stat, err
		}
	}
	pump(-1)
	for i, s := range script {
		for _, j := range joins {
			if j == i {
				if err := join(i); err != nil {
					return nil, stat, err
				}
			}
		}
		if rpub != nil {
			tr := 0
			if !s.video && c.Video != "" {
				tr = 1
			}
			rpub.SendRtp(tr, s.rtp)
		} else {
			mpub.SendMsgs(s.msg)
		}
		if err := w.Settle(); err != nil {
			return nil, stat, err
		}
		pump(i)
	}
	if p := w.Net.FirstPanic(); p != "" {
		vs = append(vs, rsViol{"rtsp-sub/panic", p})
	}
	for _, pl := range players {
		who := fmt.Sprintf("RTSP player joining before step %d of a %s publisher (%s, audio %v %s)", pl.join, c.Pub, c.Video, c.Audio, c.ACodec)
		if pl.p.Err != nil {
			vs = append(vs, rsViol{"rtsp-sub/framing", who + ": " + pl.p.Err.Error()})
			continue
		}
		// the SDP comes before any media
		seenSdp := false
		for _, it := range pl.p.Items {
			if it.IsMsg && it.Status == 200 && len(it.Body) > 0 {
				seenSdp = true
			}
			if !it.IsMsg && !seenSdp {
				vs = append(vs, rsViol{"rtsp-sub/media-before-sdp", who + ": interleaved data before the DESCRIBE answer"})
				break
			}
		}
		// the player must have got through DESCRIBE / SETUP / PLAY once the stream's tracks are known
		known := rsKnown(c)
		stat.video += len(pl.video)
		stat.audio += pl.audio
		if len(pl.p.Tracks) > 0 {
			stat.described++
		}
		if len(pl.p.Tracks) == 0 {
			if len(script) > known+1 && pl.join < len(script)-1 {
				vs = append(vs, rsViol{"rtsp-sub/never-described", who + ": DESCRIBE was never answered although the sequence headers had been published"})
			}
			continue
		}
		if c.Video != "" {
			if len(pl.video) > 0 {
				if ok, what := rsStartsKey(c.Video, pl.video[0]); !ok {
					vs = append(vs, rsViol{"rtsp-sub/first-video-not-key-start", fmt.Sprintf("%s: the first video packet it received is %s, not the beginning of a key frame", who, what)})
				}
			}
			// a key frame that began at or after the join (and after the player could be set up) must arrive
			must := false
			for i, s := range script {
				if s.keyStart && i >= pl.join && i > known {
					must = true
				}
			}
			if must && len(pl.video) == 0 {
				vs = append(vs, rsViol{"rtsp-sub/video-never-starts", who + ": a key frame was published after it joined but no video packet reached it"})
			}
		} else if c.Audio {
			// no video: never held back. Every audio packet published once the player is set up reaches it at once
			for i, s := range script {
				if i < pl.join || i <= known+2 || s.video || (c.Pub == "rtmp" && s.msg.Type != 8) { // (a held DESCRIBE is answered once the tracks are known; SETUP and PLAY take the next steps)
					continue
				}
				prev := 0
				if i > 0 {
					prev = pl.audioAt[i-1]
				}
				if c.Pub == "rtmp" && c.ACodec == "" && s.msg.Payload[1] == 0 {
					continue
				}
				if pl.audioAt[i] <= prev {
					vs = append(vs, rsViol{"rtsp-sub/audio-held-back", fmt.Sprintf("%s: the audio frame of step %d did not reach it although the stream has no video", who, i)})
					break
				}
			}
		}
	}
	return vs, stat, nil
}

func rsCases(quick bool) []rsCase {
	var cs []rsCase
	// RTMP publishers whose video starts after the stream has been described as audio-only
	for _, ac := range []string{"", "pcma"} {
		n := len(rsScript(rsCase{Pub: "rtmp", Audio: true, ACodec: ac, LateVideo: true}))
		for j := -1; j < n; j++ {
			cs = append(cs, rsCase{Pub: "rtmp", Audio: true, ACodec: ac, LateVideo: true, Join: j, Join2: -2})
		}
	}
	// RTMP publishers with G.711 / Opus audio and no video (payload type 0 and 8 are static; nothing announces them)
	for _, ac := range []string{"pcmu", "pcma", "opus"} {
		n := len(rsScript(rsCase{Pub: "rtmp", Audio: true, ACodec: ac}))
		for j := -1; j < n; j++ {
			cs = append(cs, rsCase{Pub: "rtmp", Audio: true, ACodec: ac, Join: j, Join2: -2})
		}
	}
	for _, pub := range []string{"rtsp", "rtmp"} {
		for _, v := range []string{"avc", "hevc", ""} {
			for _, a := range []bool{true, false} {
				if v == "" && !a {
					continue
				}
				for _, aggr := range []bool{false, true} {
					if aggr && (pub != "rtsp" || v == "") {
						continue
					}
					n := len(rsScript(rsCase{Pub: pub, Video: v, Audio: a, Aggr: aggr}))
					for j := -1; j < n; j++ {
						cs = append(cs, rsCase{Pub: pub, Video: v, Audio: a, Aggr: aggr, Join: j, Join2: -2})
						if quick {
							continue
						}
						for j2 := j + 1; j2 < n; j2++ {
							cs = append(cs, rsCase{Pub: pub, Video: v, Audio: a, Aggr: aggr, Join: j, Join2: j2})
						}
					}
				}
			}
		}
	}
	return cs
}

// rsPhase runs the RTSP-consumer enumeration; returns the number of cases.
func rsPhase(r *vk.Run) int {
	cs := rsCases(r.Quick())
	type out struct {
		c   rsCase
		vs  []rsViol
		st  rsStat
		err error
	}
	var tot rsStat
	jobs := make(chan rsCase, len(cs))
	res := make(chan out, len(cs))
	for _, c := range cs {
		jobs <- c
	}
	close(jobs)
	for wk := 0; wk < 16; wk++ {
		go func() {
			for c := range jobs {
				vs, st, err := rsRunStat(c)
				res <- out{c, vs, st, err}
			}
		}()
	}
	for range cs {
		o := <-res
		if o.err != nil {
			r.Violation("infra/rtsp-sub", fmt.Sprintf("%+v: %v", o.c, o.err), map[string]interface{}{"rtsp_sub": o.c})
			continue
		}
		tot.described += o.st.described
		tot.video += o.st.video
		tot.audio += o.st.audio
		r.Class(fmt.Sprintf("rtsp-sub|%s|%s|%v|%v|viol=%d", o.c.Pub, o.c.Video, o.c.Audio, o.c.Aggr, len(o.vs)))
		for _, v := range o.vs {
			r.Violation(v.key, fmt.Sprintf("[rtsp-sub %+v] %s", o.c, v.what), map[string]interface{}{"rtsp_sub": o.c})
		}
	}
	r.Cov("rtsp_sub_players_described", tot.described)
	r.Cov("rtsp_sub_video_packets_received", tot.video)
	r.Cov("rtsp_sub_audio_packets_received", tot.audio)
	return len(cs)
}
