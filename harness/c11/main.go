// C11 — FLV output (HTTP-FLV, WebSocket-FLV, recordings) is a valid FLV byte stream.
// Family (I): exhaustive enumeration over tag type x boundary payload lengths x boundary timestamps,
// every WebSocket frame length 0..70000 (+ large), and every sequence of <= 4 tags from a 6-letter
// alphabet through the real file writer/reader and the real HTTP-FLV / WS-FLV sub sessions,
// against reference FLV / RFC 6455 parsers (lib/ref/flv.go).
package main

import (
	"bufio"
	"bytes"
	"fmt"
	"net"
	"os"
	"path/filepath"
	"strings"
	"sync"
	"time"

	"github.com/q191201771/lal/pkg/base"
	"github.com/q191201771/lal/pkg/httpflv"
	"github.com/q191201771/lal/pkg/remux"

	"verif/lib/lalenv"
	"verif/lib/netsim"
	"verif/lib/ref"
	"verif/lib/vk"
)

type tagCase struct {
	Type uint8  `json:"type"`
	Len  int    `json:"len"`
	Ts   uint32 `json:"ts"`
}

type replay struct {
	Kind  string    `json:"kind"`
	Tag   *tagCase  `json:"tag,omitempty"`
	WsLen uint64    `json:"ws_len,omitempty"`
	Seq   []tagCase `json:"seq,omitempty"`
	Path  string    `json:"path,omitempty"`
}

func payload(n int, salt byte) []byte {
	b := make([]byte, n)
	for i := range b {
		b[i] = byte(i*5+1) ^ salt ^ byte(i>>8)
	}
	if n > 0 {
		b[0] = 0x17 // looks like an AVC key frame to the classifiers (never interpreted further here)
	}
	if n > 1 {
		b[1] = 1
	}
	return b
}

func lenClass(n int) string {
	switch {
	case n == 0:
		return "0"
	case n < 110:
		return "small"
	case n <= 130:
		return fmt.Sprint(n) // around the 125/126/127 WebSocket boundary (with and without 15 framing bytes)
	case n < 65500:
		return "mid"
	case n <= 65545:
		return fmt.Sprint(n)
	default:
		return "big"
	}
}

func tsClass(ts uint32) string {
	switch {
	case ts < 0xFFFFFF:
		return "lt24"
	case ts == 0xFFFFFF:
		return "eq24"
	default:
		return "gt24"
	}
}

func checkTag(r *vk.Run, tc tagCase) {
	r.Eval(1)
	p := payload(tc.Len, byte(tc.Ts))
	rp := replay{Kind: "tag", Tag: &tc}
	key := fmt.Sprintf("tag/len=%s/ts=%s", lenClass(tc.Len), tsClass(tc.Ts))
	r.Class(fmt.Sprintf("tag/type=%d/len=%s/ts=%s", tc.Type, lenClass(tc.Len), tsClass(tc.Ts)))
	raw := httpflv.PackHttpflvTag(tc.Type, tc.Ts, p)
	want := ref.FlvTag{Type: tc.Type, Ts: tc.Ts, Payload: p}
	// reference parser
	tags, rest, err := ref.ParseFlvTags(raw)
	if err != nil || rest != 0 || len(tags) != 1 || !sameTag(tags[0], want) {
		r.Violation(key+"/pack/ref", fmt.Sprintf("PackHttpflvTag(%d, ts=%d, len=%d): reference parser: err=%v rest=%d tags=%d", tc.Type, tc.Ts, tc.Len, err, rest, len(tags)), rp)
	}
	if !bytes.Equal(raw, ref.BuildFlvTag(want)) {
		r.Violation(key+"/pack/bytes", fmt.Sprintf("PackHttpflvTag(%d, ts=%d, len=%d) differs from the reference encoding", tc.Type, tc.Ts, tc.Len), rp)
	}
	// lal's reader
	t, err := httpflv.ReadTag(bytes.NewReader(raw))
	if err != nil || t.Header.Type != tc.Type || t.Header.Timestamp != tc.Ts || t.Header.DataSize != uint32(tc.Len) || t.Header.StreamId != 0 || !bytes.Equal(t.Raw, raw) || !bytes.Equal(t.Payload(), p) {
		r.Violation(key+"/readtag", fmt.Sprintf("ReadTag(PackHttpflvTag(%d, ts=%d, len=%d)): err=%v header=%+v", tc.Type, tc.Ts, tc.Len, err, t.Header), rp)
	}
	// the conversion used by the live path and by recordings: RTMP message -> tag -> RTMP message
	msg := base.RtmpMsg{Header: base.RtmpHeader{Csid: 6, MsgLen: uint32(tc.Len), MsgTypeId: tc.Type, MsgStreamId: 1, TimestampAbs: tc.Ts}, Payload: p}
	ft := remux.RtmpMsg2FlvTag(msg)
	if !bytes.Equal(ft.Raw, raw) || ft.Header.Type != tc.Type || ft.Header.Timestamp != tc.Ts || ft.Header.DataSize != uint32(tc.Len) {
		r.Violation(key+"/rtmp2flv", fmt.Sprintf("RtmpMsg2FlvTag(type=%d ts=%d len=%d): header=%+v or bytes differ from PackHttpflvTag", tc.Type, tc.Ts, tc.Len, ft.Header), rp)
	}
	back := remux.FlvTag2RtmpMsg(*ft)
	if back.Header.MsgTypeId != tc.Type || back.Header.TimestampAbs != tc.Ts || back.Header.MsgLen != uint32(tc.Len) || !bytes.Equal(back.Payload, p) {
		r.Violation(key+"/flv2rtmp", fmt.Sprintf("FlvTag2RtmpMsg(RtmpMsg2FlvTag(type=%d ts=%d len=%d)) = %+v", tc.Type, tc.Ts, tc.Len, back.Header), rp)
	}
	// ModTagTimestamp keeps the tag consistent
	cl := httpflv.Tag{Header: ft.Header, Raw: append([]byte{}, ft.Raw...)}
	for _, nts := range []uint32{0, 0xFFFFFF, 0x1000000, 0xFFFFFFFF} {
		cl.ModTagTimestamp(nts)
		tg, rest, err := ref.ParseFlvTags(cl.Raw)
		if err != nil || rest != 0 || len(tg) != 1 || tg[0].Ts != nts || cl.Header.Timestamp != nts || !bytes.Equal(tg[0].Payload, p) {
			r.Violation(key+"/modts", fmt.Sprintf("ModTagTimestamp(%d) on tag len=%d: parsed ts/err = %v/%v", nts, tc.Len, tg, err), rp)
		}
	}
	// ... also when the header's timestamp has been re-based without the bytes (lal's file pump does that before
	// it hands a tag to its callback, and callers then write the header's value back with ModTagTimestamp)
	edges := []uint32{0, 256, 0xFFFFFF, 0x1000000, 0x1000100, 0x2000000, 0xFFFFFFFF}
	for _, hts := range edges {
		for _, nts := range edges {
			cl := httpflv.Tag{Header: ft.Header, Raw: append([]byte{}, ft.Raw...)}
			cl.Header.Timestamp = hts
			cl.ModTagTimestamp(nts)
			tg, rest, err := ref.ParseFlvTags(cl.Raw)
			if err != nil || rest != 0 || len(tg) != 1 || tg[0].Ts != nts || cl.Header.Timestamp != nts {
				r.Violation(key+"/modts-rebased", fmt.Sprintf("tag with timestamp %d in its bytes and %d in its header: ModTagTimestamp(%d) leaves %v in the bytes (err=%v)", tc.Ts, hts, nts, tg, err), rp)
			}
		}
	}
}

func sameTag(a, b ref.FlvTag) bool {
	return a.Type == b.Type && a.Ts == b.Ts && bytes.Equal(a.Payload, b.Payload)
}

func checkWs(r *vk.Run, l uint64) {
	r.Eval(1)
	h := base.MakeWsFrameHeader(base.WsHeader{Fin: true, Opcode: base.Wso_Binary, PayloadLength: l})
	form := 7
	if l >= 126 {
		form = 16
	}
	if l > 0xFFFF {
		form = 64
	}
	r.Class(fmt.Sprintf("ws/form=%d/%s", form, map[bool]string{true: "edge", false: "in"}[l == 125 || l == 126 || l == 127 || l == 65535 || l == 65536 || l == 0]))
	// parse header with a virtual payload: only feasible to materialise small ones; for the header
	// itself decode the fields by hand per RFC 6455 §5.2
	bad := ""
	if len(h) < 2 || h[0] != 0x82 {
		bad = fmt.Sprintf("first byte %#x, want 0x82 (FIN + binary)", h[0])
	} else if h[1]&0x80 != 0 {
		bad = "mask bit set on a server frame"
	} else {
		switch form {
		case 7:
			if len(h) != 2 || uint64(h[1]) != l {
				bad = fmt.Sprintf("7-bit form expected, header %x", h)
			}
		case 16:
			if len(h) != 4 || h[1] != 126 || uint64(h[2])<<8|uint64(h[3]) != l {
				bad = fmt.Sprintf("16-bit form expected, header %x", h)
			}
		case 64:
			var v uint64
			if len(h) == 10 {
				for _, x := range h[2:] {
					v = v<<8 | uint64(x)
				}
			}
			if len(h) != 10 || h[1] != 127 || v != l {
				bad = fmt.Sprintf("64-bit form expected, header %x", h)
			}
		}
	}
	if bad != "" {
		r.Violation(fmt.Sprintf("ws/header/len=%d", l), fmt.Sprintf("MakeWsFrameHeader(len=%d): %s", l, bad), replay{Kind: "ws", WsLen: l})
	}
}

// ---- sequences through real writers -----------------------------------------------------------------

var seqAlphabet = []tagCase{
	{18, 40, 0}, {9, 111, 0}, {9, 126, 40}, {8, 0, 0xFFFFFF}, {9, 65521, 0x1000000}, {8, 7, 0xFFFFFFFF},
}

func flvStreamOf(seq []tagCase) (tags []*httpflv.Tag, want []ref.FlvTag) {
	for i, tc := range seq {
		p := payload(tc.Len, byte(i))
		msg := base.RtmpMsg{Header: base.RtmpHeader{MsgLen: uint32(tc.Len), MsgTypeId: tc.Type, MsgStreamId: 1, TimestampAbs: tc.Ts}, Payload: p}
		tags = append(tags, remux.RtmpMsg2FlvTag(msg))
		want = append(want, ref.FlvTag{Type: tc.Type, Ts: tc.Ts, Payload: p})
	}
	return
}

func checkFlvBytes(r *vk.Run, path string, b []byte, want []ref.FlvTag, rp replay) {
	body, err := ref.ParseFlvHeader(b)
	if err != nil {
		r.Violation(path+"/header", fmt.Sprintf("%s: %v (first bytes %x)", path, err, b[:minInt(16, len(b))]), rp)
		return
	}
	tags, rest, err := ref.ParseFlvTags(body)
	ok := err == nil && rest == 0 && len(tags) == len(want)
	if ok {
		for i := range tags {
			if !sameTag(tags[i], want[i]) {
				ok = false
			}
		}
	}
	if !ok {
		r.Violation(path+"/tags", fmt.Sprintf("%s: reference parser got %d tags (err=%v, %d trailing bytes), want %d, for sequence %+v", path, len(tags), err, rest, len(want), rp.Seq), rp)
	}
}

func minInt(a, b int) int {
	if a < b {
		return a
	}
	return b
}

func checkSeq(r *vk.Run, seq []tagCase, dir string, idx int) {
	tags, want := flvStreamOf(seq)
	shape := ""
	for _, t := range seq {
		shape += fmt.Sprintf("%d:%s:%s,", t.Type, lenClass(t.Len), tsClass(t.Ts))
	}
	// (a) file writer -> reference parser and lal's file reader
	{
		r.Eval(1)
		rp := replay{Kind: "seq", Seq: seq, Path: "file"}
		fn := filepath.Join(dir, fmt.Sprintf("s%d.flv", idx))
		var w httpflv.FlvFileWriter
		if err := w.Open(fn); err != nil {
			r.Infra("open %s: %v", fn, err)
		}
		w.WriteFlvHeader()
		for _, t := range tags {
			w.WriteTag(*t)
		}
		w.Dispose()
		b, _ := os.ReadFile(fn)
		checkFlvBytes(r, "file", b, want, rp)
		var rd httpflv.FlvFileReader
		if err := rd.Open(fn); err != nil {
			r.Infra("reopen: %v", err)
		}
		if _, err := rd.ReadFlvHeader(); err != nil {
			r.Violation("file/lal-reader/header", fmt.Sprintf("FlvFileReader.ReadFlvHeader: %v", err), rp)
		}
		for i := range want {
			t, err := rd.ReadTag()
			if err != nil || t.Header.Type != want[i].Type || t.Header.Timestamp != want[i].Ts || !bytes.Equal(t.Payload(), want[i].Payload) {
				r.Violation("file/lal-reader/tag", fmt.Sprintf("FlvFileReader.ReadTag #%d of %+v: err=%v header=%+v", i, seq, err, t.Header), rp)
				break
			}
		}
		if _, err := rd.ReadTag(); err == nil {
			r.Violation("file/lal-reader/extra", fmt.Sprintf("FlvFileReader reads a tag past the end of %+v", seq), rp)
		}
		rd.Dispose()
		// the same path recorded a second time (lal names recordings <stream>-<unix second>.flv: a
		// re-publish within the second reuses the name): whatever is on disk afterwards is one valid FLV
		// stream - the second recording
		if len(seq) > 0 {
			var w2 httpflv.FlvFileWriter
			if err := w2.Open(fn); err != nil {
				r.Infra("open %s again: %v", fn, err)
			}
			w2.WriteFlvHeader()
			tags2, want2 := flvStreamOf(seq[len(seq)-1:])
			for _, t := range tags2 {
				w2.WriteTag(*t)
			}
			w2.Dispose()
			b2, _ := os.ReadFile(fn)
			rp2 := rp
			rp2.Path = "file-rerecorded"
			checkFlvBytes(r, "file-rerecorded", b2, want2, rp2)
		}
		os.Remove(fn)
		r.Class("seq/file/" + shape)
	}
	// (b) the real HTTP-FLV and WebSocket-FLV sub sessions over an in-memory connection
	for _, ws := range []bool{false, true} {
		r.Eval(1)
		path := "httpflv"
		if ws {
			path = "wsflv"
		}
		rp := replay{Kind: "seq", Seq: seq, Path: path}
		w := netsim.NewWorld()
		c := w.NewConn("sub")
		s := newSub(0, c, ws)
		s.WriteHttpResponseHeader()
		s.WriteFlvHeader()
		for _, t := range tags {
			s.WriteTag(t)
		}
		out := c.Take()
		s.Dispose()
		hdr, body, ok := ref.SplitHttpHeader(out)
		if !ok {
			r.Violation(path+"/http-header", fmt.Sprintf("%s: no complete HTTP response header in %d bytes", path, len(out)), rp)
			continue
		}
		if ws {
			if !bytes.HasPrefix(hdr, []byte("HTTP/1.1 101 ")) || !bytes.Contains(hdr, []byte("s3pPLMBiTxaQ9kYGzzhZRbK+xOo=")) {
				r.Violation("wsflv/handshake", fmt.Sprintf("upgrade response lacks 101 / the RFC 6455 accept value: %q", hdr), rp)
			}
			frames, rest, err := ref.ParseWsFrames(body)
			if err != nil || rest != 0 {
				r.Violation("wsflv/framing", fmt.Sprintf("WebSocket frames: err=%v trailing=%d for %+v", err, rest, seq), rp)
				continue
			}
			var cat []byte
			bad := ""
			for i, f := range frames {
				if !f.Fin || f.Opcode != 2 || f.Masked || f.Rsv != 0 {
					bad = fmt.Sprintf("frame %d: fin=%v opcode=%d masked=%v rsv=%d", i, f.Fin, f.Opcode, f.Masked, f.Rsv)
				}
				cat = append(cat, f.Payload...)
			}
			if bad != "" {
				r.Violation("wsflv/frame-flags", bad, rp)
			}
			// each unit lal writes (FLV header, each tag) is one frame
			if len(frames) != 1+len(tags) {
				r.Violation("wsflv/frame-count", fmt.Sprintf("%d frames for 1 header + %d tags", len(frames), len(tags)), rp)
			}
			checkFlvBytes(r, "wsflv", cat, want, rp)
		} else {
			if !bytes.HasPrefix(hdr, []byte("HTTP/1.1 200 ")) {
				r.Violation("httpflv/status", fmt.Sprintf("response header %q", hdr), rp)
			}
			checkFlvBytes(r, "httpflv", body, want, rp)
		}
		r.Class("seq/" + path + "/" + shape)
		// the same writes with lal's write queue enabled while the peer is not reading (units sit in
		// the queue, then drain): the byte stream must be identical to the synchronous one
		if len(tags) >= 2 {
			r.Eval(1)
			w2 := netsim.NewWorld()
			c2 := w2.NewConn("subq")
			c2.Stall(true)
			s2 := newSub(64, c2, ws)
			s2.WriteHttpResponseHeader()
			s2.WriteFlvHeader()
			for _, t := range tags {
				s2.WriteTag(t)
			}
			c2.Stall(false)
			var got []byte
			for i := 0; i < 2000 && len(got) < len(out); i++ {
				got = append(got, c2.Take()...)
				if len(got) < len(out) {
					time.Sleep(100 * time.Microsecond)
				}
			}
			s2.Dispose()
			if !bytes.Equal(got, out) {
				r.Violation(path+"/queued-writes-differ", fmt.Sprintf("%s: with the write queue enabled and a peer that reads late, the connection carries %d bytes that differ from the %d bytes of the synchronous run (sequence %+v)", path, len(got), len(out), seq), rp)
			}
		}
	}
}

var sessMu sync.Mutex

// newSub creates a sub session with the given write-queue size (a process-wide variable in lal).
func newSub(queue int, c *netsim.Conn, ws bool) *httpflv.SubSession {
	sessMu.Lock()
	defer sessMu.Unlock()
	httpflv.SubSessionWriteChanSize = queue
	return httpflv.NewSubSession(c, base.UrlContext{Url: "http://h/live/a.flv", LastItemOfPath: "a.flv", PathWithoutLastItem: "live"}, ws, "dGhlIHNhbXBsZSBub25jZQ==")
}

func main() {
	r := vk.Start("C11", "exploration")
	lalenv.Quiet()
	httpflv.SubSessionWriteChanSize = 0 // synchronous writes: output is complete when WriteTag returns
	r.Rule("cases: every (tag type, boundary payload length, boundary timestamp); MakeWsFrameHeader for every length 0..70000 and 6 large values; every sequence of <= 4 tags (quick 3) over a 6-letter alphabet through FlvFileWriter/FlvFileReader, the HTTP-FLV sub session and the WS-FLV sub session. distinct_nontrivial = distinct (type, length class, timestamp class) + WebSocket (length form, edge) + (path, sequence shape)")
	r.Assume("reference FLV / RFC 6455 parsers in lib/ref/flv.go",
		"sub-session write queue size forced to 0 (exported var httpflv.SubSessionWriteChanSize) so that writes are synchronous; queueing is C15's subject",
		"payload bytes beyond the first two are opaque to the code under test (data independence)")
	dir := os.Getenv("VERIF_SCRATCH")
	if dir == "" {
		dir, _ = os.MkdirTemp("", "c11")
		defer os.RemoveAll(dir)
	}
	if r.ReplayIn != "" {
		var rp replay
		r.LoadReplay(&rp)
		switch rp.Kind {
		case "tag":
			checkTag(r, *rp.Tag)
		case "ws":
			checkWs(r, rp.WsLen)
		case "seq":
			checkSeq(r, rp.Seq, dir, 0)
		}
		r.Finish()
	}
	r.SetBudget(3*time.Minute, 30*time.Minute)
	lens := []int{0, 1, 2, 3, 110, 111, 112, 114, 115, 116, 125, 126, 127, 128, 65520, 65521, 65522, 65535, 65536, 65540}
	for l := 65523; l <= 65534; l++ {
		lens = append(lens, l)
	}
	if !r.Quick() {
		lens = append(lens, 1<<24-1)
	}
	tss := []uint32{0, 1, 0xFFFFFE, 0xFFFFFF, 0x1000000, 0x7FFFFFFF, 0xFFFFFFFF}
	var tcs []tagCase
	for _, ty := range []uint8{8, 9, 18} {
		for _, l := range lens {
			for _, ts := range tss {
				tcs = append(tcs, tagCase{ty, l, ts})
			}
		}
	}
	r.Cov("tag_cases", len(tcs))
	r.Sample(tcs[len(tcs)/2])
	vk.Par(len(tcs), 16, func(i int) { checkTag(r, tcs[i]) })

	var wsl []uint64
	for l := uint64(0); l <= 70000; l++ {
		wsl = append(wsl, l)
	}
	wsl = append(wsl, 1<<24, 1<<31, 1<<32, 1<<40, 1<<62, 1<<63-1)
	vk.Par(len(wsl), 16, func(i int) { checkWs(r, wsl[i]) })
	r.Cov("ws_header_lengths", len(wsl))

	// lal's HTTP-FLV pull client as the reader: a valid response (status line, headers of every total
	// length 60..600 so that every internal buffer boundary falls on every byte of the FLV header and of
	// the first tags, FLV header, five tags) arriving in one piece and split in two at every offset around
	// the start of the body
	nPull := 0
	for hl := 60; hl <= 600; hl++ {
		cuts := []int{0}
		if hl%16 == 0 || !r.Quick() {
			for c := hl - 2; c <= hl+30; c++ {
				cuts = append(cuts, c)
			}
		}
		for _, cut := range cuts {
			checkPullReadback(r, hl, cut)
			nPull++
		}
	}
	r.Cov("pull_readback_cases", nPull)

	maxSeq := 4
	if r.Quick() {
		maxSeq = 3
	}
	var seqs [][]tagCase
	var gen func(cur []tagCase)
	gen = func(cur []tagCase) {
		seqs = append(seqs, append([]tagCase{}, cur...))
		if len(cur) == maxSeq {
			return
		}
		for _, a := range seqAlphabet {
			gen(append(cur, a))
		}
	}
	gen(nil)
	r.Cov("tag_sequences", len(seqs))
	r.Sample(map[string]interface{}{"sequence": seqs[len(seqs)/2]})
	vk.Par(len(seqs), 16, func(i int) {
		if r.OutOfTime() {
			return
		}
		checkSeq(r, seqs[i], dir, i)
	})
	r.Finish()
}

// checkPullReadback: httpflv.PullSession must hand back exactly the tags of a valid HTTP-FLV response
// whose header block is hdrLen bytes long; cut > 0 splits the response into two writes at that offset.
func checkPullReadback(r *vk.Run, hdrLen, cut int) {
	r.Eval(1)
	head := "HTTP/1.1 200 OK\r\nContent-Type: video/x-flv\r\nConnection: close\r\nX-Pad: "
	tail := "\r\n\r\n"
	if hdrLen < len(head)+len(tail) {
		return
	}
	resp := []byte(head + strings.Repeat("p", hdrLen-len(head)-len(tail)) + tail)
	seq := []tagCase{{18, 30, 0}, {9, 45, 0}, {8, 7, 23}, {9, 300, 40}, {8, 1, 0x1000005}}
	tags, want := flvStreamOf(seq)
	resp = append(resp, 'F', 'L', 'V', 1, 5, 0, 0, 0, 9, 0, 0, 0, 0)
	for _, t := range tags {
		resp = append(resp, t.Raw...)
	}
	cli, srv := net.Pipe()
	httpflv.VerifDialFn = nil
	// (net.Pipe refuses SetReadDeadline once the remote end has closed, which a TCP socket does not:
	// deadlines are made no-ops)
	dial := func(network, addr string) (net.Conn, error) { return noDeadline{cli}, nil }
	go func() {
		br := bufio.NewReader(srv)
		for { // the request
			l, err := br.ReadString('\n')
			if err != nil || l == "\r\n" {
				break
			}
		}
		if cut > 0 && cut < len(resp) {
			srv.Write(resp[:cut])
			srv.Write(resp[cut:])
		} else {
			srv.Write(resp)
		}
		srv.Close()
	}()
	var got []ref.FlvTag
	var held []httpflv.Tag
	var heldCopy [][]byte
	var mu sync.Mutex
	s := httpflv.NewPullSession(func(o *httpflv.PullSessionOption) { o.PullTimeoutMs = 5000; o.ReadTimeoutMs = 5000 })
	pullDialMu.Lock()
	httpflv.VerifDialFn = dial
	err := s.Pull("http://origin.invalid/live/s.flv", func(tag httpflv.Tag) {
		mu.Lock()
		got = append(got, ref.FlvTag{Type: tag.Header.Type, Ts: tag.Header.Timestamp, Payload: append([]byte{}, tag.Payload()...)})
		held = append(held, tag) // kept as handed over: the callback's contract says the session does not reuse the memory
		heldCopy = append(heldCopy, append([]byte{}, tag.Raw...))
		mu.Unlock()
	})
	httpflv.VerifDialFn = nil
	pullDialMu.Unlock()
	rp := replay{Kind: "pull", Seq: seq}
	desc := fmt.Sprintf("response header of %d bytes, split at %d", hdrLen, cut)
	r.Class(fmt.Sprintf("pull/hdr%%256=%d/cut=%v", hdrLen%256/32, cut > 0))
	if err != nil {
		r.Violation("pull-readback/start", fmt.Sprintf("%s: Pull returned %v", desc, err), rp)
		return
	}
	select {
	case <-s.WaitChan():
	case <-time.After(20 * time.Second):
		r.Violation("pull-readback/hang", desc+": the pull session did not end after the peer closed", rp)
		return
	}
	mu.Lock()
	defer mu.Unlock()
	if len(got) != len(want) {
		var gt []string
		for _, g := range got {
			gt = append(gt, fmt.Sprintf("%d/%d/%d", g.Type, g.Ts, len(g.Payload)))
		}
		r.Violation("pull-readback/tags", fmt.Sprintf("%s: lal's pull client called back %d tags %v, the response holds %d", desc, len(got), gt, len(want)), rp)
		return
	}
	for i := range held {
		if !bytes.Equal(held[i].Raw, heldCopy[i]) {
			r.Violation("pull-readback/held-tag-changed", fmt.Sprintf("%s: tag %d of %d, kept by the callback, changed after later tags were read", desc, i, len(held)), rp)
			return
		}
	}
	for i := range got {
		if !sameTag(got[i], want[i]) {
			r.Violation("pull-readback/tags", fmt.Sprintf("%s: tag %d read back as type %d ts %d len %d, sent type %d ts %d len %d", desc, i, got[i].Type, got[i].Ts, len(got[i].Payload), want[i].Type, want[i].Ts, len(want[i].Payload)), rp)
			return
		}
	}
}

var pullDialMu sync.Mutex

type noDeadline struct{ net.Conn }

func (noDeadline) SetDeadline(time.Time) error      { return nil }
func (noDeadline) SetReadDeadline(time.Time) error  { return nil }
func (noDeadline) SetWriteDeadline(time.Time) error { return nil }
