// C12 — RTP packetise/depacketise is lossless under size, reordering and wrap-around.
// Family (I)+(F): exhaustive enumeration of unit sizes around every multiple of the payload limit,
// all NAL header values, clock rates, media times, first sequence numbers; and of ALL arrival
// permutations (first packet fixed) / single duplications of short packet streams, checked against
// RFC 6184 / 7798 / 3640 reference depacketisers (lib/ref/rtp.go) and lal's own unpack container.
package main

import (
	"bytes"
	"encoding/binary"
	"fmt"
	"time"

	"github.com/q191201771/lal/pkg/base"
	"github.com/q191201771/lal/pkg/rtprtcp"

	"verif/lib/lalenv"
	"verif/lib/ref"
	"verif/lib/vk"
)

type unitCase struct {
	Codec    string `json:"codec"` // avc hevc aac g711a g711u opus
	Sizes    []int  `json:"sizes"` // unit sizes of one frame
	Hdr      []byte `json:"hdr"`   // NAL header byte(s) of the first unit
	Limit    int    `json:"limit"`
	Mode     string `json:"mode"` // nalu avcc annexb
	Clock    int    `json:"clock"`
	TimeMs   int64  `json:"time_ms"`
	FirstSeq uint16 `json:"first_seq"`
}

type permCase struct {
	Codec    string `json:"codec"`
	Shape    []int  `json:"shape"` // packets per unit
	Order    []int  `json:"order"` // arrival order (indices into the packet list, duplicates allowed)
	MaxSize  int    `json:"max_size"`
	FirstSeq uint16 `json:"first_seq"`
}

type replay struct {
	Unit *unitCase `json:"unit,omitempty"`
	Perm *permCase `json:"perm,omitempty"`
}

func pt(codec string) base.AvPacketPt {
	return map[string]base.AvPacketPt{"avc": base.AvPacketPtAvc, "hevc": base.AvPacketPtHevc, "aac": base.AvPacketPtAac,
		"g711a": base.AvPacketPtG711A, "g711u": base.AvPacketPtG711U, "opus": base.AvPacketPtOpus}[codec]
}

func body(n int, salt byte) []byte {
	b := make([]byte, n)
	for i := range b {
		b[i] = byte(i*3+1) ^ salt ^ byte(i>>8)*7
	}
	return b
}

// makeUnits builds the units of a frame: the first has the given header, the others a fixed one.
func makeUnits(uc unitCase) [][]byte { return makeUnitsSalt(uc, 0) }

func makeUnitsSalt(uc unitCase, salt byte) [][]byte {
	var us [][]byte
	for i, n := range uc.Sizes {
		u := body(n, byte(i*17)^salt)
		h := uc.Hdr
		if i > 0 || len(h) == 0 {
			if uc.Codec == "avc" {
				h = []byte{0x41}
			} else if uc.Codec == "hevc" {
				h = []byte{0x02, 0x01}
			}
		}
		copy(u, h)
		us = append(us, u)
	}
	return us
}

func newPacker(uc unitCase) *rtprtcp.RtpPacker {
	var pp rtprtcp.IRtpPackerPayload
	mode := rtprtcp.RtpPackerPayloadAvcHevcTypeNalu
	switch uc.Mode {
	case "avcc":
		mode = rtprtcp.RtpPackerPayloadAvcHevcTypeAvcc
	case "annexb":
		mode = rtprtcp.RtpPackerPayloadAvcHevcTypeAnnexb
	}
	switch uc.Codec {
	case "avc":
		pp = rtprtcp.NewRtpPackerPayloadAvc(func(o *rtprtcp.RtpPackerPayloadAvcHevcOption) { o.Typ = mode })
	case "hevc":
		pp = rtprtcp.NewRtpPackerPayloadHevc(func(o *rtprtcp.RtpPackerPayloadAvcHevcOption) { o.Typ = mode })
	case "aac":
		pp = rtprtcp.NewRtpPackerPayloadAac()
	case "opus":
		pp = rtprtcp.NewRtpPackerPayloadOpus()
	default:
		pp = rtprtcp.NewRtpPackerPayloadPcm()
	}
	return rtprtcp.NewRtpPacker(pp, uc.Clock, 0x11223344, func(o *rtprtcp.RtpPackerOption) {
		o.MaxPayloadSize = uc.Limit
		o.FirstSeq = uc.FirstSeq
	})
}

func frameBytes(uc unitCase, units [][]byte) []byte {
	switch uc.Mode {
	case "avcc":
		var b []byte
		for _, u := range units {
			var l [4]byte
			binary.BigEndian.PutUint32(l[:], uint32(len(u)))
			b = append(append(b, l[:]...), u...)
		}
		return b
	case "annexb":
		var b []byte
		for i, u := range units {
			if i%2 == 0 {
				b = append(b, 0, 0, 0, 1)
			} else {
				b = append(b, 0, 0, 1)
			}
			b = append(b, u...)
		}
		return b
	}
	return units[0]
}

// lalUnpack feeds raw packets to lal's container and returns the units it delivers.
func lalUnpack(codec string, clock, maxSize int, raws [][]byte) (units [][]byte, tss []int64, perr string) {
	defer func() {
		if p := recover(); p != nil {
			perr = fmt.Sprint(p)
		}
	}()
	u := rtprtcp.DefaultRtpUnpackerFactory(pt(codec), clock, maxSize, func(p base.AvPacket) {
		if codec == "avc" || codec == "hevc" {
			b := p.Payload
			for len(b) >= 4 {
				n := int(binary.BigEndian.Uint32(b))
				if n > len(b)-4 {
					n = len(b) - 4
				}
				units = append(units, append([]byte{}, b[4:4+n]...))
				tss = append(tss, p.Timestamp)
				b = b[4+n:]
			}
		} else {
			units = append(units, append([]byte{}, p.Payload...))
			tss = append(tss, p.Timestamp)
		}
	})
	for _, raw := range raws {
		pkt, err := rtprtcp.ParseRtpPacket(raw)
		if err != nil {
			return units, tss, "ParseRtpPacket: " + err.Error()
		}
		u.Feed(pkt)
	}
	return
}

func sameUnits(a, b [][]byte) bool {
	if len(a) != len(b) {
		return false
	}
	for i := range a {
		if !bytes.Equal(a[i], b[i]) {
			return false
		}
	}
	return true
}

func hdrClass(uc unitCase) string {
	switch uc.Codec {
	case "avc":
		if len(uc.Hdr) == 0 {
			return "default"
		}
		return fmt.Sprintf("nri=%d", uc.Hdr[0]>>5&3)
	case "hevc":
		if len(uc.Hdr) == 0 {
			return "default"
		}
		t := uc.Hdr[0] >> 1 & 0x3f
		known := t <= 9 || (t >= 16 && t <= 21) || (t >= 32 && t <= 40)
		std := uc.Hdr[0]&1 == 0 && uc.Hdr[1] == 1
		return fmt.Sprintf("typeDefined=%v/layer0tid1=%v", known, std)
	}
	return "-"
}

func fragClass(size, limit, hs int) string {
	if size <= limit {
		if size == limit {
			return "single-exact"
		}
		return "single"
	}
	rem := (size - (hs - 1)) % (limit - hs)
	k := (size - (hs - 1) + (limit - hs) - 1) / (limit - hs)
	if k > 4 {
		k = 4
	}
	if rem == 0 {
		return fmt.Sprintf("fu%d-exact", k)
	}
	return fmt.Sprintf("fu%d", k)
}

func checkUnit(r *vk.Run, uc unitCase) {
	r.Eval(1)
	units := makeUnits(uc)
	video := uc.Codec == "avc" || uc.Codec == "hevc"
	hs := 2
	if uc.Codec == "hevc" {
		hs = 3
	}
	cls := uc.Codec + "/" + uc.Mode + "/"
	if video {
		cls += fragClass(uc.Sizes[0], uc.Limit, hs) + "/" + hdrClass(uc) + fmt.Sprintf("/units=%d", len(uc.Sizes))
	} else {
		cls += fmt.Sprintf("over=%v", uc.Sizes[0] > uc.Limit)
	}
	if uc.FirstSeq > 65000 {
		cls += "/wrap"
	}
	r.Class(cls)
	rp := replay{Unit: &uc}
	fail := func(what, f string, a ...interface{}) {
		disc := uc.Codec
		if video && (what == "ref-depack" || what == "lal-depack") {
			disc += "/" + hdrClass(uc) + "/" + fragClass(uc.Sizes[0], uc.Limit, hs)[:2]
		}
		r.Violation("unit/"+what+"/"+disc, fmt.Sprintf("%+v: %s", uc, fmt.Sprintf(f, a...)), rp)
	}
	pk := newPacker(uc)
	in := base.AvPacket{PayloadType: pt(uc.Codec), Timestamp: uc.TimeMs, Payload: frameBytes(uc, units)}
	if uc.Mode != "nalu" {
		// the frame packer drops access-unit delimiters of its own codec (H.264 type 9, H.265 type 35), as
		// the statement's sibling properties allow; every other unit must come through
		var keep [][]byte
		for _, u := range units {
			if (uc.Codec == "avc" && u[0]&0x1f == 9) || (uc.Codec == "hevc" && u[0]>>1&0x3f == 35) {
				continue
			}
			keep = append(keep, u)
		}
		units = keep
	}
	pkts := pk.Pack(in)
	if len(pkts) == 0 {
		fail("no-packets", "Pack returned nothing")
		return
	}
	var rps []ref.Rtp
	var raws [][]byte
	wantTs := uint32(uint64(uc.TimeMs) * uint64(uc.Clock) / 1000 & 0xFFFFFFFF) // exact integer arithmetic
	for i, p := range pkts {
		rr, err := ref.ParseRtp(p.Raw)
		if err != nil {
			fail("rtp-header", "packet %d: %v", i, err)
			return
		}
		if video && len(rr.Payload) > uc.Limit {
			fail("payload-limit", "packet %d payload %d > limit %d", i, len(rr.Payload), uc.Limit)
		}
		if rr.Marker != (i == len(pkts)-1) {
			fail("marker", "packet %d of %d marker=%v", i, len(pkts), rr.Marker)
		}
		if rr.Seq != uc.FirstSeq+uint16(i) {
			fail("seq", "packet %d seq %d, want %d", i, rr.Seq, uc.FirstSeq+uint16(i))
		}
		if rr.Ts != wantTs {
			fail("timestamp", "packet %d timestamp %d, want floor(%d ms * %d / 1000) mod 2^32 = %d", i, rr.Ts, uc.TimeMs, uc.Clock, wantTs)
		}
		if rr.PT != uint8(pt(uc.Codec)) || rr.Ssrc != 0x11223344 {
			fail("pt-ssrc", "packet %d pt=%d ssrc=%#x", i, rr.PT, rr.Ssrc)
		}
		rps = append(rps, rr)
		raws = append(raws, p.Raw)
	}
	// the packets are handed to sessions that may queue them: packing the next frame must not change them
	{
		var held [][]byte
		for _, b := range raws {
			held = append(held, append([]byte{}, b...))
		}
		uc2 := uc
		uc2.TimeMs += 40
		in2 := base.AvPacket{PayloadType: pt(uc.Codec), Timestamp: uc2.TimeMs, Payload: frameBytes(uc2, makeUnitsSalt(uc2, 0x5a))}
		pk.Pack(in2)
		for i := range raws {
			if !bytes.Equal(raws[i], held[i]) {
				fail("held-packets-changed", "packet %d of this frame changed when the next frame was packed", i)
				raws[i] = held[i]
				rps[i], _ = ref.ParseRtp(held[i])
			}
		}
	}
	// reference depacketiser
	var got []ref.Unit
	var err error
	switch uc.Codec {
	case "avc":
		got, err = ref.DepackH264(rps)
	case "hevc":
		got, err = ref.DepackH265(rps)
	case "aac":
		got, err = ref.DepackAacHbr(rps)
	default:
		for _, p := range rps {
			got = append(got, ref.Unit{Ts: p.Ts, Data: p.Payload})
		}
	}
	var gd [][]byte
	for _, g := range got {
		gd = append(gd, g.Data)
	}
	if err != nil || !sameUnits(gd, units) {
		fail("ref-depack", "RFC depacketiser: err=%v, %d units (want %d); first unit header got=%x want=%x", err, len(gd), len(units), firstBytes(gd), firstBytes(units))
	}
	// lal's own depacketiser
	lu, _, perr := lalUnpack(uc.Codec, uc.Clock, 1024, raws)
	if perr != "" || !sameUnits(lu, units) {
		fail("lal-depack", "lal unpack container: panic=%q, %d units (want %d); first unit header got=%x want=%x", perr, len(lu), len(units), firstBytes(lu), firstBytes(units))
	}
}

func firstBytes(us [][]byte) []byte {
	if len(us) == 0 {
		return nil
	}
	if len(us[0]) > 3 {
		return us[0][:3]
	}
	return us[0]
}

// ---- arrival perturbations ------------------------------------------------------------------------------

// buildStream makes a packet stream whose units need shape[i] packets each (limit 8).
func buildStream(codec string, shape []int, firstSeq uint16) (raws [][]byte, units [][]byte, unitOf []int) {
	uc := unitCase{Codec: codec, Limit: 8, Mode: "nalu", Clock: 90000, FirstSeq: firstSeq}
	if codec == "aac" {
		uc.Clock = 48000
	}
	pk := newPacker(uc)
	for i, k := range shape {
		var u []byte
		switch codec {
		case "avc":
			n := 5 + i%3
			if k > 1 {
				n = 1 + 6*(k-1) + 2 + i%4
			}
			u = body(n, byte(i*29))
			u[0] = 0x65
		case "hevc":
			n := 5 + i%3
			if k > 1 {
				n = 2 + 5*(k-1) + 2 + i%3
			}
			u = body(n, byte(i*29))
			u[0], u[1] = 0x26, 0x01
		default:
			u = body(9+i, byte(i*29))
		}
		ps := pk.Pack(base.AvPacket{PayloadType: pt(codec), Timestamp: int64(i * 40), Payload: u})
		// the packet count is whatever the packer produces (a changed fragmentation rule must not
		// break the harness; the unit checks judge the packer, this check judges the container)
		for _, p := range ps {
			raws = append(raws, p.Raw)
			unitOf = append(unitOf, i)
		}
		units = append(units, u)
	}
	return
}

// inWindow: reference model of a reorder buffer of capacity W (packets received but not yet
// deliverable, incomplete units included): the arrival order is inside the window iff the buffer
// never holds W packets at an arrival that delivers nothing.
func inWindow(order []int, unitOf []int, W int) bool {
	n := len(unitOf)
	recv := make([]bool, n)
	next := 0
	for _, a := range order {
		if a < next || recv[a] {
			continue // duplicate
		}
		recv[a] = true
		delivered := false
		for next < n {
			u := unitOf[next]
			end := next
			for end < n && unitOf[end] == u {
				end++
			}
			all := true
			for k := next; k < end; k++ {
				if !recv[k] {
					all = false
				}
			}
			if !all {
				break
			}
			next = end
			delivered = true
		}
		if !delivered {
			held := 0
			for k := next; k < n; k++ {
				if recv[k] {
					held++
				}
			}
			if held >= W {
				return false
			}
		}
	}
	return true
}

func checkPerm(r *vk.Run, pc permCase) {
	r.Eval(1)
	raws, units, unitOf := buildStream(pc.Codec, pc.Shape, pc.FirstSeq)
	nominal := 0
	for _, k := range pc.Shape {
		nominal += k
	}
	if len(raws) != nominal {
		// the packer fragments differently from what the shape assumes (judged by the unit checks)
		r.CovAdd("perm_cases_skipped_packet_count_differs", 1)
		return
	}
	if !inWindow(pc.Order, unitOf, pc.MaxSize) {
		r.CovAdd("perms_outside_window_skipped", 1)
		return
	}
	var arr [][]byte
	for _, i := range pc.Order {
		arr = append(arr, raws[i])
	}
	got, _, perr := lalUnpack(pc.Codec, 90000, pc.MaxSize, arr)
	inorder := true
	dup := len(pc.Order) != len(raws)
	for i, o := range pc.Order {
		if !dup && o != i {
			inorder = false
		}
	}
	if dup {
		inorder = false
	}
	r.Class(fmt.Sprintf("perm/%s/shape=%v/W=%d/inorder=%v/dup=%v/wrap=%v", pc.Codec, pc.Shape, pc.MaxSize, inorder, dup, pc.FirstSeq > 65000))
	if perr != "" || !sameUnits(got, units) {
		kind := "reorder"
		if dup {
			kind = "duplicate"
		}
		if inorder {
			kind = "inorder"
		}
		r.Violation(fmt.Sprintf("perm/%s/%s/wrap=%v", kind, pc.Codec, pc.FirstSeq > 65000),
			fmt.Sprintf("%+v: lal delivered %d units (want %d) panic=%q", pc, len(got), len(units), perr), replay{Perm: &pc})
	}
}

func permutations(n int, f func([]int)) {
	// all permutations of 1..n-1 with 0 fixed first
	p := make([]int, n)
	for i := range p {
		p[i] = i
	}
	var rec func(k int)
	rec = func(k int) {
		if k == n {
			f(append([]int{}, p...))
			return
		}
		for i := k; i < n; i++ {
			p[k], p[i] = p[i], p[k]
			rec(k + 1)
			p[k], p[i] = p[i], p[k]
		}
	}
	rec(1)
}

func main() {
	r := vk.Start("C12", "exploration")
	lalenv.Quiet()
	r.Rule("cases: (units) codec x unit size around every multiple of the payload limit x NAL header values x packer mode x clock x media time x first seq; (perms) for each packet-stream shape: every permutation of packets 1..n-1 (packet 0 fixed) and every single duplication, for container capacity W in {2,3,4,16}, kept when the reference reorder-buffer model says the order is inside the window. distinct_nontrivial = distinct (codec, mode, fragmentation shape, header class, unit count, wrap) + (codec, shape, W, in-order/dup/wrap)")
	r.Assume("reference depacketisers lib/ref/rtp.go (RFC 6184 / 7798 / 3640)",
		"'inside the reorder window' = the reference buffer of capacity W never holds W undeliverable packets at an arrival that delivers nothing; the first packet arrives first (a receiver cannot know of earlier ones)",
		"AVC header domain: types 0..23 x NRI 0..3 with F=0 (24..31 are RTP packet types, not NAL types); HEVC: types 0..47 x layer {0,1,63} x tid {1,2,7}")
	if r.ReplayIn != "" {
		var rp replay
		r.LoadReplay(&rp)
		if rp.Unit != nil {
			checkUnit(r, *rp.Unit)
		}
		if rp.Perm != nil {
			checkPerm(r, *rp.Perm)
		}
		r.Finish()
	}
	r.SetBudget(4*time.Minute, 45*time.Minute)

	var ucs []unitCase
	// (1) size sweeps with three headers
	for _, codec := range []string{"avc", "hevc"} {
		hdrs := [][]byte{{0x65}, {0x01}, {0x61}}
		minSize := 1
		if codec == "hevc" {
			hdrs = [][]byte{{0x26, 0x01}, {0x02, 0x03}, {0x41, 0xfa}}
			minSize = 2
		}
		hdrs[2] = hdrs[2][:len(hdrs[0])]
		for _, L := range []int{4, 8, 16} {
			for s := minSize; s <= 5*L+2; s++ {
				for _, h := range hdrs {
					ucs = append(ucs, unitCase{Codec: codec, Sizes: []int{s}, Hdr: h, Limit: L, Mode: "nalu", Clock: 90000, TimeMs: 40, FirstSeq: 7})
				}
			}
		}
		kmax := 260
		if r.Quick() {
			kmax = 12
		}
		for k := 1; k <= kmax; k++ {
			for d := -2; d <= 2; d++ {
				s := k*1200 + d
				ucs = append(ucs, unitCase{Codec: codec, Sizes: []int{s}, Hdr: hdrs[0], Limit: 1200, Mode: "nalu", Clock: 90000, TimeMs: 40, FirstSeq: 65534})
				if k <= 3 {
					// and relative to the fragment payload (limit - FU header)
					hs := len(hdrs[0]) + 1
					ucs = append(ucs, unitCase{Codec: codec, Sizes: []int{k*(1200-hs) + len(hdrs[0]) + d}, Hdr: hdrs[0], Limit: 1200, Mode: "nalu", Clock: 90000, TimeMs: 40, FirstSeq: 1})
				}
			}
		}
		if r.Quick() {
			ucs = append(ucs, unitCase{Codec: codec, Sizes: []int{300 * 1024}, Hdr: hdrs[0], Limit: 1200, Mode: "nalu", Clock: 90000, TimeMs: 40, FirstSeq: 65000})
		}
	}
	// (2) header sweeps at four sizes
	for t := 0; t <= 23; t++ {
		for nri := 0; nri <= 3; nri++ {
			for _, s := range []int{1, 8, 9, 17} {
				ucs = append(ucs, unitCase{Codec: "avc", Sizes: []int{s}, Hdr: []byte{byte(nri<<5 | t)}, Limit: 8, Mode: "nalu", Clock: 90000, TimeMs: 1, FirstSeq: 0})
			}
		}
	}
	for t := 0; t <= 47; t++ {
		for _, layer := range []int{0, 1, 63} {
			for _, tid := range []int{1, 2, 7} {
				for _, s := range []int{2, 8, 9, 17} {
					ucs = append(ucs, unitCase{Codec: "hevc", Sizes: []int{s}, Hdr: []byte{byte(t<<1 | layer>>5), byte(layer&0x1f<<3 | tid)}, Limit: 8, Mode: "nalu", Clock: 90000, TimeMs: 1, FirstSeq: 0})
				}
			}
		}
	}
	// (3) frames of 1-3 units in AVCC and Annex-B packer modes
	for _, codec := range []string{"avc", "hevc"} {
		for _, mode := range []string{"avcc", "annexb"} {
			// every NAL type as the first of two units (the frame packer looks at the types)
			if codec == "avc" {
				for t := 0; t <= 23; t++ {
					ucs = append(ucs, unitCase{Codec: codec, Sizes: []int{6, 9}, Hdr: []byte{byte(0x60 | t)}, Limit: 8, Mode: mode, Clock: 90000, TimeMs: 80, FirstSeq: 9})
				}
			} else {
				for t := 0; t <= 47; t++ {
					ucs = append(ucs, unitCase{Codec: codec, Sizes: []int{6, 9}, Hdr: []byte{byte(t << 1), 0x01}, Limit: 8, Mode: mode, Clock: 90000, TimeMs: 80, FirstSeq: 9})
				}
			}
			sz := []int{3, 8, 9, 20}
			for _, a := range sz {
				ucs = append(ucs, unitCase{Codec: codec, Sizes: []int{a}, Limit: 8, Mode: mode, Clock: 90000, TimeMs: 80, FirstSeq: 65535})
				for _, b := range sz {
					ucs = append(ucs, unitCase{Codec: codec, Sizes: []int{a, b}, Limit: 8, Mode: mode, Clock: 90000, TimeMs: 80, FirstSeq: 65535})
					for _, c := range sz {
						ucs = append(ucs, unitCase{Codec: codec, Sizes: []int{a, b, c}, Limit: 8, Mode: mode, Clock: 90000, TimeMs: 80, FirstSeq: 65533})
					}
				}
			}
		}
	}
	// (4) audio and clock / time / first-seq domains
	for _, clock := range []int{8000, 44100, 48000, 90000} {
		for _, tm := range []int64{0, 1, 23, 47721858, 47721859, 1 << 31} {
			for _, fs := range []uint16{0, 65534, 65535} {
				for _, s := range []int{1, 7, 255, 256, 1199, 1200, 8191} {
					ucs = append(ucs, unitCase{Codec: "aac", Sizes: []int{s}, Limit: 1200, Mode: "nalu", Clock: clock, TimeMs: tm, FirstSeq: fs})
				}
				for _, s := range []int{1, 160, 1200, 1201} {
					ucs = append(ucs, unitCase{Codec: "g711a", Sizes: []int{s}, Limit: 1200, Mode: "nalu", Clock: clock, TimeMs: tm, FirstSeq: fs},
						unitCase{Codec: "g711u", Sizes: []int{s}, Limit: 1200, Mode: "nalu", Clock: clock, TimeMs: tm, FirstSeq: fs},
						unitCase{Codec: "opus", Sizes: []int{s}, Limit: 1200, Mode: "nalu", Clock: clock, TimeMs: tm, FirstSeq: fs})
				}
				ucs = append(ucs, unitCase{Codec: "avc", Sizes: []int{30}, Hdr: []byte{0x65}, Limit: 8, Mode: "nalu", Clock: clock, TimeMs: tm, FirstSeq: fs})
			}
		}
	}
	// every media time of the first seconds, at every clock rate (a conversion through floating point must
	// land on the exact tick for each of them), and around later whole seconds
	for _, clock := range []int{8000, 16000, 44100, 48000, 90000} {
		var tms []int64
		maxMs := int64(3000)
		if !r.Quick() {
			maxMs = 20000
		}
		for t := int64(0); t <= maxMs; t++ {
			tms = append(tms, t)
		}
		for _, base := range []int64{60000, 3600000, 47721858} {
			for d := int64(-20); d <= 20; d++ {
				tms = append(tms, base+d)
			}
		}
		for _, tm := range tms {
			codec, hdr := "g711a", []byte(nil)
			if clock == 90000 {
				codec, hdr = "avc", []byte{0x65}
			}
			ucs = append(ucs, unitCase{Codec: codec, Sizes: []int{4}, Hdr: hdr, Limit: 1200, Mode: "nalu", Clock: clock, TimeMs: tm, FirstSeq: 3})
		}
	}
	r.Cov("unit_cases", len(ucs))
	r.Sample(ucs[len(ucs)/2])
	vk.Par(len(ucs), 16, func(i int) {
		if !r.OutOfTime() {
			checkUnit(r, ucs[i])
		}
	})

	// AAC streams from an RFC 3640 reference packetiser (lal's own never fragments or aggregates): n
	// access units, each in k fragments or m per packet, in order, through lal's depacketiser with
	// reorder windows smaller than the stream is long
	nRef := 0
	for _, W := range []int{4, 8, 16, 1024} {
		for _, k := range []int{1, 2, 3, 5} {
			for _, m := range []int{1, 2, 5} {
				for _, fs := range []uint16{0, 65500} {
					if (k > 1 && m > 1) || k >= W {
						continue // (a unit of more packets than the window holds cannot be assembled by design)
					}
					checkAacRef(r, W, k, m, fs, 60)
					nRef++
				}
			}
		}
	}
	r.Cov("aac_reference_streams", nRef)
	// perturbations
	shapes := [][]int{{1, 1, 1, 1, 1}, {3, 1, 1}, {1, 3, 1}, {1, 1, 3}, {2, 2, 1}, {2, 1, 2}}
	if !r.Quick() {
		shapes = append(shapes, []int{1, 1, 1, 1, 1, 1, 1}, []int{3, 3, 1}, []int{1, 4, 2}, []int{2, 3, 2}, []int{4, 1, 1, 1})
	}
	var pcs []permCase
	for _, codec := range []string{"avc", "hevc", "aac"} {
		for _, shape := range shapes {
			if codec == "aac" {
				ones := true
				for _, k := range shape {
					if k != 1 {
						ones = false
					}
				}
				if !ones {
					continue
				}
			}
			n := 0
			for _, k := range shape {
				n += k
			}
			for _, fs := range []uint16{0, 1, 65533, 65534, 65535} {
				for _, W := range []int{2, 3, 4, 16} {
					permutations(n, func(o []int) {
						pcs = append(pcs, permCase{Codec: codec, Shape: shape, Order: o, MaxSize: W, FirstSeq: fs})
					})
					// every single duplication: packet i delivered again at position j > its first arrival
					for i := 0; i < n; i++ {
						for j := i + 1; j <= n; j++ {
							var o []int
							for k := 0; k < n; k++ {
								if k == j {
									o = append(o, i)
								}
								o = append(o, k)
							}
							if j == n {
								o = append(o, i)
							}
							pcs = append(pcs, permCase{Codec: codec, Shape: shape, Order: o, MaxSize: W, FirstSeq: fs})
						}
					}
				}
			}
		}
	}
	r.Cov("perm_cases", len(pcs))
	r.Sample(pcs[len(pcs)/2])
	vk.Par(len(pcs), 16, func(i int) {
		if !r.OutOfTime() {
			checkPerm(r, pcs[i])
		}
	})
	r.Finish()
}

// checkAacRef: n AUs, each split into k fragments (k > 1) or aggregated m per packet (m > 1).
func checkAacRef(r *vk.Run, W, k, m int, firstSeq uint16, n int) {
	r.Eval(1)
	const clock = 48000
	var units [][]byte
	var raws [][]byte
	seq := firstSeq
	for i := 0; i < n; i++ {
		units = append(units, body(40+i%7, byte(i*13+1)))
	}
	for i := 0; i < n; {
		ts := uint32(i * 1024)
		if k > 1 {
			limit := (len(units[i])+k-1)/k + 4
			frags := ref.PackAacHbrFrag(units[i], limit)
			for j, p := range frags {
				raws = append(raws, ref.BuildRtp(ref.Rtp{Marker: j == len(frags)-1, PT: 97, Seq: seq, Ts: ts, Ssrc: 5, Payload: p}))
				seq++
			}
			i++
			continue
		}
		e := i + m
		if e > n {
			e = n
		}
		raws = append(raws, ref.BuildRtp(ref.Rtp{Marker: true, PT: 97, Seq: seq, Ts: ts, Ssrc: 5, Payload: ref.PackAacHbrMulti(units[i:e])}))
		seq++
		i = e
	}
	got, tss, perr := lalUnpack("aac", clock, W, raws)
	desc := fmt.Sprintf("W=%d fragments-per-AU=%d AUs-per-packet=%d first-seq=%d n=%d", W, k, m, firstSeq, n)
	r.Class(fmt.Sprintf("aacref/W=%d/k=%d/m=%d/wrap=%v", W, k, m, firstSeq > 60000))
	rp := replay{}
	if perr != "" || !sameUnits(got, units) {
		r.Violation(fmt.Sprintf("aacref/units/k=%d/m=%d", minI(k, 2), minI(m, 2)), fmt.Sprintf("%s: an in-order stream from the reference packetiser came out of lal's depacketiser as %d units, want %d (panic=%q)", desc, len(got), len(units), perr), rp)
		return
	}
	for i, t := range tss {
		want := int64(i) * 1024 * 1000 / clock
		if d := t - want; d < -1 || d > 1 {
			r.Violation("aacref/timestamp", fmt.Sprintf("%s: AU %d has timestamp %d ms, its media time is %d ms", desc, i, t, want), rp)
			break
		}
	}
}

func minI(a, b int) int {
	if a < b {
		return a
	}
	return b
}
