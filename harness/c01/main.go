// C01 — live relay delivers the publisher's messages intact to RTMP/FLV consumers.
// Family (S): explicit-state search over publish / join / leave / re-publish event sequences of a
// real lal server (logic.ServerManager + real RTMP and HTTP-FLV sessions over in-memory conns), for
// a set of configurations, with a per-consumer contiguity monitor over independently decoded bytes;
// plus a shape sweep (payload length x timestamp) at a fixed join instant.
package main

import (
	"bytes"
	"fmt"
	"github.com/q191201771/lal/pkg/httpflv"
	"github.com/q191201771/lal/pkg/rtmp"
	"os"
	"sort"
	"strings"
	"time"

	"verif/lib/lalenv"
	"verif/lib/seqx"
	"verif/lib/sw"
	"verif/lib/vk"
	"verif/lib/world"
)

type cfg = sw.SysOpts

type replay struct {
	Cfg   cfg       `json:"cfg"`
	Trace []string  `json:"trace"`
	Late  *lateCase `json:"late,omitempty"`
}

func forwardable(m sw.PubMsg) bool { return sw.Forwardable(m) }

type sys = sw.Sys

// queues: configurations whose name ends in "+queues" run with the subscribers' asynchronous write
// queues enabled (size 8; every step still settles exactly because the in-memory connections know how
// many queued writes are outstanding). Set before a configuration is explored or replayed.
func queues(c cfg) {
	n := 0
	if strings.HasSuffix(c.Name, "+queues") {
		n = 8
	}
	rtmp.VerifSetWChanSize(n)
	httpflv.SubSessionWriteChanSize = n
}

func newSys(c cfg) *sys {
	if on, _ := c.Conf["relay_push.enable"].(bool); on {
		// relay push: the target accepts at once and answers like a server (a reference peer)
		c.Init = func(x *sw.X) { x.W.EnableRelay(map[string]string{"pushA": "accept"}) }
	}
	return sw.NewSys(c, check)
}

// expectedPayload is the only permitted representation difference: metadata without @setDataFrame for players.
func expectedPayload(m sw.PubMsg) []byte {
	if m.Type == 18 {
		return sw.StripSdf(m.Payload)
	}
	return m.Payload
}

func checkSeq(s *sys, who string, kind string, recv []sw.Recv, join int, attached bool, framingErr string, lagBytes int) []seqx.Viol {
	var vs []seqx.Viol
	P := s.X.Published
	add := func(key, f string, a ...interface{}) {
		vs = append(vs, seqx.Viol{Key: key + "/" + kind, What: who + ": " + fmt.Sprintf(f, a...)})
	}
	if framingErr != "" {
		add("framing", "byte stream does not parse: %s", framingErr)
		return vs
	}
	seen := map[int]bool{}
	firstLive := -1
	for i, r := range recv {
		if !r.Known || r.Idx < 0 || r.Idx >= len(P) {
			add("unknown-message", "received message %d (type %d, %d bytes, ts %d) is not one the publisher sent", i, r.Type, len(r.Payload), r.Ts)
			return vs
		}
		m := P[r.Idx]
		want := expectedPayload(m)
		if kind == "push" && m.Type == 18 {
			want = sw.EnsureSdf(m.Payload) // relay push: @setDataFrame is ensured, not stripped
		}
		if r.Type != m.Type || !bytes.Equal(r.Payload, want) {
			add("payload", "message %s arrived altered: type %d len %d, want type %d len %d", m, r.Type, len(r.Payload), m.Type, len(want))
		}
		if r.Ts != m.Ts {
			add("timestamp", "message %s arrived with timestamp %d", m, r.Ts)
		}
		if seen[r.Idx] {
			add("duplicate", "message %s delivered twice", m)
		}
		seen[r.Idx] = true
		if r.Idx >= join {
			if firstLive < 0 {
				firstLive = i
			}
		} else if firstLive >= 0 {
			add("prologue-after-live", "cached message %s (published before the join) delivered after live data", m)
		}
		if len(m.Payload) == 0 {
			add("zero-length-forwarded", "zero-length message %s was forwarded", m)
		}
	}
	if firstLive < 0 {
		return vs
	}
	// live part: per incarnation one contiguous run of the forwardable messages
	live := recv[firstLive:]
	byInc := map[int][]int{}
	var incs []int
	for _, r := range live {
		inc := P[r.Idx].Inc
		if _, ok := byInc[inc]; !ok {
			incs = append(incs, inc)
		}
		byInc[inc] = append(byInc[inc], r.Idx)
	}
	if !sort.IntsAreSorted(incs) {
		add("order", "messages of an earlier publisher delivered after a later one's")
	}
	for _, inc := range incs {
		got := byInc[inc]
		lo, hi := got[0], got[len(got)-1]
		var want []int
		lastOfInc := -1
		for i := range P {
			if P[i].Inc == inc && forwardable(P[i]) {
				lastOfInc = i
				if i >= lo && i <= hi {
					want = append(want, i)
				}
			}
		}
		if !sort.IntsAreSorted(got) {
			add("order", "live messages out of order: %v", got)
			continue
		}
		if fmt.Sprint(got) != fmt.Sprint(want) {
			// header messages (metadata, sequence headers) delivered while the consumer is still
			// gated on a key frame belong to its start-up prologue: the contiguous run is the
			// maximal contiguous suffix, and everything before it must be such a header
			sfx := len(got) - 1
			for sfx > 0 {
				ok := true
				for i := got[sfx-1] + 1; i < got[sfx]; i++ {
					if P[i].Inc == inc && forwardable(P[i]) {
						ok = false
					}
				}
				if !ok {
					break
				}
				sfx--
			}
			bad := -1
			for k := 0; k < sfx; k++ {
				switch P[got[k]].Kind {
				case "meta", "metasdf", "vsh", "vsh2", "ash":
				default:
					bad = got[k]
				}
			}
			if bad >= 0 {
				add("gap", "live run of publisher %d is %v, but the publisher sent %v in that span (something skipped after media #%d had been delivered)", inc, got, want, bad)
				continue
			}
			lo = got[sfx]
		}
		// the run ends only when the consumer or the publisher leaves: it must reach the last
		// message of the incarnation, up to what merge-write may still hold back
		stillRunning := attached || inc < s.X.Inc || !s.X.PubAlive
		_ = stillRunning
		mediaStarted := false
		for _, i := range got {
			switch P[i].Kind {
			case "meta", "metasdf", "vsh", "vsh2", "ash":
			default:
				mediaStarted = true
			}
		}
		// a consumer that has so far received only headers may still be gated on a key frame (C02
		// decides whether that gate is justified); the run must keep up once media has started
		if attached && mediaStarted {
			pend := 0
			for i := hi + 1; i <= lastOfInc; i++ {
				if P[i].Inc == inc && forwardable(P[i]) {
					pend += sw.ChunkedSize(P[i], expectedPayload(P[i]))
				}
			}
			if pend > 0 && (lagBytes == 0 || pend >= lagBytes) {
				add("stalled-run", "run of publisher %d stops at #%d although #%d was published since (%d bytes pending, merge-write size %d)", inc, hi, lastOfInc, pend, lagBytes)
			}
		}
	}
	return vs
}

func check(s *sys) []seqx.Viol {
	var vs []seqx.Viol
	for _, c := range s.X.Consumers {
		lag := 0
		if c.Kind == "rtmp" {
			lag = s.Merge
		}
		vs = append(vs, checkSeq(s, fmt.Sprintf("consumer %d (%s, joined at #%d)", c.ID, c.Kind, c.Join), c.Kind, c.Recv, c.Join, !c.Left, c.Err, lag)...)
	}
	// relay-push targets: each push session is a consumer of its publisher's incarnation
	var pushDials []int
	var pushRecv [][]sw.Recv
	for _, d := range s.X.W.AllDials() {
		if d.Origin == nil || d.Origin.Role != "publish" {
			continue
		}
		who := fmt.Sprintf("relay-push session #%d to %s", d.Seq, d.Name)
		if os.Getenv("C01_DEBUG") != "" {
			fmt.Fprintf(os.Stderr, "PUSH %s started=%v msgs=%d decErr=%v cmds=%v\n", who, d.Origin.Started, len(d.Origin.Msgs), d.Origin.DecErr, fmt.Sprint(d.Origin.Cmds, d.Origin.RawLen(), d.Conn.HasOutput(), d.Conn.Writes(), d.Conn.Closed()))
		}
		if d.Origin.DecErr != nil {
			vs = append(vs, seqx.Viol{Key: "framing/push", What: who + ": what lal sent does not decode as an RTMP chunk stream: " + d.Origin.DecErr.Error()})
			continue
		}
		var recv []sw.Recv
		for _, m := range d.Origin.Msgs {
			r := sw.Recv{Type: m.Type, Ts: m.Ts, Payload: m.Payload}
			r.Kind, r.Idx, r.Known = sw.IdxOf(m.Type, m.Payload)
			recv = append(recv, r)
		}
		vs = append(vs, checkSeq(s, who, "push", recv, 0, !d.Conn.Closed(), "", 0)...)
		pushDials = append(pushDials, len(recv))
		pushRecv = append(pushRecv, recv)
	}
	// a push session is opened when its publisher arrives (the target of this configuration accepts at
	// once), so the i-th session is the consumer of the i-th publisher from that publisher's first
	// message on: it has received every forwardable message of that publisher (relay push has no
	// merge-write, nothing may be held back)
	if len(pushDials) == s.X.Inc {
		for i, recv := range pushRecv {
			got := map[int]bool{}
			for _, r := range recv {
				if r.Known {
					got[r.Idx] = true
				}
			}
			for _, m := range s.X.Published {
				if m.Inc == i+1 && forwardable(m) && !got[m.Idx] {
					vs = append(vs, seqx.Viol{Key: "stalled-run/push", What: fmt.Sprintf("relay-push session of publisher %d has not received %s although the event that published it has settled (%d messages received)", i+1, m, len(recv))})
					break
				}
			}
		}
	}
	// FLV recording: one file per incarnation, every forwardable message in order
	files, recs, errs := s.X.RecordFlv()
	for _, e := range errs {
		vs = append(vs, seqx.Viol{Key: "framing/record", What: "record file does not parse: " + e})
	}
	if len(files) > 0 && s.X.Inc == 1 {
		var all []sw.Recv
		for _, r := range recs {
			all = append(all, r...)
		}
		vs = append(vs, checkSeq(s, "flv record "+strings.Join(files, ","), "record", all, 0, true, "", 0)...)
		if len(all) > 0 && len(files) == 1 {
			// the record starts with the publisher's first forwardable message
			first := -1
			for i, m := range s.X.Published {
				if forwardable(m) {
					first = i
					break
				}
			}
			if all[0].Known && all[0].Idx != first {
				vs = append(vs, seqx.Viol{Key: "gap/record", What: fmt.Sprintf("record starts at #%d, the publisher's first message is #%d", all[0].Idx, first)})
			}
		}
	}
	return vs
}

func configs(r *vk.Run) []cfg {
	pAll := []string{"P:meta", "P:metasdf", "P:vsh", "P:key", "P:inter", "P:ash", "P:aac", "P:zero"}
	jAll := []string{"J:rtmp", "J:flv", "J:wsflv"}
	full := append(append(append([]string{}, pAll...), jAll...), "PubLeave", "PubArrive")
	lean := []string{"P:metasdf", "P:vsh", "P:key", "P:inter", "P:aac", "P:zero", "J:rtmp", "J:flv", "PubLeave", "PubArrive"}
	var cs []cfg
	add := func(name string, alpha []string, start bool, frame int, kv ...interface{}) {
		c := world.Conf{}
		for i := 0; i+1 < len(kv); i += 2 {
			c[kv[i].(string)] = kv[i+1]
		}
		cs = append(cs, cfg{Name: name, Conf: c, StartPub: start, Alphabet: alpha, Frame: frame})
	}
	// frame size 24: one key/inter chunked message = 12+9+24 = 45 bytes
	add("plain", full, true, 0)
	add("gop1", lean, true, 0, "rtmp.gop_num", 1, "httpflv.gop_num", 1)
	add("gop2cap2", lean, true, 0, "rtmp.gop_num", 2, "httpflv.gop_num", 2, "rtmp.single_gop_max_frame_num", 2, "httpflv.single_gop_max_frame_num", 2)
	// the caches of the two protocols have sizes of their own
	add("gop-rtmp1-flv2", lean, true, 0, "rtmp.gop_num", 1, "httpflv.gop_num", 2)
	add("gop-rtmp2-flv1", lean, true, 0, "rtmp.gop_num", 2, "httpflv.gop_num", 1)
	add("merge1", lean, true, 0, "rtmp.merge_write_size", 1)
	add("merge3frames", lean, true, 0, "rtmp.merge_write_size", 130)
	add("merge+gop1", lean, true, 0, "rtmp.merge_write_size", 130, "rtmp.gop_num", 1, "httpflv.gop_num", 1)
	add("record", lean, true, 0, "record.enable_flv", true)
	add("nopub-start", lean, false, 0, "rtmp.gop_num", 1, "httpflv.gop_num", 1)
	// merge-write with the asynchronous write queues on: what a subscriber's queue holds must not change
	// under it when the next batch is merged (no back-pressure here: every consumer keeps reading)
	add("merge3frames+queues", lean, true, 0, "rtmp.merge_write_size", 130)
	add("push", append(append([]string{}, pAll...), "J:rtmp", "PubLeave", "PubArrive"), false, 0, "relay_push.enable", true, "relay_push.addr_list", []interface{}{"$W-pushA:1935"})
	if !r.Quick() {
		add("gop2", full, true, 0, "rtmp.gop_num", 2, "httpflv.gop_num", 1)
		add("gop1cap2+merge", full, true, 0, "rtmp.gop_num", 1, "httpflv.gop_num", 2, "rtmp.single_gop_max_frame_num", 2, "rtmp.merge_write_size", 100)
		add("record+gop", full, true, 0, "record.enable_flv", true, "rtmp.gop_num", 1, "httpflv.gop_num", 1)
		add("bigframes", lean, true, 5000, "rtmp.merge_write_size", 8192, "rtmp.gop_num", 1)
	}
	return cs
}

// shapeSweep: payload length x timestamp at a fixed join instant (consumers present from the start).
func shapeSweep(r *vk.Run) {
	var lens []int
	for _, c := range []int{128, 4096} {
		for _, d := range []int{-1, 0, 1} {
			lens = append(lens, c+d-9, c+d, 2*c+d-9, 2*c+d) // the AVC frame prefix is 9 bytes: hit the multiple both for NAL and message length
		}
	}
	lens = append(lens, 8, 9, 10, 11, 12, 13)
	tss := [][]uint32{{0, 1}, {0xFFFFFE, 0xFFFFFF}, {0xFFFFFF, 0x1000000}, {0xFFFFFFFF, 0}, {1000, 999}, {1000, 0}, {0x7FFFFFFF, 0x80000000}}
	type job struct {
		l  int
		ts []uint32
		mw int
	}
	var jobs []job
	for _, l := range lens {
		for _, ts := range tss {
			for _, mw := range []int{0, 3000} {
				jobs = append(jobs, job{l, ts, mw})
			}
		}
	}
	r.Cov("shape_sweep_cases", len(jobs))
	vk.Par(len(jobs), 16, func(i int) {
		j := jobs[i]
		c := cfg{Name: "shape", Conf: world.Conf{"rtmp.merge_write_size": j.mw, "rtmp.gop_num": 1, "httpflv.gop_num": 1}, StartPub: true, Frame: j.l}
		s := newSys(c)
		defer s.Close()
		var trace []string
		fail := func(err error) {
			r.Violation("infra/shape", fmt.Sprintf("shape case %+v: %v", j, err), replay{Cfg: c, Trace: trace})
		}
		for _, k := range []string{"rtmp", "flv", "wsflv"} {
			if _, err := s.X.Join(k); err != nil {
				fail(err)
				return
			}
		}
		seq := []string{"metasdf", "vsh", "ash", "key", "aac", "inter", "key", "inter"}
		for n, k := range seq {
			ts := j.ts[0]
			if n >= 4 {
				ts = j.ts[1]
			}
			m := sw.MakeMsg(k, len(s.X.Published), ts, j.l)
			if err := s.X.PublishMsg(m); err != nil {
				fail(err)
				return
			}
			r.Eval(1)
		}
		// a late joiner gets the cached GOP with the same bytes
		if _, err := s.X.Join("rtmp"); err != nil {
			fail(err)
			return
		}
		m := sw.MakeMsg("inter", len(s.X.Published), j.ts[1], j.l)
		if err := s.X.PublishMsg(m); err != nil {
			fail(err)
			return
		}
		for _, v := range s.Check() {
			r.Violation("shape/"+v.Key, fmt.Sprintf("len=%d ts=%v merge=%d: %s", j.l, j.ts, j.mw, v.What), replay{Cfg: c, Trace: []string{fmt.Sprintf("shape:%d:%v:%d", j.l, j.ts, j.mw)}})
		}
		r.Class(fmt.Sprintf("shape/len%%128=%d/ts=%x/merge=%v", j.l%128, j.ts[0]>>20, j.mw > 0))
	})
}

func main() {
	r := vk.Start("C01", "model_checking")
	lalenv.Quiet()
	world.SyncQueues()
	r.Rule("states = distinct canonical fingerprints (group flags, cache shapes, merge buffer, per-consumer monitor phase) reached by event sequences over {P(kind), J(rtmp|flv|wsflv), L(oldest|newest), PubLeave, PubArrive} per configuration; each transition replays its prefix on a fresh server and runs the contiguity monitor for every consumer. distinct_nontrivial = states")
	r.Assume("write queues of subscribers forced to 0 (synchronous) except in the configuration '+queues' (size 8, all consumers keep reading): the statement excludes back-pressured transports (C15)",
		"consumer bytes are decoded by lib/ref (RTMP chunk stream, FLV, WebSocket), never by lal",
		"data independence: lal inspects only type, payload[0..4] and length; message identity travels in later payload bytes",
		"relay-push targets: one target that accepts at once (a server-role reference peer); C17 decides when push sessions start, retry and stop; at most 3 simultaneous consumers, 2 publisher incarnations")
	if r.ReplayIn != "" {
		var rp replay
		r.LoadReplay(&rp)
		if rp.Late != nil {
			rtmp.VerifSetWChanSize(64)
			httpflv.SubSessionWriteChanSize = 64
			vs, err := runLate(*rp.Late)
			if err != nil {
				r.Violation("infra/late-reader", err.Error(), rp)
			}
			for _, v := range vs {
				r.Violation(v[:strings.IndexByte(v, ':')]+"/"+rp.Late.Kind, v, rp)
			}
			r.Finish()
		}
		queues(rp.Cfg)
		c := seqx.Config{New: func() seqx.Sys { return newSys(rp.Cfg) }}
		s, vs, err := seqx.Run(c, rp.Trace)
		if err != nil {
			r.Violation("infra/replay", err.Error(), rp)
		}
		for _, v := range vs {
			r.Violation(v.Key, v.What, rp)
		}
		seqx.Close(s)
		r.Finish()
	}
	r.SetBudget(5*time.Minute, 60*time.Minute)
	depth := 5
	if !r.Quick() {
		depth = 8
	}
	var total seqx.Stats
	perCfg := map[string]interface{}{}
	exhaustive := true
	for _, c := range configs(r) {
		c := c
		queues(c)
		st := seqx.Explore(seqx.Config{
			New: func() seqx.Sys { return newSys(c) }, MaxDepth: depth, Workers: 16, OutOfTime: r.OutOfTime,
			OnViolation: func(tr []string, v seqx.Viol) {
				r.Violation(v.Key, fmt.Sprintf("[%s] after %v: %s", c.Name, tr, v.What), replay{Cfg: c, Trace: tr})
			},
			OnInfra: func(tr []string, err error) {
				r.Violation("infra/hang-or-nondeterminism", fmt.Sprintf("[%s] %v: %v", c.Name, tr, err), replay{Cfg: c, Trace: tr})
			},
			OnState: func(d int, fp string, tr []string) {
				r.Class(c.Name + "|" + fp)
				if d == depth {
					r.Sample(map[string]interface{}{"config": c.Name, "trace": tr})
				}
			},
		})
		total.States += st.States
		total.Transitions += st.Transitions
		total.Executions += st.Executions
		perCfg[c.Name] = map[string]interface{}{"states": st.States, "transitions": st.Transitions, "depth_completed": st.MaxDepthCompleted, "frontier": st.Frontier, "all_reachable_states_seen": st.Exhaustive}
		if st.Capped {
			exhaustive = false
		}
		r.Eval(int(st.Executions))
	}
	r.AddStates(total.States)
	r.AddTransitions(total.Transitions)
	r.AddTraces(total.Executions)
	r.Cov("per_config", perCfg)
	r.Cov("max_depth", depth)
	if !exhaustive {
		r.NotExhaustive("internal time budget hit before the depth bound")
	}
	shapeSweep(r)
	latePhase(r)
	r.Finish()
}
