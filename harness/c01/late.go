package main

// Late readers: with the subscribers' asynchronous write queues on (size 64, never full here), a consumer
// stops reading, the publisher sends every sequence of <= n messages, the consumer reads again: what it
// then receives must be the published messages, byte for byte and in order - whatever lal queued must
// not change while it waits in the queue. Per consumer kind (RTMP, HTTP-FLV, WS-FLV), without and with
// merge-write.

import (
	"bytes"
	"fmt"

	"github.com/q191201771/lal/pkg/httpflv"
	"github.com/q191201771/lal/pkg/rtmp"

	"verif/lib/netsim"
	"verif/lib/sw"
	"verif/lib/vk"
	"verif/lib/world"
)

type lateCase struct {
	Kind  string   `json:"kind"`
	Merge int      `json:"merge"`
	Seq   []string `json:"seq"`
}

func lateConn(c *sw.Consumer) *netsim.Conn {
	if c.Rtmp != nil {
		return c.Rtmp.Conn
	}
	return c.Http.Conn
}

func runLate(lc lateCase) (viol []string, infra error) {
	conf := world.Conf{}
	if lc.Merge > 0 {
		conf["rtmp.merge_write_size"] = lc.Merge
	}
	x := sw.New(conf)
	defer x.Close()
	if ok, err := x.PubArrive(); err != nil || !ok {
		return nil, fmt.Errorf("publisher: %v", err)
	}
	for _, k := range []string{"meta", "vsh", "ash", "key"} {
		if _, err := x.Publish(k); err != nil {
			return nil, err
		}
	}
	c, err := x.Join(lc.Kind)
	if err != nil {
		return nil, err
	}
	// the consumer's video starts with the next key frame; audio needs nothing
	for _, k := range []string{"key", "aac"} {
		if _, err := x.Publish(k); err != nil {
			return nil, err
		}
	}
	cn := lateConn(c)
	cn.Stall(true)
	defer cn.Stall(false)
	from := len(x.Published)
	for _, k := range lc.Seq {
		if _, err := x.Publish(k); err != nil {
			return nil, err
		}
	}
	// a closing key frame pushes out what merge-write still holds
	for i := 0; i < 3; i++ {
		if _, err := x.Publish("key"); err != nil {
			return nil, err
		}
	}
	cn.Stall(false)
	if err := x.W.Settle(); err != nil {
		return nil, err
	}
	x.PumpAll()
	if c.Err != "" {
		return []string{"late-reader/framing: " + c.Err}, nil
	}
	// the messages received that were published while the consumer was not reading
	next := from
	for _, r := range c.Recv {
		if !r.Known || r.Idx < 0 || r.Idx >= len(x.Published) {
			viol = append(viol, fmt.Sprintf("late-reader/unknown-message: a message (type %d, %d bytes, ts %d) that was never published", r.Type, len(r.Payload), r.Ts))
			return
		}
		if r.Idx < from {
			continue
		}
		m := x.Published[r.Idx]
		if !forwardable(m) {
			continue
		}
		want := expectedPayload(m)
		if r.Type != m.Type || r.Ts != m.Ts || !bytes.Equal(r.Payload, want) {
			viol = append(viol, fmt.Sprintf("late-reader/payload: message %s, queued while the consumer was not reading, arrived altered (type %d ts %d len %d)", m, r.Type, r.Ts, len(r.Payload)))
			return
		}
		for next < r.Idx && !forwardable(x.Published[next]) {
			next++
		}
		if r.Idx != next {
			viol = append(viol, fmt.Sprintf("late-reader/order: got message %s where %s was due", m, x.Published[next]))
			return
		}
		next++
	}
	// everything up to the last closing key frame but merge-write's residue must have arrived
	if next < from+len(lc.Seq) {
		viol = append(viol, fmt.Sprintf("late-reader/missing: message %s never arrived although the queue was never full", x.Published[next]))
	}
	return
}

func latePhase(r *vk.Run) {
	rtmp.VerifSetWChanSize(64)
	httpflv.SubSessionWriteChanSize = 64
	defer func() {
		rtmp.VerifSetWChanSize(0)
		httpflv.SubSessionWriteChanSize = 0
	}()
	n := 3
	if !r.Quick() {
		n = 4
	}
	alpha := []string{"key", "inter", "aac", "meta", "ash", "vsh"}
	var seqs [][]string
	var gen func(cur []string)
	gen = func(cur []string) {
		if len(cur) > 0 {
			seqs = append(seqs, append([]string{}, cur...))
		}
		if len(cur) == n {
			return
		}
		for _, a := range alpha {
			gen(append(cur, a))
		}
	}
	gen(nil)
	var cases []lateCase
	for _, kind := range []string{"rtmp", "flv", "wsflv"} {
		for _, mw := range []int{0, 130} {
			if mw > 0 && kind != "rtmp" {
				continue
			}
			for _, s := range seqs {
				cases = append(cases, lateCase{kind, mw, s})
			}
		}
	}
	type out struct {
		v   []string
		err error
	}
	res := make([]out, len(cases))
	vk.Par(len(cases), 16, func(i int) {
		if r.OutOfTime() {
			return
		}
		v, err := runLate(cases[i])
		res[i] = out{v, err}
	})
	for i, o := range res {
		rp := replay{Late: &cases[i]}
		if o.err != nil {
			r.Violation("infra/late-reader", fmt.Sprintf("%+v: %v", cases[i], o.err), rp)
			continue
		}
		r.Eval(1)
		r.Class(fmt.Sprintf("late|%s|merge=%v|len=%d|viol=%d", cases[i].Kind, cases[i].Merge > 0, len(cases[i].Seq), len(o.v)))
		for _, v := range o.v {
			key := v[:bytes.IndexByte([]byte(v), ':')]
			r.Violation(key+"/"+cases[i].Kind, fmt.Sprintf("[late reader %+v] %s", cases[i], v), rp)
		}
	}
	r.Cov("late_reader_cases", len(cases))
}
