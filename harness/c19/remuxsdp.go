package main

// (f) The SDP the RTMP->RTSP remuxer generates for a stream, for every order of the stream's first
// messages, when the caller reuses its message buffer (FeedRtmpMsg documents that it keeps no reference
// to msg after it returns; lal's own RTMP pull session reuses its read buffer): the parameter sets and the
// AudioSpecificConfig in the SDP are the published ones, byte for byte.

import (
	"fmt"
	"strings"

	"github.com/q191201771/lal/pkg/base"
	"github.com/q191201771/lal/pkg/remux"
	"github.com/q191201771/lal/pkg/rtprtcp"
	"github.com/q191201771/lal/pkg/sdp"

	"verif/lib/ref"
	"verif/lib/vk"
)

type remuxMsg struct {
	typ uint8
	ts  uint32
	p   []byte
}

func checkRemuxSdp(r *vk.Run, video string, audio bool, order []string, reuse bool) {
	r.Eval(1)
	desc := fmt.Sprintf("video=%s audio=%v order=%v reuse=%v", video, audio, order, reuse)
	rp := replay{Kind: "remuxsdp", Desc: desc}
	r.Class(fmt.Sprintf("remuxsdp/%s/%v/%d/%v", video, audio, len(order), reuse))
	pps := []byte{0x68, 0xce, 0x3c, 0x80}
	hpps := []byte{0x44, 0x01, 0xc1, 0x72, 0xb4, 0x62, 0x40}
	asc := []byte{0x12, 0x10}
	var vsh []byte
	switch video {
	case "avc":
		vsh = refAvcSeqHeader(baseAvcSps, pps)
	case "hevc":
		vsh = refHevcSeqHeader(false, baseHevcVps, baseHevcSps, hpps)
	case "hevc-enhanced":
		vsh = refHevcSeqHeader(true, baseHevcVps, baseHevcSps, hpps)
	}
	frame := func(key bool, tag byte) []byte {
		switch video {
		case "avc":
			h, n := byte(0x27), byte(0x41)
			if key {
				h, n = 0x17, 0x65
			}
			return []byte{h, 1, 0, 0, 0, 0, 0, 0, 4, n, 0x88, tag, 0x80}
		case "hevc":
			h, n := byte(0x2c), byte(1<<1)
			if key {
				h, n = 0x1c, 19<<1
			}
			return []byte{h, 1, 0, 0, 0, 0, 0, 0, 5, n, 1, 0x88, tag, 0x80}
		default: // enhanced: PacketTypeCodedFramesX (3), no composition time
			h := byte(0xa3)
			n := byte(1 << 1)
			if key {
				h, n = 0x93, 19<<1
			}
			return []byte{h, 'h', 'v', 'c', '1', 0, 0, 0, 5, n, 1, 0x88, tag, 0x80}
		}
	}
	var msgs []remuxMsg
	ts := uint32(0)
	tag := byte(1)
	for _, o := range order {
		switch o {
		case "V":
			msgs = append(msgs, remuxMsg{9, 0, vsh})
		case "A":
			msgs = append(msgs, remuxMsg{8, 0, append([]byte{0xaf, 0}, asc...)})
		case "k":
			msgs = append(msgs, remuxMsg{9, ts, frame(true, tag)})
		case "p":
			msgs = append(msgs, remuxMsg{9, ts, frame(false, tag)})
		case "a":
			msgs = append(msgs, remuxMsg{8, ts, []byte{0xaf, 1, 0x21, tag, 0x55}})
		case "M", "Ma":
			num := func(k string, v float64) ref.APair {
				return ref.APair{Key: k, Val: ref.AVal{Kind: ref.ANumber, Num: v}}
			}
			b := ref.AEncode(ref.AVal{Kind: ref.AString, Str: "onMetaData"})
			pairs := []ref.APair{num("width", 1280), num("height", 720)}
			if o == "Ma" { // the encoder's idea of the audio: AAC, at a rate that is not the AudioSpecificConfig's
				pairs = append(pairs, num("audiocodecid", 10), num("audiosamplerate", 22050))
			}
			msgs = append(msgs, remuxMsg{18, ts, append(b, ref.AEncode(ref.AVal{Kind: ref.AObject, Pairs: pairs})...)})
		}
		ts += 20
		tag++
	}
	// the tail: enough frames for a single-track stream to be announced (16 messages) and a bit more
	for i := 0; i < 20; i++ {
		if video != "" {
			msgs = append(msgs, remuxMsg{9, ts, frame(i%5 == 0, tag)})
		} else {
			msgs = append(msgs, remuxMsg{8, ts, []byte{0xaf, 1, 0x21, tag, 0x55}})
		}
		ts += 20
		tag++
	}
	fail := func(what, f string, x ...interface{}) {
		r.Violation("remuxsdp/"+what, desc+": "+fmt.Sprintf(f, x...), rp)
	}
	var got []sdp.LogicContext
	nrtp := 0
	if p := guard(func() {
		rm := remux.NewRtmp2RtspRemuxer(func(c sdp.LogicContext) { got = append(got, c) }, func(rtprtcp.RtpPacket) { nrtp++ })
		scratch := make([]byte, 4096)
		for _, m := range msgs {
			var pl []byte
			if reuse {
				pl = scratch[:len(m.p)]
				copy(pl, m.p)
			} else {
				pl = append([]byte{}, m.p...)
			}
			rm.FeedRtmpMsg(base.RtmpMsg{Header: base.RtmpHeader{Csid: 4, MsgLen: uint32(len(pl)), MsgTypeId: m.typ, MsgStreamId: 1, TimestampAbs: m.ts}, Payload: pl})
			if reuse {
				// the caller reads the next message into the same buffer
				for i := range scratch {
					scratch[i] = 0xEE
				}
			}
		}
	}); p != nil {
		fail("panic", "%v", p)
		return
	}
	if len(got) == 0 {
		fail("no-sdp", "no SDP after %d messages", len(msgs))
		return
	}
	if len(got) > 1 {
		fail("sdp-twice", "the SDP was announced %d times", len(got))
	}
	c := got[0]
	rs, err := ref.ParseSdp(c.RawSdp)
	if err != nil {
		fail("rfc-reader", "%v\n%s", err, c.RawSdp)
		return
	}
	hasV, hasA := false, false
	for _, m := range rs.Media {
		switch m.Media {
		case "video":
			hasV = true
			switch video {
			case "avc":
				if !same(m.Sps, baseAvcSps) || !same(m.Pps, pps) {
					fail("video-sets", "sprop-parameter-sets differ from the published SPS / PPS: sps=%x pps=%x", m.Sps, m.Pps)
				}
			case "hevc", "hevc-enhanced":
				if !same(m.Vps, baseHevcVps) || !same(m.Sps, baseHevcSps) || !same(m.Pps, hpps) {
					fail("video-sets", "sprop-vps/sps/pps differ from the published ones: vps=%x sps=%x pps=%x", m.Vps, m.Sps, m.Pps)
				}
			}
		case "audio":
			hasA = true
			if !same(m.Config, asc) || m.Clock != 44100 {
				fail("audio-config", "config=%x clock=%d, published AudioSpecificConfig %x (44100 Hz)", m.Config, m.Clock, asc)
			}
		}
	}
	wantV, wantA := false, false
	for _, o := range order {
		if o == "V" {
			wantV = true
		}
		if o == "A" {
			wantA = true
		}
	}
	if hasV != wantV || hasA != wantA {
		fail("tracks", "SDP has video=%v audio=%v, the stream's first messages announce video=%v audio=%v", hasV, hasA, wantV, wantA)
	}
}

// checkRemuxSdpNoHeader: audio codecs without a sequence header (G.711, Opus). The stream's first messages
// are every arrangement of <= 4 items over {V (video sequence header), k (key frame), a (audio frame),
// Mc (metadata that names the audio codec but no rate), Mr (metadata with codec and rate), M (metadata
// without audio fields)}; whatever SDP results names the codec with its own clock rate.
func checkRemuxSdpNoHeader(r *vk.Run, akind string, order []string) {
	r.Eval(1)
	desc := fmt.Sprintf("video=avc audio=%s order=%v", akind, order)
	rp := replay{Kind: "remuxsdp", Desc: desc}
	r.Class(fmt.Sprintf("remuxsdp-nohdr/%s/%d", akind, len(order)))
	pps := []byte{0x68, 0xce, 0x3c, 0x80}
	first := map[string]byte{"g711a": 0x72, "g711u": 0x82, "opus": 0xdf}[akind]
	codecID := map[string]float64{"g711a": 7, "g711u": 8, "opus": 13}[akind]
	rate := map[string]int{"g711a": 8000, "g711u": 8000, "opus": 48000}[akind]
	enc := map[string]string{"g711a": "PCMA", "g711u": "PCMU", "opus": "OPUS"}[akind]
	num := func(k string, v float64) ref.APair {
		return ref.APair{Key: k, Val: ref.AVal{Kind: ref.ANumber, Num: v}}
	}
	meta := func(pairs ...ref.APair) []byte {
		b := ref.AEncode(ref.AVal{Kind: ref.AString, Str: "onMetaData"})
		return append(b, ref.AEncode(ref.AVal{Kind: ref.AObject, Pairs: pairs})...)
	}
	var msgs []remuxMsg
	ts := uint32(0)
	add := func(o string) {
		switch o {
		case "V":
			msgs = append(msgs, remuxMsg{9, 0, refAvcSeqHeader(baseAvcSps, pps)})
		case "k":
			msgs = append(msgs, remuxMsg{9, ts, []byte{0x17, 1, 0, 0, 0, 0, 0, 0, 4, 0x65, 0x88, 0x81, 0x80}})
		case "a":
			msgs = append(msgs, remuxMsg{8, ts, []byte{first, 0x11, 0x22, 0x33}})
		case "Mc":
			msgs = append(msgs, remuxMsg{18, ts, meta(num("width", 1280), num("audiocodecid", codecID))})
		case "Mr":
			msgs = append(msgs, remuxMsg{18, ts, meta(num("audiocodecid", codecID), num("audiosamplerate", float64(rate)))})
		case "M":
			msgs = append(msgs, remuxMsg{18, ts, meta(num("width", 1280))})
		}
		ts += 20
	}
	for _, o := range order {
		add(o)
	}
	for i := 0; i < 20; i++ {
		if i%2 == 0 {
			add("k")
		} else {
			add("a")
		}
	}
	var got []sdp.LogicContext
	if p := guard(func() {
		rm := remux.NewRtmp2RtspRemuxer(func(c sdp.LogicContext) { got = append(got, c) }, func(rtprtcp.RtpPacket) {})
		for _, m := range msgs {
			pl := append([]byte{}, m.p...)
			rm.FeedRtmpMsg(base.RtmpMsg{Header: base.RtmpHeader{Csid: 4, MsgLen: uint32(len(pl)), MsgTypeId: m.typ, MsgStreamId: 1, TimestampAbs: m.ts}, Payload: pl})
		}
	}); p != nil {
		r.Violation("remuxsdp/panic", fmt.Sprintf("%s: %v", desc, p), rp)
		return
	}
	if len(got) == 0 {
		r.Violation("remuxsdp/no-sdp", desc+": no SDP", rp)
		return
	}
	rs, err := ref.ParseSdp(got[0].RawSdp)
	if err != nil {
		r.Violation("remuxsdp/rfc-reader", fmt.Sprintf("%s: %v\n%s", desc, err, got[0].RawSdp), rp)
		return
	}
	for _, m := range rs.Media {
		if m.Media != "audio" {
			continue
		}
		if strings.ToUpper(m.Enc) != enc || m.Clock != rate || got[0].AudioClockRate != rate {
			r.Violation("remuxsdp/audio-rtpmap", fmt.Sprintf("%s: the SDP announces %s/%d (lal reads clock rate %d); the stream is %s at %d Hz", desc, m.Enc, m.Clock, got[0].AudioClockRate, enc, rate), rp)
		}
	}
}

func remuxSdpCases(r *vk.Run, quick bool) int {
	n := 0
	{
		alpha := []string{"V", "k", "a", "Mc", "Mr", "M"}
		var gen func(cur []string)
		gen = func(cur []string) {
			if contains(cur, "V") {
				for _, ak := range []string{"g711a", "g711u", "opus"} {
					checkRemuxSdpNoHeader(r, ak, cur)
					n++
				}
			}
			if len(cur) == 4 {
				return
			}
			for _, a := range alpha {
				if a == "k" && !contains(cur, "V") {
					continue
				}
				if a == "V" && contains(cur, "V") {
					continue
				}
				gen(append(append([]string{}, cur...), a))
			}
		}
		gen(nil)
	}
	// every arrangement of the sequence headers and up to 3 other messages before the SDP can be known
	fillers := []string{"a", "k", "p", "M", "Ma"}
	var orders [][]string
	var gen func(cur []string, hv, ha bool, nf int)
	gen = func(cur []string, hv, ha bool, nf int) {
		if hv || ha {
			orders = append(orders, append([]string{}, cur...))
		}
		if !hv {
			gen(append(cur, "V"), true, ha, nf)
		}
		if !ha {
			gen(append(cur, "A"), hv, true, nf)
		}
		if nf < 3 && !(hv && ha) {
			for _, f := range fillers {
				if (f == "k" || f == "p") && !hv {
					continue // frames only after their sequence header
				}
				if f == "p" && !contains(cur, "k") {
					continue
				}
				if f == "a" && !ha {
					continue
				}
				gen(append(cur, f), hv, ha, nf+1)
			}
		}
	}
	gen(nil, false, false, 0)
	for _, video := range []string{"avc", "hevc", "hevc-enhanced"} {
		for _, o := range orders {
			for _, reuse := range []bool{true, false} {
				if quick && !reuse && len(o) > 3 {
					continue
				}
				audio := contains(o, "A")
				v := video
				if !contains(o, "V") {
					v = ""
					if video != "avc" {
						continue
					}
				}
				checkRemuxSdp(r, v, audio, o, reuse)
				n++
			}
		}
	}
	return n
}

func contains(a []string, x string) bool {
	for _, y := range a {
		if y == x {
			return true
		}
	}
	return false
}
