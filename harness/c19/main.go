// C19 — codec configuration survives every re-encoding; SDP and SPS info are right.
// Family (I): exhaustive enumeration over parameter-set lengths x content patterns, NAL-unit lists x
// start-code framings, all AudioSpecificConfig values, all codec pairs for SDP, and the product of the
// H.264 SPS syntax alternatives produced by an encoder model (lib/ref/h26x.go) / basic H.265 SPS.
package main

import (
	"bytes"
	"encoding/binary"
	"fmt"
	"strings"
	"time"

	"github.com/q191201771/lal/pkg/aac"
	"github.com/q191201771/lal/pkg/avc"
	"github.com/q191201771/lal/pkg/base"
	"github.com/q191201771/lal/pkg/hevc"
	"github.com/q191201771/lal/pkg/sdp"

	"verif/lib/lalenv"
	"verif/lib/ref"
	"verif/lib/vk"
)

type replay struct {
	Kind string       `json:"kind"`
	Desc string       `json:"desc"`
	Sps  *ref.AvcSps  `json:"sps,omitempty"`
	Hsps *ref.HevcSps `json:"hsps,omitempty"`
	Hex  string       `json:"hex,omitempty"`
}

func guard(f func()) (p interface{}) {
	defer func() { p = recover() }()
	f()
	return nil
}

var baseAvcSps = ref.WriteAvcSps(ref.AvcSps{Profile: 100, Level: 31, ChromaFormat: 1, PocType: 0, Log2MaxPocLsbM4: 2, MaxNumRefFrames: 3, WidthMbsM1: 79, HeightMapUnitsM1: 44, FrameMbsOnly: true, Direct8x8: true})
var basePtl = ref.HevcPtl{ProfileIdc: 1, Compat: 0x60000000, Constraint: 0x900000000000, Level: 93}
var baseHevcVps = ref.WriteHevcVps(0, basePtl)
var baseHevcSps = ref.WriteHevcSps(ref.HevcSps{Ptl: basePtl, ChromaFormat: 1, Width: 1280, Height: 720})

func fill(prefix []byte, total int, pat string) []byte {
	b := append([]byte{}, prefix...)
	for i := len(b); i < total; i++ {
		var x byte
		switch pat {
		case "count":
			x = byte(i)
			if x == 0 {
				x = 0x55
			}
		case "zero":
			x = 0
		case "epb": // legal NAL content with emulation prevention bytes
			x = []byte{0, 0, 3, 1}[i%4]
		case "sc3": // 00 00 01 inside (only meaningful for length-prefixed containers)
			x = []byte{0, 0, 1, 9}[i%4]
		case "sc0": // 00 00 00
			x = []byte{0, 0, 0, 9}[i%4]
		}
		b = append(b, x)
	}
	if pat != "zero" && len(b) > len(prefix) && b[len(b)-1] == 0 {
		b[len(b)-1] = 0x80
	}
	return b
}

func annexbClean(pat string) bool { return pat == "count" || pat == "epb" }

// reference AVCDecoderConfigurationRecord in an RTMP sequence header (ISO 14496-15 §5.2.4.1)
func refAvcSeqHeader(sps, pps []byte) []byte {
	b := []byte{0x17, 0, 0, 0, 0, 1, 100, 0, 31, 0xff, 0xe1}
	b = append(b, byte(len(sps)>>8), byte(len(sps)))
	b = append(b, sps...)
	b = append(b, 1, byte(len(pps)>>8), byte(len(pps)))
	return append(b, pps...)
}

func parseAvcRecord(b []byte) (sps, pps []byte, err error) {
	if len(b) < 11 || b[0] != 0x17 || b[1] != 0 || b[5] != 1 {
		return nil, nil, fmt.Errorf("record header %x", b[:minI(len(b), 11)])
	}
	if b[9]&0xfc != 0xfc || b[9]&3 != 3 {
		return nil, nil, fmt.Errorf("lengthSizeMinusOne byte %#x", b[9])
	}
	if b[10]&0xe0 != 0xe0 || b[10]&0x1f != 1 {
		return nil, nil, fmt.Errorf("numOfSequenceParameterSets byte %#x", b[10])
	}
	i := 11
	if len(b) < i+2 {
		return nil, nil, fmt.Errorf("short")
	}
	n := int(binary.BigEndian.Uint16(b[i:]))
	i += 2
	if len(b) < i+n+3 {
		return nil, nil, fmt.Errorf("sps length %d past the end", n)
	}
	sps = b[i : i+n]
	i += n
	if b[i] != 1 {
		return nil, nil, fmt.Errorf("numOfPictureParameterSets %d", b[i])
	}
	m := int(binary.BigEndian.Uint16(b[i+1:]))
	i += 3
	if len(b) != i+m {
		return nil, nil, fmt.Errorf("pps length %d but %d bytes left", m, len(b)-i)
	}
	return sps, b[i:], nil
}

func refHevcSeqHeader(enhanced bool, vps, sps, pps []byte) []byte {
	var b []byte
	if enhanced {
		b = []byte{0x90, 'h', 'v', 'c', '1'}
	} else {
		b = []byte{0x1c, 0, 0, 0, 0}
	}
	rec := make([]byte, 23)
	rec[0] = 1
	rec[1] = 1
	rec[21] = 0x0f // constantFrameRate 0, numTemporalLayers 1, temporalIdNested 1, lengthSizeMinusOne 3
	rec[22] = 3
	b = append(b, rec...)
	for _, a := range []struct {
		t byte
		d []byte
	}{{32, vps}, {33, sps}, {34, pps}} {
		b = append(b, 0x80|a.t, 0, 1, byte(len(a.d)>>8), byte(len(a.d)))
		b = append(b, a.d...)
	}
	return b
}

func parseHevcRecord(b []byte) (vps, sps, pps []byte, err error) {
	if len(b) < 28 || b[5] != 1 {
		return nil, nil, nil, fmt.Errorf("record header")
	}
	i := 27
	n := int(b[i])
	i++
	for k := 0; k < n; k++ {
		if len(b) < i+3 {
			return nil, nil, nil, fmt.Errorf("array header past the end")
		}
		t := b[i] & 0x3f
		cnt := int(binary.BigEndian.Uint16(b[i+1:]))
		i += 3
		for j := 0; j < cnt; j++ {
			if len(b) < i+2 {
				return nil, nil, nil, fmt.Errorf("nal length past the end")
			}
			l := int(binary.BigEndian.Uint16(b[i:]))
			i += 2
			if len(b) < i+l {
				return nil, nil, nil, fmt.Errorf("nal past the end")
			}
			switch t {
			case 32:
				vps = b[i : i+l]
			case 33:
				sps = b[i : i+l]
			case 34:
				pps = b[i : i+l]
			}
			i += l
		}
	}
	if i != len(b) {
		return nil, nil, nil, fmt.Errorf("%d trailing bytes", len(b)-i)
	}
	return
}

func minI(a, b int) int {
	if a < b {
		return a
	}
	return b
}

func eq3(a, b, c [][]byte) bool { return false }

func same(a, b []byte) bool { return bytes.Equal(a, b) }

// ---- (a) parameter sets through every representation ------------------------------------------------------

func checkParamSets(r *vk.Run, spsLen, ppsLen int, pat string) {
	r.Eval(1)
	desc := fmt.Sprintf("sps=%d pps=%d pat=%s", spsLen, ppsLen, pat)
	rp := replay{Kind: "paramsets", Desc: desc}
	lc := func(n int) string {
		switch {
		case n < 255:
			return "s"
		case n <= 256:
			return fmt.Sprint(n)
		case n == 65535:
			return "max"
		}
		return "m"
	}
	r.Class(fmt.Sprintf("ps/%s/%s/%s", lc(spsLen), lc(ppsLen), pat))
	fail := func(what, f string, a ...interface{}) {
		r.Violation("ps/"+what, desc+": "+fmt.Sprintf(f, a...), rp)
	}
	// AVC
	sps := fill(baseAvcSps, maxI(spsLen, len(baseAvcSps)), pat)
	pps := fill([]byte{0x68}, ppsLen, pat)
	if p := guard(func() {
		sh, err := avc.BuildSeqHeaderFromSpsPps(sps, pps)
		if err != nil {
			fail("avc/build", "BuildSeqHeaderFromSpsPps: %v", err)
			return
		}
		if s2, p2, err := parseAvcRecord(sh); err != nil || !same(s2, sps) || !same(p2, pps) {
			fail("avc/build-spec", "sequence header built by lal is not a conforming AVCDecoderConfigurationRecord carrying the sets: %v", err)
		}
		for name, f := range map[string]func([]byte) ([]byte, []byte, error){"ParseSpsPpsFromSeqHeader": avc.ParseSpsPpsFromSeqHeader, "ParseSpsPpsFromSeqHeaderWithoutMalloc": avc.ParseSpsPpsFromSeqHeaderWithoutMalloc} {
			for src, hdr := range map[string][]byte{"lal": sh, "ref": refAvcSeqHeader(sps, pps)} {
				s2, p2, err := f(hdr)
				if err != nil || !same(s2, sps) || !same(p2, pps) {
					fail("avc/parse", "%s on the %s-built header: err=%v sps %d->%d bytes pps %d->%d bytes", name, src, err, len(sps), len(s2), len(pps), len(p2))
				}
			}
		}
		if annexbClean(pat) {
			ab, err := avc.SpsPpsSeqHeader2Annexb(sh)
			if u := ref.SplitAnnexB(ab); err != nil || len(u) != 2 || !same(u[0], sps) || !same(u[1], pps) {
				fail("avc/annexb", "SpsPpsSeqHeader2Annexb: err=%v, %d units", err, len(u))
			}
			ab = avc.BuildSpsPps2Annexb(sps, pps)
			if u := ref.SplitAnnexB(ab); len(u) != 2 || !same(u[0], sps) || !same(u[1], pps) {
				fail("avc/annexb2", "BuildSpsPps2Annexb: %d units", len(u))
			}
		}
		// SDP
		ctx, err := sdp.Pack(sdp.VideoInfo{VideoPt: base.AvPacketPtAvc, Sps: sps, Pps: pps}, sdp.AudioInfo{AudioPt: base.AvPacketPtUnknown})
		if err != nil || !same(ctx.Sps, sps) || !same(ctx.Pps, pps) {
			fail("avc/sdp-lal", "sdp.Pack -> lal parse: err=%v", err)
		}
		if rs, err := ref.ParseSdp(ctx.RawSdp); err != nil || len(rs.Media) != 1 || !same(rs.Media[0].Sps, sps) || !same(rs.Media[0].Pps, pps) {
			fail("avc/sdp-ref", "sdp.Pack -> RFC reader: err=%v", err)
		}
	}); p != nil {
		fail("avc/panic", "%v", p)
	}
	// HEVC (VPS kept at its natural length, SPS/PPS stretched)
	vps := fill(baseHevcVps, len(baseHevcVps), pat)
	hs := fill(baseHevcSps, maxI(spsLen, len(baseHevcSps)), pat)
	hp := fill([]byte{0x44, 0x01}, maxI(ppsLen, 2), pat)
	if p := guard(func() {
		sh, err := hevc.BuildSeqHeaderFromVpsSpsPps(vps, hs, hp)
		if err != nil {
			fail("hevc/build", "BuildSeqHeaderFromVpsSpsPps: %v", err)
			return
		}
		if v2, s2, p2, err := parseHevcRecord(sh); err != nil || !same(v2, vps) || !same(s2, hs) || !same(p2, hp) {
			fail("hevc/build-spec", "header built by lal is not a conforming HEVCDecoderConfigurationRecord carrying the sets: %v", err)
		}
		for src, hdr := range map[string][]byte{"lal": sh, "ref": refHevcSeqHeader(false, vps, hs, hp)} {
			v2, s2, p2, err := hevc.ParseVpsSpsPpsFromSeqHeader(hdr)
			if err != nil || !same(v2, vps) || !same(s2, hs) || !same(p2, hp) {
				fail("hevc/parse", "ParseVpsSpsPpsFromSeqHeader on the %s-built header: err=%v", src, err)
			}
		}
		eh := refHevcSeqHeader(true, vps, hs, hp)
		if v2, s2, p2, err := hevc.ParseVpsSpsPpsFromEnhancedSeqHeader(eh); err != nil || !same(v2, vps) || !same(s2, hs) || !same(p2, hp) {
			fail("hevc/parse-enhanced", "ParseVpsSpsPpsFromEnhancedSeqHeader: err=%v", err)
		}
		if annexbClean(pat) {
			ab, err := hevc.VpsSpsPpsSeqHeader2Annexb(sh)
			if u := ref.SplitAnnexB(ab); err != nil || len(u) != 3 || !same(u[0], vps) || !same(u[1], hs) || !same(u[2], hp) {
				fail("hevc/annexb", "VpsSpsPpsSeqHeader2Annexb: err=%v, %d units", err, len(u))
			}
			ab, err = hevc.VpsSpsPpsEnhancedSeqHeader2Annexb(eh)
			if u := ref.SplitAnnexB(ab); err != nil || len(u) != 3 || !same(u[0], vps) || !same(u[1], hs) || !same(u[2], hp) {
				fail("hevc/annexb-enhanced", "VpsSpsPpsEnhancedSeqHeader2Annexb: err=%v, %d units", err, len(u))
			}
			ab, err = hevc.BuildVpsSpsPps2Annexb(vps, hs, hp)
			if u := ref.SplitAnnexB(ab); err != nil || len(u) != 3 || !same(u[0], vps) || !same(u[1], hs) || !same(u[2], hp) {
				fail("hevc/annexb2", "BuildVpsSpsPps2Annexb: err=%v, %d units", err, len(u))
			}
		}
		ctx, err := sdp.Pack(sdp.VideoInfo{VideoPt: base.AvPacketPtHevc, Vps: vps, Sps: hs, Pps: hp}, sdp.AudioInfo{AudioPt: base.AvPacketPtUnknown})
		if err != nil || !same(ctx.Vps, vps) || !same(ctx.Sps, hs) || !same(ctx.Pps, hp) {
			fail("hevc/sdp-lal", "sdp.Pack -> lal parse: err=%v", err)
		}
		if rs, err := ref.ParseSdp(ctx.RawSdp); err != nil || len(rs.Media) != 1 || !same(rs.Media[0].Vps, vps) || !same(rs.Media[0].Sps, hs) || !same(rs.Media[0].Pps, hp) {
			fail("hevc/sdp-ref", "sdp.Pack -> RFC reader: err=%v", err)
		}
	}); p != nil {
		fail("hevc/panic", "%v", p)
	}
}

func maxI(a, b int) int {
	if a > b {
		return a
	}
	return b
}

// ---- (b) NAL unit lists between framings ------------------------------------------------------------------

var unitAlphabet = [][]byte{{0x65}, {0x41, 0x9a}, {0x06, 0x00, 0x00, 0x03, 0x01, 0x80}, {0x61, 0x00, 0x80}}

func checkFraming(r *vk.Run, idx []int, sc []int, lead, trail int) {
	r.Eval(1)
	var units [][]byte
	var ab []byte
	for i := 0; i < lead; i++ {
		ab = append(ab, 0)
	}
	for k, i := range idx {
		units = append(units, unitAlphabet[i])
		// sc[k] bytes of start code: two or more zero bytes and 01 (zero bytes beyond the third belong to
		// no unit: zero_byte / trailing_zero_8bits of the byte-stream format)
		for z := 1; z < sc[k]; z++ {
			ab = append(ab, 0)
		}
		ab = append(ab, 1)
		ab = append(ab, unitAlphabet[i]...)
	}
	for i := 0; i < trail; i++ {
		ab = append(ab, 0)
	}
	desc := fmt.Sprintf("units=%v startcodes=%v leading_zeros=%d trailing_zeros=%d annexb=%x", idx, sc, lead, trail, ab)
	rp := replay{Kind: "framing", Desc: desc, Hex: fmt.Sprintf("%x", ab)}
	r.Class(fmt.Sprintf("framing/n=%d/sc=%v/lead=%v/trail=%v", len(idx), sc, lead > 0, trail > 0))
	disc := "plain"
	if trail > 0 {
		disc = "trailing-zeros"
	} else if lead > 0 {
		disc = "leading-zeros"
	}
	sameList := func(a [][]byte) bool {
		if len(a) != len(units) {
			return false
		}
		for i := range a {
			if !same(a[i], units[i]) {
				return false
			}
		}
		return true
	}
	if p := guard(func() {
		// Annex-B -> units
		got, err := avc.SplitNaluAnnexb(ab)
		if err != nil || !sameList(got) {
			r.Violation("framing/split-annexb/"+disc, fmt.Sprintf("SplitNaluAnnexb: err=%v got=%x want=%x (%s)", err, got, units, desc), rp)
		}
		// Annex-B -> AVCC
		av, err := avc.Annexb2Avcc(ab)
		var l [][]byte
		for b := av; len(b) >= 4; {
			n := int(binary.BigEndian.Uint32(b))
			if n > len(b)-4 {
				n = len(b) - 4
			}
			l = append(l, b[4:4+n])
			b = b[4+n:]
		}
		if err != nil || !sameList(l) {
			r.Violation("framing/annexb2avcc/"+disc, fmt.Sprintf("Annexb2Avcc: err=%v got=%x want=%x (%s)", err, l, units, desc), rp)
		}
		// AVCC -> Annex-B and AVCC iteration (reference AVCC of the units)
		var ravcc []byte
		for _, u := range units {
			ravcc = append(ravcc, byte(len(u)>>24), byte(len(u)>>16), byte(len(u)>>8), byte(len(u)))
			ravcc = append(ravcc, u...)
		}
		got, err = avc.SplitNaluAvcc(ravcc)
		if err != nil || !sameList(got) {
			r.Violation("framing/split-avcc", fmt.Sprintf("SplitNaluAvcc: err=%v got=%x want=%x", err, got, units), rp)
		}
		ab2, err := avc.Avcc2Annexb(ravcc)
		if err != nil || !sameList(ref.SplitAnnexB(ab2)) {
			r.Violation("framing/avcc2annexb", fmt.Sprintf("Avcc2Annexb: err=%v out=%x want units %x", err, ab2, units), rp)
		}
	}); p != nil {
		r.Violation("framing/panic", fmt.Sprintf("%v (%s)", p, desc), rp)
	}
}

// ---- (c) AudioSpecificConfig ------------------------------------------------------------------------------

func checkAsc(r *vk.Run, ot, fi, ch int, ext []byte) {
	r.Eval(1)
	asc := []byte{byte(ot<<3 | fi>>1), byte(fi<<7 | ch<<3)}
	asc = append(asc, ext...)
	desc := fmt.Sprintf("asc=%x (objectType=%d freqIndex=%d channels=%d)", asc, ot, fi, ch)
	rp := replay{Kind: "asc", Desc: desc, Hex: fmt.Sprintf("%x", asc)}
	r.Class(fmt.Sprintf("asc/adts=%v/ext=%d/fi-valid=%v", ot >= 1 && ot <= 4 && fi <= 12 && ch <= 7, len(ext), fi <= 12))
	if p := guard(func() {
		c, err := aac.NewAscContext(asc)
		if err != nil || int(c.AudioObjectType) != ot || int(c.SamplingFrequencyIndex) != fi || int(c.ChannelConfiguration) != ch {
			r.Violation("asc/unpack", fmt.Sprintf("%s: Unpack -> %+v err=%v", desc, c, err), rp)
			return
		}
		p := c.Pack()
		if len(p) != 2 || p[0] != asc[0] || p[1] != asc[1]&0xf8 {
			r.Violation("asc/pack", fmt.Sprintf("%s: Unpack->Pack = %x", desc, p), rp)
		}
		sh, err := aac.MakeAudioDataSeqHeaderWithAsc(asc)
		if err != nil || !same(sh, append([]byte{0xaf, 0}, asc...)) {
			r.Violation("asc/seqheader", fmt.Sprintf("%s: MakeAudioDataSeqHeaderWithAsc = %x err=%v", desc, sh, err), rp)
		}
		rate := 44100
		ctx, err := sdp.Pack(sdp.VideoInfo{}, sdp.AudioInfo{AudioPt: base.AvPacketPtAac, SamplingFrequency: rate, Asc: asc})
		if err != nil || !same(ctx.Asc, asc) || ctx.AudioClockRate != rate {
			r.Violation("asc/sdp-lal", fmt.Sprintf("%s: sdp.Pack -> lal parse: asc=%x clock=%d err=%v", desc, ctx.Asc, ctx.AudioClockRate, err), rp)
		} else if rs, err := ref.ParseSdp(ctx.RawSdp); err != nil || len(rs.Media) != 1 || !same(rs.Media[0].Config, asc) || rs.Media[0].Clock != rate {
			r.Violation("asc/sdp-ref", fmt.Sprintf("%s: sdp.Pack -> RFC reader: err=%v", desc, err), rp)
		}
		if ot >= 1 && ot <= 4 && fi <= 12 && ch <= 7 {
			for _, fl := range []int{0, 1, 8184} {
				h := c.PackAdtsHeader(fl)
				// reference ADTS fixed+variable header (ISO 13818-7 §6.2)
				ok := len(h) == 7 && h[0] == 0xff && h[1]&0xf6 == 0xf0 && h[1]&1 == 1 &&
					int(h[2]>>6) == ot-1 && int(h[2]>>2&0xf) == fi && int(h[2]&1)<<2|int(h[3]>>6) == ch &&
					(int(h[3]&3)<<11|int(h[4])<<3|int(h[5]>>5)) == fl+7 && h[5]&0x1f == 0x1f && h[6] == 0xfc
				if !ok {
					r.Violation("asc/adts-pack", fmt.Sprintf("%s frame=%d: ADTS header %x does not decode to the ASC fields / length", desc, fl, h), rp)
				}
				back, err := aac.MakeAscWithAdtsHeader(h)
				if err != nil || len(back) != 2 || back[0] != asc[0] || back[1] != asc[1]&0xf8 {
					r.Violation("asc/adts-roundtrip", fmt.Sprintf("%s: ASC->ADTS->ASC = %x err=%v", desc, back, err), rp)
				}
				ac, err := aac.NewAdtsHeaderContext(h)
				if err != nil || int(ac.AdtsLength) != fl+7 {
					r.Violation("asc/adts-length", fmt.Sprintf("%s: AdtsLength %d for frame %d", desc, ac.AdtsLength, fl), rp)
				}
			}
		}
	}); p != nil {
		r.Violation("asc/panic", fmt.Sprintf("%s: %v", desc, p), rp)
	}
}

// ---- (d) SDP for every codec pair ---------------------------------------------------------------------------

func checkSdpPair(r *vk.Run, v, a string, rate int) {
	r.Eval(1)
	desc := fmt.Sprintf("video=%s audio=%s rate=%d", v, a, rate)
	rp := replay{Kind: "sdp", Desc: desc}
	r.Class("sdp/" + v + "/" + a)
	var vi sdp.VideoInfo
	ai := sdp.AudioInfo{AudioPt: base.AvPacketPtUnknown}
	pps := []byte{0x68, 0xce, 0x3c, 0x80}
	hpps := []byte{0x44, 0x01, 0xc1, 0x72, 0xb4, 0x62, 0x40}
	switch v {
	case "avc":
		vi = sdp.VideoInfo{VideoPt: base.AvPacketPtAvc, Sps: baseAvcSps, Pps: pps}
	case "hevc":
		vi = sdp.VideoInfo{VideoPt: base.AvPacketPtHevc, Vps: baseHevcVps, Sps: baseHevcSps, Pps: hpps}
	}
	asc := []byte{0x12, 0x10}
	wantEnc, wantAPt := "", -1
	switch a {
	case "aac":
		ai = sdp.AudioInfo{AudioPt: base.AvPacketPtAac, SamplingFrequency: rate, Asc: asc}
		wantEnc, wantAPt = "MPEG4-GENERIC", 97
	case "g711a":
		ai = sdp.AudioInfo{AudioPt: base.AvPacketPtG711A, SamplingFrequency: rate}
		wantEnc, wantAPt = "PCMA", 8
	case "g711u":
		ai = sdp.AudioInfo{AudioPt: base.AvPacketPtG711U, SamplingFrequency: rate}
		wantEnc, wantAPt = "PCMU", 0
	case "opus":
		ai = sdp.AudioInfo{AudioPt: base.AvPacketPtOpus, SamplingFrequency: rate}
		wantEnc, wantAPt = "OPUS", 101
		rate = 48000
	}
	fail := func(what, f string, x ...interface{}) {
		r.Violation("sdp/"+what, desc+": "+fmt.Sprintf(f, x...), rp)
	}
	if p := guard(func() {
		ctx, err := sdp.Pack(vi, ai)
		if v == "none" && a == "none" {
			if err == nil {
				fail("empty", "Pack with no tracks succeeded")
			}
			return
		}
		if err != nil {
			fail("pack", "%v", err)
			return
		}
		rs, err := ref.ParseSdp(ctx.RawSdp)
		if err != nil {
			fail("rfc-reader", "%v\n%s", err, ctx.RawSdp)
			return
		}
		nm := 0
		if v != "none" {
			nm++
		}
		if a != "none" {
			nm++
		}
		if len(rs.Media) != nm {
			fail("media-count", "RFC reader sees %d media sections, want %d", len(rs.Media), nm)
			return
		}
		i := 0
		uri := "rtsp://h/live/s"
		if v != "none" {
			m := rs.Media[i]
			i++
			wantV := map[string]string{"avc": "H264", "hevc": "H265"}[v]
			wantPt := map[string]int{"avc": 96, "hevc": 98}[v]
			wantBase := map[string]base.AvPacketPt{"avc": base.AvPacketPtAvc, "hevc": base.AvPacketPtHevc}[v]
			if m.Media != "video" || strings.ToUpper(m.Enc) != wantV || m.PT != wantPt || m.Clock != 90000 || m.Control == "" {
				fail("video-rfc", "RFC reader: %+v", m)
			}
			if ctx.GetVideoPayloadTypeBase() != wantBase || !ctx.IsVideoPayloadTypeOrigin(m.PT) || ctx.VideoClockRate != m.Clock || !ctx.HasVideoAControl() || ctx.MakeVideoSetupUri(uri) != uri+"/"+m.Control {
				fail("video-lal", "lal reader disagrees with the RFC reader: base=%v clock=%d setup=%s vs %+v", ctx.GetVideoPayloadTypeBase(), ctx.VideoClockRate, ctx.MakeVideoSetupUri(uri), m)
			}
			if !same(ctx.Sps, m.Sps) || !same(ctx.Pps, m.Pps) || !same(ctx.Vps, m.Vps) || !same(m.Sps, vi.Sps) || !same(m.Pps, vi.Pps) || !same(m.Vps, vi.Vps) {
				fail("video-sets", "parameter sets differ between input, lal reader and RFC reader")
			}
		}
		if a != "none" {
			m := rs.Media[i]
			if m.Media != "audio" || strings.ToUpper(m.Enc) != wantEnc || m.PT != wantAPt || m.Clock != rate || m.Control == "" {
				fail("audio-rfc", "RFC reader: %+v (want enc=%s pt=%d clock=%d)", m, wantEnc, wantAPt, rate)
			}
			if ctx.GetAudioPayloadTypeBase() != ai.AudioPt || !ctx.IsAudioPayloadTypeOrigin(m.PT) || ctx.AudioClockRate != m.Clock || !ctx.HasAudioAControl() || ctx.MakeAudioSetupUri(uri) != uri+"/"+m.Control {
				fail("audio-lal", "lal reader disagrees with the RFC reader: base=%v clock=%d vs %+v", ctx.GetAudioPayloadTypeBase(), ctx.AudioClockRate, m)
			}
			if a == "aac" && (!same(ctx.Asc, asc) || !same(m.Config, asc)) {
				fail("audio-config", "config differs: lal=%x rfc=%x want=%x", ctx.Asc, m.Config, asc)
			}
			if v != "none" && rs.Media[0].Control == m.Control {
				fail("control-clash", "both tracks have control %q", m.Control)
			}
		}
	}); p != nil {
		fail("panic", "%v", p)
	}
}

// ---- (e) SPS encoder model ---------------------------------------------------------------------------------

func spsShape(s ref.AvcSps) string {
	cf := "n/a"
	if ref.AvcHighProfile(s.Profile) {
		cf = fmt.Sprint(s.ChromaFormat)
		if s.SeparatePlanes {
			cf += "sep"
		}
	}
	return fmt.Sprintf("chroma=%s/scaling=%v/poc=%d/fmo=%v/crop=%v/vui=%d", cf, s.ScalingMatrix, s.PocType, s.FrameMbsOnly, s.Crop, s.Vui)
}

func checkAvcSps(r *vk.Run, s ref.AvcSps) {
	r.Eval(1)
	nal := ref.WriteAvcSps(s)
	ww, wh := ref.AvcDims(s)
	hasEpb := bytes.Contains(nal, []byte{0, 0, 3})
	r.Class("avcsps/" + spsShape(s) + fmt.Sprintf("/epb=%v/p=%d", hasEpb, s.Profile))
	rp := replay{Kind: "avcsps", Desc: fmt.Sprintf("%x", nal), Sps: &s}
	var ctx avc.Context
	var err error
	if p := guard(func() { err = avc.ParseSps(nal, &ctx) }); p != nil {
		r.Violation("avcsps/panic", fmt.Sprintf("ParseSps panics on %x: %v", nal, p), rp)
		return
	}
	if err != nil || uint64(ctx.Width) != ww || uint64(ctx.Height) != wh {
		// key: which syntax feature the wrong answer depends on
		cause := "other"
		cf := uint64(1)
		if ref.AvcHighProfile(s.Profile) {
			cf = s.ChromaFormat
		}
		switch {
		case s.Profile == 135:
			cause = "profile135"
		case hasEpb:
			cause = "emulation-prevention"
		case s.Crop && (cf != 1 || !s.FrameMbsOnly):
			cause = "crop-unit"
		}
		r.Violation("avcsps/dims/"+cause, fmt.Sprintf("SPS %x (%s, %dx%d MBs, crop %d,%d,%d,%d): lal reports %dx%d err=%v, spec says %dx%d", nal, spsShape(s), s.WidthMbsM1+1, s.HeightMapUnitsM1+1, s.CL, s.CR, s.CT, s.CB, ctx.Width, ctx.Height, err, ww, wh), rp)
	}
	if ctx.Profile != s.Profile || ctx.Level != s.Level {
		r.Violation("avcsps/profile-level", fmt.Sprintf("SPS %x: profile/level %d/%d, want %d/%d", nal, ctx.Profile, ctx.Level, s.Profile, s.Level), rp)
	}
}

func checkHevcSps(r *vk.Run, s ref.HevcSps) {
	r.Eval(1)
	nal := ref.WriteHevcSps(s)
	ww, wh := ref.HevcDims(s)
	r.Class(fmt.Sprintf("hevcsps/chroma=%d/sep=%v/conf=%v/sub=%d/ordering=%v/epb=%v", s.ChromaFormat, s.SeparatePlanes, s.ConfWin, s.MaxSubLayersM1, s.SubLayerOrdering, bytes.Contains(nal, []byte{0, 0, 3})))
	rp := replay{Kind: "hevcsps", Desc: fmt.Sprintf("%x", nal), Hsps: &s}
	vps := ref.WriteHevcVps(s.MaxSubLayersM1, s.Ptl)
	pps := []byte{0x44, 0x01, 0xc1, 0x72, 0xb4, 0x62, 0x40}
	if p := guard(func() {
		// the dimensions lal reports for an HEVC stream come from the Context filled by the
		// sequence-header builder / stat code path: ParseVps + ParseSps
		sh, err := hevc.BuildSeqHeaderFromVpsSpsPps(vps, nal, pps)
		if err != nil {
			r.Violation("hevcsps/build", fmt.Sprintf("BuildSeqHeaderFromVpsSpsPps(%x): %v", nal, err), rp)
			return
		}
		if v2, s2, p2, err := parseHevcRecord(sh); err != nil || !same(v2, vps) || !same(s2, nal) || !same(p2, pps) {
			r.Violation("hevcsps/record", fmt.Sprintf("record built from %x does not carry the sets: %v", nal, err), rp)
		}
		// general profile/level in the record equal the PTL
		if sh[6]&0x1f != s.Ptl.ProfileIdc || sh[17] != s.Ptl.Level {
			r.Violation("hevcsps/ptl", fmt.Sprintf("record profile/level %d/%d, SPS says %d/%d", sh[6]&0x1f, sh[17], s.Ptl.ProfileIdc, s.Ptl.Level), rp)
		}
	}); p != nil {
		r.Violation("hevcsps/panic", fmt.Sprintf("%x: %v", nal, p), rp)
		return
	}
	w, h, err := hevcReportedDims(nal)
	if err != nil || w != ww || h != wh {
		cause := "other"
		if s.ConfWin {
			cause = "conformance-window"
		}
		r.Violation("hevcsps/dims/"+cause, fmt.Sprintf("SPS %x (coded %dx%d, conformance window %v %d,%d,%d,%d, chroma %d): lal reports %dx%d err=%v, spec says %dx%d", nal, s.Width, s.Height, s.ConfWin, s.CL, s.CR, s.CT, s.CB, s.ChromaFormat, w, h, err, ww, wh), rp)
	}
}

func main() {
	r := vk.Start("C19", "exploration")
	lalenv.Quiet()
	r.Rule("cases: (a) SPS/PPS length x content pattern through seq header, Annex-B, enhanced header and SDP for AVC and HEVC; (b) every list of <=3 units from a 4-unit alphabet x every mix of 3/4-byte start codes x leading zeros 0..2 x trailing zeros 0..2; (c) every 2-byte ASC (31x16x16) + extension variants; (d) SDP for 3 video x 5 audio x 3 rates; (e) the product of H.264 SPS syntax alternatives from the encoder model, and basic H.265 SPS; (f) the SDP of the RTMP->RTSP remuxer for every arrangement of the sequence headers and <= 3 other messages x AVC / HEVC / enhanced HEVC, with the caller reusing its message buffer. distinct_nontrivial = distinct (length classes, pattern) + framing shapes + ASC classes + codec pairs + SPS syntax shapes")
	r.Assume("encoder model and Annex-B splitter lib/ref/h26x.go (H.264 7.3.2.1.1/7.4.1/Annex B, H.265 7.3.2.2), SDP reader lib/ref/sdp.go",
		"parameter sets used where lal must parse them are a valid SPS followed by filler (lal's builders call ParseSps); NAL units never end in 0x00 (H.264 7.4.1)",
		"the dimensions lal reports for HEVC are taken as hevc.Context.Width/Height, which is what the stat API publishes")
	if r.ReplayIn != "" {
		var rp replay
		r.LoadReplay(&rp)
		switch rp.Kind {
		case "avcsps":
			checkAvcSps(r, *rp.Sps)
		case "hevcsps":
			checkHevcSps(r, *rp.Hsps)
		default:
			r.ReplayIn = ""
			runAll(r, true)
			return
		}
		r.Finish()
	}
	runAll(r, r.Quick())
}

func runAll(r *vk.Run, quick bool) {
	r.SetBudget(4*time.Minute, 40*time.Minute)
	// (a)
	type ps struct {
		s, p int
		pat  string
	}
	var pss []ps
	for _, pat := range []string{"count", "zero", "epb", "sc3", "sc0"} {
		for _, sl := range []int{0, 255, 256, 65535} {
			for _, pl := range []int{1, 2, 3, 4, 255, 256, 65535} {
				pss = append(pss, ps{sl, pl, pat})
			}
		}
	}
	vk.Par(len(pss), 16, func(i int) { checkParamSets(r, pss[i].s, pss[i].p, pss[i].pat) })
	r.Sample(map[string]interface{}{"paramsets": pss[7]})
	// (b)
	nb := 0
	for n := 1; n <= 3; n++ {
		idx := make([]int, n)
		var rec func(k int)
		rec = func(k int) {
			if k == n {
				for scm := 0; scm < 1<<uint(2*n); scm++ {
					sc := make([]int, n)
					for j := range sc {
						sc[j] = 3 + scm>>uint(2*j)&3 // 3..6 bytes
					}
					for lead := 0; lead <= 2; lead++ {
						for trail := 0; trail <= 2; trail++ {
							checkFraming(r, append([]int{}, idx...), sc, lead, trail)
							nb++
						}
					}
				}
				return
			}
			for i := range unitAlphabet {
				idx[k] = i
				rec(k + 1)
			}
		}
		rec(0)
	}
	// every legal NAL body of <= 5 bytes over {00,01,02,03} (what a start-code scanner can confuse),
	// as the first of two units and as the only unit, with 3- and 4-byte start codes
	saved := unitAlphabet
	var body func(cur []byte)
	body = func(cur []byte) {
		if len(cur) > 0 && cur[len(cur)-1] != 0 {
			u := append([]byte{0x65}, cur...)
			unitAlphabet = [][]byte{u, {0x41, 0x9a}}
			for _, sc := range [][]int{{3, 3}, {4, 4}, {3, 4}, {4, 3}} {
				checkFraming(r, []int{0, 1}, sc, 0, 0)
				checkFraming(r, []int{1, 0}, sc, 0, 1)
				nb += 2
			}
			checkFraming(r, []int{0}, []int{3}, 1, 0)
			nb++
		}
		if len(cur) == 5 {
			return
		}
		for _, x := range []byte{0, 1, 2, 3} {
			n := len(cur)
			if n >= 2 && cur[n-1] == 0 && cur[n-2] == 0 && x != 3 {
				continue // 00 00 0x (x<3) cannot occur inside a NAL unit
			}
			body(append(append([]byte{}, cur...), x))
		}
	}
	body(nil)
	unitAlphabet = saved
	r.Cov("framing_cases", nb)
	// (c)
	for ot := 1; ot <= 31; ot++ {
		for fi := 0; fi <= 15; fi++ {
			for ch := 0; ch <= 15; ch++ {
				checkAsc(r, ot, fi, ch, nil)
			}
		}
	}
	for _, ext := range [][]byte{{0x56, 0xe5, 0x00}, {0x2b, 0x09, 0x88}, {0x00, 0x00}, {0xff, 0xff, 0xff}} {
		for _, ot := range []int{2, 5, 29} {
			checkAsc(r, ot, 4, 2, ext)
			checkAsc(r, ot, 3, 1, ext)
		}
	}
	// (d)
	for _, v := range []string{"none", "avc", "hevc"} {
		for _, a := range []string{"none", "aac", "g711a", "g711u", "opus"} {
			for _, rate := range []int{8000, 44100, 48000} {
				checkSdpPair(r, v, a, rate)
			}
		}
	}
	// (f) the remuxer's SDP under message-buffer reuse
	r.Cov("remux_sdp_cases", remuxSdpCases(r, quick))
	// (e) H.264
	profiles := []uint8{66, 77, 88, 100, 110, 122, 244, 44, 83, 86, 118, 128, 138, 139, 134, 135}
	type dim struct{ w, h uint64 }
	dims := []dim{{0, 0}, {10, 8}, {119, 67}, {255, 255}}
	crops := [][4]uint64{{0, 0, 0, 0}, {1, 0, 0, 0}, {0, 7, 0, 0}, {0, 0, 1, 0}, {0, 0, 0, 4}, {1, 1, 1, 1}}
	var lists [][]ref.ScalingList
	flat := ref.ScalingList{Present: true}
	useDefault := ref.ScalingList{Present: true, Deltas: []int64{-8}}
	ramp := ref.ScalingList{Present: true, Deltas: []int64{2, 2, 2, -14, 3}}
	lists = append(lists, nil, []ref.ScalingList{flat, {}, useDefault, {}, {}, ramp, flat, useDefault, ramp, {}, flat, {}}, []ref.ScalingList{{}, {}, {}, {}, {}, {}, ramp, ramp, ramp, ramp, ramp, ramp})
	type poc struct {
		t    uint64
		offs []int64
		nonr int64
	}
	pocs := []poc{{0, nil, 0}, {1, nil, 0}, {1, []int64{1}, -3}, {1, []int64{2, -2}, 1 << 26}, {2, nil, 0}}
	var spss []ref.AvcSps
	for _, p := range profiles {
		cfs := []uint64{1}
		if ref.AvcHighProfile(p) {
			cfs = []uint64{0, 1, 2, 3, 13} // 13 = chroma 3 with separate planes
		}
		for _, cf := range cfs {
			for li, ls := range lists {
				if li > 0 && !ref.AvcHighProfile(p) {
					continue
				}
				for _, pc := range pocs {
					for _, fmo := range []bool{true, false} {
						for _, cr := range crops {
							for vui := 0; vui <= 2; vui++ {
								for _, d := range dims {
									if quick && (d.w == 10 || (vui == 1 && li != 0)) {
										continue
									}
									s := ref.AvcSps{Profile: p, Level: 40, ChromaFormat: cf % 10, SeparatePlanes: cf == 13, ScalingMatrix: ls != nil, Lists: ls,
										Log2MaxFrameNumM4: 0, PocType: pc.t, Log2MaxPocLsbM4: 2, OffsetsRefFrame: pc.offs, OffsetNonRef: pc.nonr, MaxNumRefFrames: 1,
										WidthMbsM1: d.w, HeightMapUnitsM1: d.h, FrameMbsOnly: fmo, Mbaff: !fmo && d.w%2 == 1, Direct8x8: true,
										Crop: cr != [4]uint64{}, CL: cr[0], CR: cr[1], CT: cr[2], CB: cr[3], Vui: vui, NumUnitsInTick: 1001, TimeScale: 60000}
									if d.w == 0 && s.Crop {
										continue // a 16x16 picture cannot be cropped by these amounts
									}
									spss = append(spss, s)
								}
							}
						}
					}
				}
			}
		}
	}
	r.Cov("avc_sps_cases", len(spss))
	vk.Par(len(spss), 16, func(i int) {
		if !r.OutOfTime() {
			checkAvcSps(r, spss[i])
		}
	})
	r.Sample(map[string]interface{}{"avc_sps": fmt.Sprintf("%x", ref.WriteAvcSps(spss[len(spss)/2])), "shape": spsShape(spss[len(spss)/2])})
	// (e) H.265
	var hs []ref.HevcSps
	for _, cf := range []uint64{0, 1, 2, 3, 13} {
		for _, sub := range []int{0, 1, 3} {
			for _, ord := range []bool{false, true} {
				for _, d := range []dim{{16, 16}, {176, 144}, {1920, 1088}, {4096, 4096}} {
					for _, cw := range [][4]uint64{{0, 0, 0, 0}, {0, 0, 0, 4}, {1, 1, 1, 1}, {0, 3, 0, 0}} {
						for _, slp := range []bool{false, true} {
							ptl := basePtl
							if sub > 0 && slp {
								ptl.SubLayerProfilePresent = []bool{true, false, true}[:sub]
								ptl.SubLayerLevelPresent = []bool{true, true, false}[:sub]
							}
							if d.w == 16 && cw != [4]uint64{} {
								continue
							}
							hs = append(hs, ref.HevcSps{MaxSubLayersM1: sub, Ptl: ptl, ChromaFormat: cf % 10, SeparatePlanes: cf == 13, Width: d.w, Height: d.h,
								ConfWin: cw != [4]uint64{}, CL: cw[0], CR: cw[1], CT: cw[2], CB: cw[3], SubLayerOrdering: ord})
						}
					}
				}
			}
		}
	}
	r.Cov("hevc_sps_cases", len(hs))
	vk.Par(len(hs), 16, func(i int) { checkHevcSps(r, hs[i]) })
	r.Finish()
}

func hevcReportedDims(sps []byte) (w, h uint64, err error) {
	var ctx hevc.Context
	err = hevc.ParseSps(sps, &ctx)
	return uint64(ctx.Width), uint64(ctx.Height), err
}
